SPECIFICATION Spec
CONSTANTS N = 8
          T2s = {2, 3}
          KMayBeLast = FALSE
          AllCurved = FALSE
          Emit = FALSE
INVARIANT AbsInv
PROPERTY Refines
