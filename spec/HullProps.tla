----------------------------- MODULE HullProps -----------------------------
(* Declarative (brute-force) convex-hull definitions of C18, without variables. *)
EXTENDS Geometry, SequencesExt, FiniteSetsExt

(* ---------------- declarative side ----------------------------------- *)
IsLowerVertex(P, k) == k \in {1, Len(P)} \/ \A a \in 1..(k-1), b \in (k+1)..Len(P) : Cross(P[a], P[k], P[b]) > 0
IsUpperVertex(P, k) == k \in {1, Len(P)} \/ \A a \in 1..(k-1), b \in (k+1)..Len(P) : Cross(P[a], P[k], P[b]) < 0
LowerHull(P) == SetToSortSeq({k \in 1..Len(P) : IsLowerVertex(P, k)}, <)
UpperHull(P) == SetToSortSeq({k \in 1..Len(P) : IsUpperVertex(P, k)}, <)
\* every point on or above (below) the chain C (sequence of indices)
OnOrAbove(P, C) == \A j \in 1..(Len(C)-1) : \A k \in C[j]..C[j+1] : Cross(P[C[j]], P[C[j+1]], P[k]) >= 0
OnOrBelow(P, C) == \A j \in 1..(Len(C)-1) : \A k \in C[j]..C[j+1] : Cross(P[C[j]], P[C[j+1]], P[k]) <= 0
StrictTurns(P, C, sgn) == \A j \in 1..(Len(C)-2) : sgn * Cross(P[C[j]], P[C[j+1]], P[C[j+2]]) > 0
ChainOk(P, C, sgn) ==
    /\ Len(C) >= 2 /\ C[1] = 1 /\ C[Len(C)] = Len(P)
    /\ \A j \in 1..(Len(C)-1) : C[j] < C[j+1]
    /\ StrictTurns(P, C, sgn)
    /\ IF sgn = 1 THEN OnOrAbove(P, C) ELSE OnOrBelow(P, C)

\* planar sets
Boundary(S, p) == \E q \in S \ {p} : (\A r \in S : Cross(p, q, r) >= 0) \/ (\A r \in S : Cross(p, q, r) <= 0)
Between(S, p) == \E a \in S \ {p}, b \in S \ {p} : a # b /\ OnClosedSegment(p, a, b)
Extreme(S) == {p \in S : Boundary(S, p) /\ ~Between(S, p)}
BoundarySet(S) == {p \in S : Boundary(S, p)}
GeneralPosition(S) == \A a \in S, b \in S, c \in S : (a # b /\ b # c /\ a # c) => Cross(a, b, c) # 0
LexLess(p, q) == p[1] < q[1] \/ (p[1] = q[1] /\ p[2] < q[2])
Pivot(S) == CHOOSE p \in S : \A q \in S \ {p} : LexLess(p, q)
\* clockwise gift wrapping from the pivot (general position only)
CWNext(V, v) == CHOOSE u \in V \ {v} : \A w \in V \ {v, u} : Cross(v, u, w) < 0
RECURSIVE Wrap(_, _, _)
Wrap(V, v, k) == IF k = 0 THEN <<>> ELSE <<v>> \o Wrap(V, CWNext(V, v), k-1)
ClockwiseFromPivot(S) == Wrap(Extreme(S), Pivot(S), Cardinality(Extreme(S)))

=============================================================================
