SPECIFICATION Spec
CONSTANTS
  N = 5
  MaxV = 5
INVARIANT GapsPositive
INVARIANT GapsTelescope
INVARIANT TriSign
INVARIANT TriIsShoelaceWhenFlatLeft
