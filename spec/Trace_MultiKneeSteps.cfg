SPECIFICATION TSpec
CONSTANTS N = 2
          T2s = {2}
          KMayBeLast = FALSE
          AllCurved = FALSE
          Emit = FALSE
