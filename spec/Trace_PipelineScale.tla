------------------------ MODULE Trace_PipelineScale ------------------------
(***************************************************************************)
(* Binding T for the "scale" family of C08: the same history format and    *)
(* the same clauses as Trace_Pipeline (one event per public call, the      *)
(* invariants evaluated after EVERY event), for production-size curves     *)
(* (10^3 .. 1.4*10^5 points, reduced curves of up to a few 10^4 points,    *)
(* hundreds of knees).  Differences, all forced by the size:               *)
(*  - the height table of the ORIGINAL curve is SPARSE: c.horig is a       *)
(*    sequence of <<original index, height rank>> pairs for the indices    *)
(*    the mapping stage actually returned (ranks are taken among those     *)
(*    heights only: HeightsMonotone compares, it never adds);              *)
(*  - the tables of the REDUCED curve (c.reduced, c.hred) stay dense;      *)
(*  - "t is a subsequence of s" is decided without recursion when s is     *)
(*    strictly increasing (then it is: t strictly increasing and every     *)
(*    element of t occurs in s); the recursive definition of PipelineProps *)
(*    is kept for the other case, so the two validators agree everywhere.  *)
(***************************************************************************)
EXTENDS PipelineProps, TLC, Json, IOUtils
Cases == JsonDeserialize(IOEnv.CASES_FILE)
VARIABLES i, e, prev
vars == <<i, e, prev>>

Range(s) == {s[j] : j \in 1..Len(s)}
SubseqS(t, s) == IF StrictInc(s) THEN (LET R == Range(s) IN StrictInc(t) /\ \A j \in 1..Len(t) : t[j] \in R)
                 ELSE IsSubseq(t, s)
\* sparse height table of the original curve: pairs <<index, rank>>
Mentioned(c, k) == \E q \in 1..Len(c.horig) : c.horig[q][1] = k
HOrig(c, k) == c.horig[CHOOSE q \in 1..Len(c.horig) : c.horig[q][1] = k][2]
HeightsMonotoneSparse(c, knees) == \A j \in 1..(Len(knees) - 1) : HOrig(c, knees[j]) >= HOrig(c, knees[j + 1])

EventClause(c, k, ev, pv) ==
    IF k > Len(c.order) \/ ev.stage # c.order[k] THEN <<"stage-completes", "unexpected stage", ev.stage>>
    ELSE IF ev.outcome # "returned" THEN <<"stage-completes", ev.stage, ev.outcome>>
    ELSE IF ev.stage = "simplify" THEN
        \* the retained indices are given once, as c.reduced (the event's own `out' is left empty)
        (LET s == c.reduced IN
         IF Len(s) >= 2 /\ StrictInc(s) /\ s[1] = 0 /\ s[Len(s)] = c.n - 1
         THEN <<"ok">> ELSE <<"stage-completes", "simplify", "not a reduction">>)
    ELSE IF ev.stage = "detect" THEN
        (IF StrictInc(ev.out) /\ \A j \in 1..Len(ev.out) : ev.out[j] >= 0 /\ ev.out[j] <= c.detmax
         THEN <<"ok">> ELSE <<"stage-completes", "detect", "not a knee list of the reduced curve">>)
    ELSE IF ev.stage \in {"worst", "corner", "cluster"} THEN
        (IF ~SubseqS(ev.out, pv) THEN <<"filter-subsequence", ev.stage, Len(pv), Len(ev.out)>>
         ELSE IF ~HeightsMonotone(ev.out, c.hred) THEN <<"heights-monotone", ev.stage, Len(ev.out)>>
         ELSE <<"ok">>)
    ELSE \* map: pv are reduced-space knees, ev.out original indices
        IF Len(ev.out) # Len(pv) THEN <<"mapped-is-retained-point", "length", Len(pv), Len(ev.out)>>
        ELSE IF ~StrictInc(ev.out) THEN <<"mapped-increasing", Len(ev.out)>>
        ELSE IF \E j \in 1..Len(pv) : pv[j] < 0 \/ pv[j] >= Len(c.reduced) \/ ev.out[j] # c.reduced[pv[j] + 1]
             THEN <<"mapped-is-retained-point",
                    LET j == CHOOSE j \in 1..Len(pv) : pv[j] < 0 \/ pv[j] >= Len(c.reduced) \/ ev.out[j] # c.reduced[pv[j] + 1]
                    IN <<j, pv[j], ev.out[j]>> >>
        ELSE IF \E j \in 1..Len(ev.same) : ~ev.same[j] THEN <<"mapped-same-coordinates", Len(ev.out)>>
        ELSE IF \E j \in 1..Len(ev.out) : ~Mentioned(c, ev.out[j]) THEN <<"sparse-table-incomplete", Len(ev.out)>>
        ELSE IF ~HeightsMonotoneSparse(c, ev.out) THEN <<"heights-monotone", "map", Len(ev.out)>>
        ELSE <<"ok">>

Init == i = 1 /\ e = 1 /\ prev = <<>>
Consume ==
    /\ i <= Len(Cases) /\ e <= Len(Cases[i].events)
    /\ LET c == Cases[i]  ev == c.events[e]  v == EventClause(c, e, ev, prev)
       IN /\ IF v[1] = "ok" THEN TRUE ELSE PrintT(<<"VERDICT", c.id>> \o v)
          /\ prev' = IF ev.outcome = "returned" /\ ev.stage # "simplify" THEN ev.out ELSE <<>>
    /\ e' = e + 1 /\ i' = i
NextCase ==
    /\ i <= Len(Cases) /\ e > Len(Cases[i].events)
    /\ i' = i + 1 /\ e' = 1 /\ prev' = <<>>
    /\ IF i = Len(Cases) THEN PrintT(<<"DONE", Len(Cases)>>) ELSE TRUE
Next == Consume \/ NextCase
Spec == Init /\ [][Next]_vars
=============================================================================
