SPECIFICATION Spec
CONSTANTS N = 11
          Buggy = FALSE
INVARIANT StepBound
INVARIANT WellFormed
INVARIANT OutputExplainable
PROPERTY Terminates
PROPERTY ChildrenShrink
