------------------------ MODULE Trace_ClusteringSteps ------------------------
(***************************************************************************)
(* Action-level trace validation of the four single-pass linkage loops of  *)
(* clustering.py against the ACTIONS of Clustering.tla (growth beyond the  *)
(* listed properties; notes only).  The recorder reads, at the back-edge   *)
(* that ends every loop iteration, the label list built so far and the     *)
(* running state the code keeps (complete: index of the cluster's first    *)
(* point; centroid: cluster size; average: start of the member window) out *)
(* of the running frame (sys.monitoring, no source hook).  Every snapshot  *)
(* must be reached by one SingleStep / CompleteStep / CentroidMerge /      *)
(* CentroidSplit / AverageStep of the machine on the same integer layout   *)
(* and rational threshold, and Return must find the returned labels.  The  *)
(* centroid itself is not logged (a float): the machine carries it as an   *)
(* exact rational and TLC checks that the decisions it implies are the     *)
(* logged ones; an exact tie of a cluster with two or more members enables *)
(* both actions (the float centroid cannot be relied on there, DESIGN 3.2).*)
(***************************************************************************)
EXTENDS Clustering, IOUtils

Cases == JsonDeserialize(IOEnv.CASES_FILE)
VARIABLES tid, l
tvars == <<xs, t, link, i, labels, prev, anchor, cen, size, win, pc, tid, l>>

Ev == Cases[tid].events
Fin == Cases[tid].final

LoadVals(k, x, tt, lk, ii, lab, pv, an, ce, sz, wi, p, ti, li) ==
    /\ x = Cases[k].x /\ tt = <<Cases[k].tnum, Cases[k].tden>> /\ lk = Cases[k].link
    /\ ii = 2 /\ lab = <<0>>
    /\ pv = Cases[k].x[1] /\ an = 1 /\ ce = <<Cases[k].x[1], 1>> /\ sz = 1 /\ wi = 1
    /\ p = "run" /\ ti = k /\ li = 1
TInit == LoadVals(1, xs, t, link, i, labels, prev, anchor, cen, size, win, pc, tid, l)
Load(k) == LoadVals(k, xs', t', link', i', labels', prev', anchor', cen', size', win', pc', tid', l')

Body == SingleStep \/ CompleteStep \/ CentroidMerge \/ CentroidSplit \/ AverageStep
MatchStep == /\ pc = "run" /\ l <= Len(Ev)
             /\ Body
             /\ labels' = Ev[l].labels
             /\ (link = "complete" => anchor' = Ev[l].anchor)
             /\ (link = "centroid" => size' = Ev[l].size)
             /\ (link = "average" => win' = Ev[l].win)
             /\ l' = l + 1 /\ tid' = tid
FinishStep == /\ pc = "run" /\ l = Len(Ev) + 1
              /\ Return /\ labels = Fin
              /\ UNCHANGED <<tid, l>>
Step == MatchStep \/ FinishStep

Frozen == UNCHANGED <<xs, t, link, i, labels, prev, anchor, cen, size, win, tid, l>>
Advance == IF tid < Len(Cases) THEN Load(tid + 1)
           ELSE /\ PrintT(<<"DONE", Len(Cases)>>) /\ pc' = "end" /\ Frozen
Accepted == pc = "done" /\ Advance
Rejected == /\ pc = "run" /\ ~ENABLED Step
            /\ PrintT(<<"VERDICT", Cases[tid].id, "no-machine-step", l, labels, IF l <= Len(Ev) THEN Ev[l].labels ELSE Fin>>)
            /\ Advance
TNext == Step \/ Accepted \/ Rejected
TSpec == TInit /\ [][TNext]_tvars
=============================================================================
