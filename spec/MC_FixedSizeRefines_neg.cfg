SPECIFICATION Spec
CONSTANTS N = 5
          PrioMax = 1
          CostMax = 1
          Modes = {"fixed"}
          Buggy = TRUE
          EverySecond = FALSE
INVARIANT ExitAgrees
