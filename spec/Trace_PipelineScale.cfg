SPECIFICATION Spec
