SPECIFICATION Spec
CONSTANTS N = 6
          HMax = 2
          DupReduced = FALSE
INVARIANT FilterIsSubsequence
INVARIANT HeightsOk
INVARIANT MappedOk
PROPERTY Completes
