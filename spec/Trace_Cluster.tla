---------------------------- MODULE Trace_Cluster ----------------------------
(* Binding T for C12: recorded calls of filter_clusters / filter_clusters_corners with the labelling from the same
   linkage function, per-cluster score ranks from knee_ranking.smooth_ranking (or the corner-triangle formula) and
   lower-hull membership from convex_hull.graham_scan_lower, judged by RankedClause / HullClause. *)
EXTENDS ClusterProps, TLC, Json, IOUtils
Cases == JsonDeserialize(IOEnv.CASES_FILE)
VARIABLE i
Verdict(c) ==
    IF c.outcome \in {"budget", "watchdog"} THEN <<"completes", c.outcome>>
    ELSE IF c.outcome # "returned" THEN <<"completes", c.outcome>>
    ELSE LET cl == IF c.mode = "hull" THEN HullClause(c.knees, c.lab, c.hullSpan, c.result)
                   ELSE RankedClause(c.knees, c.lab, c.score, c.result)
         IN IF cl = "ok" THEN <<"ok">>
            ELSE <<(IF cl = "best-in-cluster" /\ c.mode = "corner" THEN "corner-best" ELSE cl), c.result>>
Init == i = 1
Next == /\ i <= Len(Cases)
        /\ LET v == Verdict(Cases[i]) IN IF v[1] = "ok" THEN TRUE ELSE PrintT(<<"VERDICT", Cases[i].id>> \o v)
        /\ i' = i + 1
        /\ IF i = Len(Cases) THEN PrintT(<<"DONE", Len(Cases)>>) ELSE TRUE
Spec == Init /\ [][Next]_i
=============================================================================
