SPECIFICATION Spec
