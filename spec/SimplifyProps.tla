--------------------------- MODULE SimplifyProps ---------------------------
(***************************************************************************)
(* Property-level (declarative) operators for the curve simplifiers of     *)
(* kneeliverse.rdp.  No variables: this is what an observer may see at the *)
(* public-call boundary.  Indices are 0-based as in the code; TLA+         *)
(* sequences are 1-based, so reduced index list S has S[1] = 0.            *)
(***************************************************************************)
EXTENDS Naturals, Integers, Sequences, FiniteSets, SequencesExt, FiniteSetsExt, Functions

SeqSum(s) == FoldLeft(LAMBDA a, b: a + b, 0, s)
SortedSeqOf(S) == SetToSortSeq(S, <)

(* ---- C01: well-formed reduction --------------------------------------- *)
StrictlyIncreasing(S) == \A j \in 1..(Len(S)-1) : S[j] < S[j+1]
Endpoints(S, n) == Len(S) >= 2 /\ S[1] = 0 /\ S[Len(S)] = n-1
IsReduction(S, n) == Endpoints(S, n) /\ StrictlyIncreasing(S)

\* the companion table: one row <<left index, dropped interior points>> per retained segment
RemovedOf(S) == [j \in 1..(Len(S)-1) |-> <<S[j], S[j+1]-S[j]-1>>]
Conservation(S, R, n) == Len(S) + SeqSum([j \in 1..Len(R) |-> R[j][2]]) = n

\* Name of the first clause of C01 that (S, R) breaks, "ok" if none.
WellFormedClause(S, R, n) ==
    IF Len(S) < 2 \/ S[1] # 0 \/ S[Len(S)] # n-1 THEN "endpoints"
    ELSE IF ~StrictlyIncreasing(S) THEN "increasing"
    ELSE IF Len(R) # Len(S)-1 THEN "removed-rows"
    ELSE IF R # RemovedOf(S) THEN "removed-counts"
    ELSE IF ~Conservation(S, R, n) THEN "conservation"
    ELSE "ok"

\* Linear step bounds (proved for the machines in MC_Rdp / MC_Fixed; slack for
\* implementation freedom is applied by the trace validators, not here).
RdpStepBound(n)   == 2*n - 3      \* <= n-1 leaves + <= n-2 internal nodes
FixedStepBound(n) == n - 2        \* one inserted point per step

(* ---- C07: index mapping ------------------------------------------------ *)
\* positions I are 0-based positions into S
MapSpec(I, S) == [p \in 1..Len(I) |-> S[I[p]+1]]

(* ---- C05 / C06: the fixed-size chain and the global variants ---------- *)
\* S, T are index sequences (sorted).  T refines S by exactly one new index i.
AsSet(S) == Range(S)
SegmentsOf(S) == {<<S[j], S[j+1]>> : j \in 1..(Len(S)-1)}
Splittable(S) == {sg \in SegmentsOf(S) : sg[2] - sg[1] > 1}


Clamp(k, n) == IF k > n THEN n ELSE IF k < 2 THEN 2 ELSE k     \* min(max(k,2),n) for n >= 2
InSeq(x, s) == \E j \in 1..Len(s) : s[j] = x

(* ---- C04: the output of threshold RDP is a recursive RDP partition ----- *)
(* S: retained indices (sorted).  cls[p][q] \in {"accept","reject","nan"}: class of the endpoint- *)
(* line cost of points S[p]..S[q] against t (R2 inverted), from the library's own cost primitive. *)
(* far[p][q]: the interior indices of S[p]..S[q] that are farthest from the chord, up to noise.   *)
(* ExplainClause returns "ok" iff positions p..q can be explained by recursive splits, else the   *)
(* name of the clause of C04 that fails.                                                          *)
RECURSIVE ExplainClause(_, _, _, _, _)
ExplainClause(S, cls, far, p, q) ==
    IF q = p + 1
    THEN IF S[q] - S[p] <= 1 \/ cls[p][q] \in {"accept", "nan"} THEN "ok" ELSE "retained-segment-fits"
    ELSE IF cls[p][q] \notin {"reject", "nan"} THEN "split-was-needed"
    ELSE LET M == {m \in (p+1)..(q-1) : InSeq(S[m], far[p][q])}
         IN IF M = {} THEN "split-at-farthest"
            ELSE IF \E m \in M : ExplainClause(S, cls, far, p, m) = "ok" /\ ExplainClause(S, cls, far, m, q) = "ok"
                 THEN "ok"
                 ELSE LET m == CHOOSE m \in M : TRUE
                          lc == ExplainClause(S, cls, far, p, m)
                      IN IF lc # "ok" THEN lc ELSE ExplainClause(S, cls, far, m, q)
Explainable(S, cls, far) == ExplainClause(S, cls, far, 1, Len(S)) = "ok"

(* ---- C05: one step of the fixed-size chain ----------------------------- *)
(* S, T: consecutive members of the chain (sorted index sequences).  far[a][b] / rank[a][b] are   *)
(* tables over ORIGINAL indices a < b (1-based: index a is stored at a+1): farthest interior      *)
(* indices and the noise-merged dense rank of the ordering score of segment (a,b).                *)
SizeSpec(k, n) == Clamp(k, n)
NewIndices(S, T) == Range(T) \ Range(S)
SegmentAround(S, i) == CHOOSE sg \in SegmentsOf(S) : sg[1] < i /\ i < sg[2]
GreedyClause(S, T, far, rank) ==
    IF ~(Range(S) \subseteq Range(T)) \/ Cardinality(NewIndices(S, T)) # 1 THEN "nested"
    ELSE LET i == CHOOSE x \in NewIndices(S, T) : TRUE
         IN IF ~\E sg \in SegmentsOf(S) : sg[1] < i /\ i < sg[2] THEN "inside-retained-segment"
            ELSE LET sg == SegmentAround(S, i)
                 IN IF ~InSeq(i, far[sg[1]+1][sg[2]+1]) THEN "farthest-point"
                    ELSE IF \E o \in Splittable(S) : rank[o[1]+1][o[2]+1] > rank[sg[1]+1][sg[2]+1]
                         THEN "max-priority-segment"
                         ELSE "ok"

\* FirstAccepted over a chain: acc is a function k -> BOOLEAN on kmin..n
FirstAccepted(acc, n) ==
    IF \E k \in 2..n : acc[k] THEN CHOOSE k \in 2..n : acc[k] /\ \A h \in 2..(k-1) : ~acc[h]
    ELSE n
MpSize(kstar, m, n) == LET mm == IF m > n THEN n ELSE m IN IF kstar >= mm THEN kstar ELSE mm
=============================================================================
