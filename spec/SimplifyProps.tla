--------------------------- MODULE SimplifyProps ---------------------------
(***************************************************************************)
(* Property-level (declarative) operators for the curve simplifiers of     *)
(* kneeliverse.rdp.  No variables: this is what an observer may see at the *)
(* public-call boundary.  Indices are 0-based as in the code; TLA+         *)
(* sequences are 1-based, so reduced index list S has S[1] = 0.            *)
(***************************************************************************)
EXTENDS Naturals, Integers, Sequences, FiniteSets, SequencesExt, FiniteSetsExt, Functions

SeqSum(s) == FoldLeft(LAMBDA a, b: a + b, 0, s)
SortedSeqOf(S) == SetToSortSeq(S, <)

(* ---- C01: well-formed reduction --------------------------------------- *)
StrictlyIncreasing(S) == \A j \in 1..(Len(S)-1) : S[j] < S[j+1]
Endpoints(S, n) == Len(S) >= 2 /\ S[1] = 0 /\ S[Len(S)] = n-1
IsReduction(S, n) == Endpoints(S, n) /\ StrictlyIncreasing(S)

\* the companion table: one row <<left index, dropped interior points>> per retained segment
RemovedOf(S) == [j \in 1..(Len(S)-1) |-> <<S[j], S[j+1]-S[j]-1>>]
Conservation(S, R, n) == Len(S) + SeqSum([j \in 1..Len(R) |-> R[j][2]]) = n

\* Name of the first clause of C01 that (S, R) breaks, "ok" if none.
WellFormedClause(S, R, n) ==
    IF Len(S) < 2 \/ S[1] # 0 \/ S[Len(S)] # n-1 THEN "endpoints"
    ELSE IF ~StrictlyIncreasing(S) THEN "increasing"
    ELSE IF Len(R) # Len(S)-1 THEN "removed-rows"
    ELSE IF R # RemovedOf(S) THEN "removed-counts"
    ELSE IF ~Conservation(S, R, n) THEN "conservation"
    ELSE "ok"

\* Linear step bounds (proved for the machines in MC_Rdp / MC_Fixed; slack for
\* implementation freedom is applied by the trace validators, not here).
RdpStepBound(n)   == 2*n - 3      \* <= n-1 leaves + <= n-2 internal nodes
FixedStepBound(n) == n - 2        \* one inserted point per step

(* ---- C07: index mapping ------------------------------------------------ *)
\* positions I are 0-based positions into S
MapSpec(I, S) == [p \in 1..Len(I) |-> S[I[p]+1]]

(* ---- C05 / C06: the fixed-size chain and the global variants ---------- *)
\* S, T are index sequences (sorted).  T refines S by exactly one new index i.
AsSet(S) == Range(S)
SegmentsOf(S) == {<<S[j], S[j+1]>> : j \in 1..(Len(S)-1)}
Splittable(S) == {sg \in SegmentsOf(S) : sg[2] - sg[1] > 1}

\* FirstAccepted over a chain: acc is a function k -> BOOLEAN on kmin..n
FirstAccepted(acc, n) ==
    IF \E k \in 2..n : acc[k] THEN CHOOSE k \in 2..n : acc[k] /\ \A h \in 2..(k-1) : ~acc[h]
    ELSE n
Clamp(k, n) == IF k < 2 THEN 2 ELSE IF k > n THEN n ELSE k
MpSize(kstar, m, n) == LET mm == IF m > n THEN n ELSE m IN IF kstar >= mm THEN kstar ELSE mm
=============================================================================
