-------------------------- MODULE Trace_Simplify --------------------------
(***************************************************************************)
(* Binding T for the simplifiers: recorded public calls of rdp.rdp, grdp,  *)
(* rdp_fixed, mp_grdp, min_point_rdp (one event per call, with loop        *)
(* back-edge counts and oracle tables from the library's own primitives)   *)
(* judged against the property-level operators of SimplifyProps.           *)
(*   kind "wf"       C01  well-formed reduction, linear step bound         *)
(*   kind "explain"  C04  output is a recursive RDP partition              *)
(*   kind "global"   C06  grdp / mp_grdp = first accepted member of chain  *)
(*   kind "minpoint" C06  multi-threshold variant                          *)
(***************************************************************************)
EXTENDS SimplifyProps, TLC, Json, IOUtils

Cases == JsonDeserialize(IOEnv.CASES_FILE)
VARIABLE i

(* ---- C01 ---------------------------------------------------------------- *)
\* slack 2x + 4 over the bound proved for the machines: any linear-time implementation passes
StepLimit(c) == 2 * c.mult * (IF c.f = "rdp" THEN RdpStepBound(c.n) ELSE (IF c.n > 2 THEN FixedStepBound(c.n) ELSE 0)) + 4
WfVerdict(c) ==
    IF c.outcome \in {"budget", "watchdog"} THEN <<"terminates", c.outcome, c.steps>>
    ELSE IF c.outcome # "returned" THEN <<"returns", c.outcome>>
    ELSE IF c.steps > StepLimit(c) THEN <<"step-bound", c.steps, StepLimit(c)>>
    ELSE IF ~c.integral THEN <<"removed-rows", "non-integral table">>
    ELSE LET cl == WellFormedClause(c.reduced, c.removed, c.n)
         IN IF cl = "ok" THEN <<"ok">> ELSE <<cl, c.reduced, c.removed>>

(* ---- C04 ---------------------------------------------------------------- *)
ExplainVerdict(c) ==
    IF ~IsReduction(c.S, c.n) THEN <<"ok">>               \* C01's business
    ELSE LET cl == ExplainClause(c.S, c.cls, c.far, 1, Len(c.S))
         IN IF cl = "ok" THEN <<"ok">> ELSE <<cl, c.S>>

(* ---- C06 ---------------------------------------------------------------- *)
\* chain[j] = S_{j+1} (j = 1 is the two end points); gacc[j] \in {"accept","reject","nan"} for S_{j+1}
ChainS(c, k) == c.chain[k - 1]
KStarOf(gacc, n) == FirstAccepted([k \in 2..n |-> gacc[k - 1] = "accept"], n)
HasNan(gacc, n) == \E k \in 2..KStarOf(gacc, n) : gacc[k - 1] = "nan"
GlobalVerdict(c) ==
    IF HasNan(c.gacc, c.n) THEN <<"ok">>                  \* undefined cost: the property does not pin the side
    ELSE LET ks == KStarOf(c.gacc, c.n)
             noneAcc == ~\E k \in 2..c.n : c.gacc[k - 1] = "accept"
             badMp == {x \in 1..Len(c.mps) : c.mps[x][2] # ChainS(c, MpSize(ks, c.mps[x][1], c.n))}
         IN IF c.grdp # ChainS(c, ks)
            THEN <<(IF noneAcc THEN "all-points-when-none" ELSE "first-accepted"), c.grdp, ChainS(c, ks), ks>>
            ELSE IF badMp # {} THEN
                 LET x == CHOOSE x \in badMp : TRUE
                 IN <<"min-points-continuation", c.mps[x][1], c.mps[x][2], ChainS(c, MpSize(ks, c.mps[x][1], c.n))>>
            ELSE <<"ok">>
\* gaccs[x] = acceptance classes under threshold ts[x], thresholds given in DESCENDING order
GrdpSpecOf(c, x) == ChainS(c, KStarOf(c.gaccs[x], c.n))
MinPointVerdict(c) ==
    IF \E x \in 1..Len(c.gaccs) : HasNan(c.gaccs[x], c.n) THEN <<"ok">>
    ELSE LET good == {x \in 1..Len(c.gaccs) : Len(GrdpSpecOf(c, x)) >= c.m}
             exp == IF good # {} THEN GrdpSpecOf(c, CHOOSE x \in good : \A y \in good : x <= y)
                    ELSE ChainS(c, Clamp(c.m, c.n))
         IN IF c.result = exp THEN <<"ok">>
            ELSE <<(IF good = {} THEN "fixed-fallback" ELSE "threshold-order"), c.result, exp>>

Verdict(c) == IF c.kind = "wf" THEN WfVerdict(c)
              ELSE IF c.kind = "explain" THEN ExplainVerdict(c)
              ELSE IF c.kind = "global" THEN GlobalVerdict(c)
              ELSE MinPointVerdict(c)

Init == i = 1
Next == /\ i <= Len(Cases)
        /\ LET v == Verdict(Cases[i]) IN IF v[1] = "ok" THEN TRUE ELSE PrintT(<<"VERDICT", Cases[i].id>> \o v)
        /\ i' = i + 1
        /\ IF i = Len(Cases) THEN PrintT(<<"DONE", Len(Cases)>>) ELSE TRUE
Spec == Init /\ [][Next]_i
=============================================================================
