-------------------------- MODULE MultiKneeRefines --------------------------
(* MultiKnee.tla (explored by TLC, bound to the code by replayed behaviours and recorded traces) refines the            *)
(* abstraction MultiKneeProof.tla whose pop bound is PROVED for every n by TLAPS: checked here by TLC for n <= N.       *)
EXTENDS MultiKnee
CutsOf(p) == (p[1] + 1)..(p[2] - 1)
Abs == INSTANCE MultiKneeProof WITH len <- Len(stack), stk <- stack, steps <- pops,
                                    open <- UNION {CutsOf(stack[k]) : k \in 1..Len(stack)}
Refines == Abs!Spec
AbsInv == Abs!Inv
=============================================================================
