SPECIFICATION Spec
CONSTANTS NMax = 3
          YMax = 1
          GSide = 3
          SetMin = 3
          SetMax = 4
          Modes = {"graham"}
          Guarded = FALSE
          Emit = FALSE
INVARIANT NoUnderflow
