SPECIFICATION DriftSpec
CONSTANTS ZMax = 3
          NoYGuard = FALSE
          XBandLeftOpen = FALSE
