------------------------------ MODULE Linkage ------------------------------
(***************************************************************************)
(* Static half of C20: Python's name / attribute / call-signature          *)
(* resolution stated relationally over facts extracted from the AST of     *)
(* every module of the package (harness/astfacts.py) and dir()/signature   *)
(* tables of the imported objects.  TLC evaluates the three rules on every *)
(* fact and prints the violating ones.  (TLC is used here as the evaluator *)
(* of a relational specification over a program abstraction, not to        *)
(* explore behaviours.)                                                    *)
(***************************************************************************)
EXTENDS Naturals, Sequences, FiniteSets, TLC, Json, IOUtils
Facts == JsonDeserialize(IOEnv.CASES_FILE)
T == JsonDeserialize(IOEnv.TABLES_FILE)      \* [scopes, defs, builtins, attrs, sigs]
VARIABLE i

InSeq(x, s) == \E j \in 1..Len(s) : s[j] = x
Has(rec, key) == key \in DOMAIN rec
Join(ch, k) == LET RECURSIVE J(_) J(m) == IF m = 1 THEN ch[1] ELSE J(m - 1) \o "." \o ch[m] IN J(k)

\* LEGB without flow: the enclosing function scopes, then the module's bindings, then builtins
NameResolves(f) == \/ InSeq(f.name, T.scopes[f.scope])
                   \/ InSeq(f.name, T.defs[f.module])
                   \/ InSeq(f.name, T.builtins)

\* every statically meaningful step a.b of a chain rooted at a module-level binding resolves in dir(a)
AttrKey(f, k) == f.module \o "|" \o Join(f.chain, k)
BadStep(f) == {k \in 1..(f.static_depth - 1) : Has(T.attrs, AttrKey(f, k)) /\ ~InSeq(f.chain[k + 1], T.attrs[AttrKey(f, k)])}
AttrResolves(f) == ~f.rooted \/ BadStep(f) = {}

\* a call whose callee is a python function of the package binds its arguments
SigKey(f) == f.module \o "|" \o Join(f.chain, Len(f.chain))
ArityBinds(f) ==
    \/ ~f.rooted \/ ~Has(T.sigs, SigKey(f)) \/ f.star
    \/ LET s == T.sigs[SigKey(f)]
           bound == {s.posnames[j] : j \in 1..(IF f.npos <= s.maxpos THEN f.npos ELSE s.maxpos)} \cup {f.kw[j] : j \in 1..Len(f.kw)}
       IN /\ (f.npos <= s.maxpos \/ s.varargs)
          /\ \A j \in 1..Len(f.kw) : InSeq(f.kw[j], s.names) \/ s.varkw
          /\ \A j \in 1..Len(s.required) : s.required[j] \in bound
          /\ \A j \in 1..Len(f.kw) : ~\E p \in 1..(IF f.npos <= s.maxpos THEN f.npos ELSE s.maxpos) : s.posnames[p] = f.kw[j]

Where(f) == f.module \o ":" \o f.function \o ":" \o ToString(f.line)
Verdict(f) ==
    IF f.kind = "name" THEN (IF NameResolves(f) THEN <<"ok">> ELSE <<"name-unresolved", Where(f), f.name>>)
    ELSE IF f.kind = "attr" THEN (IF AttrResolves(f) THEN <<"ok">> ELSE <<"attribute-unresolved", Where(f), Join(f.chain, Len(f.chain))>>)
    ELSE IF ~AttrResolves(f) THEN <<"attribute-unresolved", Where(f), Join(f.chain, Len(f.chain))>>
    ELSE IF ArityBinds(f) THEN <<"ok">> ELSE <<"arity-mismatch", Where(f), Join(f.chain, Len(f.chain))>>

Init == i = 1
Next == /\ i <= Len(Facts)
        /\ LET v == Verdict(Facts[i]) IN IF v[1] = "ok" THEN TRUE ELSE PrintT(<<"VERDICT", Facts[i].id>> \o v)
        /\ i' = i + 1
        /\ IF i = Len(Facts) THEN PrintT(<<"DONE", Len(Facts)>>) ELSE TRUE
Spec == Init /\ [][Next]_i
=============================================================================
