--------------------------- MODULE DetectorProps ---------------------------
(***************************************************************************)
(* Property-level operators for the single-knee detectors (C09): argopt    *)
(* sets over noise-merged ranks, and the reachable results of the DFDT and *)
(* L-method refinement loops over tables of per-cutoff optimiser sets.     *)
(***************************************************************************)
EXTENDS Naturals, Integers, Sequences, FiniteSets

InSeq(x, s) == \E j \in 1..Len(s) : s[j] = x
\* indices lo..hi (0-based) of extreme rank; rank is a 1-based sequence indexed by index+1; rank -1 = undefined
ArgMax(rank, lo, hi) == {k \in lo..hi : \A j \in lo..hi : rank[j + 1] <= rank[k + 1]}
ArgMin(rank, lo, hi) == {k \in lo..hi : \A j \in lo..hi : rank[k + 1] <= rank[j + 1]}
CeilHalf(k) == (k + 1) \div 2

(* DFDT: knee = cutoff = 0, last = -1; while last < knee and n - cutoff > 2:                       *)
(*   last = knee; knee = cutoff + g (g in G[cutoff], the argmin set of |gradient - isodata| over   *)
(*   the interior of the suffix, already shifted to absolute indices); cutoff = ceil(knee/2)       *)
\* G[c+1] = sequence of admissible absolute knees for cutoff c.  Set of results the loop can return:
RECURSIVE DfdtFinals(_, _, _, _, _, _)
DfdtFinals(n, G, knee, last, cutoff, fuel) ==
    IF fuel = 0 THEN {-9}                                      \* did not finish within the step bound
    ELSE IF last < knee /\ n - cutoff > 2
         THEN UNION {DfdtFinals(n, G, G[cutoff + 1][j], knee, CeilHalf(G[cutoff + 1][j]), fuel - 1) : j \in 1..Len(G[cutoff + 1])}
         ELSE {knee}

(* L-method refinement: last = -1; cutoff = cur = n; loop while cur # last and not done:           *)
(*   last = cur; cur in A[cutoff] (argmin set of the two-line error on the prefix 0..cutoff);      *)
(*   adjusted: cutoff = max(limit, (cur + last) div 2);  original: cutoff = max(limit, min(2 cur, n)) *)
(*   none: done.   A[c+1] is a sequence; <<>> means "prefix too short: nothing is pinned".         *)
Max2(a, b) == IF a >= b THEN a ELSE b
Min2(a, b) == IF a <= b THEN a ELSE b
RECURSIVE LFinals(_, _, _, _, _, _, _, _, _)
\* returns a set of results; -9 = ran out of fuel, -8 = reached an unpinned prefix
LFinals(n, A, mode, limit, cur, last, cutoff, seen, fuel) ==
    IF fuel = 0 THEN {-9}
    ELSE IF cur = last THEN {cur}
    ELSE IF A[Min2(cutoff, n) + 1] = <<>> THEN {-8}      \* x[0:cutoff+1] clamps at n
    ELSE UNION { LET c2 == A[Min2(cutoff, n) + 1][j] IN
                 IF mode = "none" THEN {c2}
                 ELSE IF mode = "adjusted"
                      THEN LFinals(n, A, mode, limit, c2, cur, Max2(limit, (c2 + cur) \div 2), seen, fuel - 1)
                      ELSE \* original, with the cycle guard: stop when a knee value is revisited
                           IF c2 \in seen THEN {c2}
                           ELSE LFinals(n, A, mode, limit, c2, cur, Max2(limit, Min2(2 * c2, n)), seen \cup {c2}, fuel - 1)
               : j \in 1..Len(A[Min2(cutoff, n) + 1]) }
=============================================================================
