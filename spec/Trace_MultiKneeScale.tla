------------------------ MODULE Trace_MultiKneeScale ------------------------
(* Binding T for C02 at production size: a recorded call <detector>.multi_knee(points, t1, t2) on a curve of 10^2 .. 10^5
   points (hundreds to thousands of knees, thousands of ranges pending at once) is judged against the property's recursive
   decomposition over a SPARSE table of the slices that decomposition visits.

   tab[j] = <<l, r, answer, curved, lj, rj, pj>> : the slice points[l..r), the detector's own single-knee answer on it
   (None = -1, Unknown = -2), the straightness gate, the positions in tab where the harness says the entries of the two child
   slices [l, l+answer+1) and [l+answer+1, r) are, and the position of the entry of the parent slice.

   MKSparse of MultiKneeProps (the recursive definition with a linear search per slice) is quadratic in the number of entries,
   and any RECURSIVE operator costs TLC time quadratic in its depth (a one-sided recursion is thousands of levels deep here),
   so the judgement is layered:
   - MKHint is MKSparse with the search replaced by a CHECKED hint (the entry found at the hinted position must be the entry
     of the wanted slice, otherwise Unknown = not judged): the recursive definition, linear in the entries;
   - Tree(c) states with flat quantifiers that tab is exactly the recursion tree of that definition: the root is [0, n), every
     splitting entry has the entries of its two children (when longer than t2) where it says, every other entry is the child
     of an earlier splitting entry, no entry is Unknown.  Then, by induction along the parent positions, the decomposition
     visits exactly the entries of tab and MKSparse(0, n) = Flat(tab) = {l + answer : splitting entries};
   - where the harness marks a case `cross` (shallow tree) both MKHint and Flat are evaluated and must agree, and for small
     tables MKSparse as well (verdict MACHINERY-hint otherwise); a table that is not a Tree is judged by MKHint alone.
   A wrong hint or parent position can therefore only make a case Unknown or slow, never wrongly judged.  *)
EXTENDS MultiKneeProps, TLC, Json, IOUtils
Cases == JsonDeserialize(IOEnv.CASES_FILE)
VARIABLE i

At(tab, j, l, r) == j \in 1..Len(tab) /\ tab[j][1] = l /\ tab[j][2] = r

\* the decomposition as the sequence of its knees in increasing order (in-order walk: everything of the left part lies below
\* l + answer, everything of the right part above)
RECURSIVE MKHint(_, _, _, _, _)
MKHint(j, l, r, tt, tab) ==
    IF r - l <= tt THEN <<>>
    ELSE IF ~At(tab, j, l, r) THEN <<Unknown>>
    ELSE LET e == tab[j]
         IN IF ~e[4] \/ e[3] = None THEN <<>>
            ELSE IF e[3] = Unknown \/ e[3] < 0 \/ e[3] > r - l - 2 THEN <<Unknown>>
            ELSE MKHint(e[5], l, l + e[3] + 1, tt, tab) \o <<l + e[3]>> \o MKHint(e[6], l + e[3] + 1, r, tt, tab)

Range(s) == {s[j] : j \in 1..Len(s)}

Splits(e) == e[4] /\ e[3] >= 0 /\ e[3] <= e[2] - e[1] - 2
Settled(e) == ~e[4] \/ e[3] = None \/ Splits(e)                  \* not Unknown
ChildAt(tab, tt, j, h, l, r) == r - l <= tt \/ (h > j /\ At(tab, h, l, r) /\ tab[h][7] = j)
Tree(c) ==
    LET tab == c.tab
    IN /\ IF c.n <= c.t2 THEN Len(tab) = 0 ELSE At(tab, 1, 0, c.n)
       /\ \A j \in 1..Len(tab) :
            LET e == tab[j]
            IN /\ e[2] - e[1] > c.t2
               /\ Settled(e)
               /\ Splits(e) => /\ ChildAt(tab, c.t2, j, e[5], e[1], e[1] + e[3] + 1)
                               /\ ChildAt(tab, c.t2, j, e[6], e[1] + e[3] + 1, e[2])
               /\ j > 1 => /\ e[7] \in 1..(j - 1)
                           /\ LET q == tab[e[7]]
                              IN /\ Splits(q)
                                 /\ \/ q[5] = j /\ e[1] = q[1] /\ e[2] = q[1] + q[3] + 1
                                    \/ q[6] = j /\ e[1] = q[1] + q[3] + 1 /\ e[2] = q[2]
Flat(tab) == {tab[j][1] + tab[j][3] : j \in {h \in 1..Len(tab) : Splits(tab[h])}}

\* the least element (a normalised TLC set enumerates in increasing order, so the first candidate is the answer)
Least(S) == IF S = {} THEN -1 ELSE CHOOSE x \in S : \A y \in S : x <= y

SmallTable == 300      \* cross cases with tables up to this size are also judged with MKSparse (quadratic)

Decomposition(c) ==      \* <<"unknown">> or <<"set", the expected set>> or <<"MACHINERY-hint", ...>>
    IF Tree(c) /\ ~c.cross THEN <<"set", Flat(c.tab)>>
    ELSE LET s == MKHint(1, 0, c.n, c.t2, c.tab)
             unk == \E j \in 1..Len(s) : s[j] = Unknown
         IN IF unk THEN (IF Tree(c) THEN <<"MACHINERY-hint", "tree but unknown">> ELSE <<"unknown">>)
            ELSE IF Tree(c) /\ Flat(c.tab) # Range(s) THEN <<"MACHINERY-hint", "flat">>
            ELSE IF Len(c.tab) <= SmallTable /\ MKSparse(0, c.n, c.t2, c.tab) # Range(s) THEN <<"MACHINERY-hint", "sparse">>
            ELSE <<"set", Range(s)>>

Verdict(c) ==
    IF c.outcome \in {"budget", "watchdog"} THEN <<"terminates", c.outcome>>
    ELSE IF c.outcome # "returned" THEN <<"returns", c.outcome>>
    ELSE IF c.pops > 2 * (2 * (c.n - 1) + 1) + 4 THEN <<"step-bound", c.pops>>
    ELSE IF \E j \in 1..(Len(c.result) - 1) : c.result[j] >= c.result[j + 1] THEN <<"increasing", Len(c.result)>>
    ELSE IF \E j \in 1..Len(c.result) : c.result[j] < 0 \/ c.result[j] > c.n - 2 THEN <<"range", Len(c.result)>>
    ELSE IF ~c.exempt_interior /\ \E j \in 1..Len(c.result) : c.result[j] < 1 THEN <<"interior", Len(c.result)>>
    ELSE LET d == Decomposition(c)
         IN IF d[1] = "unknown" THEN <<"ok">>
            ELSE IF d[1] # "set" THEN d
            ELSE LET E == d[2]
                     G == Range(c.result)
                 IN IF E = {} /\ c.result # <<>> THEN <<"empty-gate", Len(c.result)>>
                    ELSE IF G = E THEN <<"ok">>
                    ELSE <<"decomposition", Cardinality(G), Cardinality(E), Cardinality(E \ G), Least(E \ G), Cardinality(G \ E), Least(G \ E)>>

Init == i = 1
Next == /\ i <= Len(Cases)
        /\ LET v == Verdict(Cases[i]) IN IF v[1] = "ok" THEN TRUE ELSE PrintT(<<"VERDICT", Cases[i].id>> \o v)
        /\ i' = i + 1
        /\ IF i = Len(Cases) THEN PrintT(<<"DONE", Len(Cases)>>) ELSE TRUE
Spec == Init /\ [][Next]_i
=============================================================================
