--------------------------- MODULE Trace_Mapping ---------------------------
(* Binding T for C07: recorded results of the simplifiers, of compute_removed_points and of
   mapping (sorted and unsorted row order) judged against RemovedOf / MapSpec. *)
EXTENDS SimplifyProps, TLC, Json, IOUtils

Cases == JsonDeserialize(IOEnv.CASES_FILE)
VARIABLE i

BadMap(c) == {m \in 1..Len(c.maps) : c.maps[m].out # MapSpec(c.maps[m].idxs, c.reduced)}

Verdict(c) ==
    \* whatever a simplifier returns is "a reduction produced by a simplifier": a malformed one (C01's clause) also
    \* breaks the mapping law and is reported here too
    IF Len(c.reduced) < 2 THEN <<"mapping-equals-reduced", "fewer than two retained indices">>
    ELSE IF c.removed # RemovedOf(c.reduced) THEN <<"removed-table-agrees", c.removed, RemovedOf(c.reduced)>>
    ELSE IF c.cp # RemovedOf(c.reduced) THEN <<"compute-removed-points", c.cp, RemovedOf(c.reduced)>>
    ELSE IF BadMap(c) # {} THEN
         LET m == CHOOSE m \in BadMap(c) : TRUE
         IN <<(IF c.maps[m].sorted THEN "mapping-equals-reduced" ELSE "unsorted-rows"),
              c.maps[m].out, MapSpec(c.maps[m].idxs, c.reduced)>>
    ELSE <<"ok">>

Init == i = 1
Next == /\ i <= Len(Cases)
        /\ LET v == Verdict(Cases[i]) IN IF v[1] = "ok" THEN TRUE ELSE PrintT(<<"VERDICT", Cases[i].id>> \o v)
        /\ i' = i + 1
        /\ IF i = Len(Cases) THEN PrintT(<<"DONE", Len(Cases)>>) ELSE TRUE
Spec == Init /\ [][Next]_i
=============================================================================
