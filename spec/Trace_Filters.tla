--------------------------- MODULE Trace_Filters ---------------------------
(***************************************************************************)
(* Binding T for the post-processing filters: recorded public calls on     *)
(* real-valued curves, reduced by the harness to exact integer tables and  *)
(* judged against the property-level operators of Filters.tla.             *)
(*   kind "c13"  filter_worst_knees / filter_corner_knees /                *)
(*               select_corner_knees: hr = exact dense height ranks of all *)
(*               points, cls = per-knee IoU class ("below" | "atleast",    *)
(*               from knee_ranking.rect_overlap compared bit-exactly with  *)
(*               t); outputs of the first and second application           *)
(*   kind "c14"  add_points_even / add_points_even_knees: marker list,     *)
(*               per-gap exact classes wide / high and count m (computed   *)
(*               over exact rationals of the float inputs), height ranks,  *)
(*               the returned index array                                  *)
(***************************************************************************)
EXTENDS Filters, TLC, Json, IOUtils

Cases == JsonDeserialize(IOEnv.CASES_FILE)
VARIABLE i

One(cond, v) == IF cond THEN <<>> ELSE <<v>>

(* ---- C13 ---------------------------------------------------------------- *)
C13Verdicts(c) ==
    IF c.raised # "" THEN << <<"completes", c.raised>> >>
    ELSE
    LET Kn == c.knees
        n == c.n
        cl == [p \in 1..Len(Kn) |-> IF ~HasBoth(n, Kn[p]) THEN "end" ELSE c.cls[p]]
        expW == RunMin(c.hr, Kn)
        expF == FilterByClass(Kn, cl)
        expS == SelectByClass(Kn, cl)
        tieLost == (Range(expW) \ Range(c.worst)) \cap Range(TieKept(c.hr, Kn)) # {}
    IN  One(c.worst = expW, <<(IF tieLost THEN "tie-kept" ELSE "running-minimum"), c.worst, expW>>)
     \o One(c.worst2 = c.worst, <<"idempotent(filter_worst_knees)", c.worst, c.worst2>>)
     \o One(EndsKept(n, Kn, c.filt), <<"ends-kept", c.filt, expF>>)
     \o One(SubseqAsc(c.filt, Kn) /\ SubseqAsc(c.sel, Kn), <<"order-preserved", c.filt, c.sel>>)
     \o One(PartitionLaw(n, Kn, c.filt, c.sel), <<"partition", c.filt, c.sel>>)
     \o One(c.filt = expF, <<"corner-split(filter_corner_knees)", c.filt, expF>>)
     \o One(c.sel = expS, <<"corner-split(select_corner_knees)", c.sel, expS>>)
     \o One(c.filt2 = c.filt, <<"idempotent(filter_corner_knees)", c.filt, c.filt2>>)
     \o One(c.sel2 = c.sel, <<"idempotent(select_corner_knees)", c.sel, c.sel2>>)

(* ---- C14 ---------------------------------------------------------------- *)
\* c.gaps[j] = <<a, b, wide, high, m>> for the j-th consecutive marker pair (m = 0 when not wide)
C14Verdicts(c) ==
    IF c.raised # "" THEN << <<"completes", c.raised>> >>
    ELSE
    LET n == c.n
        segs == {<<g[1], g[2], g[5]>> : g \in {g \in Range(c.gaps) : g[3] /\ g[4]}}
        union == EvenUnion(n, c.kmap, segs, c.extremes)
        exp == EvenOut(c.hr, c.kmap, segs, c.extremes)
        valid == \A j \in 1..Len(c.out) : c.out[j] >= 0 /\ c.out[j] < n
    IN  IF ~valid \/ ~StrictlyIncreasing(c.out) THEN << <<"valid-indices", c.out>> >>
        ELSE IF c.out = exp THEN <<>>
        ELSE IF c.extremes /\ ({0, n-1} \cap Range(exp)) \ Range(c.out) # {} THEN << <<"extremes-included", c.out, exp>> >>
        ELSE IF Range(c.out) \subseteq union /\ Range(exp) \subseteq Range(c.out) THEN << <<"height-filtered", c.out, exp>> >>
        ELSE << <<"equals-documented-set", c.out, exp>> >>

Verdicts(c) == IF c.kind = "c13" THEN C13Verdicts(c) ELSE C14Verdicts(c)

Init == i = 1
Next == /\ i <= Len(Cases)
        /\ LET vs == Verdicts(Cases[i])
           IN \A k \in 1..Len(vs) : PrintT(<<"VERDICT", Cases[i].id>> \o vs[k])
        /\ i' = i + 1
        /\ IF i = Len(Cases) THEN PrintT(<<"DONE", Len(Cases)>>) ELSE TRUE
Spec == Init /\ [][Next]_i
=============================================================================
