------------------------- MODULE Trace_ClusterScale -------------------------
(* Binding T for the "scale" family of C12: recorded calls of filter_clusters / filter_clusters_corners on production-size
   curves (10^3..10^5 points, up to ~1000 knees, hundreds of clusters).  The clauses are those of ClusterProps
   (RankedClause / HullClause) evaluated in time LINEAR in the number of knees instead of cubic: the recorder adds pos[j],
   the (1-based) position in knees of the j-th returned index (0: not a knee).  pos is not trusted: knees[pos[j]] = result[j]
   is checked here, and a claimed absence is re-checked by a scan; the shape of the tables (ascending knees, contiguous
   labels 0,0,1,1,2.., NaN marking of whole clusters) is checked too and reported as "malformed" (a harness error).

   With knees and result strictly increasing and knees[pos[j]] = result[j], pos is strictly increasing, hence with the
   contiguous labelling lab[pos[.]] is non-decreasing and
     - exactly one kept member in every cluster  <=>  Len(result) = number of clusters /\ lab[pos[j]] = j - 1 for all j;
     - at most one kept member per cluster       <=>  lab[pos[j]] < lab[pos[j+1]] for all j;
     - under the first, the kept member of the cluster of knee o is result[lab[o] + 1], at position pos[lab[o] + 1].
   The module is cross-checked against Trace_Cluster on every scale case that is small enough for the latter. *)
EXTENDS Naturals, Integers, Sequences, TLC, Json, IOUtils
Cases == JsonDeserialize(IOEnv.CASES_FILE)
VARIABLE i

K(c) == Len(c.knees)
R(c) == Len(c.result)
NCl(c) == IF K(c) = 0 THEN 0 ELSE c.lab[K(c)] + 1

WellFormed(c) ==
    /\ Len(c.lab) = K(c) /\ Len(c.score) = K(c) /\ Len(c.pos) = R(c)
    /\ (K(c) > 0 => c.lab[1] = 0)
    /\ Len(c.hullSpan) = NCl(c)
    /\ \A o \in 1..(K(c) - 1) :
          /\ c.knees[o] < c.knees[o + 1]
          /\ (c.lab[o + 1] = c.lab[o] \/ c.lab[o + 1] = c.lab[o] + 1)
          /\ (c.lab[o + 1] = c.lab[o] => ((c.score[o + 1] < 0) <=> (c.score[o] < 0)))
    /\ \A j \in 1..R(c) : c.pos[j] \in 0..K(c)
    /\ \A j \in 1..R(c) : c.pos[j] = 0 => ~(\E o \in 1..K(c) : c.knees[o] = c.result[j])

SubsetOk(c) == /\ \A j \in 1..(R(c) - 1) : c.result[j] < c.result[j + 1]
               /\ \A j \in 1..R(c) : c.pos[j] > 0 /\ c.knees[c.pos[j]] = c.result[j]

OnePer(c) == /\ R(c) = NCl(c)
             /\ \A j \in 1..R(c) : c.lab[c.pos[j]] = j - 1

\* knee o beats the kept member of its own cluster (clusters with undefined scores are marked -1 throughout)
Beats(c, o) == c.score[o] >= 0 /\ c.score[o] > c.score[c.pos[c.lab[o] + 1]]

Ranked(c) ==
    IF ~SubsetOk(c) THEN <<"increasing-subset", R(c)>>
    ELSE IF ~OnePer(c) THEN <<"one-per-cluster", R(c), NCl(c)>>
    ELSE IF \E o \in 1..K(c) : Beats(c, o)
         THEN LET o == CHOOSE o \in 1..K(c) : Beats(c, o)
              IN <<(IF c.mode = "corner" THEN "corner-best" ELSE "best-in-cluster"),
                   "cluster", c.lab[o], "kept", c.result[c.lab[o] + 1], "better", c.knees[o]>>
    ELSE <<"ok">>

Hull(c) ==
    IF ~SubsetOk(c) THEN <<"increasing-subset", R(c)>>
    ELSE IF \E j \in 1..(R(c) - 1) : c.lab[c.pos[j]] >= c.lab[c.pos[j + 1]]
         THEN LET j == CHOOSE j \in 1..(R(c) - 1) : c.lab[c.pos[j]] >= c.lab[c.pos[j + 1]]
              IN <<"hull-at-most-one", "cluster", c.lab[c.pos[j]], c.result[j], c.result[j + 1]>>
    ELSE IF \E j \in 1..R(c) : ~c.hullSpan[c.lab[c.pos[j]] + 1]
         THEN LET j == CHOOSE j \in 1..R(c) : ~c.hullSpan[c.lab[c.pos[j]] + 1]
              IN <<"hull-unrepresented-cluster", "cluster", c.lab[c.pos[j]], "kept", c.result[j]>>
    ELSE <<"ok">>

Verdict(c) ==
    IF c.outcome # "returned" THEN <<"completes", c.outcome>>
    ELSE IF ~WellFormed(c) THEN <<"malformed", K(c), R(c)>>
    ELSE IF c.mode = "hull" THEN Hull(c) ELSE Ranked(c)

Init == i = 1
Next == /\ i <= Len(Cases)
        /\ LET v == Verdict(Cases[i]) IN IF v[1] = "ok" THEN TRUE ELSE PrintT(<<"VERDICT", Cases[i].id>> \o v)
        /\ i' = i + 1
        /\ IF i = Len(Cases) THEN PrintT(<<"DONE", Len(Cases)>>) ELSE TRUE
Spec == Init /\ [][Next]_i
=============================================================================
