SPECIFICATION Spec
