SPECIFICATION Spec
