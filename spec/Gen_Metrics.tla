----------------------------- MODULE Gen_Metrics -----------------------------
(* C16, bindings M and G.  TLC enumerates a complete small exact domain; for every case it
   (M) checks the algebraic laws of the definitions of Metrics.tla as invariants, by exact rational
       evaluation of the very Terms that are emitted (Term.tla: QEval), and
   (G) prints one JSON object with the inputs and, per library function, the expected Term, which
       the harness (harness/props/c16.py) evaluates (harness/term.py) and compares with the code.

   kinds of cases
     pair   y, h in (0..VMax)^n, n in 1..NMax                     -> metrics.*(y, h)
     line   x strictly increasing in 0..XMax, y in (0..LVMax)^n,
            line b in 0..BMax, m in Slopes                        -> linear_fit wrappers, metrics.*(y, m x + b)
     fit    x, y in (0..FMax)^n (x not necessarily increasing)    -> endpoint fit, fit residuals, best-fit R2
     angle  two slopes with 1 + m1 m2 # 0                         -> linear_fit.angle *)
EXTENDS Metrics, Json

CONSTANTS NMax,    \* vector lengths 1..NMax
          VMax,    \* pair entries 0..VMax
          XMax,    \* line abscissae 0..XMax
          LVMax,   \* line ordinates 0..LVMax
          BMax,    \* intercepts 0..BMax
          FMax     \* fit coordinates 0..FMax

Slopes == {<<-2, 1>>, <<-1, 1>>, <<-1, 2>>, <<0, 1>>, <<1, 2>>, <<1, 1>>, <<2, 1>>}
EpsQs  == {<<1, 1>>, <<1, 4>>}      \* stand-ins for eps in laws that hold for EVERY eps > 0

Vecs(n, hi) == [1..n -> 0..hi]
Incr(n, hi) == {s \in Vecs(n, hi) : \A i \in 1..(n-1) : s[i] < s[i+1]}

VARIABLE c
Cases ==
    UNION {{[kind |-> "pair", y |-> y, h |-> h] : y \in Vecs(n, VMax), h \in Vecs(n, VMax)} : n \in 1..NMax}
    \cup UNION {{[kind |-> "line", x |-> x, y |-> y, b |-> <<b, 1>>, m |-> m] :
                    x \in Incr(n, XMax), y \in Vecs(n, LVMax), b \in 0..BMax, m \in Slopes} : n \in 1..NMax}
    \cup UNION {{[kind |-> "fit", x |-> x, y |-> y] : x \in Vecs(n, FMax), y \in Vecs(n, FMax)} : n \in 1..NMax}
    \cup {[kind |-> "angle", m1 |-> m1, m2 |-> m2] : m1 \in Slopes, m2 \in Slopes}

Init == c \in Cases

Opt(cond, rec) == IF cond THEN rec ELSE <<>>          \* optional fields of the emitted object
QSeq(ts) == [i \in 1..Len(ts) |-> QE(ts[i])]          \* exact values of an eps-free Term vector
NonNeg(qs) == \A i \in 1..Len(qs) : qs[i][1] >= 0

(* expected Terms of the seven metrics for data y and prediction h (both Term vectors).
   ratios: whether the ratio / log metrics are in their domain (y, h >= 0). *)
MetricTerms(y, h, ratios) ==
    [rmse |-> Rmse(y, h), residuals |-> Residuals(y, h), smape |-> Smape(y, h),
     r2 |-> R2(y, h, "classic")]
    @@ Opt(Len(y) >= 3, [r2adj |-> R2(y, h, "adjusted")])
    @@ Opt(ratios, [rmsle |-> Rmsle(y, h), rmspe |-> Rmspe(y, h), rpd |-> Rpd(y, h)])

BestDefined(x, y) == Len(x) <= 2 \/ (~Constant(x) /\ ~Constant(y))

Expected(k) ==
    IF k.kind = "pair" THEN
        [kind |-> "pair", y |-> k.y, h |-> [i \in 1..Len(k.h) |-> <<k.h[i], 1>>],
         terms |-> MetricTerms(TInts(k.y), TInts(k.h), TRUE)]
    ELSE IF k.kind = "line" THEN
        LET x == TInts(k.x)  y == TInts(k.y)  coef == <<TQ(k.b), TQ(k.m)>>
            hq == QSeq(LineAt(x, coef))
        IN  [kind |-> "line", x |-> k.x, y |-> k.y, b |-> k.b, m |-> k.m, h |-> hq,
             terms |-> MetricTerms(y, LineAt(x, coef), NonNeg(hq))]
    ELSE IF k.kind = "fit" THEN
        LET x == TInts(k.x)  y == TInts(k.y)  n == Len(k.x)
            cxy == EndpointFit(x, y)  cyx == EndpointFit(y, x)
        IN  [kind |-> "fit", x |-> k.x, y |-> k.y,
             b |-> cxy[1], m |-> cxy[2],
             yhat |-> LineAt(x, cxy), xhat |-> LineAt(y, cyx),
             fitres |-> FitResiduals(x, y), hvres |-> HvResiduals(x, y),
             horizontal |-> PreferHorizontal(x, y), tie |-> ResidualTie(x, y)]
            @@ Opt(BestDefined(x, y), [best |-> BestFitR2(x, y)])
            @@ Opt(BestDefined(x, y) /\ n >= 3, [bestadj |-> BestFitR2Adj(x, y)])
    ELSE
        LET c1 == <<TInt(0), TQ(k.m1)>>  c2 == <<TInt(1), TQ(k.m2)>> IN
        [kind |-> "angle", m1 |-> k.m1, m2 |-> k.m2,
         defined |-> (k.m1[1] * k.m2[1] + k.m1[2] * k.m2[2] # 0)]
        @@ Opt(k.m1[1] * k.m2[1] + k.m1[2] * k.m2[2] # 0, [angle |-> Angle(c1, c2)])

Emit == /\ c.kind # "done"
        /\ PrintT(ToJson(Expected(c)))
        /\ c' = [kind |-> "done"]
Next == Emit
Spec == Init /\ [][Next]_c

(* ---- laws of the definitions (binding M), exact rational (in)equalities -------------------
   Square roots are judged on their radicands (Mse, Mspe); Rmsle is not rational and has no law
   here.  Every QEval result is gcd-reduced with a positive denominator, so "=" is equality. *)
NonNegQ(q) == q[1] >= 0
ErrorTerms(y, h) == <<Mse(y, h), Residuals(y, h), Smape(y, h), Rpd(y, h), Mspe(y, h)>>

MetricLaws(y, h) ==
    /\ \A e \in EpsQs :
        /\ QEval(Smape(y, h), e) = QEval(Smape(h, y), e)                       \* symmetric
        /\ QLe(QEval(Smape(y, h), e), <<2, 1>>)                                 \* smape <= 2
        /\ \A i \in 1..5 : NonNegQ(QEval(ErrorTerms(y, h)[i], e))              \* errors >= 0
        /\ \A i \in 1..5 : QEval(ErrorTerms(y, y)[i], e)[1] = 0                \* and 0 on y = y_hat
    /\ QE(Mse(y, h)) = QE(Mse(h, y))
    /\ QE(Residuals(y, h)) = QE(Residuals(h, y))
    /\ QE(Residuals(y, h)) = QNorm(<<QE(Mse(y, h))[1] * Len(y), QE(Mse(y, h))[2]>>)   \* sum = n * mean
    /\ QLe(QE(R2(y, h, "classic")), QOne)                                       \* R2 <= 1
    /\ QE(R2(y, y, "classic")) = QOne
    /\ Len(y) >= 3 => /\ QLe(QE(R2(y, h, "adjusted")), QE(R2(y, h, "classic")))
                      /\ QE(R2(y, y, "adjusted")) = QOne

PairLaws == c.kind = "pair" => MetricLaws(TInts(c.y), TInts(c.h))

LineLaws == c.kind = "line" =>
    LET x == TInts(c.x)  y == TInts(c.y)  coef == <<TQ(c.b), TQ(c.m)>>  h == LineAt(x, coef) IN
    /\ NonNegQ(QE(W(Residuals, x, y, coef)))
    /\ QLe(QE(W_R2(x, y, coef, "classic")), QOne)
    /\ NonNeg(QSeq(h)) => MetricLaws(y, h)
    \* no line beats the least-squares line: R2 of any line <= corr^2
    /\ (Len(x) >= 3 /\ ~Constant(y)) => QLe(QE(W_R2(x, y, coef, "classic")), QE(BestFitR2(x, y)))

FitLaws == c.kind = "fit" =>
    LET x == TInts(c.x)  y == TInts(c.y)  n == Len(c.x)
        coef == EndpointFit(x, y)  L == QSeq(LineAt(x, coef)) IN
    /\ c.x[1] # c.x[n] => (L[1] = <<c.y[1], 1>> /\ L[n] = <<c.y[n], 1>>)        \* interpolates the endpoints
    /\ c.x[1] = c.x[n] => \A i \in 1..n : L[i] = QZero
    /\ NonNegQ(QE(FitResiduals(x, y)))
    /\ (n <= 2 /\ c.x[1] # c.x[n]) => QE(FitResiduals(x, y)) = QZero
    /\ QLe(QE(HvResiduals(x, y)), QE(FitResiduals(x, y)))
    /\ QE(HvResiduals(x, y)) = QE(HvResiduals(y, x))
    /\ BestDefined(x, y) =>
          /\ QLe(QZero, QE(BestFitR2(x, y))) /\ QLe(QE(BestFitR2(x, y)), QOne)  \* in [0, 1]
          /\ QE(BestFitR2(x, y)) = QE(BestFitR2(y, x))
          /\ n >= 3 => /\ QLe(QE(BestFitR2Adj(x, y)), QE(BestFitR2(x, y)))
                       /\ QLe(QE(R2(y, LineAt(x, coef), "classic")), QE(BestFitR2(x, y)))
=============================================================================
