----------------------------- MODULE Gen_Metrics -----------------------------
(* C16, bindings M and G.  TLC enumerates a complete small exact domain; for every case it
   (M) checks the algebraic laws of the definitions of Metrics.tla as invariants, by exact rational
       evaluation of the very Terms that are emitted (Term.tla: QEval), and
   (G) prints one JSON object with the inputs and, per library function, the expected Term, which
       the harness (harness/props/c16.py) evaluates (harness/term.py) and compares with the code.

   kinds of cases
     pair   y, h in (0..VMax)^n, n in 1..NMax                     -> metrics.*(y, h)
     line   x strictly increasing in 0..XMax, y in (0..LVMax)^n,
            line b in 0..BMax, m in Slopes                        -> linear_fit wrappers, metrics.*(y, m x + b)
     fit    x, y in (0..FMax)^n (x not necessarily increasing)    -> endpoint fit, fit residuals, best-fit R2
     angle  two slopes with 1 + m1 m2 # 0                         -> linear_fit.angle *)
EXTENDS Metrics, Json

CONSTANTS NMax,    \* vector lengths 1..NMax
          VMax,    \* pair entries 0..VMax
          XMax,    \* line abscissae 0..XMax
          LVMax,   \* line ordinates 0..LVMax
          BMax,    \* intercepts 0..BMax
          FMax     \* fit coordinates 0..FMax

Slopes == {<<-2, 1>>, <<-1, 1>>, <<-1, 2>>, <<0, 1>>, <<1, 2>>, <<1, 1>>, <<2, 1>>}
EpsQs  == {<<1, 1>>, <<1, 4>>}      \* stand-ins for eps in laws that hold for EVERY eps > 0

\* integer and half-integer intercepts (a flat line at a non-integer level over integer abscissae must stay non-integer)
Intercepts == {<<b, 1>> : b \in 0..BMax} \cup {<<2 * b + 1, 2>> : b \in 0..(BMax - 1)}

Vecs(n, hi) == [1..n -> 0..hi]
Incr(n, hi) == {s \in Vecs(n, hi) : \A i \in 1..(n-1) : s[i] < s[i+1]}

VARIABLE c
AllVecs(hi)  == UNION {Vecs(n, hi) : n \in 1..NMax}
AllIncr(hi)  == UNION {Incr(n, hi) : n \in 1..NMax}

(* The initial states are GROUPS of cases (one per first vector); a Pick step then chooses the rest of
   the case.  With several TLC workers the laws below are then evaluated in parallel: TLC evaluates
   the invariants of successor states in the worker that generates them, but those of initial
   states in a single thread.  No set is built by filtering a large space. *)
Groups ==
    {[kind |-> "group", of |-> "pair", y |-> y] : y \in AllVecs(VMax)}
    \cup {[kind |-> "group", of |-> "line", x |-> x, m |-> m] : x \in AllIncr(XMax), m \in Slopes}
    \cup {[kind |-> "group", of |-> "fit", x |-> x] : x \in AllVecs(FMax)}
    \cup {[kind |-> "group", of |-> "angle"]}
CasesOf(g) ==
    IF g.of = "pair" THEN {[kind |-> "pair", y |-> g.y, h |-> h] : h \in Vecs(Len(g.y), VMax)}
    ELSE IF g.of = "line" THEN {[kind |-> "line", x |-> g.x, y |-> y, b |-> b, m |-> g.m] :
                                   y \in Vecs(Len(g.x), LVMax), b \in Intercepts}
    ELSE IF g.of = "fit" THEN {[kind |-> "fit", x |-> g.x, y |-> y] : y \in Vecs(Len(g.x), FMax)}
    ELSE {[kind |-> "angle", m1 |-> m1, m2 |-> m2] : m1 \in Slopes, m2 \in Slopes}

Init == c \in Groups
Pick == c.kind = "group" /\ c' \in CasesOf(c)

Opt(cond, rec) == IF cond THEN rec ELSE <<>>          \* optional fields of the emitted object
QSeq(ts) == [i \in 1..Len(ts) |-> QE(ts[i])]          \* exact values of an eps-free Term vector
NonNeg(qs) == \A i \in 1..Len(qs) : qs[i][1] >= 0

(* expected Terms of the seven metrics for data y and prediction h (both Term vectors).
   ratios: whether the ratio / log metrics are in their domain (y, h >= 0). *)
MetricTerms(y, h, ratios) ==
    [rmse |-> Rmse(y, h), residuals |-> Residuals(y, h), smape |-> Smape(y, h),
     r2 |-> R2(y, h, "classic")]
    \* adjusted variants are emitted compactly: the correction applied to the exact value of the
    \* classic variant (PairLaws / FitLaws check that this is the same number as the full Term)
    @@ Opt(Len(y) >= 3, [r2adj |-> Adjust(TQ(QE(R2(y, h, "classic"))), Len(y))])
    @@ Opt(ratios, [rmsle |-> Rmsle(y, h), rmspe |-> Rmspe(y, h), rpd |-> Rpd(y, h)])

BestDefined(x, y) == Len(x) <= 2 \/ (~Constant(x) /\ ~Constant(y))

Expected(k) ==
    IF k.kind = "pair" THEN
        [kind |-> "pair", y |-> k.y, h |-> [i \in 1..Len(k.h) |-> <<k.h[i], 1>>],
         terms |-> MetricTerms(TInts(k.y), TInts(k.h), TRUE)]
    ELSE IF k.kind = "line" THEN
        LET x == TInts(k.x)  y == TInts(k.y)  coef == <<TQ(k.b), TQ(k.m)>>
            hq == QSeq(LineAt(x, coef))
        IN  [kind |-> "line", x |-> k.x, y |-> k.y, b |-> k.b, m |-> k.m, h |-> hq,
             terms |-> MetricTerms(y, LineAt(x, coef), NonNeg(hq))]
    ELSE IF k.kind = "fit" THEN
        LET x == TInts(k.x)  y == TInts(k.y)  n == Len(k.x)
            cxy == EndpointFit(x, y)  cyx == EndpointFit(y, x)
        IN  [kind |-> "fit", x |-> k.x, y |-> k.y,
             b |-> cxy[1], m |-> cxy[2],
             yhat |-> LineAt(x, cxy), xhat |-> LineAt(y, cyx),
             fitres |-> FitResiduals(x, y), hvres |-> HvResiduals(x, y),
             horizontal |-> PreferHorizontal(x, y), tie |-> ResidualTie(x, y)]
            @@ Opt(BestDefined(x, y), [best |-> BestFitR2(x, y)])
            @@ Opt(BestDefined(x, y) /\ n >= 3, [bestadj |-> Adjust(TQ(QE(BestFitR2(x, y))), n)])
    ELSE
        LET c1 == <<TInt(0), TQ(k.m1)>>  c2 == <<TInt(1), TQ(k.m2)>> IN
        [kind |-> "angle", m1 |-> k.m1, m2 |-> k.m2,
         defined |-> (k.m1[1] * k.m2[1] + k.m1[2] * k.m2[2] # 0)]
        @@ Opt(k.m1[1] * k.m2[1] + k.m1[2] * k.m2[2] # 0, [angle |-> Angle(c1, c2)])

Emit == /\ c.kind \notin {"group", "done"}
        /\ PrintT(ToJson(Expected(c)))
        /\ c' = [kind |-> "done"]
Next == Pick \/ Emit
Spec == Init /\ [][Next]_c

(* ---- laws of the definitions (binding M), exact rational (in)equalities -------------------
   Square roots are judged on their radicands (Mse, Mspe); Rmsle is not rational and has no law
   here.  Every QEval result is gcd-reduced with a positive denominator, so "=" is equality. *)
NonNegQ(q) == q[1] >= 0

(* same: y and h are the same vector (the laws "= 0 when y = y_hat", "R2 = 1") *)
MetricLaws(y, h, same) ==
    LET mse == QE(Mse(y, h))  rss == QE(Residuals(y, h))  r2 == QE(R2(y, h, "classic")) IN
    /\ \A e \in EpsQs :
          LET s == QEval(Smape(y, h), e)  d == QEval(Rpd(y, h), e)  p == QEval(Mspe(y, h), e) IN
          /\ s = QEval(Smape(h, y), e)                                          \* symmetric
          /\ QLe(s, <<2, 1>>)                                                   \* smape <= 2
          /\ NonNegQ(s) /\ NonNegQ(d) /\ NonNegQ(p)                             \* errors >= 0
          /\ same => (s[1] = 0 /\ d[1] = 0 /\ p[1] = 0)                         \* and 0 on y = y_hat
    /\ NonNegQ(mse) /\ NonNegQ(rss)
    /\ mse = QE(Mse(h, y)) /\ rss = QE(Residuals(h, y))                          \* symmetric
    /\ rss = QNorm(<<mse[1] * Len(y), mse[2]>>)                                  \* sum = n * mean
    /\ QLe(r2, QOne)                                                            \* R2 <= 1
    /\ same => (mse[1] = 0 /\ rss[1] = 0 /\ r2 = QOne)
    /\ Len(y) >= 3 => LET ra == QE(R2(y, h, "adjusted")) IN
                      /\ QLe(ra, r2)
                      /\ ra = QE(Adjust(TQ(r2), Len(y)))         \* the compact emitted form is the same number
                      /\ same => ra = QOne

PairLaws == c.kind = "pair" => MetricLaws(TInts(c.y), TInts(c.h), c.y = c.h)

LineLaws == c.kind = "line" =>
    LET x == TInts(c.x)  y == TInts(c.y)  coef == <<TQ(c.b), TQ(c.m)>>  h == LineAt(x, coef) IN
    /\ NonNegQ(QE(W(Residuals, x, y, coef)))
    /\ QLe(QE(W_R2(x, y, coef, "classic")), QOne)
    /\ NonNeg(QSeq(h)) => MetricLaws(y, h, QSeq(h) = QSeq(y))
    \* no line beats the least-squares line: R2 of any line <= corr^2
    /\ (Len(x) >= 3 /\ ~Constant(y)) => QLe(QE(W_R2(x, y, coef, "classic")), QE(BestFitR2(x, y)))

FitLaws == c.kind = "fit" =>
    LET x == TInts(c.x)  y == TInts(c.y)  n == Len(c.x)
        coef == EndpointFit(x, y)  L == QSeq(LineAt(x, coef)) IN
    /\ c.x[1] # c.x[n] => (L[1] = <<c.y[1], 1>> /\ L[n] = <<c.y[n], 1>>)        \* interpolates the endpoints
    /\ c.x[1] = c.x[n] => \A i \in 1..n : L[i] = QZero
    /\ NonNegQ(QE(FitResiduals(x, y)))
    /\ (n <= 2 /\ c.x[1] # c.x[n]) => QE(FitResiduals(x, y)) = QZero
    /\ QLe(QE(HvResiduals(x, y)), QE(FitResiduals(x, y)))
    /\ QE(HvResiduals(x, y)) = QE(HvResiduals(y, x))
    /\ BestDefined(x, y) =>
          /\ QLe(QZero, QE(BestFitR2(x, y))) /\ QLe(QE(BestFitR2(x, y)), QOne)  \* in [0, 1]
          /\ QE(BestFitR2(x, y)) = QE(BestFitR2(y, x))
          /\ n >= 3 => /\ QLe(QE(BestFitR2Adj(x, y)), QE(BestFitR2(x, y)))
                       /\ QE(BestFitR2Adj(x, y)) = QE(Adjust(TQ(QE(BestFitR2(x, y))), n))
                       /\ QLe(QE(R2(y, LineAt(x, coef), "classic")), QE(BestFitR2(x, y)))
=============================================================================
