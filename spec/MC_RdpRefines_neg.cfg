SPECIFICATION Spec
CONSTANTS N = 5
          Buggy = TRUE
INVARIANT AbsInv
