-------------------------- MODULE MultiKneeProof_proofs -----------------------
(* TLAPS proofs for MultiKneeProof.tla: `tlapm MultiKneeProof_proofs.tla` -> all obligations proved (tools/prove.sh).           *)
(* Kept apart from the specification so that TLC (which has no TLAPS library on its path) can read MultiKneeProof.tla.    *)
EXTENDS MultiKneeProof, TLAPS, FiniteSetTheorems

LEMMA OpenFinite == ASSUME NEW m \in Nat, NEW S, S \subseteq 1..(m - 1)
                    PROVE IsFiniteSet(S) /\ Cardinality(S) \in Nat
  <1>1. IsFiniteSet(1..(m - 1)) BY FS_Interval
  <1>2. IsFiniteSet(S) BY <1>1, FS_Subset
  <1>3. Cardinality(S) \in Nat BY <1>2, FS_CardinalityType
  <1> QED BY <1>2, <1>3

LEMMA InitInv == Init => Inv
  <1> SUFFICES ASSUME Init PROVE Inv OBVIOUS
  <1>1. TypeOK BY DEF Init, TypeOK, Pairs
  <1>2. Sub BY DEF Init, Sub, Interior
  <1>3. Disj BY DEF Init, Disj
  <1>4. Cardinality(1..(n - 1)) = n - 1
    <2>1. n - 1 \in Int /\ 1 \in Int BY DEF Init
    <2>2. Cardinality(1..(n - 1)) = IF 1 > n - 1 THEN 0 ELSE (n - 1) - 1 + 1 BY <2>1, FS_Interval
    <2> QED BY <2>2 DEF Init
  <1>5. Pot BY <1>4 DEF Init, Pot
  <1> QED BY <1>1, <1>2, <1>3, <1>5 DEF Inv

LEMMA AcceptInv == Inv /\ Accept => Inv'
  <1> SUFFICES ASSUME Inv, Accept PROVE Inv' OBVIOUS
  <1> USE DEF Inv, TypeOK
  <1>f. IsFiniteSet(open) /\ Cardinality(open) \in Nat BY OpenFinite
  <1>1. TypeOK' BY DEF Accept, Pairs
  <1>2. Sub'
    <2> SUFFICES ASSUME NEW k \in 1..len' PROVE Interior(stk'[k]) \subseteq open' BY DEF Sub
    <2>1. k \in 1..len /\ k # len /\ stk'[k] = stk[k] BY DEF Accept
    <2>2. Interior(stk[k]) \subseteq open BY <2>1 DEF Sub
    <2>3. Interior(stk[k]) \cap Interior(stk[len]) = {} BY <2>1 DEF Disj, Accept
    <2> QED BY <2>1, <2>2, <2>3 DEF Accept
  <1>3. Disj' BY DEF Accept, Disj
  <1>4. Pot'
    <2>1. open' \subseteq open BY DEF Accept
    <2>2. IsFiniteSet(open') /\ Cardinality(open') <= Cardinality(open) BY <2>1, <1>f, FS_Subset
    <2>3. Cardinality(open') \in Nat BY <2>2, FS_CardinalityType
    <2> QED BY <2>2, <2>3, <1>f DEF Accept, Pot
  <1> QED BY <1>1, <1>2, <1>3, <1>4

LEMMA SplitInv == Inv /\ Split => Inv'
  <1> SUFFICES ASSUME Inv, Split PROVE Inv' OBVIOUS
  <1> USE DEF Inv, TypeOK
  <1>f. IsFiniteSet(open) /\ Cardinality(open) \in Nat BY OpenFinite
  <1>0. len \in 1..len /\ stk[len] \in Pairs BY DEF Split
  <1> DEFINE l == stk[len][1]  r == stk[len][2]
  <1>p. l \in Int /\ r \in Int BY <1>0 DEF Pairs
  <1>a. PICK i \in Interior(stk[len]) :
              /\ len' = len + 1
              /\ stk' = [k \in 1..(len + 1) |-> IF k < len THEN stk[k]
                                               ELSE IF k = len THEN <<l, i>>
                                               ELSE <<i, r>>]
              /\ open' = open \ {i}
        BY DEF Split
  <1>i. i \in Int /\ l + 1 <= i /\ i <= r - 1 /\ i \in open BY <1>0, <1>p DEF Interior, Sub
  <1>s. steps' = steps + 1 /\ n' = n BY DEF Split
  <1>1. TypeOK' BY <1>a, <1>i, <1>p, <1>s DEF Pairs
  <1>c1. Interior(<<l, i>>) \subseteq Interior(stk[len]) \ {i} BY <1>i, <1>p DEF Interior
  <1>c2. Interior(<<i, r>>) \subseteq Interior(stk[len]) \ {i} BY <1>i, <1>p DEF Interior
  <1>c3. Interior(<<l, i>>) \cap Interior(<<i, r>>) = {} BY <1>i, <1>p DEF Interior
  <1>2. Sub'
    <2> SUFFICES ASSUME NEW k \in 1..len' PROVE Interior(stk'[k]) \subseteq open' BY DEF Sub
    <2>1. CASE k < len
      <3>1. stk'[k] = stk[k] /\ k \in 1..len /\ k # len BY <2>1, <1>a
      <3>2. Interior(stk[k]) \cap Interior(stk[len]) = {} BY <3>1, <1>0 DEF Disj
      <3>3. i \notin Interior(stk[k]) BY <3>2, <1>a
      <3> QED BY <3>1, <3>3, <1>a DEF Sub
    <2>2. CASE k = len
      <3>1. stk'[k] = <<l, i>> BY <2>2, <1>a
      <3> QED BY <3>1, <1>c1, <1>a, <1>0 DEF Sub
    <2>3. CASE k = len + 1
      <3>1. stk'[k] = <<i, r>> BY <2>3, <1>a
      <3> QED BY <3>1, <1>c2, <1>a, <1>0 DEF Sub
    <2> QED BY <2>1, <2>2, <2>3, <1>a
  <1>3. Disj'
    <2> SUFFICES ASSUME NEW j \in 1..len', NEW k \in 1..len', j # k
                 PROVE Interior(stk'[j]) \cap Interior(stk'[k]) = {} BY DEF Disj
    <2> DEFINE Old(q) == q < len
    <2>o. \A q \in 1..len' : Old(q) => stk'[q] = stk[q] /\ q \in 1..len /\ q # len BY <1>a
    <2>n. \A q \in 1..len' : ~Old(q) => Interior(stk'[q]) \subseteq Interior(stk[len]) BY <1>a, <1>c1, <1>c2
    <2>1. CASE Old(j) /\ Old(k) BY <2>1, <2>o DEF Disj
    <2>2. CASE Old(j) /\ ~Old(k)
      <3>1. Interior(stk[j]) \cap Interior(stk[len]) = {} BY <2>2, <2>o, <1>0 DEF Disj
      <3> QED BY <3>1, <2>2, <2>o, <2>n
    <2>3. CASE ~Old(j) /\ Old(k)
      <3>1. Interior(stk[k]) \cap Interior(stk[len]) = {} BY <2>3, <2>o, <1>0 DEF Disj
      <3> QED BY <3>1, <2>3, <2>o, <2>n
    <2>4. CASE ~Old(j) /\ ~Old(k)
      <3>1. (j = len /\ k = len + 1) \/ (j = len + 1 /\ k = len) BY <2>4, <1>a
      <3>2. stk'[len] = <<l, i>> /\ stk'[len + 1] = <<i, r>> BY <1>a, <1>0
      <3> QED BY <3>1, <3>2, <1>c3
    <2> QED BY <2>1, <2>2, <2>3, <2>4
  <1>4. Pot'
    <2>1. Cardinality(open \ {i}) = Cardinality(open) - 1 BY <1>f, <1>i, FS_RemoveElement
    <2> QED BY <2>1, <1>a, <1>f, <1>s DEF Pot
  <1> QED BY <1>1, <1>2, <1>3, <1>4

LEMMA StutterInv == Inv /\ UNCHANGED vars => Inv'
  BY DEF Inv, TypeOK, Sub, Disj, Pot, vars

THEOREM Invariance == Spec => []Inv
  <1>1. Inv /\ [Next]_vars => Inv' BY AcceptInv, SplitInv, StutterInv DEF Next
  <1> QED BY InitInv, <1>1, PTL DEF Spec

THEOREM MultiKneePopBoundForEveryN == Spec => []StepBound
  <1>1. Inv => StepBound
    <2> SUFFICES ASSUME Inv PROVE StepBound OBVIOUS
    <2>1. Cardinality(open) \in Nat BY OpenFinite DEF Inv, TypeOK
    <2> QED BY <2>1 DEF Inv, TypeOK, Pot, StepBound
  <1> QED BY <1>1, Invariance, PTL
=============================================================================
