------------------------------ MODULE MultiKneeProof ---------------------------
(***************************************************************************)
(* C02, for EVERY n: the work loop of multi_knee.multi_knee pops at most   *)
(* 2(n-1)+1 ranges.  The unbounded counterpart of the invariant PopBound   *)
(* that TLC checks on MultiKnee.tla for n <= 12.  Same construction as     *)
(* RdpProof.tla: the stack as a function 1..len, the gate and the detector *)
(* dropped (any range may be popped without a split; a split may cut at    *)
(* any position strictly inside the range - the detectors never return the *)
(* last index), a ghost set `open` of the cut positions still available.   *)
(* Potential: steps + 2*|open| + len <= 2(n-1)+1 (MultiKneeProof_proofs).  *)
(* MultiKnee.tla refines this module (TLC, MC_MultiKneeRefines.cfg).       *)
(***************************************************************************)
EXTENDS Integers, FiniteSets

VARIABLES n, len, stk, steps, open
vars == <<n, len, stk, steps, open>>

Pairs == Int \X Int
Interior(p) == (p[1] + 1)..(p[2] - 1)       \* cut positions c of points[l:r]: children points[l:c], points[c:r]

Init == /\ n \in Nat /\ n >= 2
        /\ len = 1 /\ stk = [k \in 1..1 |-> <<0, n>>]
        /\ steps = 0 /\ open = 1..(n - 1)

Accept == /\ len > 0
          /\ len' = len - 1
          /\ stk' = [k \in 1..(len - 1) |-> stk[k]]
          /\ steps' = steps + 1
          /\ open' = open \ Interior(stk[len])
          /\ n' = n

Split == /\ len > 0
         /\ \E i \in Interior(stk[len]) :
              /\ len' = len + 1
              /\ stk' = [k \in 1..(len + 1) |-> IF k < len THEN stk[k]
                                               ELSE IF k = len THEN <<stk[len][1], i>>
                                               ELSE <<i, stk[len][2]>>]
              /\ open' = open \ {i}
         /\ steps' = steps + 1
         /\ n' = n

Next == Accept \/ Split
Spec == Init /\ [][Next]_vars

TypeOK == /\ n \in Nat /\ n >= 2
          /\ len \in Nat
          /\ stk \in [1..len -> Pairs]
          /\ steps \in Nat
          /\ open \subseteq 1..(n - 1)
Sub == \A k \in 1..len : Interior(stk[k]) \subseteq open
Disj == \A j, k \in 1..len : j # k => Interior(stk[j]) \cap Interior(stk[k]) = {}
Pot == steps + 2 * Cardinality(open) + len <= 2 * (n - 1) + 1
Inv == TypeOK /\ Sub /\ Disj /\ Pot

StepBound == steps <= 2 * (n - 1) + 1
=============================================================================
