SPECIFICATION Spec
CONSTANTS N = 6
          MaxQueries = 3
          Metrics = {"r2", "rmspe", "rmsle", "rpd", "smape"}
          KeyMode = "pair"
          SwitchMetric = FALSE
          Emit = FALSE
INVARIANT CacheSound
INVARIANT CacheDomain
INVARIANT PerfectFit
INVARIANT DivisorOk
