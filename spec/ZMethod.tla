------------------------------- MODULE ZMethod -------------------------------
(***************************************************************************)
(* zmethod.knees / zmethod.getPoints (C10).                                *)
(*                                                                         *)
(* 1. Property level: ZClause / ZOk - what the property STATES about a     *)
(*    returned index list (valid, strictly increasing, heights             *)
(*    non-increasing, pairwise x- and y-separated).  Only this part judges *)
(*    recorded executions (Trace_ZMethod).                                 *)
(*                                                                         *)
(* 2. Implementation-shaped round machine of getPoints.  Points are        *)
(*    0..n-1 (x strictly increasing with the index).  All float decisions  *)
(*    are tables / ranks:                                                  *)
(*      xs[p]      integer x                     w   x band width          *)
(*      hr[p]      height rank (exact order of y; equal rank = equal y)    *)
(*      YSel(a,b)  abs(y_a - y_b) >= y_height      (selection guard)       *)
(*      YKeep(b,p) y_p <= y_b - h or y_p >= y_b + h (band removal)         *)
(*                 both come from integer heights when yb >= 0             *)
(*                 (model checking) and from recorded tables when yb = -1  *)
(*      ZLevel[p]  first round r with z_p >= 3 - r*dz.  Only WHEN a point  *)
(*                 becomes a candidate matters, so the levels are chosen   *)
(*                 LAZILY: each round reveals which undecided remaining    *)
(*                 points join (a point removed earlier never gets a       *)
(*                 level), and zl[p] keeps, for the remaining candidates   *)
(*                 only, the dense rank of their level (= arrival order).  *)
(*                 zgiven.on = FALSE: any ZLevel in 0..ZMax (model         *)
(*                 checking); zgiven = [on |-> TRUE, lv, stop]: the        *)
(*                 recorded levels and stop level (replay).                *)
(*      stopLevel  first round with outlier_z <= min_zscore (-1: not yet   *)
(*                 reached; lazily chosen, forced at round ZMax)           *)
(*      zkey[p]    rank of z_p, refines the visiting order of same-level   *)
(*                 groups (all 0 in model checking = any order)            *)
(*    Program state: remaining, selected (kept as a set: the order of      *)
(*    selection is never used, the final sweep sorts by x), round, added   *)
(*    (points_added, only ever tested against 0: a 0/1 flag), todo (the    *)
(*    representatives of a multi-group round not yet visited), pc, result. *)
(***************************************************************************)
EXTENDS Integers, Sequences, FiniteSets, TLC

CONSTANTS ZMax,           \* levels are 0..ZMax; at round ZMax every point is a candidate
          NoYGuard,       \* TRUE: negative instance - `if all(abs(best.y - s.y) >= y_height ...)` dropped
          XBandLeftOpen   \* TRUE: negative instance - `x <= best.x - x_width` became `x <= best.x`

Abs(v) == IF v < 0 THEN -v ELSE v
Range(s) == {s[j] : j \in DOMAIN s}

(* ======================= property level ================================= *)
\* res: returned indices (0-based); xk, hk: integer x and height rank of the returned knees (by
\* position in res); ysep[a][b]: |y_a - y_b| >= (y_max - y_min)*dy for positions a, b.
ZClause(res, n, xk, hk, w, ysep) ==
    LET k == Len(res)
    IN IF \E a \in 1..k : res[a] \notin 0..(n - 1) THEN "valid-indices"
       ELSE IF \E a \in 1..(k - 1) : res[a] >= res[a + 1] THEN "increasing"
       ELSE IF \E a \in 1..(k - 1) : hk[a] < hk[a + 1] THEN "heights-monotone"
       ELSE IF \E a \in 1..k, b \in 1..k : a < b /\ Abs(xk[a] - xk[b]) < w THEN "x-separation"
       ELSE IF \E a \in 1..k, b \in 1..k : a < b /\ ~ysep[a][b] THEN "y-separation"
       ELSE "ok"
ZOk(res, n, xk, hk, w, ysep) == ZClause(res, n, xk, hk, w, ysep) = "ok"

(* ======================= the round machine ============================== *)
VARIABLES n, xs, hr, w, yb, ytab, zkey, zgiven, early,   \* the call (constant along a behaviour)
          zl, stopLevel,                             \* lazily chosen oracles
          remaining, selected, round, added, todo, pc, result
input == <<n, xs, hr, w, yb, ytab, zkey, zgiven, early>>
vars == <<n, xs, hr, w, yb, ytab, zkey, zgiven, early, zl, stopLevel, remaining, selected, round, added, todo, pc, result>>

Empty == [p \in {} |-> 0]
YSel(a, b) == IF yb >= 0 THEN Abs(hr[a] - hr[b]) >= yb ELSE ytab.sel[a + 1][b + 1]
YKeep(b, p) == IF yb >= 0 THEN hr[p] <= hr[b] - yb \/ hr[p] >= hr[b] + yb ELSE ytab.keep[b + 1][p + 1]

\* `if all(abs(outlier_best[1]-i) >= y_height for i in outlier_points[:,1])`
Guard(b) == NoYGuard \/ \A s \in selected : YSel(b, s)
\* `points = points[np.where(((x <= bx - w) | (x >= bx + w)) & ((y <= by - h) | (y >= by + h)))]`:
\* a point survives only if it is outside BOTH bands
RemoveBands(b, rem) ==
    {p \in rem : /\ \/ xs[p] <= (IF XBandLeftOpen THEN xs[b] ELSE xs[b] - w)
                    \/ xs[p] >= xs[b] + w
                 /\ YKeep(b, p)}

\* np.argmin over the y column: lowest y, first (left-most) on ties
Lowest(G) == CHOOSE p \in G : \A q \in G : hr[p] < hr[q] \/ (hr[p] = hr[q] /\ p <= q)
SetMax(S) == CHOOSE v \in S : \A u \in S : u <= v
SetMin(S) == CHOOSE v \in S : \A u \in S : v <= u

\* x_diff = argwhere(diff(candidates.x) >= x_width): positions whose successor candidate is >= w away
Succ(C, c) == SetMin({d \in C : d > c})
Cuts(C) == {c \in C : c # SetMax(C) /\ xs[Succ(C, c)] - xs[c] >= w}
\* x_diff = [0] ++ cuts ++ [len-1]; the first group is `x <= candidates[x_diff[1]].x`, the following
\* ones `candidates[x_diff[i]].x < x <= candidates[x_diff[i+1]].x` (the leading 0 is never used as a
\* bound, the trailing len-1 closes the last group)
Bounds(C) == Cuts(C) \cup {SetMax(C)}
GroupOf(C, bnd) ==
    LET lower == {c \in Bounds(C) : c < bnd}
    IN IF lower = {} THEN {c \in C : xs[c] <= xs[bnd]}
       ELSE {c \in C : xs[c] > xs[SetMax(lower)] /\ xs[c] <= xs[bnd]}
Groups(C) == {GroupOf(C, bnd) : bnd \in Bounds(C)}
\* representative = lowest-y member, its z replaced by the minimum z of the group
\* (minimum z = latest level, smallest z rank)
RepOf(G, lv) == [rep |-> Lowest(G), lvl |-> SetMax({lv[p] : p \in G}), zk |-> SetMin({zkey[p] : p \in G})]
\* `candidate_outliers[np.argsort(z)][::-1]`: decreasing z; equal z in any order
DenseLevels(T) == {[g EXCEPT !.lvl = Cardinality({h.lvl : h \in {h \in T : h.lvl < g.lvl}})] : g \in T}
Before(g, h) == g.lvl < h.lvl \/ (g.lvl = h.lvl /\ g.zk > h.zk)
Minimal(T) == {g \in T : \A h \in T : ~Before(h, g)}

Bottom == stopLevel # -1 /\ round >= stopLevel          \* outlier_z <= min_zscore

\* lazily reveal which undecided remaining points reach the threshold in this round, and whether the
\* threshold has reached the minimum z-score (possible only once every remaining point is a candidate)
Undecided == remaining \ DOMAIN zl
Reveal(J) == LET top == IF DOMAIN zl = {} THEN 0 ELSE SetMax({zl[p] : p \in DOMAIN zl}) + 1
             IN [p \in DOMAIN zl \cup J |-> IF p \in DOMAIN zl THEN zl[p] ELSE top]
\* forget the levels of removed points, keep only the order of the others
Normalize(f, rem) == LET D == DOMAIN f \cap rem
                         used == {f[p] : p \in D}
                     IN [p \in D |-> Cardinality({v \in used : v < f[p]})]
JoinSets == IF zgiven.on THEN {{p \in Undecided : zgiven.lv[p] <= round}}
            ELSE IF round >= ZMax THEN {Undecided} ELSE SUBSET Undecided
StopChoices(J) == IF stopLevel # -1 THEN {stopLevel}
                  ELSE IF zgiven.on THEN {IF round >= zgiven.stop THEN round ELSE -1}
                  ELSE IF Undecided \subseteq J THEN (IF round >= ZMax THEN {round} ELSE {-1, round})
                  ELSE {-1}
Cand(J) == remaining \cap (DOMAIN zl \cup J)            \* `points[points[:,2] >= outlier_z]`

\* `if len(points) < 4` / `if y_min == 1`: return []
EarlyReturn == /\ pc = "early"
               /\ result' = <<>> /\ pc' = "done"
               /\ UNCHANGED <<input, zl, stopLevel, remaining, selected, round, added, todo>>

RoundEmpty == /\ pc = "round"
              /\ \E J \in JoinSets : \E sl \in StopChoices(J) :
                   /\ Cand(J) = {}
                   /\ zl' = zl /\ stopLevel' = sl
              /\ pc' = "test"
              /\ UNCHANGED <<input, remaining, selected, round, added, todo, result>>

\* no x gap >= w between consecutive candidates: one group, its lowest-y point is the only try
RoundSingleGroup ==
    /\ pc = "round"
    /\ \E J \in JoinSets : \E sl \in StopChoices(J) :
         LET C == Cand(J)  best == Lowest(C)
         IN /\ C # {} /\ Cuts(C) = {}
            /\ stopLevel' = sl
            /\ IF Guard(best)
               THEN /\ selected' = selected \cup {best}
                    /\ remaining' = RemoveBands(best, remaining)
                    /\ added' = 1
               ELSE UNCHANGED <<selected, remaining, added>>
            /\ zl' = Normalize(Reveal(J), remaining')
    /\ pc' = "test"
    /\ UNCHANGED <<input, round, todo, result>>

\* groups split at gaps >= w; the representatives are fixed BEFORE any removal of this round
RoundMultiGroup ==
    /\ pc = "round"
    /\ \E J \in JoinSets : \E sl \in StopChoices(J) :
         LET C == Cand(J)
         IN /\ C # {} /\ Cuts(C) # {}
            /\ zl' = Reveal(J) /\ stopLevel' = sl
            /\ todo' = DenseLevels({RepOf(G, Reveal(J)) : G \in Groups(C)})
    /\ pc' = "visit"
    /\ UNCHANGED <<input, remaining, selected, round, added, result>>

\* `for outlier_best in candidate_outliers:` select iff y-separated from everything selected so far
\* (including this round's earlier selections), then remove both bands
Visit == /\ pc = "visit"
         /\ \E g \in Minimal(todo) :
              /\ todo' = todo \ {g}
              /\ IF Guard(g.rep)
                 THEN /\ selected' = selected \cup {g.rep}
                      /\ remaining' = RemoveBands(g.rep, remaining)
                      /\ added' = 1
                 ELSE UNCHANGED <<selected, remaining, added>>
              /\ zl' = Normalize(zl, remaining')
              /\ pc' = IF todo' = {} THEN "test" ELSE "visit"
         /\ UNCHANGED <<input, stopLevel, round, result>>

\* `if len(points) == 0 or ((outlier_z <= min_zscore) and points_added == 0): break`
StopCond == remaining = {} \/ (Bottom /\ added = 0)
Stop == /\ pc = "test" /\ StopCond
        /\ pc' = "sweep"
        /\ UNCHANGED <<input, zl, stopLevel, remaining, selected, round, added, todo, result>>
LowerZ == /\ pc = "test" /\ ~StopCond
          /\ round' = round + 1 /\ added' = 0 /\ pc' = "round"
          /\ UNCHANGED <<input, zl, stopLevel, remaining, selected, todo, result>>

\* sort by x, then delete every knee higher than the lowest knee to its left.  The running minimum
\* starts at 1.0, which no height exceeds on the property's domain (y in [0,1]): m = -1 encodes it.
SortedSeq(S) == LET RECURSIVE F(_)
                    F(T) == IF T = {} THEN <<>> ELSE <<SetMin(T)>> \o F(T \ {SetMin(T)})
                IN F(S)
SweepSeq(s) == LET RECURSIVE F(_, _, _)
                   F(j, acc, m) == IF j > Len(s) THEN acc
                                   ELSE IF m # -1 /\ hr[s[j]] > m THEN F(j + 1, acc, m)
                                   ELSE F(j + 1, Append(acc, s[j]), hr[s[j]])
               IN F(1, <<>>, -1)
Sweep == /\ pc = "sweep"
         /\ result' = SweepSeq(SortedSeq(selected)) /\ pc' = "done"
         /\ UNCHANGED <<input, zl, stopLevel, remaining, selected, round, added, todo>>

Next == EarlyReturn \/ RoundEmpty \/ RoundSingleGroup \/ RoundMultiGroup \/ Visit \/ Stop \/ LowerZ \/ Sweep

\* the program part of the initial state, for a call already stored in `input`
InitProgram == /\ remaining = 0..(n - 1) /\ selected = {} /\ round = 0 /\ added = 0 /\ todo = {}
               /\ result = <<>>
               /\ pc = IF n < 4 \/ early THEN "early" ELSE "round"

(* ---- what the machine guarantees (checked in MC_ZMethod) --------------- *)
ResultOk == pc = "done" =>
    ZOk(result, n, [a \in 1..Len(result) |-> xs[result[a]]], [a \in 1..Len(result) |-> hr[result[a]]], w,
        [a \in 1..Len(result) |-> [b \in 1..Len(result) |-> YSel(result[a], result[b])]])
\* every selection is separated from every other one, also inside one multi-group round
SelectedSeparated == \A a \in selected, b \in selected :
    a # b => Abs(xs[a] - xs[b]) >= w /\ YSel(a, b)
\* band removal: whatever is still available lies outside both bands of everything selected
RemainingOutside == \A p \in remaining, s \in selected : Abs(xs[p] - xs[s]) >= w /\ YKeep(s, p)
\* iterations of `while True` = round + 1 <= maxZLevel + n + 2
RoundBound == IF stopLevel = -1 THEN round <= ZMax ELSE round + 1 <= stopLevel + n + 2
Terminates == <>(pc = "done")
=============================================================================
