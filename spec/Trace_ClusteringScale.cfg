SPECIFICATION Spec
