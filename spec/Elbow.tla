------------------------------- MODULE Elbow -------------------------------
(***************************************************************************)
(* C03: the family of exact two-slope elbows and the mechanism lemmas the  *)
(* detectors rely on, checked by TLC with exact integer arithmetic on the  *)
(* very inputs that are then replayed into the detectors.                  *)
(* An elbow: arm lengths a, b >= 3 segments, integer x spacings in 1..4,   *)
(* slopes s1 # s2 multiples of 1/8 in [-8, 8], dyadic offset.  Heights are *)
(* carried scaled by 8 (y8 = 8*y) so that everything is an integer.        *)
(***************************************************************************)
EXTENDS ElbowDefs, KneedleDefs, SequencesExt, TLC, Json

CONSTANTS ArmMin, ArmMax, Thorough, Emit

Patterns == IF Thorough
            THEN {<<1>>, <<2>>, <<3>>, <<4>>, <<1, 2, 4>>, <<4, 1, 2>>, <<3, 1>>, <<1, 4, 4, 2, 3>>}
            ELSE {<<1>>, <<2>>, <<1, 2, 4>>, <<4, 1, 3>>}
Slopes == IF Thorough THEN {-64, -40, -16, -8, -3, -1, 0, 1, 3, 8, 16, 24, 63, 64}
          ELSE {-64, -8, -1, 0, 1, 8, 64}
SlopePairs == IF Thorough THEN {<<p, q>> \in Slopes \X Slopes : p # q}
              ELSE {<<-16, -1>>, <<-1, -16>>, <<1, 16>>, <<16, 1>>, <<-8, 8>>, <<8, -8>>, <<0, 8>>, <<-8, 0>>,
                    <<0, -3>>, <<3, 0>>, <<-64, 64>>, <<64, -64>>, <<-64, -63>>, <<63, 64>>, <<-1, 1>>, <<1, -1>>,
                    <<-3, -40>>, <<-40, -3>>, <<24, 3>>, <<3, 24>>, <<-64, 0>>, <<0, 64>>, <<-1, 0>>, <<1, 2>>}
Offsets8 == {0, 4, 32768}          \* 8 * {0, 1/2, 4096}

Gap(pat, g) == pat[((g - 1) % Len(pat)) + 1]
Sum(f, k) == FoldLeft(LAMBDA u, w : u + w, 0, [g \in 1..k |-> f[g]])
\* the curve as a sequence of points <<x, y8>>
ElbowCurve(a, b, pat, s1, s2, off8) ==
    LET m == a + b
        dx == [g \in 1..m |-> Gap(pat, g)]
        dy == [g \in 1..m |-> (IF g <= a THEN s1 ELSE s2) * Gap(pat, g)]
    IN [k \in 1..(m + 1) |-> <<Sum(dx, k - 1), off8 + Sum(dy, k - 1)>>]

(* ---- generator ---------------------------------------------------------- *)
VARIABLE c
Init == \E a \in ArmMin..ArmMax, b \in ArmMin..ArmMax, pat \in Patterns, sp \in SlopePairs, off8 \in Offsets8 :
          c = [a |-> a, pts |-> ElbowCurve(a, b, pat, sp[1], sp[2], off8), st |-> "new"]
Emit1 == /\ c.st = "new"
         /\ Emit => PrintT(ToJson([pts |-> c.pts, corner |-> c.a, mono |-> WeaklyMonotone(c.pts)]))   \* corner as 0-based index
         /\ c' = [c EXCEPT !.st = "done"]
Next == Emit1
Spec == Init /\ [][Next]_c

Lemmas == IsElbow(c.pts, c.a + 1)
\* "the difference curve of the normalised elbow peaks at the corner": Kneedle without smoothing, as defined in
\* KneedleDefs, returns the corner on every monotone member
KneedleLemma == WeaklyMonotone(c.pts) => KneedleKnee(c.pts) = c.a
=============================================================================
