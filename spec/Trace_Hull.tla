----------------------------- MODULE Trace_Hull -----------------------------
(* Binding T for C18 on LONG x-sorted integer curves: the recorded lower / upper chain is judged by the declarative
   characterisation itself (ChainOk: from 0 to n-1, strictly increasing, consecutive edges turn strictly, every point on
   or above / below the chain), which determines the hull chain uniquely. *)
EXTENDS HullProps, TLC, Json, IOUtils
Cases == JsonDeserialize(IOEnv.CASES_FILE)
VARIABLE i
Chain1(c) == [k \in 1..Len(c.chain) |-> c.chain[k] + 1]
Verdict(c) ==
    IF c.outcome # "returned" THEN <<"completes", c.outcome>>
    ELSE IF Len(c.chain) < 2 \/ c.chain[1] # 0 \/ c.chain[Len(c.chain)] # Len(c.pts) - 1 THEN <<"chain-endpoints", c.chain>>
    ELSE IF \E k \in 1..Len(c.chain) : c.chain[k] < 0 \/ c.chain[k] >= Len(c.pts) THEN <<"chain-endpoints", c.chain>>
    ELSE IF ~ChainOk(c.pts, Chain1(c), IF c.mode = "lower" THEN 1 ELSE -1) THEN
         (IF ~StrictTurns(c.pts, Chain1(c), IF c.mode = "lower" THEN 1 ELSE -1) THEN <<"strict-turns", c.mode>>
          ELSE <<"chain-is-hull", c.mode>>)
    ELSE <<"ok">>
Init == i = 1
Next == /\ i <= Len(Cases)
        /\ LET v == Verdict(Cases[i]) IN IF v[1] = "ok" THEN TRUE ELSE PrintT(<<"VERDICT", Cases[i].id>> \o v)
        /\ i' = i + 1
        /\ IF i = Len(Cases) THEN PrintT(<<"DONE", Len(Cases)>>) ELSE TRUE
Spec == Init /\ [][Next]_i
=============================================================================
