SPECIFICATION Spec
