SPECIFICATION TSpec
CONSTANTS N = 5
          Limits = {10}
          Modes = {"none"}
          Guard = "visited"
