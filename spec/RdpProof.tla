------------------------------ MODULE RdpProof ------------------------------
(***************************************************************************)
(* C01, threshold RDP, for EVERY n: the work loop of rdp.rdp performs at   *)
(* most 2(n-2)+1 iterations.  This is the unbounded counterpart of the     *)
(* invariant StepBound that TLC checks on Rdp.tla for n <= 11: an          *)
(* abstraction of that machine (the work stack as a function 1..len, the   *)
(* oracles dropped: any range may be accepted, any strictly interior index *)
(* may be the split) with a ghost set `open` of the interior indices of    *)
(* the ranges still on the stack, and a machine-checked (TLAPS) inductive  *)
(* invariant (RdpProof_proofs.tla).  Potential: steps+2*|open|+len <= 2(n-2)+1 *)
(* Rdp.tla refines this module (checked by TLC, MC_RdpRefines.cfg), and    *)
(* recorded executions are bound to Rdp.tla's clause by Trace_Simplify.    *)
(***************************************************************************)
EXTENDS Integers, FiniteSets

VARIABLES n, len, stk, steps, open
vars == <<n, len, stk, steps, open>>

Pairs == Int \X Int
Interior(p) == (p[1] + 1)..(p[2] - 2)       \* <<l, r>> stands for points[l:r]; l and r-1 are retained

Init == /\ n \in Nat /\ n >= 2
        /\ len = 1 /\ stk = [k \in 1..1 |-> <<0, n>>]
        /\ steps = 0 /\ open = 1..(n - 2)

Accept == /\ len > 0
          /\ len' = len - 1
          /\ stk' = [k \in 1..(len - 1) |-> stk[k]]
          /\ steps' = steps + 1
          /\ open' = open \ Interior(stk[len])
          /\ n' = n

Split == /\ len > 0
         /\ \E i \in Interior(stk[len]) :
              /\ len' = len + 1
              /\ stk' = [k \in 1..(len + 1) |-> IF k < len THEN stk[k]
                                               ELSE IF k = len THEN <<i, stk[len][2]>>
                                               ELSE <<stk[len][1], i + 1>>]
              /\ open' = open \ {i}
         /\ steps' = steps + 1
         /\ n' = n

Next == Accept \/ Split
Spec == Init /\ [][Next]_vars

TypeOK == /\ n \in Nat /\ n >= 2
          /\ len \in Nat
          /\ stk \in [1..len -> Pairs]
          /\ steps \in Nat
          /\ open \subseteq 1..(n - 2)
Sub == \A k \in 1..len : Interior(stk[k]) \subseteq open
Disj == \A j, k \in 1..len : j # k => Interior(stk[j]) \cap Interior(stk[k]) = {}
Pot == steps + 2 * Cardinality(open) + len <= 2 * (n - 2) + 1
Inv == TypeOK /\ Sub /\ Disj /\ Pot

StepBound == steps <= 2 * (n - 2) + 1
=============================================================================
