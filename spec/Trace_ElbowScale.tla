-------------------------- MODULE Trace_ElbowScale --------------------------
(* C03 at production size (10^3 .. 10^5 points).  Trace_Elbow takes every point of a curve and evaluates the
   quadratic lemma ZeroResidualOnlyAtCorner, which is out of reach for such curves; here a case is the COMPACT
   description of a member of the same family

       a, b        arm lengths in segments (corner = 0-based index a, n = a + b + 1 points)
       pat1, pat2  spacing patterns over 1..4, tiled along the left arm / along the right arm from the corner
       s1, s2      slopes in eighths, off8 the offset in eighths (heights are carried in eighths, as in Elbow.tla)

   plus SPARSE samples <<index, x, y8>> of the array that was actually replayed (both ends, the corner triple and
   the triple around every index a detector returned) and the detectors' answers.  TLC
     - admits the case only if the description is inside the property's quantifier and every sample equals the
       closed form X / Y8 of the description (so the replayed array is the described elbow wherever it is looked at),
       the corner triple turns and no other mentioned triple does (the sparse form of OnlyCornerTurns);
     - judges the property's clause: every answer is the corner index; Kneedle answers only on monotone members. *)
EXTENDS Integers, Sequences, FiniteSets, TLC, Json, IOUtils
Cases == JsonDeserialize(IOEnv.CASES_FILE)
VARIABLE i

RECURSIVE Pre(_, _)
Pre(p, k) == IF k = 0 THEN 0 ELSE Pre(p, k - 1) + p[k]
\* abscissa reached after k segments of the tiled pattern p
Tiled(p, k) == (k \div Len(p)) * Pre(p, Len(p)) + Pre(p, k % Len(p))
XCorner(c) == Tiled(c.pat1, c.a)
X(c, k) == IF k <= c.a THEN Tiled(c.pat1, k) ELSE XCorner(c) + Tiled(c.pat2, k - c.a)
Y8(c, k) == IF k <= c.a THEN c.off8 + c.s1 * X(c, k)
            ELSE c.off8 + c.s1 * XCorner(c) + c.s2 * (X(c, k) - XCorner(c))
N(c) == c.a + c.b + 1

PatOk(p) == Len(p) \in 1..128 /\ \A k \in 1..Len(p) : p[k] \in 1..4
\* the quantifier of C03; the bound on a + b keeps every integer below 2^31 (64 * 4 * 2^20 = 2^28)
InFamily(c) == /\ c.a >= 3 /\ c.b >= 3 /\ c.a + c.b <= 1048576
               /\ PatOk(c.pat1) /\ PatOk(c.pat2)
               /\ c.s1 \in -64..64 /\ c.s2 \in -64..64 /\ c.s1 # c.s2
               /\ c.off8 \in 0..32768
\* weakly monotone (one arm may be flat), as in ElbowDefs!WeaklyMonotone
Mono(c) == c.s1 * c.s2 >= 0
\* samples are <<index, x, y8>>
Turn(p, q, r) == (q[2] - p[2]) * (r[3] - p[3]) - (r[2] - p[2]) * (q[3] - p[3])

Verdicts(c) ==
    IF ~InFamily(c) THEN {<<"not-in-family", c.a, c.b>>}
    ELSE LET n    == N(c)
             S    == {c.samples[k] : k \in DOMAIN c.samples}
             have == {s[1] : s \in S}
             At(k) == CHOOSE s \in S : s[1] = k
             ans  == {c.answers[k] : k \in DOMAIN c.answers}
             need == {0, c.a - 1, c.a, c.a + 1, n - 1}
                     \cup UNION {{r.got - 1, r.got, r.got + 1} \cap (0..(n - 1)) : r \in ans}
             badS == {s \in S : s[1] \notin 0..(n - 1) \/ s[2] # X(c, s[1]) \/ s[3] # Y8(c, s[1])}
             inner == {r \in ans : r.got \in 1..(n - 2) /\ r.got # c.a}
         IN  IF badS # {} THEN {<<"sample-mismatch", s[1]>> : s \in badS}
             ELSE IF ~(need \subseteq have) THEN {<<"sample-missing">>}
             ELSE IF c.mono # Mono(c) THEN {<<"mono-flag">>}
             ELSE IF Turn(At(c.a - 1), At(c.a), At(c.a + 1)) = 0 THEN {<<"corner-does-not-turn">>}
             ELSE IF \E r \in inner : Turn(At(r.got - 1), At(r.got), At(r.got + 1)) # 0 THEN {<<"turns-elsewhere">>}
             ELSE {<<"outside-quantifier", r.d>> : r \in {q \in ans : q.mono_only /\ ~Mono(c)}}
                  \cup {<<"corner", r.d, r.got, c.a>> : r \in {q \in ans : q.got # c.a}}

Init == i = 1
Next == /\ i <= Len(Cases)
        /\ \A v \in Verdicts(Cases[i]) : PrintT(<<"VERDICT", Cases[i].id>> \o v)
        /\ i' = i + 1
        /\ IF i = Len(Cases) THEN PrintT(<<"DONE", Len(Cases)>>) ELSE TRUE
Spec == Init /\ [][Next]_i
=============================================================================
