SPECIFICATION Spec
CONSTANTS N = 9
          Limits = {4, 6}
          Modes = {"original"}
          Guard = "previous"
PROPERTY Terminates
