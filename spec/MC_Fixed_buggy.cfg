SPECIFICATION Spec
CONSTANTS N = 4
          PrioMax = 1
          CostMax = 2
          Modes = {"fixed", "grdp", "mp", "minpoint"}
          Buggy = TRUE
          EverySecond = FALSE
INVARIANT WellFormed
