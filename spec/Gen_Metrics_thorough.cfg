SPECIFICATION Spec
CONSTANTS NMax = 3
          VMax = 4
          XMax = 4
          LVMax = 3
          BMax = 3
          FMax = 3
INVARIANT PairLaws
INVARIANT LineLaws
INVARIANT FitLaws
