SPECIFICATION Spec
CONSTANTS Grids = {8, 16}
          MaxRet = 5
          MaxRet16 = 4
          MaxKnees = 4
          Stairs = TRUE
          Emit = TRUE
INVARIANT EvenLaws
INVARIANT SegLaws

