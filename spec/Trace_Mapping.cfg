SPECIFICATION Spec
