SPECIFICATION Spec
