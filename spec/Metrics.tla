------------------------------- MODULE Metrics -------------------------------
(* C16: the textbook definitions of the regression metrics (kneeliverse.metrics) and of the
   linear-fit helpers (kneeliverse.linear_fit) as Terms (Term.tla).

   Vectors are sequences of Terms (TInts(<<1, 2, 3>>) for integer data).  A line is the pair
   <<b, m>> of Terms (intercept first, as the library returns it).  Wherever a definition has a
   case distinction (tss = 0, x1 = xn, n <= 2) the branch is decided here, exactly, with QE. *)
EXTENDS Term

Idx(y) == 1..Len(y)
One == TInt(1)
Two == TInt(2)

SqErr(y, h)     == [i \in Idx(y) |-> TSq(TSub(y[i], h[i]))]
Residuals(y, h) == TSum(SqErr(y, h))                                    \* residual sum of squares
Mse(y, h)       == TMean(SqErr(y, h))
Rmse(y, h)      == TSqrt(Mse(y, h))
Msle(y, h)      == TMean([i \in Idx(y) |-> TSq(TSub(TLn1p(y[i]), TLn1p(h[i])))])
Rmsle(y, h)     == TSqrt(Msle(y, h))                                    \* y, h > -1
Mspe(y, h)      == TMean([i \in Idx(y) |-> TSq(TDiv(TSub(y[i], h[i]), TAdd(y[i], TEps)))])
Rmspe(y, h)     == TSqrt(Mspe(y, h))                                    \* relative to the TRUE value y
Rpd(y, h)       == TMean([i \in Idx(y) |->
                       TDiv(TAbs(TSub(y[i], h[i])), TAdd(TMax(y[i], h[i]), TEps))])   \* y, h >= 0
Smape(y, h)     == TMean([i \in Idx(y) |->
                       TDiv(TMul(Two, TAbs(TSub(h[i], y[i]))),
                            TAdd(TAdd(TAbs(y[i]), TAbs(h[i])), TEps))])

Tss(y) == TSum([i \in Idx(y) |-> TSq(TSub(y[i], TMean(y)))])            \* total sum of squares
Adjust(r, n) == TSub(One, TMul(TSub(One, r), TNum(n - 1, n - 2)))       \* n >= 3
R2Classic(y, h) == IF IsZeroT(Tss(y)) THEN TSub(One, Residuals(y, h))   \* constant y: 1 - rss
                   ELSE TSub(One, TDiv(Residuals(y, h), Tss(y)))
R2Adjusted(y, h) == Adjust(R2Classic(y, h), Len(y))
R2(y, h, variant) == IF variant = "adjusted" THEN R2Adjusted(y, h) ELSE R2Classic(y, h)

(* ---- lines and wrappers ------------------------------------------------------------------ *)
LineAt(x, coef) == [i \in Idx(x) |-> TAdd(TMul(coef[2], x[i]), coef[1])]        \* m * x_i + b
W(Metric(_, _), x, y, coef) == Metric(y, LineAt(x, coef))      \* W_metric(x, y, <<b, m>>)
W_R2(x, y, coef, variant) == R2(y, LineAt(x, coef), variant)

(* endpoint ("fast") fit: the line through the first and the last point; (0, 0) when x1 = xn *)
EndpointFit(x, y) ==
    LET n == Len(x) IN
    IF QE(x[1]) = QE(x[n]) THEN <<TInt(0), TInt(0)>>
    ELSE LET m == TDiv(TSub(y[1], y[n]), TSub(x[1], x[n]))
         IN  <<TSub(y[1], TMul(m, x[1])), m>>
FitResiduals(x, y) == Residuals(y, LineAt(x, EndpointFit(x, y)))
HvResiduals(x, y)  == TMin(FitResiduals(x, y), FitResiduals(y, x))      \* better of y(x) and x(y)
PreferHorizontal(x, y) == QLe(QE(FitResiduals(x, y)), QE(FitResiduals(y, x)))
ResidualTie(x, y)      == QE(FitResiduals(x, y)) = QE(FitResiduals(y, x))

(* best (least-squares) fit: R2 = squared Pearson correlation; 1 for n <= 2 *)
Centered(x) == [i \in Idx(x) |-> TSub(x[i], TMean(x))]
Sxy(x, y)   == TSum([i \in Idx(x) |-> TMul(Centered(x)[i], Centered(y)[i])])
Corr2(x, y) == TDiv(TSq(Sxy(x, y)), TMul(Sxy(x, x), Sxy(y, y)))          \* x, y not constant
BestFitR2(x, y)    == IF Len(x) <= 2 THEN One ELSE Corr2(x, y)
BestFitR2Adj(x, y) == Adjust(BestFitR2(x, y), Len(x))                   \* n >= 3
Constant(x) == IsZeroT(Sxy(x, x))

(* angle between two lines, from their slopes (1 + m1 m2 # 0) *)
Angle(c1, c2) == TAtan(TAbs(TDiv(TSub(c1[2], c2[2]), TAdd(One, TMul(c1[2], c2[2])))))
=============================================================================
