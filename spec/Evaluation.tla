----------------------------- MODULE Evaluation -----------------------------
(***************************************************************************)
(* evaluation.cm / mae / mse / rmse / rmspe / accuracy / f1score / mcc     *)
(* (C19).                                                                  *)
(*   kind "cm":  the greedy confusion-matrix machine Cm (the code's loop:  *)
(*     expected points in order, nearest knee in x with the FIRST index on *)
(*     ties, claimed iff distance/range <= t and not yet claimed), checked *)
(*     against the accounting identities, the declarative greedy count and *)
(*     a brute-force maximum matching; scores from the matrix as exact     *)
(*     rationals.                                                          *)
(*   kind "err": nearest-neighbour matching errors for the 4 strategies    *)
(*     (which side is iterated; nearest neighbour by squared Euclidean     *)
(*     distance, FIRST index on ties), as exact rationals of the un-rooted *)
(*     quantities, plus the matching itself (for rmspe, whose eps = 1e-16  *)
(*     cannot be represented here: the harness evaluates the definition    *)
(*     over Fractions from the emitted matching).                          *)
(* Curves are x = 0..n-1 with n-1 a power of two and t dyadic, so that     *)
(* distance/range <= t is decided exactly by binary64 as well.             *)
(* One module is the model-checking instance (M) and, with Emit = TRUE,    *)
(* the generator (G).                                                      *)
(***************************************************************************)
EXTENDS Rational, Sequences, FiniteSets, SequencesExt, FiniteSetsExt, TLC, Json

CONSTANTS CmN,       \* curve sizes n for kind "cm"
          CmESmall,  \* max |E| for n <= 5
          CmEBig,    \* max |E| for n > 5
          CmKMax,    \* max |K| for kind "cm"
          ErrN,      \* curve sizes for kind "err"
          YMax,      \* heights 0..YMax
          ErrKMax, ErrEMax,
          ErrEYAll,  \* TRUE: expected heights 0..YMax for n > 3; FALSE: {0, YMax}
          Variant,   \* "ok" = the code; "reclaim" / "fpraw" = seeded bugs (negative instances)
          Emit

VARIABLES kind, n, ys, K, E, t, j, used, tp, fn, pc,
          res       \* kind "err": the errors per strategy, computed once when the call returns (<<>> before)
vars == <<kind, n, ys, K, E, t, j, used, tp, fn, pc, res>>

Strategies == {"knees", "expected", "best", "worst"}
TSet == {<<0, 1>>, <<1, 8>>, <<1, 4>>, <<1, 2>>, <<1, 1>>}

(* ======================= definitions ================================== *)
\* the knee points of the curve: x = index (0-based), y = height
KneePts == [k \in 1..Len(K) |-> <<K[k] - 1, ys[K[k]]>>]
RangeX == n - 1

\* ---- confusion matrix ----
\* nearest knee in x, first index on ties (numpy argmin)
XDist(k, px) == Abs((K[k] - 1) - px)
NearestKnee(px) == Min({k \in 1..Len(K) : \A k2 \in 1..Len(K) : XDist(k, px) <= XDist(k2, px)})
Within(k, px) == XDist(k, px) * t[2] <= t[1] * RangeX          \* distance / range <= t
\* the greedy one-to-one count as the property states it, by recursion over the expected points
RECURSIVE GreedyTP(_, _)
GreedyTP(m, claimed) ==
    IF m > Len(E) THEN 0
    ELSE LET k == NearestKnee(E[m][1])
         IN IF Within(k, E[m][1]) /\ k \notin claimed THEN 1 + GreedyTP(m + 1, claimed \cup {k})
            ELSE GreedyTP(m + 1, claimed)
\* size of a maximum matching of expected points to knees within tolerance (brute force)
RECURSIVE MaxMatch(_, _)
MaxMatch(m, claimed) ==
    IF m > Len(E) THEN 0
    ELSE LET skip == MaxMatch(m + 1, claimed)
             opts == {1 + MaxMatch(m + 1, claimed \cup {k}) : k \in {k \in 1..Len(K) : k \notin claimed /\ Within(k, E[m][1])}}
         IN Max(opts \cup {skip})
TP == tp
FN == fn
FP == IF Variant = "fpraw" THEN Len(K) ELSE Max2(Len(K) - tp, 0)
TN == n - (tp + FP + fn)
Matrix == <<<<TP, FP>>, <<FN, TN>>>>
Accuracy == <<TP + TN, TP + TN + FP + FN>>
F1 == <<2 * TP, 2 * TP + FP + FN>>
MccNum == TP * TN - FP * FN
MccDen2 == (TP + FP) * (TP + FN) * (TN + FP) * (TN + FN)     \* MCC = MccNum / sqrt(MccDen2), defined iff MccDen2 > 0
Perfect == FP = 0 /\ FN = 0

\* ---- nearest-neighbour errors ----
\* <<iterated side a, matched side b, name of a>>
Sides(s) ==
    LET ke == <<KneePts, E, "knees">>
        ek == <<E, KneePts, "expected">>
    IN CASE s = "knees"    -> ke
         [] s = "expected" -> ek
         [] s = "best"     -> IF Len(E) <= Len(KneePts) THEN ek ELSE ke
         [] s = "worst"    -> IF Len(E) >= Len(KneePts) THEN ek ELSE ke
D2(p, q) == (p[1] - q[1]) * (p[1] - q[1]) + (p[2] - q[2]) * (p[2] - q[2])
\* nearest neighbour of p in b by Euclidean distance, first index on ties (numpy argmin)
NN(p, b) == Min({m \in 1..Len(b) : \A m2 \in 1..Len(b) : D2(p, b[m]) <= D2(p, b[m2])})
SumSeq(f) == FoldLeft(LAMBDA u, w : u + w, 0, f)
\* side name, matching (1-based indices into b), and the mean per-coordinate errors (two coordinates per
\* iterated point) as <<numerator, denominator>>
ErrOf(s) == LET sd == Sides(s)
                a == sd[1]
                b == sd[2]
                mt == [m \in 1..Len(a) |-> NN(a[m], b)]
            IN [side |-> sd[3], match |-> mt,
                mae |-> <<SumSeq([m \in 1..Len(a) |-> Abs(a[m][1] - b[mt[m]][1]) + Abs(a[m][2] - b[mt[m]][2])]), 2 * Len(a)>>,
                mse |-> <<SumSeq([m \in 1..Len(a) |-> D2(a[m], b[mt[m]])]), 2 * Len(a)>>]
ExpectedIsKnees == ToSet(E) = ToSet(KneePts)

(* ======================= the machine ================================== *)
CmEMax(nn) == IF nn > 5 THEN CmEBig ELSE CmESmall
KneeSeqs(nn, kmax) == {SetToSortSeq(S, <) : S \in UNION {kSubset(c, 1..nn) : c \in 1..Min2(kmax, nn - 1)}}
\* a small family of shapes for n > 3: decreasing to a floor, increasing to a ceiling, zigzag
Shapes(nn) == IF nn <= 3 THEN [1..nn -> 0..YMax]
              ELSE { [k \in 1..nn |-> Max2(YMax - (k - 1), 0)],
                     [k \in 1..nn |-> Min2(k - 1, YMax)],
                     [k \in 1..nn |-> (2 * k) % (YMax + 1)] }
EHeights(nn) == IF nn <= 3 \/ ErrEYAll THEN 0..YMax ELSE {0, YMax}

Init ==
    /\ j = 1 /\ used = {} /\ tp = 0 /\ fn = 0 /\ res = <<>>
    /\ \/ /\ kind = "cm" /\ pc = "cm"
          /\ n \in CmN
          /\ ys = [k \in 1..n |-> 0]
          /\ K \in KneeSeqs(n, CmKMax)
          /\ \E e \in 1..Min2(CmEMax(n), n - Len(K)) : \E f \in [1..e -> 0..(n - 1)] : E = [m \in 1..e |-> <<f[m], 0>>]
          /\ t \in TSet
       \/ /\ kind = "err" /\ pc = "err"
          /\ n \in ErrN
          /\ ys \in Shapes(n)
          /\ K \in KneeSeqs(n, ErrKMax)
          /\ \E e \in 1..Min2(ErrEMax, n - Len(K)) : E \in [1..e -> (0..(n - 1)) \X EHeights(n)]
          /\ t = <<0, 1>>

\* `idx = argmin(|knees_x - px| / dx);  if distances[idx] <= t and idx not in used_knees: tp += 1 ... else: fn += 1`
CmClaim ==
    /\ pc = "cm" /\ j <= Len(E)
    /\ LET k == NearestKnee(E[j][1])
       IN /\ Within(k, E[j][1]) /\ (Variant = "reclaim" \/ k \notin used)
          /\ used' = used \cup {k}
    /\ tp' = tp + 1 /\ j' = j + 1
    /\ UNCHANGED <<kind, n, ys, K, E, t, fn, pc, res>>
CmMiss ==
    /\ pc = "cm" /\ j <= Len(E)
    /\ LET k == NearestKnee(E[j][1])
       IN ~(Within(k, E[j][1]) /\ (Variant = "reclaim" \/ k \notin used))
    /\ fn' = fn + 1 /\ j' = j + 1
    /\ UNCHANGED <<kind, n, ys, K, E, t, used, tp, pc, res>>
CmReturn ==
    /\ pc = "cm" /\ j > Len(E)
    /\ pc' = "done"
    /\ Emit => PrintT(ToJson([kind |-> "cm", n |-> n, knees |-> [k \in 1..Len(K) |-> K[k] - 1],
                              ex |-> [m \in 1..Len(E) |-> E[m][1]], tnum |-> t[1], tden |-> t[2],
                              cm |-> Matrix, acc |-> Accuracy, f1 |-> F1, mccnum |-> MccNum, mccden2 |-> MccDen2,
                              maxmatch |-> MaxMatch(1, {})]))
    /\ UNCHANGED <<kind, n, ys, K, E, t, j, used, tp, fn, res>>
ErrReturn ==
    /\ pc = "err"
    /\ pc' = "done"
    /\ res' = [s \in Strategies |-> ErrOf(s)]
    /\ Emit => PrintT(ToJson([kind |-> "err", n |-> n, ys |-> ys, knees |-> [k \in 1..Len(K) |-> K[k] - 1],
                              expected |-> E, perfect |-> ExpectedIsKnees,
                              strat |-> [s \in Strategies |->
                                            [side |-> res'[s].side, mae |-> res'[s].mae, mse |-> res'[s].mse,
                                             match |-> [m \in 1..Len(res'[s].match) |-> res'[s].match[m] - 1]]]]))
    /\ UNCHANGED <<kind, n, ys, K, E, t, j, used, tp, fn>>

Next == CmClaim \/ CmMiss \/ CmReturn \/ ErrReturn
Spec == Init /\ [][Next]_vars /\ WF_vars(Next)

(* ======================= properties (binding M) ======================= *)
CmDone == kind = "cm" /\ pc = "done"
Quantifier == Len(K) >= 1 /\ Len(E) >= 1 /\ Len(K) + Len(E) <= n
CmIdentities == CmDone => /\ TP + FN = Len(E)
                          /\ TP + FP = Len(K)
                          /\ TP + FP + FN + TN = n
                          /\ TP >= 0 /\ FP >= 0 /\ FN >= 0 /\ TN >= 0
CmGreedyCount == CmDone => TP = GreedyTP(1, {}) /\ TP <= MaxMatch(1, {})
OneToOne == kind = "cm" => tp = Cardinality(used) /\ tp + fn = j - 1
ScoreRange == CmDone => /\ QGe(Accuracy, QZero) /\ QLe(Accuracy, QOne)
                        /\ F1[2] > 0 /\ QGe(F1, QZero) /\ QLe(F1, QOne)
                        /\ MccDen2 >= 0
                        /\ MccDen2 > 0 => MccNum * MccNum <= MccDen2
ScorePerfect == (CmDone /\ Perfect) => /\ QEq(Accuracy, QOne) /\ QEq(F1, QOne)
                                       /\ MccDen2 > 0 => (MccNum > 0 /\ MccNum * MccNum = MccDen2)
ErrDone == kind = "err" /\ pc = "done"
ErrNonNegative == ErrDone => \A s \in Strategies : /\ res[s].mae[1] >= 0 /\ res[s].mae[2] > 0
                                                    /\ res[s].mse[1] >= 0 /\ res[s].mse[2] > 0
ZeroOnPerfect == (ErrDone /\ ExpectedIsKnees) => \A s \in Strategies : res[s].mae[1] = 0 /\ res[s].mse[1] = 0
\* and conversely an error vanishes only if every iterated point coincides with a point of the other side
ZeroOnlyIfCovered == ErrDone => \A s \in Strategies :
                         (res[s].mse[1] = 0) <=> (ToSet(Sides(s)[1]) \subseteq ToSet(Sides(s)[2]))
\* the iterated side of best is never longer, that of worst never shorter, than the other side
StrategySides == ErrDone => /\ Len(Sides("best")[1]) <= Len(Sides("best")[2])
                            /\ Len(Sides("worst")[1]) >= Len(Sides("worst")[2])
                            /\ Sides("knees")[3] = "knees" /\ Sides("expected")[3] = "expected"
\* a matched neighbour is a nearest one, and the first such
MatchIsNearest == ErrDone => \A s \in Strategies :
                      LET a == Sides(s)[1]  b == Sides(s)[2]  mt == res[s].match
                      IN \A m \in 1..Len(a) : /\ \A m2 \in 1..Len(b) : D2(a[m], b[mt[m]]) <= D2(a[m], b[m2])
                                              /\ \A m2 \in 1..(mt[m] - 1) : D2(a[m], b[mt[m]]) < D2(a[m], b[m2])
Terminates == <>(pc = "done")
=============================================================================
