SPECIFICATION Spec
CONSTANTS NMax = 5
          YMax = 3
          GSide = 3
          SetMin = 3
          SetMax = 5
          Modes = {"lower", "upper", "graham"}
          Guarded = TRUE
          Emit = TRUE
INVARIANT ChainIsHull
INVARIANT UpperIsHull
INVARIANT NoUnderflow
INVARIANT GrahamContainsExtremes
INVARIANT GrahamOnlyBoundary
INVARIANT GrahamExact
INVARIANT GrahamNoDup
