--------------------------- MODULE Trace_RankScale ---------------------------
(* Binding T for the rank primitive of C17 on LONG vectors (10^3 .. 10^5 values, with ties).
   RankOk of Geometry.tla quantifies over all index pairs, which is out of reach at this size; the
   same predicate is judged here in linear time from a certificate.  Every case carries
       v : the values,   r : the ranks the library returned,
       o : a harness-computed ordering of the positions 1..n by r (a stable argsort of r; it is only a
           HINT: nothing is assumed about it beyond what is tested below).
   CertOk(c)  ==  r and v have the same length,  every r[i] is in 0..n-1, every o[k] in 1..n and o[r[i]+1] = i (so r is injective,
   hence a permutation of 0..n-1, and o is its inverse),  and v read in the order o never decreases.
   For a permutation r with inverse o:   (\A i, j : v[i] < v[j] => r[i] < r[j])  <=>  (\A k : v[o[k]] <= v[o[k+1]]),
   i.e. CertOk(c) <=> RankOk(c.v, c.r) whenever o is the argsort of r; the ASSUME below lets TLC confirm the
   equivalence on every vector / rank assignment of length <= 3, and the harness sends the small tie cases to
   both Trace_Rank and this module and demands identical verdicts.
   The verdict of a rejected case is sparse (the first offending position), never the whole vector. *)
EXTENDS Geometry, TLC, Json, IOUtils
Cases == JsonDeserialize(IOEnv.CASES_FILE)
VARIABLE i

InRange(c, n) == /\ \A k \in 1..n : c.o[k] \in 1..n
                 /\ \A j \in 1..n : c.r[j] \in 0..(n-1)
Inverse(c, n) == \A j \in 1..n : c.o[c.r[j]+1] = j
Sorted(c, n) == \A k \in 1..(n-1) : c.v[c.o[k]] <= c.v[c.o[k+1]]
CertOk(c) == LET n == Len(c.v) IN
    /\ Len(c.r) = n /\ Len(c.o) = n
    /\ InRange(c, n) /\ Inverse(c, n) /\ Sorted(c, n)

\* two different positions with the same rank, adjacent in the hint (a stable argsort puts equal ranks side by side)
Twice(c, n) == {k \in 1..(n-1) : c.o[k] # c.o[k+1] /\ c.r[c.o[k]] = c.r[c.o[k+1]]}

Verdict(c) ==
    LET n == Len(c.v) IN
    IF Len(c.r) # n \/ Len(c.o) # n THEN <<"rank-permutation", "length of the result, of the input", Len(c.r), n>>
    ELSE IF ~InRange(c, n) THEN
        IF \E j \in 1..n : c.r[j] \notin 0..(n-1)
        THEN LET j == CHOOSE j \in 1..n : c.r[j] \notin 0..(n-1) IN
                 <<"rank-permutation", "rank outside 0..n-1: position (0-based), rank", j - 1, c.r[j]>>
        ELSE <<"rank-permutation", "malformed certificate">>
    ELSE IF ~Inverse(c, n) THEN
        IF Twice(c, n) # {}
        THEN LET k == CHOOSE k \in Twice(c, n) : TRUE IN
                 <<"rank-permutation", "rank used twice: positions (0-based), rank", c.o[k] - 1, c.o[k+1] - 1, c.r[c.o[k]]>>
        ELSE LET j == CHOOSE j \in 1..n : c.o[c.r[j]+1] # j IN
                 <<"rank-permutation", "not a permutation of 0..n-1 (no inverse): position (0-based), rank", j - 1, c.r[j]>>
    ELSE IF ~Sorted(c, n) THEN
        LET k == CHOOSE k \in 1..(n-1) : c.v[c.o[k]] > c.v[c.o[k+1]] IN
            <<"rank-permutation", "larger value ranked lower: positions (0-based), values, ranks",
              c.o[k] - 1, c.o[k+1] - 1, c.v[c.o[k]], c.v[c.o[k+1]], k - 1, k>>
    ELSE <<"ok">>

(* the certificate form and the pairwise definition agree (complete check on short vectors, o = the argsort of r
   whenever r is a permutation, any o otherwise) *)
ASSUME \A m \in 1..3 : \A v \in [1..m -> 0..2] : \A r \in [1..m -> -1..m] : \A o \in [1..m -> 0..(m+1)] :
           LET c == [v |-> v, r |-> r, o |-> o] IN
               /\ (CertOk(c) => RankOk(v, r))
               /\ ((RankOk(v, r) /\ \A j \in 1..m : o[r[j]+1] = j) => CertOk(c))
               /\ (Verdict(c) = <<"ok">>) = CertOk(c)

Init == i = 1
Next == /\ i <= Len(Cases)
        /\ LET v == Verdict(Cases[i]) IN IF v[1] = "ok" THEN TRUE ELSE PrintT(<<"VERDICT", Cases[i].id>> \o v)
        /\ i' = i + 1
        /\ IF i = Len(Cases) THEN PrintT(<<"DONE", Len(Cases)>>) ELSE TRUE
Spec == Init /\ [][Next]_i
=============================================================================
