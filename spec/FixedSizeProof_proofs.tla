------------------------- MODULE FixedSizeProof_proofs -------------------------
(* TLAPS proofs for FixedSizeProof.tla (tools/prove.sh). *)
EXTENDS FixedSizeProof, TLAPS, FiniteSetTheorems

LEMMA RFinite == ASSUME TypeOK PROVE IsFiniteSet(R) /\ Cardinality(R) \in Nat /\ Cardinality(R) <= n
  <1>1. IsFiniteSet(0..(n - 1)) /\ Cardinality(0..(n - 1)) = n
    <2>1. 0 \in Int /\ n - 1 \in Int BY DEF TypeOK
    <2>2. IsFiniteSet(0..(n - 1)) /\ Cardinality(0..(n - 1)) = IF 0 > n - 1 THEN 0 ELSE (n - 1) - 0 + 1 BY <2>1, FS_Interval
    <2> QED BY <2>2 DEF TypeOK
  <1>2. IsFiniteSet(R) /\ Cardinality(R) <= Cardinality(0..(n - 1)) BY <1>1, FS_Subset DEF TypeOK
  <1>3. Cardinality(R) \in Nat BY <1>2, FS_CardinalityType
  <1> QED BY <1>1, <1>2, <1>3

LEMMA InitInv == Init => Inv
  <1> SUFFICES ASSUME Init PROVE Inv OBVIOUS
  <1>1. TypeOK BY DEF Init, TypeOK
  <1>2. Cardinality({0, n - 1}) = 2
    <2>1. 0 # n - 1 BY DEF Init
    <2>2. IsFiniteSet({0}) /\ Cardinality({0}) = 1 BY FS_Singleton
    <2>3. n - 1 \notin {0} BY <2>1
    <2>4. Cardinality({0} \cup {n - 1}) = Cardinality({0}) + 1 BY <2>2, <2>3, FS_AddElement
    <2>5. {0} \cup {n - 1} = {0, n - 1} OBVIOUS
    <2> QED BY <2>2, <2>4, <2>5
  <1>3. SizeInv BY <1>2 DEF Init, SizeInv, Pos, Max2
  <1> QED BY <1>1, <1>3 DEF Inv

LEMMA StepInv == Inv /\ Step => Inv'
  <1> SUFFICES ASSUME Inv, Step PROVE Inv' OBVIOUS
  <1> USE DEF Inv
  <1>f. IsFiniteSet(R) /\ Cardinality(R) \in Nat BY RFinite
  <1>a. PICK i \in (0..(n - 1)) \ R : R' = R \cup {i} BY DEF Step
  <1>1. TypeOK' BY <1>a DEF Step, TypeOK
  <1>2. Cardinality(R \cup {i}) = Cardinality(R) + 1 BY <1>f, <1>a, FS_AddElement
  <1>3. SizeInv' BY <1>2, <1>a, <1>f DEF Step, SizeInv, Pos, Max2, TypeOK
  <1> QED BY <1>1, <1>3

LEMMA StutterInv == Inv /\ UNCHANGED vars => Inv'
  BY DEF Inv, TypeOK, SizeInv, vars

THEOREM Invariance == Spec => []Inv
  <1>1. Inv /\ [Step]_vars => Inv' BY StepInv, StutterInv
  <1> QED BY InitInv, <1>1, PTL DEF Spec

THEOREM ExactSizeForEveryNAndK == Spec => []ExactSize
  <1>1. Inv => ExactSize
    <2> SUFFICES ASSUME Inv, Terminated PROVE Cardinality(R) = Min2(Max2(k, 2), n) BY DEF ExactSize
    <2>f. Cardinality(R) \in Nat /\ Cardinality(R) <= n BY RFinite DEF Inv
    <2>1. CASE b <= 0 BY <2>1, <2>f DEF Inv, SizeInv, TypeOK, Pos, Max2, Min2
    <2>2. CASE R = 0..(n - 1)
      <3>1. Cardinality(0..(n - 1)) = n
        <4>1. 0 \in Int /\ n - 1 \in Int BY DEF Inv, TypeOK
        <4>2. Cardinality(0..(n - 1)) = IF 0 > n - 1 THEN 0 ELSE (n - 1) - 0 + 1 BY <4>1, FS_Interval
        <4> QED BY <4>2 DEF Inv, TypeOK
      <3> QED BY <3>1, <2>2, <2>f DEF Inv, SizeInv, TypeOK, Pos, Max2, Min2
    <2> QED BY <2>1, <2>2 DEF Terminated
  <1> QED BY <1>1, Invariance, PTL
=============================================================================
