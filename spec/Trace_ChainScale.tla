-------------------------- MODULE Trace_ChainScale --------------------------
(***************************************************************************)
(* Binding T for C05 at production size: windows of the history            *)
(* rdp_fixed(points, k), k = k0, k0+1, ..., on curves of 10^3 .. 10^5      *)
(* points and members of up to thousands of indices.  Same clauses and the *)
(* same property operators (SimplifyProps!GreedyClause, Clamp,             *)
(* IsReduction) as Trace_Chain; only the oracle tables are SPARSE: one row *)
(* <<a, b, rank, far>> per retained segment (a, b) (original indices) that *)
(* some member of the window actually has, sorted by (a, b) and looked up  *)
(* by bisection.  far holds the farthest interior indices of (a, b) that   *)
(* occur in some member (an index no member has can never be asked for).   *)
(* A pair that is not in the table has no farthest point and rank -1.      *)
(* ev.size is the number of indices the call returned; a member of the     *)
(* wrong size (which fails exact-size whatever it holds) may be recorded   *)
(* by a prefix of its indices only.                                        *)
(***************************************************************************)
EXTENDS SimplifyProps, TLC, Json, IOUtils

Cases == JsonDeserialize(IOEnv.CASES_FILE)
VARIABLES i, e, prev
vars == <<i, e, prev>>

RECURSIVE Find(_, _, _, _, _)
Find(segs, a, b, lo, hi) ==      \* position of row (a, b) in segs[lo..hi], 0 if absent
    IF lo > hi THEN 0
    ELSE LET mid == (lo + hi) \div 2
             s == segs[mid]
         IN IF s[1] = a /\ s[2] = b THEN mid
            ELSE IF s[1] < a \/ (s[1] = a /\ s[2] < b) THEN Find(segs, a, b, mid + 1, hi)
            ELSE Find(segs, a, b, lo, mid - 1)

\* the tables GreedyClause expects: functions over original indices (+1), evaluated lazily
FarAt(c) == [a \in 1..c.n |-> [b \in 1..c.n |->
               LET j == Find(c.segs, a - 1, b - 1, 1, Len(c.segs)) IN IF j = 0 THEN <<>> ELSE c.segs[j][4]]]
RankAt(c) == [a \in 1..c.n |-> [b \in 1..c.n |->
               LET j == Find(c.segs, a - 1, b - 1, 1, Len(c.segs)) IN IF j = 0 THEN -1 ELSE c.segs[j][3]]]

\* members can have thousands of indices: a verdict quotes the indices gained / lost, not the members
Brief(S) == IF Cardinality(S) <= 12 THEN SortedSeqOf(S) ELSE <<"indices", Cardinality(S)>>
EventClause(c, ev, pv) ==
    IF ev.outcome # "returned" THEN <<"returns", ev.k, ev.outcome>>
    ELSE IF ev.size # Clamp(ev.k, c.n) THEN <<"exact-size", ev.k, ev.size, Clamp(ev.k, c.n)>>
    ELSE IF Len(ev.S) # ev.size \/ ~IsReduction(ev.S, c.n) THEN <<"exact-size", ev.k, ev.size, "not a reduction">>
    ELSE IF pv = <<>> THEN <<"ok">>
    ELSE IF Len(ev.S) = Len(pv) THEN (IF ev.S = pv THEN <<"ok">> ELSE <<"nested", ev.k, Brief(Range(pv) \ Range(ev.S)), Brief(Range(ev.S) \ Range(pv))>>)
    ELSE LET cl == GreedyClause(pv, ev.S, FarAt(c), RankAt(c))
         IN IF cl = "ok" THEN <<"ok">>
            ELSE <<cl, ev.k, Brief(Range(pv) \ Range(ev.S)), Brief(Range(ev.S) \ Range(pv))>>

Init == i = 1 /\ e = 1 /\ prev = <<>>
Consume ==
    /\ i <= Len(Cases) /\ e <= Len(Cases[i].events)
    /\ LET c == Cases[i]  ev == c.events[e]  v == EventClause(c, ev, prev)
       IN /\ IF v[1] = "ok" THEN TRUE ELSE PrintT(<<"VERDICT", c.id>> \o v)
          /\ prev' = IF ev.outcome = "returned" /\ IsReduction(ev.S, c.n) THEN ev.S ELSE <<>>
    /\ e' = e + 1 /\ i' = i
NextCase ==
    /\ i <= Len(Cases) /\ e > Len(Cases[i].events)
    /\ i' = i + 1 /\ e' = 1 /\ prev' = <<>>
    /\ IF i = Len(Cases) THEN PrintT(<<"DONE", Len(Cases)>>) ELSE TRUE
Next == Consume \/ NextCase
Spec == Init /\ [][Next]_vars
=============================================================================
