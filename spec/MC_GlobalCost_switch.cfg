SPECIFICATION Spec
CONSTANTS N = 4
          MaxQueries = 3
          Metrics = {"r2", "rmspe", "rmsle", "rpd", "smape"}
          KeyMode = "pair"
          SwitchMetric = TRUE
          Emit = FALSE
INVARIANT CacheSound
