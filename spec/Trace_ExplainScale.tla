------------------------ MODULE Trace_ExplainScale ------------------------
(***************************************************************************)
(* Binding T for C04 at production size (10^3 .. 10^5 points, hundreds to  *)
(* thousands of retained indices, nestings hundreds of levels deep).       *)
(*                                                                         *)
(* SimplifyProps!ExplainClause needs the class / far tables over ALL pairs *)
(* of retained positions (k^2 entries) and recurses as deep as the         *)
(* nesting.  Here the harness sends a CERTIFICATE of the same predicate    *)
(* with SPARSE tables: oracle values only for the ranges the derivation    *)
(* mentions.  The certificate is untrusted; what is checked is local to    *)
(* every node, so there is no recursion:                                   *)
(*                                                                         *)
(*   S      retained indices (0-based values, positions 1..k)              *)
(*   adj[j] class (0 accept, 1 reject, 2 nan) of the endpoint-line cost of *)
(*          points S[j]..S[j+1], for EVERY adjacent pair                   *)
(*   nodes  <<p, q, m, l, r, c, far>> for ranges of positions p..q with    *)
(*          q > p+1: c = class of S[p]..S[q]; far = the retained positions *)
(*          strictly inside whose index is a farthest point of the range   *)
(*          (up to noise); m = the split the derivation uses; l, r = the   *)
(*          positions in `nodes` of (p,m) and (m,q) (0 when that child is  *)
(*          an adjacent pair, which adj covers).  m = -1 marks an OPEN     *)
(*          node: a range the (size-capped) certificate does not expand;   *)
(*          nothing is claimed about it except that its leaves fit.        *)
(*                                                                         *)
(* By induction on q - p: if nodes[1] = (1,k), every node passes           *)
(* NodeClause and every adjacent pair fits, then, when there is no open    *)
(* node, ExplainClause(S, cls, far, 1, k) = "ok" for the full tables these *)
(* entries were taken from (the harness checks this agreement on its small *)
(* cases in every run: see c04.py, cross-check).                           *)
(***************************************************************************)
EXTENDS SimplifyProps, TLC, Json, IOUtils

Cases == JsonDeserialize(IOEnv.CASES_FILE)
VARIABLE i

Accepting == {0, 2}      \* accept, or NaN cost (the property does not pin the side)
Rejecting == {1, 2}

\* a child pointer x of a node must denote exactly the range (a, b)
ChildOk(c, x, a, b) ==
    IF b = a + 1 THEN x = 0
    ELSE x \in 1..Len(c.nodes) /\ c.nodes[x][1] = a /\ c.nodes[x][2] = b

NodeClause(c, x) ==
    LET nd == c.nodes[x]
        p == nd[1]  q == nd[2]  m == nd[3]  cl == nd[6]  far == nd[7]
    IN IF ~(p \in 1..Len(c.S) /\ q \in 1..Len(c.S) /\ q > p + 1) THEN "bad-certificate"
       ELSE IF m = -1 THEN "ok"
       ELSE IF cl \notin Rejecting THEN "split-was-needed"
       ELSE IF \E y \in 1..Len(far) : ~(p < far[y] /\ far[y] < q) THEN "bad-certificate"
       ELSE IF far = <<>> THEN "split-at-farthest"
       ELSE IF ~InSeq(m, far) THEN "bad-certificate"
       ELSE IF ~(ChildOk(c, nd[4], p, m) /\ ChildOk(c, nd[5], m, q)) THEN "bad-certificate"
       ELSE "ok"

Fits(c, j) == c.S[j+1] - c.S[j] <= 1 \/ c.adj[j] \in Accepting

RootOk(c) ==
    /\ Len(c.adj) = Len(c.S) - 1
    /\ IF Len(c.S) = 2 THEN c.nodes = <<>>
       ELSE Len(c.nodes) >= 1 /\ c.nodes[1][1] = 1 /\ c.nodes[1][2] = Len(c.S)

Smallest(X) == CHOOSE x \in X : \A y \in X : x <= y

\* every clause the certificate breaks (the first failing node, the first retained segment that does not fit)
CertVerdicts(c) ==
    IF ~IsReduction(c.S, c.n) THEN <<>>                   \* C01's business
    ELSE IF ~RootOk(c) THEN << <<"bad-certificate", 0, 0, 0>> >>
    ELSE LET bad == {x \in 1..Len(c.nodes) : NodeClause(c, x) # "ok"}
             unfit == {j \in 1..(Len(c.S) - 1) : ~Fits(c, j)}
         IN (IF bad = {} THEN <<>>
             ELSE LET x == Smallest(bad)
                  IN << <<NodeClause(c, x), c.S[c.nodes[x][1]], c.S[c.nodes[x][2]], Len(c.S)>> >>)
            \o (IF unfit = {} THEN <<>>
                ELSE LET j == Smallest(unfit) IN << <<"retained-segment-fits", c.S[j], c.S[j+1], Len(c.S)>> >>)

Init == i = 1
Next == /\ i <= Len(Cases)
        /\ LET vs == CertVerdicts(Cases[i]) IN \A y \in 1..Len(vs) : PrintT(<<"VERDICT", Cases[i].id>> \o vs[y])
        /\ i' = i + 1
        /\ IF i = Len(Cases) THEN PrintT(<<"DONE", Len(Cases)>>) ELSE TRUE
Spec == Init /\ [][Next]_i
=============================================================================
