-------------------------- MODULE Trace_Evaluation --------------------------
(* Binding T for C19 on LARGER inputs than the generator enumerates: recorded confusion matrices of evaluation.cm on
   curves with x = 0..n-1 (n-1 a power of two, so distance/range is exact), many knees and expected points, judged by
   the property-level recursion GreedyTP of Evaluation.tla (parameterised instance: the module's variables are bound to
   the recorded call). *)
EXTENDS Sequences, Integers, FiniteSets, TLC, Json, IOUtils
Cases == JsonDeserialize(IOEnv.CASES_FILE)
VARIABLE ci
Ev(c) == INSTANCE Evaluation WITH CmN <- {}, CmESmall <- 0, CmEBig <- 0, CmKMax <- 0, ErrN <- {}, YMax <- 0, ErrKMax <- 0,
                                  ErrEMax <- 0, ErrEYAll <- FALSE, Variant <- "ok", Emit <- FALSE,
                                  kind <- "cm", n <- c.n, ys <- <<>>, K <- c.K, E <- c.E, t <- c.t, j <- 0, used <- {},
                                  tp <- c.cm[1][1], fn <- c.cm[2][1], pc <- "done", res <- <<>>
Verdict(c) ==
    IF c.outcome # "returned" THEN <<"returns", c.outcome>>
    ELSE LET tpv == c.cm[1][1]  fpv == c.cm[1][2]  fnv == c.cm[2][1]  tnv == c.cm[2][2]
         IN IF tpv + fnv # Len(c.E) \/ tpv + fpv # Len(c.K) \/ tpv + fpv + fnv + tnv # c.n
               \/ tpv < 0 \/ fpv < 0 \/ fnv < 0 \/ tnv < 0 THEN <<"cm-identities", c.cm>>
            ELSE IF tpv # Ev(c)!GreedyTP(1, {}) THEN <<"cm-greedy-count", c.cm, Ev(c)!GreedyTP(1, {})>>
            ELSE <<"ok">>
Init == ci = 1
Next == /\ ci <= Len(Cases)
        /\ LET v == Verdict(Cases[ci]) IN IF v[1] = "ok" THEN TRUE ELSE PrintT(<<"VERDICT", Cases[ci].id>> \o v)
        /\ ci' = ci + 1
        /\ IF ci = Len(Cases) THEN PrintT(<<"DONE", Len(Cases)>>) ELSE TRUE
Spec == Init /\ [][Next]_ci
=============================================================================
