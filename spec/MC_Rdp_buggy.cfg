SPECIFICATION Spec
CONSTANTS N = 4
          Buggy = TRUE
INVARIANT StepBound
