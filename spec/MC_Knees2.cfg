SPECIFICATION Spec
CONSTANTS N = 4
          XStep = 2
INVARIANT RoundBound
INVARIANT Fixpoint
PROPERTY Terminates
PROPERTY Shrinks
