SPECIFICATION Spec
