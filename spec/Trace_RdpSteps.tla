--------------------------- MODULE Trace_RdpSteps ---------------------------
(***************************************************************************)
(* Action-level trace validation of rdp.rdp against Rdp.tla (growth beyond *)
(* the listed properties; notes only).  The recorder reads, at every back- *)
(* edge of the function's work loop, the local work stack and the number   *)
(* of retained indices out of the running frame (sys.monitoring, no source *)
(* hook); this module re-uses Rdp.tla's ACTIONS: every consecutive pair of *)
(* snapshots must be one RdpAccept or RdpSplit step (TLC infers what was   *)
(* not logged: the oracle values acc / spl and the split index), the step  *)
(* after the last snapshot must empty the stack, and Finish must produce   *)
(* the returned index list.  Many traces per run: (tid, l) walk through    *)
(* Cases; a trace the machine cannot follow prints one VERDICT line.       *)
(* A behaviour-preserving rewrite of the loop (recursion, another stack    *)
(* discipline) legitimately leaves this machine - hence notes, never a     *)
(* violation of a listed property.                                         *)
(***************************************************************************)
EXTENDS Rdp, Json, IOUtils

Cases == JsonDeserialize(IOEnv.CASES_FILE)
VARIABLES tid, l
tvars == <<n, stack, reduced, removed, acc, spl, steps, pc, tid, l>>

Ev == Cases[tid].events
Load(k) == /\ n' = Cases[k].n /\ stack' = << <<0, Cases[k].n>> >>
           /\ reduced' = <<>> /\ removed' = <<>> /\ acc' = Empty /\ spl' = Empty
           /\ steps' = 0 /\ pc' = "run" /\ tid' = k /\ l' = 1

TInit == /\ n = Cases[1].n /\ stack = << <<0, Cases[1].n>> >>
         /\ reduced = <<>> /\ removed = <<>> /\ acc = Empty /\ spl = Empty
         /\ steps = 0 /\ pc = "run" /\ tid = 1 /\ l = 1

\* one logged loop iteration: a machine step that lands on the logged snapshot
MatchStep == /\ pc = "run" /\ l <= Len(Ev)
             /\ (RdpAccept \/ RdpSplit)
             /\ stack' = Ev[l].stack /\ Len(reduced') = Ev[l].nred
             /\ l' = l + 1 /\ tid' = tid
\* the iteration after the last back-edge: the loop ends, so it must have emptied the stack
LastStep == /\ pc = "run" /\ l = Len(Ev) + 1 /\ stack # <<>>
            /\ RdpAccept /\ stack' = <<>>
            /\ UNCHANGED <<tid, l>>
\* `reduced.append(len(points)-1); return`: the machine's result is the returned list
FinishStep == /\ pc = "run" /\ l = Len(Ev) + 1 /\ stack = <<>>
              /\ Finish /\ reduced' = Cases[tid].final
              /\ UNCHANGED <<tid, l>>
Step == MatchStep \/ LastStep \/ FinishStep

Advance == IF tid < Len(Cases) THEN Load(tid + 1)
           ELSE /\ PrintT(<<"DONE", Len(Cases)>>) /\ pc' = "end"
                /\ UNCHANGED <<n, stack, reduced, removed, acc, spl, steps, tid, l>>
Accepted == pc = "done" /\ Advance
Rejected == /\ pc = "run" /\ ~ENABLED Step
            /\ PrintT(<<"VERDICT", Cases[tid].id, "no-machine-step", l, stack, IF l <= Len(Ev) THEN Ev[l].stack ELSE <<>>>>)
            /\ Advance
TNext == Step \/ Accepted \/ Rejected
TSpec == TInit /\ [][TNext]_tvars
=============================================================================
