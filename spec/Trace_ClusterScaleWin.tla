------------------------ MODULE Trace_ClusterScaleWin ------------------------
(* Binding T for the "many clusters" part of the scale family of C12: recorded calls of filter_clusters /
   filter_clusters_corners with 10^3 .. more than 65536 clusters (10^5 points, up to ~10^5 knees).  Full per-knee tables
   would be megabytes per call, so the recorder sends SPARSE tables: the three totals (K knees, ncl clusters, R returned
   indices) and a few hundred WINDOWS, one per sampled cluster c:
       knees  all members of cluster c (ascending curve indices),   score  their score ranks (-1 throughout: not ranked),
       lo/hi  the nearest knee below / above the cluster (-2^30 / 2^30: none), so that the only knees in the open interval
              (lo, hi) are the members of c,
       res    every returned index v with lo < v < hi, in order of appearance,   prev/next  the returned index just before the
              first / just after the last of them (-2^30 / 2^30: none),   hullSpan  a lower-hull point lies in the index span.
   plus  pairs   sampled adjacent pairs <<result[j], result[j+1]>>   and   strays  returned indices v with the adjacent knees
   below < v < above (so v is no knee).  The recorder steers the sample towards the places the result makes suspicious (first
   clusters whose span holds a number of returned indices other than one, first descent, first strays); the steering only
   decides where this module looks, the judgement is made here.

   Per window the clauses are those of ClusterProps restricted to one cluster: every returned index inside (lo, hi) is a member
   and they ascend (increasing-subset); there is exactly one (one-per-cluster; at most one in hull mode, and none unless
   hullSpan); it carries the maximal score rank (best-in-cluster / corner-best).  Over the whole call: R = ncl.
   The module is cross-checked against Trace_ClusterScale (full tables) on every such case that is small enough. *)
EXTENDS Naturals, Integers, Sequences, TLC, Json, IOUtils
Cases == JsonDeserialize(IOEnv.CASES_FILE)
VARIABLE i

Inc(s) == \A j \in 1..(Len(s) - 1) : s[j] < s[j + 1]
In(v, s) == \E o \in 1..Len(s) : s[o] = v
W(c) == Len(c.wins)

WinWF(c, w) ==
    /\ w.c \in 0..(c.ncl - 1)
    /\ Len(w.knees) >= 1 /\ Len(w.score) = Len(w.knees)
    /\ Inc(w.knees) /\ w.lo < w.knees[1] /\ w.knees[Len(w.knees)] < w.hi
    /\ \/ \A o \in 1..Len(w.score) : w.score[o] >= 0
       \/ \A o \in 1..Len(w.score) : w.score[o] = -1
    /\ \A j \in 1..Len(w.res) : w.lo < w.res[j] /\ w.res[j] < w.hi

WellFormed(c) ==
    /\ c.ncl >= 1 /\ c.K >= c.ncl /\ c.R >= 0
    /\ \A k \in 1..W(c) : WinWF(c, c.wins[k])
    /\ \A k \in 1..Len(c.pairs) : Len(c.pairs[k]) = 2
    /\ \A k \in 1..Len(c.strays) : c.strays[k].below < c.strays[k].v /\ c.strays[k].v < c.strays[k].above

WSubset(w) ==
    /\ \A j \in 1..Len(w.res) : In(w.res[j], w.knees)
    /\ Inc(w.res)
    /\ (Len(w.res) > 0 => (w.prev < w.res[1] /\ w.res[Len(w.res)] < w.next))

SubsetOk(c) ==
    /\ Len(c.strays) = 0
    /\ \A k \in 1..Len(c.pairs) : c.pairs[k][1] < c.pairs[k][2]
    /\ \A k \in 1..W(c) : WSubset(c.wins[k])

\* some member beats the kept one (clusters with undefined scores are marked -1 throughout)
Beaten(w) == LET ko == CHOOSE o \in 1..Len(w.knees) : w.knees[o] = w.res[1]
             IN \E o \in 1..Len(w.knees) : w.score[o] >= 0 /\ w.score[o] > w.score[ko]

Ranked(c) ==
    IF ~SubsetOk(c) THEN <<"increasing-subset", c.R, Len(c.strays)>>
    ELSE IF c.R # c.ncl THEN <<"one-per-cluster", c.R, c.ncl>>
    ELSE IF \E k \in 1..W(c) : Len(c.wins[k].res) # 1
         THEN LET k == CHOOSE k \in 1..W(c) : Len(c.wins[k].res) # 1
              IN <<"one-per-cluster", c.R, c.ncl, "cluster", c.wins[k].c, "kept", Len(c.wins[k].res)>>
    ELSE IF \E k \in 1..W(c) : Beaten(c.wins[k])
         THEN LET k == CHOOSE k \in 1..W(c) : Beaten(c.wins[k])
              IN <<(IF c.mode = "corner" THEN "corner-best" ELSE "best-in-cluster"),
                   "cluster", c.wins[k].c, "kept", c.wins[k].res[1], "members", c.wins[k].knees>>
    ELSE <<"ok">>

Hull(c) ==
    IF ~SubsetOk(c) THEN <<"increasing-subset", c.R, Len(c.strays)>>
    ELSE IF c.R > c.ncl THEN <<"hull-at-most-one", c.R, c.ncl>>
    ELSE IF \E k \in 1..W(c) : Len(c.wins[k].res) > 1
         THEN LET k == CHOOSE k \in 1..W(c) : Len(c.wins[k].res) > 1
              IN <<"hull-at-most-one", "cluster", c.wins[k].c, c.wins[k].res>>
    ELSE IF \E k \in 1..W(c) : Len(c.wins[k].res) = 1 /\ ~c.wins[k].hullSpan
         THEN LET k == CHOOSE k \in 1..W(c) : Len(c.wins[k].res) = 1 /\ ~c.wins[k].hullSpan
              IN <<"hull-unrepresented-cluster", "cluster", c.wins[k].c, "kept", c.wins[k].res[1]>>
    ELSE <<"ok">>

Verdict(c) ==
    IF c.outcome # "returned" THEN <<"completes", c.outcome>>
    ELSE IF ~WellFormed(c) THEN <<"malformed", c.K, c.R>>
    ELSE IF c.mode = "hull" THEN Hull(c) ELSE Ranked(c)

Init == i = 1
Next == /\ i <= Len(Cases)
        /\ LET v == Verdict(Cases[i]) IN IF v[1] = "ok" THEN TRUE ELSE PrintT(<<"VERDICT", Cases[i].id>> \o v)
        /\ i' = i + 1
        /\ IF i = Len(Cases) THEN PrintT(<<"DONE", Len(Cases)>>) ELSE TRUE
Spec == Init /\ [][Next]_i
=============================================================================
