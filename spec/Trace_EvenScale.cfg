SPECIFICATION Spec
