SPECIFICATION Spec
