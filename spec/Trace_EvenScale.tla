-------------------------- MODULE Trace_EvenScale --------------------------
(***************************************************************************)
(* Binding T for C14 on production-size curves (10^2 .. 10^5 points).      *)
(* Trace_Filters needs the height rank of EVERY point (a sequence of       *)
(* length n per case); here the tables are SPARSE:                         *)
(*   idx   ascending original indices the case mentions (documented union  *)
(*         and every valid returned index)                                 *)
(*   hr    exact dense height ranks of those points, aligned with idx      *)
(*   gaps  <<a, b, wide, high, m>> for the consecutive marker pairs that   *)
(*         are wide or high (exact classes, m = ceil(W/(2 tx)), 0 when not *)
(*         wide); pairs that are neither are omitted - they never count    *)
(*   kmap  knees as original indices, extremes, n, out (returned array)    *)
(* The documented union is rebuilt here with Filters!EvenUnion from the    *)
(* gap table; the running-minimum filter runs over POSITIONS in idx (the   *)
(* order of positions is the order of indices), as one left fold; on       *)
(* short unions the fold is compared with the declarative Filters!RunMin.  *)
(* A table that does not cover the union / the returned indices, or a fold *)
(* that disagrees with RunMin, is a TABLE verdict (machinery, not a        *)
(* violation).                                                             *)
(***************************************************************************)
EXTENDS Filters, TLC, Json, IOUtils

Cases == JsonDeserialize(IOEnv.CASES_FILE)
VARIABLE i

\* K ascending 0-based positions, h[p+1] the rank at position p: positions kept by the running minimum (ties kept)
RunMinFold(h, K) ==
    FoldLeft(LAMBDA acc, k : IF acc.first \/ h[k+1] <= acc.m
                             THEN [keep |-> Append(acc.keep, k), m |-> h[k+1], first |-> FALSE]
                             ELSE acc,
             [keep |-> <<>>, m |-> 0, first |-> TRUE], K).keep

\* the same set as one enumerated value (membership is then a binary search, not a walk over thousands of segment sets)
Flat(S) == LET s == SetToSeq(S) IN {s[j] : j \in 1..Len(s)}

Head8(s) == SubSeq(s, 1, IF Len(s) < 8 THEN Len(s) ELSE 8)
\* what a reader needs from two long arrays: lengths, first missing / unexpected indices
Diff(out, exp) == <<Len(out), Len(exp), Head8(SortedSeqOf(Range(exp) \ Range(out))),
                    Head8(SortedSeqOf(Range(out) \ Range(exp)))>>

ScaleVerdicts(c) ==
    IF c.raised # "" THEN << <<"completes", c.raised>> >>
    ELSE
    LET n == c.n
        segs == {<<g[1], g[2], g[5]>> : g \in {g \in Range(c.gaps) : g[3] /\ g[4]}}
        union == Flat(EvenUnion(n, c.kmap, segs, c.extremes))
        valid == \A j \in 1..Len(c.out) : c.out[j] >= 0 /\ c.out[j] < n
    IN  IF ~valid \/ ~StrictlyIncreasing(c.out)
        THEN << <<"valid-indices", Len(c.out), Head8(SortedSeqOf({k \in Range(c.out) : k < 0 \/ k >= n}))>> >>
        ELSE
        LET known == Range(c.idx)
            tableOK == /\ StrictlyIncreasing(c.idx) /\ Len(c.hr) = Len(c.idx)
                       /\ union \subseteq known /\ Range(c.out) \subseteq known
        IN  IF ~tableOK THEN << <<"TABLE", "idx does not cover the union and the returned indices">> >>
            ELSE
            LET K == SelectSeq([p \in 1..Len(c.idx) |-> p - 1], LAMBDA q : c.idx[q+1] \in union)   \* ascending positions
                kept == RunMinFold(c.hr, K)
                exp == [j \in 1..Len(kept) |-> c.idx[kept[j]+1]]
            IN  IF Len(K) <= 48 /\ kept # RunMin(c.hr, K) THEN << <<"TABLE", "fold differs from RunMin">> >>
                ELSE IF c.out = exp THEN <<>>
                ELSE IF c.extremes /\ ({0, n-1} \cap Range(exp)) \ Range(c.out) # {}
                     THEN << <<"extremes-included">> \o Diff(c.out, exp) >>
                ELSE IF Range(c.out) \subseteq union /\ Range(exp) \subseteq Range(c.out)
                     THEN << <<"height-filtered">> \o Diff(c.out, exp) >>
                ELSE << <<"equals-documented-set">> \o Diff(c.out, exp) >>

Init == i = 1
Next == /\ i <= Len(Cases)
        /\ LET vs == ScaleVerdicts(Cases[i])
           IN \A k \in 1..Len(vs) : PrintT(<<"VERDICT", Cases[i].id>> \o vs[k])
        /\ i' = i + 1
        /\ IF i = Len(Cases) THEN PrintT(<<"DONE", Len(Cases)>>) ELSE TRUE
Spec == Init /\ [][Next]_i
=============================================================================
