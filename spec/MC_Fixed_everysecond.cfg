SPECIFICATION Spec
CONSTANTS N = 5
          PrioMax = 1
          CostMax = 2
          Modes = {"fixed", "grdp", "mp", "minpoint"}
          Buggy = FALSE
          EverySecond = TRUE
INVARIANT TestedEvery
