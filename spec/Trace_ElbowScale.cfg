SPECIFICATION Spec
