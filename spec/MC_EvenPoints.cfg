SPECIFICATION Spec
CONSTANTS Grids = {8}
          MaxRet = 3
          MaxRet16 = 3
          MaxKnees = 2
          Stairs = FALSE
          Emit = FALSE
INVARIANT EvenLaws
INVARIANT SegLaws
INVARIANT OperatorsAgree
