SPECIFICATION Spec
