SPECIFICATION Spec
