--------------------------- MODULE Trace_ZMethod ---------------------------
(***************************************************************************)
(* Binding T for C10.                                                      *)
(*                                                                         *)
(* Spec (Trace_ZMethod.cfg): one recorded call of zmethod.knees per case,  *)
(* judged against the PROPERTY-level operator ZClause of ZMethod.tla and   *)
(* the round bound proved in MC_ZMethod.  Case fields:                     *)
(*   outcome  "returned" | "raised:<T>" | "budget" | "watchdog"            *)
(*   n        number of points            res   returned indices (ints)    *)
(*   xk, hk   integer x / height rank of the returned knees (by position)  *)
(*   w        max(1, floor(x_max*dx))     ysep  |y_a-y_b| >= range*dy table *)
(*   steps    back-edges of the main loop                                  *)
(*   limit    ceil((3 - z_min)/dz) + n + 2 (+ slack), computed by harness  *)
(*                                                                         *)
(* DriftSpec (Trace_ZMethod_drift.cfg): replays the implementation-shaped  *)
(* round machine on recorded tables and prints every result it can         *)
(* produce (more than one only when group z-scores tie exactly).  Used for *)
(* DRIFT notes only, never for verdicts.                                   *)
(***************************************************************************)
EXTENDS ZMethod, Json, IOUtils

Cases == JsonDeserialize(IOEnv.CASES_FILE)
VARIABLE i

Verdict(c) ==
    IF c.outcome \in {"budget", "watchdog"} THEN <<"terminates", c.outcome, c.steps>>
    ELSE IF c.outcome # "returned" THEN <<"returns", c.outcome>>
    ELSE LET cl == ZClause(c.res, c.n, c.xk, c.hk, c.w, c.ysep)
         IN IF cl # "ok" THEN <<cl, c.res, c.xk, c.hk, c.w>>
            ELSE IF c.steps > c.limit THEN <<"step-bound", c.steps, c.limit>>
            ELSE <<"ok">>

\* the machine's variables are not used while judging
Idle == /\ n = 0 /\ xs = <<>> /\ hr = <<>> /\ w = 1 /\ yb = -1 /\ ytab = <<>> /\ zkey = <<>>
        /\ zgiven = [on |-> FALSE] /\ early = FALSE /\ zl = Empty /\ stopLevel = -1
        /\ remaining = {} /\ selected = {} /\ round = 0 /\ added = 0 /\ todo = {} /\ result = <<>>

Init == i = 1 /\ Idle /\ pc = "idle"
Judge == /\ i <= Len(Cases)
         /\ LET v == Verdict(Cases[i]) IN IF v[1] = "ok" THEN TRUE ELSE PrintT(<<"VERDICT", Cases[i].id>> \o v)
         /\ i' = i + 1
         /\ IF i = Len(Cases) THEN PrintT(<<"DONE", Len(Cases)>>) ELSE TRUE
         /\ UNCHANGED vars
Spec == Init /\ [][Judge]_<<i, vars>>

(* ---- replay of the implementation-shaped machine ----------------------- *)
\* case fields: n, x, hr, w, ysel, ykeep (n x n tables), zl (levels), stop, zkey, early
Load(c) ==
    /\ n' = c.n /\ w' = c.w /\ yb' = -1 /\ early' = c.early
    /\ xs' = [p \in 0..(c.n - 1) |-> c.x[p + 1]]
    /\ hr' = [p \in 0..(c.n - 1) |-> c.hr[p + 1]]
    /\ zkey' = [p \in 0..(c.n - 1) |-> c.zkey[p + 1]]
    /\ ytab' = [sel |-> c.ysel, keep |-> c.ykeep]
    /\ zgiven' = [on |-> TRUE, lv |-> [p \in 0..(c.n - 1) |-> c.zl[p + 1]], stop |-> c.stop]
    /\ zl' = Empty /\ stopLevel' = -1
    /\ remaining' = 0..(c.n - 1) /\ selected' = {} /\ round' = 0 /\ added' = 0 /\ todo' = {}
    /\ result' = <<>>
    /\ pc' = IF c.n < 4 \/ c.early THEN "early" ELSE "round"

DriftInit == i = 0 /\ Idle /\ pc = "idle"
LoadNext == /\ pc = "idle" /\ i < Len(Cases)
            /\ i' = i + 1 /\ Load(Cases[i + 1])
Emit == /\ pc = "done"
        /\ PrintT(ToJson([id |-> Cases[i].id, result |-> result]))
        /\ pc' = "idle"
        /\ UNCHANGED <<i, input, zl, stopLevel, remaining, selected, round, added, todo, result>>
Run == Next /\ i' = i
DriftSpec == DriftInit /\ [][LoadNext \/ Emit \/ Run]_<<i, vars>>
=============================================================================
