SPECIFICATION Spec
CONSTANTS ZMax = 2
          NoYGuard = FALSE
          XBandLeftOpen = FALSE
          NMin = 4
          N = 4
          GapMax = 2
          HMax = 1
          WMax = 2
          HBMin = 1
          HBMax = 1
INVARIANT ResultOk
INVARIANT SelectedSeparated
INVARIANT RemainingOutside
INVARIANT RoundBound
PROPERTY Terminates
