SPECIFICATION Spec
CONSTANTS NMax = 6
          YMax = 4
          Emit = TRUE
INVARIANT KneeInterior
INVARIANT KneeIsAPeak
INVARIANT NoPeakOnALine
