SPECIFICATION Spec
CONSTANTS NMax = 3
          VMax = 3
          XMax = 3
          LVMax = 2
          BMax = 3
          FMax = 3
INVARIANT PairLaws
INVARIANT LineLaws
INVARIANT FitLaws
