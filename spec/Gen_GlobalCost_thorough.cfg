SPECIFICATION Spec
CONSTANTS N = 6
          MaxQueries = 2
          Metrics = {"r2", "rmspe", "rmsle", "rpd", "smape"}
          KeyMode = "pair"
          SwitchMetric = FALSE
          Emit = TRUE
INVARIANT CacheSound
INVARIANT CacheDomain
INVARIANT PerfectFit
INVARIANT DivisorOk
