SPECIFICATION Spec
CONSTANTS G = 4
          VMax = 4
          VLen = 4
INVARIANT SegLaws
INVARIANT RectLaws
INVARIANT TriLaws
INVARIANT RankLaws
