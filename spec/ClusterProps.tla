---------------------------- MODULE ClusterProps ----------------------------
(* Property-level operators of C12 (no variables).  knees: ascending index sequence; lab: cluster label per
   knee (contiguous runs 0,0,1,1,1,2...); score[j]: noise-merged rank of the ranking score of knee j WITHIN its
   cluster (-1 = undefined/NaN: that cluster is judged structurally only); hullSpan[c+1]: does the index span of
   cluster c contain a lower-hull point; result: the filter's output. *)
EXTENDS Naturals, Integers, Sequences, FiniteSets

InSeq(x, s) == \E j \in 1..Len(s) : s[j] = x
Members(lab, c) == {j \in 1..Len(lab) : lab[j] = c}
NClusters(lab) == IF lab = <<>> THEN 0 ELSE lab[Len(lab)] + 1
Kept(knees, result, lab, c) == {j \in Members(lab, c) : InSeq(knees[j], result)}
StrictInc(s) == \A j \in 1..(Len(s) - 1) : s[j] < s[j + 1]
IsSubset(knees, result) == \A j \in 1..Len(result) : InSeq(result[j], knees)

\* left / linear / right ranking and the corner variant
RankedClause(knees, lab, score, result) ==
    IF ~StrictInc(result) \/ ~IsSubset(knees, result) THEN "increasing-subset"
    ELSE IF \E c \in 0..(NClusters(lab) - 1) : Cardinality(Kept(knees, result, lab, c)) # 1 THEN "one-per-cluster"
    ELSE IF \E c \in 0..(NClusters(lab) - 1) :
              /\ Cardinality(Members(lab, c)) > 1
              /\ \A j \in Members(lab, c) : score[j] >= 0
              /\ \E j \in Kept(knees, result, lab, c), o \in Members(lab, c) : score[o] > score[j]
         THEN "best-in-cluster"
    ELSE "ok"

HullClause(knees, lab, hullSpan, result) ==
    IF ~StrictInc(result) \/ ~IsSubset(knees, result) THEN "increasing-subset"
    ELSE IF \E c \in 0..(NClusters(lab) - 1) : Cardinality(Kept(knees, result, lab, c)) > 1 THEN "hull-at-most-one"
    ELSE IF \E c \in 0..(NClusters(lab) - 1) : ~hullSpan[c + 1] /\ Kept(knees, result, lab, c) # {}
         THEN "hull-unrepresented-cluster"
    ELSE "ok"
=============================================================================
