SPECIFICATION Spec
CONSTANTS CmN = {3, 5}
          CmESmall = 3
          CmEBig = 2
          CmKMax = 4
          ErrN = {3, 5}
          YMax = 2
          ErrKMax = 3
          ErrEMax = 2
          ErrEYAll = FALSE
          Variant = "ok"
          Emit = TRUE
INVARIANT Quantifier
INVARIANT CmIdentities
INVARIANT CmGreedyCount
INVARIANT OneToOne
INVARIANT ScoreRange
INVARIANT ScorePerfect
INVARIANT ErrNonNegative
INVARIANT ZeroOnPerfect
INVARIANT ZeroOnlyIfCovered
INVARIANT StrategySides
INVARIANT MatchIsNearest
