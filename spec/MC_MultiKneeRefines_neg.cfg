SPECIFICATION Spec
CONSTANTS N = 5
          T2s = {2, 3}
          KMayBeLast = TRUE
          AllCurved = FALSE
          Emit = FALSE
INVARIANT AbsInv
