SPECIFICATION Spec
CONSTANTS N = 7
          Buggy = FALSE
INVARIANT StepBound
INVARIANT WellFormed
INVARIANT OutputExplainable
PROPERTY Terminates
PROPERTY ChildrenShrink
