SPECIFICATION Spec
