-------------------------- MODULE Trace_Pipeline --------------------------
(***************************************************************************)
(* Binding T for C08: one case = one run of the demo composition; one      *)
(* event per public call (stage name, outcome, output).  The history is    *)
(* consumed stage by stage; state = the previous stage's knee list and the *)
(* space it lives in.  Invariants are evaluated after EVERY event.         *)
(***************************************************************************)
EXTENDS PipelineProps, TLC, Json, IOUtils
Cases == JsonDeserialize(IOEnv.CASES_FILE)
VARIABLES i, e, prev
vars == <<i, e, prev>>

\* c.order: the stage sequence of this pipeline (the demo composition by default; the Z-method and "fusion" demo variants
\* skip or replace stages); c.detmax: largest position the detection stage may return (r-2 for multi_knee)
EventClause(c, k, ev, pv) ==
    IF k > Len(c.order) \/ ev.stage # c.order[k] THEN <<"stage-completes", "unexpected stage", ev.stage>>
    ELSE IF ev.outcome # "returned" THEN <<"stage-completes", ev.stage, ev.outcome>>
    ELSE IF ev.stage = "simplify" THEN
        (IF Len(ev.out) >= 2 /\ StrictInc(ev.out) /\ ev.out[1] = 0 /\ ev.out[Len(ev.out)] = c.n - 1
         THEN <<"ok">> ELSE <<"stage-completes", "simplify", "not a reduction">>)
    ELSE IF ev.stage = "detect" THEN
        (IF StrictInc(ev.out) /\ \A j \in 1..Len(ev.out) : ev.out[j] >= 0 /\ ev.out[j] <= c.detmax
         THEN <<"ok">> ELSE <<"stage-completes", "detect", "not a knee list of the reduced curve", ev.out>>)
    ELSE IF ev.stage \in {"worst", "corner", "cluster"} THEN
        (IF ~IsSubseq(ev.out, pv) THEN <<"filter-subsequence", ev.stage, pv, ev.out>>
         ELSE IF ~HeightsMonotone(ev.out, c.hred) THEN <<"heights-monotone", ev.stage, ev.out>>
         ELSE <<"ok">>)
    ELSE \* map: pv are reduced-space knees, ev.out original indices
        IF Len(ev.out) # Len(pv) THEN <<"mapped-is-retained-point", "length", pv, ev.out>>
        ELSE IF ~StrictInc(ev.out) THEN <<"mapped-increasing", ev.out>>
        ELSE IF \E j \in 1..Len(pv) : ev.out[j] # c.reduced[pv[j] + 1] THEN <<"mapped-is-retained-point", pv, ev.out>>
        ELSE IF \E j \in 1..Len(ev.same) : ~ev.same[j] THEN <<"mapped-same-coordinates", ev.out>>
        ELSE IF ~HeightsMonotone(ev.out, c.horig) THEN <<"heights-monotone", "map", ev.out>>
        ELSE <<"ok">>

Init == i = 1 /\ e = 1 /\ prev = <<>>
Consume ==
    /\ i <= Len(Cases) /\ e <= Len(Cases[i].events)
    /\ LET c == Cases[i]  ev == c.events[e]  v == EventClause(c, e, ev, prev)
       IN /\ IF v[1] = "ok" THEN TRUE ELSE PrintT(<<"VERDICT", c.id>> \o v)
          /\ prev' = IF ev.outcome = "returned" /\ ev.stage # "simplify" THEN ev.out ELSE <<>>
    /\ e' = e + 1 /\ i' = i
NextCase ==
    /\ i <= Len(Cases) /\ e > Len(Cases[i].events)
    /\ i' = i + 1 /\ e' = 1 /\ prev' = <<>>
    /\ IF i = Len(Cases) THEN PrintT(<<"DONE", Len(Cases)>>) ELSE TRUE
Next == Consume \/ NextCase
Spec == Init /\ [][Next]_vars
=============================================================================
