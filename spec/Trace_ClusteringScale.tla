---------------------- MODULE Trace_ClusteringScale ----------------------
(***************************************************************************)
(* Binding T for C11 at production size (10^3 .. 10^5 points, up to 10^5   *)
(* clusters): the table-driven judge of Clustering.tla (TableClause) walks *)
(* MembersOf / tab[s][k] for every point and cannot take such cases, so    *)
(* the harness reduces a recorded label vector to ONE small code per point *)
(* k = 2..n, along the path the result itself takes:                       *)
(*     code = 4 * step + dec                                               *)
(*     step  0  label[k] = label[k-1]       (point k joins the cluster)    *)
(*           1  label[k] = label[k-1] + 1   (point k starts a cluster)     *)
(*           2  anything else                                              *)
(*     dec   the SPARSE decision table: the entry tab[s][k] for the start  *)
(*           s of the cluster the result put point k-1 in, from exact      *)
(*           integer arithmetic on the float x values                      *)
(*           1 merge (distance/range < t), 2 split (>= t), 3 near (within  *)
(*           rounding noise of t: either side allowed)                     *)
(* and run-length encodes the code sequence: run r has code codes[r] and   *)
(* covers the points FirstPoint(r)..ends[r] (ends is omitted when every    *)
(* run has length 1: run r is then point r+1).  The clauses and their      *)
(* order are those of TableClause: one-label-per-point, labels-start-at-0, *)
(* contiguous, rule(<linkage>); kind "mono" is MonoClause of Clustering.   *)
(* Floats never enter TLC.                                                 *)
(***************************************************************************)
EXTENDS Sequences, Integers, TLC, Json, IOUtils

\* only the pure operators of Clustering are used: its constants and variables are bound to dummies
C == INSTANCE Clustering WITH G <- 0, NMax <- 0, Dens <- {}, Links <- {}, Variant <- "ok", Emit <- FALSE,
                              xs <- <<>>, t <- <<1, 1>>, link <- "", i <- 0, labels <- <<>>, prev <- 0,
                              anchor <- 0, cen <- <<0, 1>>, size <- 0, win <- 0, pc <- ""

Cases == JsonDeserialize(IOEnv.CASES_FILE)
VARIABLE ci

StepOf(cd) == cd \div 4
DecOf(cd)  == cd % 4
HasEnds(c) == "ends" \in DOMAIN c
Runs(c)    == 1..Len(c.codes)
\* 1-based index of the first / last point of run r (point 1 has no code: it is the first point of the first cluster)
FirstPoint(c, r) == IF HasEnds(c) THEN (IF r = 1 THEN 2 ELSE c.ends[r-1] + 1) ELSE r + 1
LastPoint(c, r)  == IF HasEnds(c) THEN c.ends[r] ELSE r + 1
\* the encoding covers exactly the points 2..n, with codes of the stated form
WellFormed(c) == /\ Len(c.codes) >= 1
                 /\ HasEnds(c) => Len(c.ends) = Len(c.codes)
                 /\ LastPoint(c, Len(c.codes)) = c.n
                 /\ \A r \in Runs(c) : /\ LastPoint(c, r) >= FirstPoint(c, r)
                                       /\ StepOf(c.codes[r]) \in 0..2 /\ DecOf(c.codes[r]) \in 1..3
BadStep(cd) == StepOf(cd) = 2
\* a sure split that was merged, or a sure merge that was split ("near" pins nothing)
BadRule(cd) == (DecOf(cd) = 2 /\ StepOf(cd) = 0) \/ (DecOf(cd) = 1 /\ StepOf(cd) = 1)

\* <<"ok">> or <<clause, 0-based index of the first offending point, ...>>
ScaleClause(c) ==
    IF c.len # c.n THEN <<"one-label-per-point", c.len, c.n>>
    ELSE IF c.first # 0 THEN <<"labels-start-at-0", c.first>>
    ELSE IF ~WellFormed(c) THEN <<"malformed-case">>
    ELSE IF \E r \in Runs(c) : BadStep(c.codes[r])
         THEN <<"contiguous", FirstPoint(c, CHOOSE r \in Runs(c) : BadStep(c.codes[r])) - 1>>
    ELSE IF \E r \in Runs(c) : BadRule(c.codes[r])
         THEN LET r == CHOOSE q \in Runs(c) : BadRule(c.codes[q])
              IN <<"rule(" \o c.link \o ")", FirstPoint(c, r) - 1, DecOf(c.codes[r]), LastPoint(c, r) - FirstPoint(c, r) + 1>>
    ELSE <<"ok">>

Verdict(c) == IF c.kind = "srule" THEN ScaleClause(c) ELSE C!MonoClause(c.counts)

Init == ci = 1
Next == /\ ci <= Len(Cases)
        /\ LET v == Verdict(Cases[ci]) IN IF v[1] = "ok" THEN TRUE ELSE PrintT(<<"VERDICT", Cases[ci].id>> \o v)
        /\ ci' = ci + 1
        /\ IF ci = Len(Cases) THEN PrintT(<<"DONE", Len(Cases)>>) ELSE TRUE
Spec == Init /\ [][Next]_ci
=============================================================================
