---------------------------- MODULE ClusterFilter ----------------------------
(***************************************************************************)
(* postprocessing.filter_clusters / filter_clusters_corners as a machine:  *)
(* one action per cluster of the per-cluster loop (C12).  Inputs are       *)
(* abstract: a contiguous labelling of m knees, a score rank per knee, and *)
(* for hull mode which knees are lower-hull points and how many hull       *)
(* points fall in each cluster's index span.                               *)
(***************************************************************************)
EXTENDS ClusterProps, SequencesExt, TLC
CONSTANTS M, ScoreMax, Modes, PickWorst
VARIABLES mode, lab, score, onHull, extraHull, ci, out, pc
vars == <<mode, lab, score, onHull, extraHull, ci, out, pc>>
\* knees are abstract positions 1..m standing for ascending indices 10, 20, ...
KneeIdx(m) == [j \in 1..m |-> 10 * j]

Labelings(m) == {l \in [1..m -> 0..(m - 1)] : l[1] = 0 /\ \A j \in 1..(m - 1) : l[j + 1] \in {l[j], l[j] + 1}}
Init == /\ mode \in Modes
        /\ \E m \in 2..M : /\ lab \in Labelings(m)
                           /\ score \in [1..m -> 0..ScoreMax]
                           /\ IF mode = "hull" THEN onHull \in [1..m -> BOOLEAN] ELSE onHull = [j \in 1..m |-> FALSE]
        \* hull points inside a cluster's span that are not knees (0 or 1 per cluster)
        /\ IF mode = "hull" THEN extraHull \in [0..(NClusters(lab) - 1) -> 0..1]
                            ELSE extraHull = [c \in 0..(NClusters(lab) - 1) |-> 0]
        /\ ci = 0 /\ out = <<>> /\ pc = "loop"

Mem == Members(lab, ci)
HullCount == Cardinality({j \in Mem : onHull[j]}) + extraHull[ci]
BestOf(S) == {j \in S : \A o \in S : score[o] <= score[j]}
WorstOf(S) == {j \in S : \A o \in S : score[o] >= score[j]}
Keep(j) == out' = Append(out, KneeIdx(Len(lab))[j])

\* len(current_cluster) == 1, ranked modes: kept;  hull mode: kept iff the knee is on the hull
Singleton == /\ pc = "loop" /\ ci < NClusters(lab) /\ Cardinality(Mem) = 1
             /\ LET j == CHOOSE j \in Mem : TRUE
                IN IF mode = "hull" /\ ~onHull[j] THEN out' = out ELSE Keep(j)
             /\ ci' = ci + 1 /\ UNCHANGED <<mode, lab, score, onHull, extraHull, pc>>
\* ranked modes: argmax of the relative ranking (any maximiser)
KeepBest == /\ pc = "loop" /\ ci < NClusters(lab) /\ Cardinality(Mem) > 1 /\ mode # "hull"
            /\ \E j \in (IF PickWorst THEN WorstOf(Mem) ELSE BestOf(Mem)) : Keep(j)
            /\ ci' = ci + 1 /\ UNCHANGED <<mode, lab, score, onHull, extraHull, pc>>
\* hull mode, multi-member cluster
HullSkip == /\ pc = "loop" /\ ci < NClusters(lab) /\ Cardinality(Mem) > 1 /\ mode = "hull" /\ HullCount = 0
            /\ out' = out /\ ci' = ci + 1 /\ UNCHANGED <<mode, lab, score, onHull, extraHull, pc>>
HullChoice == /\ pc = "loop" /\ ci < NClusters(lab) /\ Cardinality(Mem) > 1 /\ mode = "hull" /\ HullCount > 0
              /\ \E j \in (IF \E h \in Mem : onHull[h] THEN {h \in Mem : onHull[h]} ELSE Mem) : Keep(j)
              /\ ci' = ci + 1 /\ UNCHANGED <<mode, lab, score, onHull, extraHull, pc>>
Return == /\ pc = "loop" /\ ci >= NClusters(lab) /\ pc' = "done"
          /\ UNCHANGED <<mode, lab, score, onHull, extraHull, ci, out>>
Next == Singleton \/ KeepBest \/ HullSkip \/ HullChoice \/ Return
Spec == Init /\ [][Next]_vars /\ WF_vars(Next)

HullSpanOf == [c \in 1..NClusters(lab) |-> Cardinality({j \in Members(lab, c - 1) : onHull[j]}) + extraHull[c - 1] > 0]
ClusterOk == pc = "done" =>
    IF mode = "hull" THEN HullClause(KneeIdx(Len(lab)), lab, HullSpanOf, out) = "ok"
    ELSE RankedClause(KneeIdx(Len(lab)), lab, score, out) = "ok"
NeverEmptyRanked == (pc = "done" /\ mode # "hull") => out # <<>>
Terminates == <>(pc = "done")
=============================================================================
