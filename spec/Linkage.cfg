SPECIFICATION Spec
