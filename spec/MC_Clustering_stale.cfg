SPECIFICATION Spec
CONSTANTS G = 6
          NMax = 4
          Dens = {6}
          Links = {"single", "complete", "centroid", "average"}
          Variant = "stale"
          Emit = FALSE
INVARIANT RuleHolds
