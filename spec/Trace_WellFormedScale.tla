----------------------- MODULE Trace_WellFormedScale -----------------------
(***************************************************************************)
(* Binding T for C01 at production size: one recorded public call of a     *)
(* simplifier on a curve of 10^3 .. 10^5 points (deep one-sided            *)
(* refinements with hundreds to thousands of pending segments, plain long  *)
(* curves, results of up to several 10^4 retained indices).                *)
(*                                                                         *)
(* The clause is decided by the SAME operator that judges the small cases  *)
(* (WfVerdict of Trace_Simplify: outcome, linear step bound, integral      *)
(* table, WellFormedClause of SimplifyProps on the complete index list and *)
(* the complete removed table; none of these clauses needs an oracle).     *)
(* Only the DETAIL differs: WfVerdict echoes both lists, which for a       *)
(* result of 10^4 .. 10^5 entries is megabytes of TLC output; here the     *)
(* detail is the first offending position and the handful of numbers that  *)
(* show the breach.                                                        *)
(***************************************************************************)
EXTENDS Trace_Simplify

\* the first element of a set of naturals given by a filter over an interval (TLC enumerates it in increasing order)
First(J) == CHOOSE j \in J : TRUE

Where(S, R, n, cl) ==
    IF cl = "endpoints"
    THEN <<Len(S), (IF Len(S) > 0 THEN S[1] ELSE -1), (IF Len(S) > 0 THEN S[Len(S)] ELSE -1), n>>
    ELSE IF cl = "increasing"
    THEN LET j == First({h \in 1..(Len(S)-1) : S[h] >= S[h+1]}) IN <<j, S[j], S[j+1]>>
    ELSE IF cl = "removed-rows" THEN <<Len(R), Len(S) - 1>>
    ELSE IF cl = "removed-counts"
    THEN LET j == First({h \in 1..Len(R) : R[h] # <<S[h], S[h+1]-S[h]-1>>})
         IN <<j, R[j], S[j], S[j+1], Len(S), n>>
    ELSE <<Len(S), SeqSum([j \in 1..Len(R) |-> R[j][2]]), n>>          \* conservation

ScaleVerdict(c) ==
    LET v == WfVerdict(c)
    IN IF v[1] = "ok" THEN v
       ELSE IF c.outcome # "returned" \/ c.steps > StepLimit(c) \/ ~c.integral THEN v     \* short details already
       ELSE <<v[1]>> \o Where(c.reduced, c.removed, c.n, v[1])

ScaleNext == /\ i <= Len(Cases)
             /\ LET v == ScaleVerdict(Cases[i]) IN IF v[1] = "ok" THEN TRUE ELSE PrintT(<<"VERDICT", Cases[i].id>> \o v)
             /\ i' = i + 1
             /\ IF i = Len(Cases) THEN PrintT(<<"DONE", Len(Cases)>>) ELSE TRUE
ScaleSpec == Init /\ [][ScaleNext]_i
=============================================================================
