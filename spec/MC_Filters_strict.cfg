SPECIFICATION Spec
CONSTANTS NMax = 3
          FullN = 3
          YMax = 2
          Uneven = FALSE
          Variant = "strict"
          Emit = FALSE
INVARIANT MachineIsRunMin
