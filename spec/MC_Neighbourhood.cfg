SPECIFICATION Spec
CONSTANTS N = 9
          Modes = {"linear", "binary", "fast"}
INVARIANT Bracket
INVARIANT StepBound
INVARIANT LinearIsLeftmostRun
INVARIANT FastResultGood
PROPERTY Terminates
