SPECIFICATION Spec
CONSTANTS ZMax = 2
          NoYGuard = FALSE
          XBandLeftOpen = FALSE
          NMin = 5
          N = 5
          GapMax = 3
          HMax = 2
          WMax = 3
          HBMin = 1
          HBMax = 2
INVARIANT ResultOk
INVARIANT SelectedSeparated
INVARIANT RemainingOutside
INVARIANT RoundBound
