SPECIFICATION Spec
CONSTANTS NMax = 6
          FullN = 5
          YMax = 3
          Uneven = TRUE
          Variant = "ok"
          Emit = TRUE
INVARIANT MachineIsRunMin
INVARIANT HminIsPrefixMin
INVARIANT RunMinLaws
INVARIANT CornerLaws
INVARIANT Small32
