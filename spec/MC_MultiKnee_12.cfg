SPECIFICATION Spec
CONSTANTS N = 12
          T2s = {2, 3, 4}
          KMayBeLast = FALSE
          AllCurved = FALSE
          Emit = FALSE
INVARIANT PopBound
INVARIANT Sorted
INVARIANT InRange
INVARIANT Interior
INVARIANT Decomposition
INVARIANT EmptyGate
PROPERTY Terminates
