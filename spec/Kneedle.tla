------------------------------ MODULE Kneedle ------------------------------
(* Generator / model-checking instance for KneedleDefs: every integer curve with n <= NMax points (x spacings from
   three patterns, heights 0..YMax); laws of the definition as invariants; behaviours replayed into
   kneedle.knee(points, t=0) and kneedle.knees(points, t=0, p=All). *)
EXTENDS KneedleDefs, SequencesExt, TLC, Json
CONSTANTS NMax, YMax, Emit
Patterns == {<<1>>, <<1, 3>>, <<2, 1>>}
XOf(pat, n) == [k \in 1..n |-> IF k = 1 THEN 0 ELSE FoldLeft(LAMBDA u, w : u + w, 0, [g \in 1..(k - 1) |-> pat[((g - 1) % Len(pat)) + 1]])]
VARIABLE c
Init == \E n \in 3..NMax, pat \in Patterns : \E ys \in [1..n -> 0..YMax] :
          c = [pts |-> [k \in 1..n |-> <<XOf(pat, n)[k], ys[k]>>], st |-> "new"]
Emit1 == /\ c.st = "new"
         /\ Emit => PrintT(ToJson([pts |-> c.pts, knee |-> KneedleKnee(c.pts), ambKnee |-> AmbiguousKnee(c.pts),
                                   all |-> KneedleAll(c.pts), ambAll |-> AmbiguousAll(c.pts)]))
         /\ c' = [c EXCEPT !.st = "done"]
Next == Emit1
Spec == Init /\ [][Next]_c
\* laws: the knee is an interior index or None; it is one of the peaks; a strictly convex decreasing curve has at most ...
KneeInterior == KneedleKnee(c.pts) = -1 \/ (KneedleKnee(c.pts) >= 1 /\ KneedleKnee(c.pts) <= Len(c.pts) - 2)
KneeIsAPeak == KneedleKnee(c.pts) = -1 \/ KneedleKnee(c.pts) \in KneedleAll(c.pts)
NoPeakOnALine == (\A k \in 2..(Len(c.pts) - 1) :
                     (c.pts[k][2] - c.pts[1][2]) * (c.pts[Len(c.pts)][1] - c.pts[1][1]) =
                     (c.pts[Len(c.pts)][2] - c.pts[1][2]) * (c.pts[k][1] - c.pts[1][1])) => KneedleKnee(c.pts) = -1
=============================================================================
