SPECIFICATION Spec
