-------------------------------- MODULE Rdp --------------------------------
(***************************************************************************)
(* rdp.rdp (threshold RDP) as an implementation-shaped machine: an         *)
(* explicit work stack of half-open index ranges; one action per loop      *)
(* iteration.  The data-dependent decisions are oracles chosen lazily and  *)
(* memoised (so that they stay functions of the range): acc[<<l,r>>] - is  *)
(* the endpoint-line cost of points[l:r] on the accepting side of t - and  *)
(* spl[<<l,r>>] - the index the distance argmax returns.                   *)
(*   Buggy = FALSE : the split index is strictly interior (repaired code). *)
(*   Buggy = TRUE  : argmax over the whole distance vector may return an   *)
(*                   end point (the pinned tree's defect D1) - kept as a   *)
(*                   negative instance: TLC must find the lasso.           *)
(***************************************************************************)
EXTENDS SimplifyProps, TLC

CONSTANTS N, Buggy
VARIABLES n, stack, reduced, removed, acc, spl, steps, pc
vars == <<n, stack, reduced, removed, acc, spl, steps, pc>>

Empty == [x \in {} |-> TRUE]
Top == stack[Len(stack)]

Init == /\ n \in 2..N
        /\ stack = << <<0, n>> >>
        /\ reduced = <<>> /\ removed = <<>>
        /\ acc = Empty /\ spl = Empty
        /\ steps = 0 /\ pc = "run"

\* `else: reduced.append(left); removed.append([left, len(pt) - 2.0])`
RdpAccept ==
    /\ pc = "run" /\ stack # <<>>
    /\ LET l == Top[1]  r == Top[2]
       IN /\ \/ r - l <= 2                                        \* cost forced to the accepting side
             \/ r - l > 2 /\ Top \in DOMAIN acc /\ acc[Top]
             \/ r - l > 2 /\ Top \notin DOMAIN acc
          /\ acc' = IF r - l > 2 /\ Top \notin DOMAIN acc THEN (Top :> TRUE) @@ acc ELSE acc
          /\ reduced' = Append(reduced, l)
          /\ removed' = Append(removed, <<l, r - l - 2>>)
    /\ stack' = Front(stack)
    /\ steps' = steps + 1
    /\ UNCHANGED <<n, spl, pc>>

SplitChoices(l, r) == IF Buggy THEN l..(r-1) ELSE (l+1)..(r-2)

\* `if curved: index = argmax(d); stack.append((left+index, right)); stack.append((left, left+index+1))`
RdpSplit ==
    /\ pc = "run" /\ stack # <<>>
    /\ LET l == Top[1]  r == Top[2]
       IN /\ r - l > 2
          /\ \/ Top \in DOMAIN acc /\ ~acc[Top]
             \/ Top \notin DOMAIN acc
          /\ \E i \in (IF Top \in DOMAIN spl THEN {spl[Top]} ELSE SplitChoices(l, r)) :
               /\ spl' = IF Top \in DOMAIN spl THEN spl ELSE (Top :> i) @@ spl
               /\ stack' = Front(stack) \o << <<i, r>>, <<l, i + 1>> >>
          /\ acc' = IF Top \notin DOMAIN acc THEN (Top :> FALSE) @@ acc ELSE acc
    /\ steps' = steps + 1
    /\ UNCHANGED <<n, reduced, removed, pc>>

\* `reduced.append(len(points)-1); return`
Finish ==
    /\ pc = "run" /\ stack = <<>>
    /\ reduced' = Append(reduced, n - 1)
    /\ pc' = "done"
    /\ UNCHANGED <<n, stack, removed, acc, spl, steps>>

Next == RdpAccept \/ RdpSplit \/ Finish
Spec == Init /\ [][Next]_vars /\ WF_vars(Next)

(* ---- properties -------------------------------------------------------- *)
\* C01
Terminates == <>(pc = "done")
StepBound == steps <= RdpStepBound(n)
WellFormed == pc = "done" => WellFormedClause(reduced, removed, n) = "ok"
ChildrenShrink ==
    [][Len(stack') > Len(stack) =>
         LET par == stack[Len(stack)]
             c1 == stack'[Len(stack')]  c2 == stack'[Len(stack') - 1]
         IN c1[2] - c1[1] < par[2] - par[1] /\ c2[2] - c2[1] < par[2] - par[1]]_vars
\* C04: the machine's output is explainable by the recorded oracle (machine refines property)
ClsOf(S) == [p \in 1..Len(S) |-> [q \in 1..Len(S) |->
                LET key == <<S[p], S[q] + 1>>
                IN IF key \in DOMAIN acc THEN (IF acc[key] THEN "accept" ELSE "reject") ELSE "unvisited"]]
FarOf(S) == [p \in 1..Len(S) |-> [q \in 1..Len(S) |->
                LET key == <<S[p], S[q] + 1>> IN IF key \in DOMAIN spl THEN <<spl[key]>> ELSE <<>>]]
OutputExplainable == pc = "done" => Explainable(reduced, ClsOf(reduced), FarOf(reduced))
=============================================================================
