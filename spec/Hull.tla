-------------------------------- MODULE Hull --------------------------------
(***************************************************************************)
(* convex_hull.graham_scan_lower / graham_scan_upper (monotone chain over  *)
(* an x-sorted curve) and convex_hull.graham_scan (angular sort + scan) as *)
(* implementation-shaped machines, with the brute-force declarative hull   *)
(* they are checked against (C18).  One module is both the model-checking  *)
(* instance (M) and, with Emit = TRUE, the generator (G).                  *)
(***************************************************************************)
EXTENDS HullProps, TLC, Json

CONSTANTS NMax,      \* curves with 2..NMax points
          YMax,      \* heights 0..YMax
          GSide,     \* Graham: points on the (0..GSide)^2 grid
          SetMin, SetMax,   \* Graham: point sets of SetMin..SetMax points
          Modes,     \* subset of {"lower", "upper", "graham"} explored by this instance
          Guarded,   \* TRUE: the scan checks len(stack) > 1 before popping (the repaired code)
          Emit

VARIABLES mode,     \* "lower" | "upper" | "graham"
          pts,      \* the input array (sequence of points)
          srt,      \* graham: the sorted points;  chains: <<>>
          stack,    \* chain: sequence of indices (1-based);  graham: sequence of points
          i, pc
vars == <<mode, pts, srt, stack, i, pc>>

N == Len(pts)
Patterns == {<<1>>, <<1, 2>>, <<2, 1>>}     \* x-spacing patterns (gaps, cycled)
(* ---------------- machines ------------------------------------------- *)
XOf(pat, n) == [k \in 1..n |-> IF k = 1 THEN 0 ELSE FoldLeft(LAMBDA u, w : u + w, 0, [g \in 1..(k-1) |-> pat[((g-1) % Len(pat)) + 1]])]
Curves == UNION { { [k \in 1..n |-> <<XOf(pat, n)[k], ys[k]>>] : ys \in [1..n -> 0..YMax] } : n \in 2..NMax, pat \in Patterns }
PointSets == UNION { kSubset(m, (0..GSide) \X (0..GSide)) : m \in SetMin..SetMax }

Init ==
    /\ \/ /\ mode \in {"lower", "upper"} \cap Modes
          /\ pts \in Curves
          /\ srt = <<>> /\ stack = <<1, 2>> /\ i = 3 /\ pc = "scan"
       \/ /\ mode = "graham" /\ "graham" \in Modes
          /\ \E S \in PointSets : pts = SetToSeq(S)
          /\ srt = <<>> /\ stack = <<>> /\ i = 4 /\ pc = "sort"

Turn(k) == IF mode = "lower" THEN Cross(pts[stack[Len(stack)-1]], pts[stack[Len(stack)]], pts[k])
           ELSE Cross(pts[k], pts[stack[Len(stack)]], pts[stack[Len(stack)-1]])

\* `while len(stack) > 1 and _ccw(...) <= 0: stack.pop()`
ChainPop == /\ mode # "graham" /\ pc = "scan" /\ i <= N
            /\ Len(stack) > 1 /\ Turn(i) <= 0
            /\ stack' = Front(stack)
            /\ UNCHANGED <<mode, pts, srt, i, pc>>
ChainPush == /\ mode # "graham" /\ pc = "scan" /\ i <= N
             /\ ~(Len(stack) > 1 /\ Turn(i) <= 0)
             /\ stack' = Append(stack, i) /\ i' = i + 1
             /\ UNCHANGED <<mode, pts, srt, pc>>

\* _sort_points: pivot first, the rest by decreasing polar angle (clockwise), nearer first on ties
Before(p0, a, b) == LET o == Cross(p0, a, b) IN
                    IF o = 0 THEN Dist2(p0, b) >= Dist2(p0, a) ELSE o < 0
GrahamSort == /\ mode = "graham" /\ pc = "sort"
              /\ LET p0 == Pivot(Range(pts))
                     rest == SelectSeq(pts, LAMBDA q : q # p0)
                     s == <<p0>> \o SortSeq(rest, LAMBDA a, b : Before(p0, a, b))
                 IN /\ srt' = s
                    /\ stack' = <<s[1], s[2], s[3]>>
              /\ pc' = "scan"
              /\ UNCHANGED <<mode, pts, i>>
GTurn == Cross(stack[Len(stack)-1], stack[Len(stack)], srt[i])
GrahamPop == /\ mode = "graham" /\ pc = "scan" /\ i <= N
             /\ (Guarded => Len(stack) > 1)
             /\ IF Len(stack) > 1 THEN GTurn >= 0 ELSE TRUE      \* unguarded: popping below 2 = IndexError
             /\ IF Len(stack) > 1 THEN stack' = Front(stack) /\ pc' = pc
                                  ELSE stack' = stack /\ pc' = "underflow"
             /\ UNCHANGED <<mode, pts, srt, i>>
GrahamPush == /\ mode = "graham" /\ pc = "scan" /\ i <= N
              /\ Len(stack) > 1 /\ GTurn < 0
              /\ stack' = Append(stack, srt[i]) /\ i' = i + 1
              /\ UNCHANGED <<mode, pts, srt, pc>>
\* guarded scan with a single point left on the stack: the while condition is false, push
GrahamPushGuard == /\ mode = "graham" /\ pc = "scan" /\ i <= N
                   /\ Guarded /\ Len(stack) <= 1
                   /\ stack' = Append(stack, srt[i]) /\ i' = i + 1
                   /\ UNCHANGED <<mode, pts, srt, pc>>

IndexOfPoint(p) == CHOOSE k \in 1..N : pts[k] = p
Result == IF mode = "graham" THEN [k \in 1..Len(stack) |-> IndexOfPoint(stack[k]) - 1]
          ELSE [k \in 1..Len(stack) |-> stack[k] - 1]

Return == /\ pc = "scan" /\ i > N
          /\ pc' = "done"
          /\ Emit => PrintT(ToJson([mode |-> mode, pts |-> pts, result |-> Result,
                        general |-> (mode = "graham" /\ GeneralPosition(Range(pts))),
                        extreme |-> IF mode = "graham" THEN {IndexOfPoint(p) - 1 : p \in Extreme(Range(pts))} ELSE {},
                        boundary |-> IF mode = "graham" THEN {IndexOfPoint(p) - 1 : p \in BoundarySet(Range(pts))} ELSE {}]))
          /\ UNCHANGED <<mode, pts, srt, stack, i>>

Next == ChainPop \/ ChainPush \/ GrahamSort \/ GrahamPop \/ GrahamPush \/ GrahamPushGuard \/ Return
Spec == Init /\ [][Next]_vars /\ WF_vars(Next)

(* ---------------- properties ----------------------------------------- *)
ChainIsHull == (pc = "done" /\ mode = "lower") => (stack = LowerHull(pts) /\ ChainOk(pts, stack, 1))
UpperIsHull == (pc = "done" /\ mode = "upper") => (stack = UpperHull(pts) /\ ChainOk(pts, stack, -1))
NoUnderflow == pc # "underflow"
GrahamContainsExtremes == (pc = "done" /\ mode = "graham") => Extreme(Range(pts)) \subseteq Range(stack)
GrahamOnlyBoundary == (pc = "done" /\ mode = "graham") => Range(stack) \subseteq BoundarySet(Range(pts))
GrahamExact == (pc = "done" /\ mode = "graham" /\ GeneralPosition(Range(pts))) => stack = ClockwiseFromPivot(Range(pts))
GrahamNoDup == (pc = "done" /\ mode = "graham") => Cardinality(Range(stack)) = Len(stack)
Terminates == <>(pc \in {"done", "underflow"})
=============================================================================
