SPECIFICATION Spec
CONSTANTS N = 8
          MaxPerm = 4
          Emit = TRUE
INVARIANT MapsExactly
