SPECIFICATION Spec
CONSTANTS N = 8
          MaxPerm = 4
          Repeats = TRUE
          Emit = TRUE
INVARIANT MapsExactly
