----------------------- MODULE Trace_EvaluationScale -----------------------
(* Binding T for C19 at PRODUCTION SIZE (curves of 10^3 .. 10^5 points, hundreds to tens of thousands of knees and
   expected points): recorded calls of evaluation.cm and certified nearest-neighbour oracles for evaluation.mae / mse /
   rmse / rmspe, with SPARSE tables.  Nothing here is quadratic in the size of the call:

   kind "cm":  c.K = the knee abscissae (strictly increasing), c.EX = the abscissae of the expected points in call order,
     c.t = <<tn, td>> (the tolerance as a rational), c.cm = the matrix evaluation.cm returned, and the sparse table
     c.nk[m] = the claimed nearest knee (first index on ties) of expected point m.  The table is not trusted: because K
     is strictly increasing, |K[k] - px| is strictly V-shaped in k, so "left neighbour strictly farther, right neighbour
     not nearer" certifies the first global minimiser in O(1).  The greedy one-to-one count of the property is then
     walked one expected point per TLC step (variables j, claimed, tp) and compared with the returned matrix together
     with the accounting identities.

   kind "err": c.KP / c.E = the knee points and the expected points (integer coordinates), c.ordK / c.ordE = permutations
     that sort them by abscissa, and for both matching directions (c.mk: every knee point into E, c.me: every expected
     point into KP) rows <<i, mt, r, lo, hi>>: point i of the iterated side is matched with point mt of the other side,
     r = isqrt of their squared distance, lo..hi = the positions (in abscissa order) of the candidates whose |dx| <= r.
     A row is certified by: r is the integer square root; the candidates just outside the window are farther than r in x
     alone (hence so is everything beyond them); inside the window nothing is nearer and no candidate at the same
     distance has a smaller index (numpy argmin).  When the table is complete (c.*.full) the exact sums of |dx|+|dy| and
     of dx^2+dy^2 over the matching are recomputed in two limbs of 2^20 (TLC has 32-bit integers) and compared with the
     numerators the harness evaluates the definitions from; the side each of the four strategies iterates and the
     "E is exactly the knee points" flag are recomputed from the lengths / point sets.
     A rejected "err" case means the ORACLE is wrong (verdict "table"), which the harness treats as a machinery failure;
     the library's real-valued results are compared with the certified definition in the harness (floats never enter TLC). *)
EXTENDS Sequences, Integers, FiniteSets, SequencesExt, TLC, Json, IOUtils
Cases == JsonDeserialize(IOEnv.CASES_FILE)
VARIABLES ci, j, claimed, tp, bad

Abs(v) == IF v < 0 THEN -v ELSE v
B == 1048576

(* ---------------- kind "cm" ---------------- *)
KIncreasing(c) == \A k \in 1..(Len(c.K) - 1) : c.K[k] < c.K[k + 1]
NkOK(c, m) == LET k == c.nk[m]  px == c.EX[m]
              IN /\ k \in 1..Len(c.K)
                 /\ k > 1 => Abs(c.K[k - 1] - px) > Abs(c.K[k] - px)
                 /\ k < Len(c.K) => Abs(c.K[k + 1] - px) >= Abs(c.K[k] - px)
Within(c, m) == Abs(c.K[c.nk[m]] - c.EX[m]) * c.t[2] <= c.t[1] * (c.n - 1)       \* distance / range <= t
CmVerdict(c) ==
    IF bad # "" THEN <<"table", bad>>
    ELSE LET tpv == c.cm[1][1]  fpv == c.cm[1][2]  fnv == c.cm[2][1]  tnv == c.cm[2][2]
         IN IF tpv + fnv # Len(c.EX) \/ tpv + fpv # Len(c.K) \/ tpv + fpv + fnv + tnv # c.n
               \/ tpv < 0 \/ fpv < 0 \/ fnv < 0 \/ tnv < 0 THEN <<"cm-identities", c.cm>>
            ELSE IF tpv # tp THEN <<"cm-greedy-count", c.cm, tp>>
            ELSE <<"ok">>

(* ---------------- kind "err" ---------------- *)
D2(p, q) == (p[1] - q[1]) * (p[1] - q[1]) + (p[2] - q[2]) * (p[2] - q[2])
OrdOK(b, ord) == /\ Len(ord) = Len(b)
                 /\ {ord[w] : w \in 1..Len(ord)} = 1..Len(b)
                 /\ \A w \in 1..(Len(ord) - 1) : b[ord[w]][1] <= b[ord[w + 1]][1]
RowOK(a, b, ord, row) ==
    LET i == row[1]  mt == row[2]  r == row[3]  lo == row[4]  hi == row[5]
    IN /\ i \in 1..Len(a) /\ mt \in 1..Len(b) /\ r >= 0 /\ r <= 32767
       /\ 1 <= lo /\ lo <= hi /\ hi <= Len(b)
       /\ LET p == a[i]  r2 == D2(p, b[mt])
          IN /\ r * r <= r2 /\ r2 < (r + 1) * (r + 1)
             /\ lo > 1 => p[1] - b[ord[lo - 1]][1] > r
             /\ hi < Len(b) => b[ord[hi + 1]][1] - p[1] > r
             /\ \E w \in lo..hi : ord[w] = mt
             /\ \A w \in lo..hi :
                   LET m2 == ord[w]  q == b[m2]
                   IN \/ Abs(p[1] - q[1]) > r \/ Abs(p[2] - q[2]) > r            \* farther in one coordinate alone
                      \/ D2(p, q) > r2
                      \/ (D2(p, q) = r2 /\ m2 >= mt)
\* exact sums in two limbs <<q, r>> = q * 2^20 + r
AddL(acc, v) == LET s == acc[2] + (v % B) IN <<acc[1] + (v \div B) + (s \div B), s % B>>
SumsOK(a, b, tb) ==
    /\ Len(tb.rows) = Len(a)
    /\ \A k \in 1..Len(a) : tb.rows[k][1] = k
    /\ FoldLeft(LAMBDA acc, row : AddL(acc, Abs(a[row[1]][1] - b[row[2]][1]) + Abs(a[row[1]][2] - b[row[2]][2])),
                <<0, 0>>, tb.rows) = tb.mae
    /\ FoldLeft(LAMBDA acc, row : AddL(acc, D2(a[row[1]], b[row[2]])), <<0, 0>>, tb.rows) = tb.mse
TableOK(a, b, ord, tb) == /\ \A k \in 1..Len(tb.rows) : RowOK(a, b, ord, tb.rows[k])
                          /\ tb.full => SumsOK(a, b, tb)
SideOf(c, s) == CASE s = "knees"    -> "knees"
                  [] s = "expected" -> "expected"
                  [] s = "best"     -> IF Len(c.E) <= Len(c.KP) THEN "expected" ELSE "knees"
                  [] s = "worst"    -> IF Len(c.E) >= Len(c.KP) THEN "expected" ELSE "knees"
ErrVerdict(c) ==
    IF Len(c.KP) = 0 \/ Len(c.E) = 0 \/ Len(c.KP) + Len(c.E) > c.n THEN <<"table", "quantifier">>
    ELSE IF ~OrdOK(c.KP, c.ordK) \/ ~OrdOK(c.E, c.ordE) THEN <<"table", "order">>
    ELSE IF ~TableOK(c.KP, c.E, c.ordE, c.mk) THEN <<"table", "matching knees -> expected">>
    ELSE IF ~TableOK(c.E, c.KP, c.ordK, c.me) THEN <<"table", "matching expected -> knees">>
    ELSE IF \E s \in {"knees", "expected", "best", "worst"} : c.side[s] # SideOf(c, s) THEN <<"table", "side">>
    ELSE IF c.perfect # ({c.E[m] : m \in 1..Len(c.E)} = {c.KP[k] : k \in 1..Len(c.KP)}) THEN <<"table", "perfect">>
    ELSE <<"ok">>

(* ---------------- the walk ---------------- *)
Init == ci = 1 /\ j = 1 /\ claimed = {} /\ tp = 0 /\ bad = ""
Finish(v) == /\ IF v[1] = "ok" THEN TRUE ELSE PrintT(<<"VERDICT", Cases[ci].id>> \o v)
             /\ ci' = ci + 1 /\ j' = 1 /\ claimed' = {} /\ tp' = 0 /\ bad' = ""
             /\ IF ci = Len(Cases) THEN PrintT(<<"DONE", Len(Cases)>>) ELSE TRUE
Next == /\ ci <= Len(Cases)
        /\ LET c == Cases[ci]
           IN IF c.kind = "err" THEN Finish(ErrVerdict(c))
              ELSE IF c.outcome # "returned" THEN Finish(<<"returns", c.outcome>>)
              ELSE IF bad = "" /\ j = 1 /\ (~KIncreasing(c) \/ Len(c.nk) # Len(c.EX) \/ Len(c.K) = 0 \/ Len(c.EX) = 0
                                          \/ Len(c.K) + Len(c.EX) > c.n)
                   THEN bad' = "knees not increasing / table length / quantifier" /\ UNCHANGED <<ci, j, claimed, tp>>
              ELSE IF bad = "" /\ j <= Len(c.EX)
                   THEN IF ~NkOK(c, j) THEN bad' = "nearest knee" /\ UNCHANGED <<ci, j, claimed, tp>>
                        ELSE /\ IF Within(c, j) /\ c.nk[j] \notin claimed
                                   THEN claimed' = claimed \cup {c.nk[j]} /\ tp' = tp + 1
                                   ELSE UNCHANGED <<claimed, tp>>
                             /\ j' = j + 1 /\ UNCHANGED <<ci, bad>>
              ELSE Finish(CmVerdict(c))
Spec == Init /\ [][Next]_<<ci, j, claimed, tp, bad>>
=============================================================================
