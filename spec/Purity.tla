------------------------------ MODULE Purity ------------------------------
(***************************************************************************)
(* Dynamic half of C20 as a call-history specification.  One case = the    *)
(* history of calls of ONE public function on the same argument VALUES in  *)
(* different representations (C-ordered float64, the same objects again,   *)
(* Fortran-ordered, strided view, int64).  State: the value key and the    *)
(* result class of the first call.  Every call must leave the digests of   *)
(* its caller-visible argument objects unchanged and must return the       *)
(* result class of the first call.                                         *)
(***************************************************************************)
EXTENDS Naturals, Sequences, TLC, Json, IOUtils
Cases == JsonDeserialize(IOEnv.CASES_FILE)
VARIABLES i, e, first
vars == <<i, e, first>>

EventClause(c, ev, fst) ==
    IF ev.mutated # <<>> THEN <<"argument-mutated", c.fn, ev.variant, ev.mutated>>
    ELSE IF fst = "none" THEN <<"ok">>                                  \* the first call defines lastResult[f, valueKey]
    ELSE IF ev.resclass = fst THEN <<"ok">>
    ELSE IF ev.variant = "again" THEN <<"nondeterministic", c.fn, ev.resclass>>
    ELSE <<"layout-dependent", c.fn, ev.variant, ev.resclass>>

Init == i = 1 /\ e = 1 /\ first = "none"
Consume ==
    /\ i <= Len(Cases) /\ e <= Len(Cases[i].events)
    /\ LET c == Cases[i]  ev == c.events[e]  v == EventClause(c, ev, first)
       IN /\ IF v[1] = "ok" THEN TRUE ELSE PrintT(<<"VERDICT", c.id>> \o v)
          /\ first' = IF first = "none" THEN ev.resclass ELSE first
    /\ e' = e + 1 /\ i' = i
NextCase ==
    /\ i <= Len(Cases) /\ e > Len(Cases[i].events)
    /\ i' = i + 1 /\ e' = 1 /\ first' = "none"
    /\ IF i = Len(Cases) THEN PrintT(<<"DONE", Len(Cases)>>) ELSE TRUE
Next == Consume \/ NextCase
Spec == Init /\ [][Next]_vars
=============================================================================
