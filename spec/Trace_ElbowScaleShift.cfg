SPECIFICATION SpecX
