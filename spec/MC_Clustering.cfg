SPECIFICATION Spec
CONSTANTS G = 10
          NMax = 6
          Dens = {10}
          Links = {"single", "complete", "centroid", "average"}
          Variant = "ok"
          Emit = FALSE
INVARIANT Magnitudes
INVARIANT LabelsWellFormed
INVARIANT RuleHolds
INVARIANT StateAgrees
INVARIANT EqualsDefinition
INVARIANT JudgeAccepts
INVARIANT MonotoneInT
PROPERTY Terminates
