----------------------------- MODULE Trace_Rank -----------------------------
(* Binding T for the rank primitive of C17 on vectors WITH ties, where the property pins a
   predicate (a permutation of 0..n-1 that orders the values) rather than one value. *)
EXTENDS Geometry, TLC, Json, IOUtils
Cases == JsonDeserialize(IOEnv.CASES_FILE)
VARIABLE i
Verdict(c) == IF RankOk(c.v, c.r) THEN <<"ok">> ELSE <<"rank-permutation", c.v, c.r>>
Init == i = 1
Next == /\ i <= Len(Cases)
        /\ LET v == Verdict(Cases[i]) IN IF v[1] = "ok" THEN TRUE ELSE PrintT(<<"VERDICT", Cases[i].id>> \o v)
        /\ i' = i + 1
        /\ IF i = Len(Cases) THEN PrintT(<<"DONE", Len(Cases)>>) ELSE TRUE
Spec == Init /\ [][Next]_i
=============================================================================
