------------------------------ MODULE Geometry ------------------------------
(***************************************************************************)
(* Exact geometric definitions over integer points <<x, y>> (C17, C18,     *)
(* C13).  All distances are squared and returned as rationals <<num,den>>. *)
(***************************************************************************)
EXTENDS Rational, Sequences, FiniteSets

Cross(a, b, c) == (b[1]-a[1]) * (c[2]-a[2]) - (c[1]-a[1]) * (b[2]-a[2])
Dot(u, v) == u[1]*v[1] + u[2]*v[2]
Sub(p, q) == <<p[1]-q[1], p[2]-q[2]>>
Dist2(p, q) == Dot(Sub(p, q), Sub(p, q))

\* squared Euclidean distance of p to the CLOSED segment a-b (to the point a when a = b):
\* the three-case definition (foot before a, after b, inside)
Dist2Seg(p, a, b) ==
    IF a = b THEN Q(Dist2(p, a), 1)
    ELSE LET d == Sub(b, a)
             t == Dot(Sub(p, a), d)
             L == Dot(d, d)
         IN IF t <= 0 THEN Q(Dist2(p, a), 1)
            ELSE IF t >= L THEN Q(Dist2(p, b), 1)
            ELSE Q(Cross(a, b, p) * Cross(a, b, p), L)

\* squared distance to the infinite line through a # b
Perp2(p, a, b) == Q(Cross(a, b, p) * Cross(a, b, p), Dist2(a, b))

OnClosedSegment(p, a, b) ==
    /\ Cross(a, b, p) = 0
    /\ Min2(a[1], b[1]) <= p[1] /\ p[1] <= Max2(a[1], b[1])
    /\ Min2(a[2], b[2]) <= p[2] /\ p[2] <= Max2(a[2], b[2])

\* rectangles as <<lo, hi>> with lo, hi points; Rect() normalises two opposite corners
Rect(p, q) == << <<Min2(p[1], q[1]), Min2(p[2], q[2])>>, <<Max2(p[1], q[1]), Max2(p[2], q[2])>> >>
Area(R) == (R[2][1]-R[1][1]) * (R[2][2]-R[1][2])
Inter(A, B) ==
    LET dx == Max2(0, Min2(A[2][1], B[2][1]) - Max2(A[1][1], B[1][1]))
        dy == Max2(0, Min2(A[2][2], B[2][2]) - Max2(A[1][2], B[1][2]))
    IN dx * dy
\* intersection over union; 0 when the intersection has zero area
IoU(A, B) == IF Inter(A, B) > 0 THEN Q(Inter(A, B), Area(A) + Area(B) - Inter(A, B)) ELSE QZero

\* squared Menger curvature = (1/circumradius)^2 = 16 area^2 / (|fg|^2 |gh|^2 |fh|^2), area = |cross|/2
Menger2(f, g, h) == Q(4 * Cross(f, g, h) * Cross(f, g, h), Dist2(f, g) * Dist2(g, h) * Dist2(f, h))
Collinear(f, g, h) == Cross(f, g, h) = 0

\* rank: the permutation r of 0..n-1 with v[i] < v[j] => r[i] < r[j]
IsPerm0(r) == {r[i] : i \in 1..Len(r)} = 0..(Len(r)-1)
RankOk(v, r) == /\ Len(r) = Len(v) /\ IsPerm0(r)
                /\ \A i, j \in 1..Len(v) : v[i] < v[j] => r[i] < r[j]
RankOf(v) == [i \in 1..Len(v) |-> Cardinality({j \in 1..Len(v) : v[j] < v[i]})]   \* distinct values
=============================================================================
