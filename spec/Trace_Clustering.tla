------------------------- MODULE Trace_Clustering -------------------------
(***************************************************************************)
(* Binding T for C11: label vectors returned by the four linkage functions *)
(* on real-valued (float) layouts, judged by the table-driven form of the  *)
(* rule of Clustering.tla (TableClause; Clustering's invariant             *)
(* JudgeAccepts proves that it accepts every behaviour of the machines).   *)
(*   kind "rule"  labels + decision table tab[s][k] (1 merge, 2 split,     *)
(*                3 near = within noise of t, either side allowed), from   *)
(*                exact Fraction arithmetic on the float x values          *)
(*   kind "mono"  cluster counts of one layout for increasing thresholds   *)
(* Floats never enter TLC.                                                 *)
(***************************************************************************)
EXTENDS Sequences, Integers, TLC, Json, IOUtils

\* only the pure operators of Clustering are used: its constants and variables are bound to dummies
C == INSTANCE Clustering WITH G <- 0, NMax <- 0, Dens <- {}, Links <- {}, Variant <- "ok", Emit <- FALSE,
                              xs <- <<>>, t <- <<1, 1>>, link <- "", i <- 0, labels <- <<>>, prev <- 0,
                              anchor <- 0, cen <- <<0, 1>>, size <- 0, win <- 0, pc <- ""

Cases == JsonDeserialize(IOEnv.CASES_FILE)
VARIABLE ci

Verdict(c) == IF c.kind = "rule" THEN C!TableClause(c.link, c.n, c.labels, c.tab)
              ELSE C!MonoClause(c.counts)

Init == ci = 1
Next == /\ ci <= Len(Cases)
        /\ LET v == Verdict(Cases[ci]) IN IF v[1] = "ok" THEN TRUE ELSE PrintT(<<"VERDICT", Cases[ci].id>> \o v)
        /\ ci' = ci + 1
        /\ IF ci = Len(Cases) THEN PrintT(<<"DONE", Len(Cases)>>) ELSE TRUE
Spec == Init /\ [][Next]_ci
=============================================================================
