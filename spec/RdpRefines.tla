----------------------------- MODULE RdpRefines -----------------------------
(* Rdp.tla (the implementation-shaped machine TLC explores and recorded executions are judged against) refines the   *)
(* abstraction RdpProof.tla whose step bound is PROVED for every n by TLAPS: checked here by TLC for n <= N.          *)
EXTENDS Rdp
IntOf(p) == (p[1] + 1)..(p[2] - 2)
Abs == INSTANCE RdpProof WITH len <- Len(stack), stk <- stack,
                              open <- UNION {IntOf(stack[k]) : k \in 1..Len(stack)}
Refines == Abs!Spec
AbsInv == Abs!Inv
=============================================================================
