----------------------------- MODULE Trace_HullScale -----------------------------
(* Binding T for C18 on PRODUCTION-SIZE inputs (10^3 .. 10^5 points).  The coordinates are too large for TLC's 32-bit
   integers and the curves too long to ship, so the harness sends SPARSE oracle tables - exact integer cross-product signs
   for the index pairs / triples the recorded result actually mentions - and the clauses of the property are judged here,
   in the order Trace_Hull uses for short curves.

   chain cases (graham_scan_lower / graham_scan_upper on an x-sorted curve of n points), all sequences run-length coded
   as <<value, count>> pairs:
     first, len, lo, hi  first entry, number of entries, smallest and largest entry of the returned chain
     steps               the differences chain[k+1] - chain[k]                                   (len-1 values)
     turn                sign Cross(P[chain[k]], P[chain[k+1]], P[chain[k+2]])                    (len-2 values)
     edge                per chain edge, the extreme sign of Cross(P[a], P[b], P[j]) over the points a <= j <= b it spans:
                         the minimum for the lower hull, the maximum for the upper hull           (len-1 values)
   graham cases (graham_scan on n distinct points): got (returned indices), bnd / ext (0/1 per returned index: on the
   boundary of the exact hull / an extreme vertex of it), n_ext (number of extreme vertices of the set), general (no three
   points collinear, by construction), exp (the extreme vertices clockwise from the lexicographic minimum), alt (index of the
   (y, x) minimum: a rotation of exp that starts there is tolerated, as for the small point sets). *)
EXTENDS Integers, Sequences, FiniteSets, SequencesExt, TLC, Json, IOUtils
Cases == JsonDeserialize(IOEnv.CASES_FILE)
VARIABLE i

RunsOk(r)  == \A k \in 1..Len(r) : r[k][2] >= 1
RunLen(r)  == FoldLeft(LAMBDA acc, e : acc + e[2], 0, r)
RunSum(r)  == FoldLeft(LAMBDA acc, e : acc + e[1] * e[2], 0, r)
Max0(a)    == IF a > 0 THEN a ELSE 0

Sgn(c)         == IF c.mode = "lower" THEN 1 ELSE -1
ChainLast(c)   == c.first + RunSum(c.steps)
Increasing(c)  == \A k \in 1..Len(c.steps) : c.steps[k][1] >= 1
StrictTurns(c) == \A k \in 1..Len(c.turn) : Sgn(c) * c.turn[k][1] > 0
OnSide(c)      == \A k \in 1..Len(c.edge) : Sgn(c) * c.edge[k][1] >= 0
Recorded(c)    == /\ RunsOk(c.steps) /\ RunsOk(c.turn) /\ RunsOk(c.edge)
                  /\ RunLen(c.steps) = c.len - 1
                  /\ RunLen(c.turn) = Max0(c.len - 2)

ChainVerdict(c) ==
    IF c.outcome # "returned" THEN <<"completes", c.outcome>>
    ELSE IF c.len < 2 \/ c.first # 0 \/ c.lo < 0 \/ c.hi >= c.n THEN <<"chain-endpoints", c.first, c.lo, c.hi, c.len>>
    ELSE IF ~Recorded(c) THEN <<"malformed-record", "tables">>
    ELSE IF ChainLast(c) # c.n - 1 THEN <<"chain-endpoints", c.first, ChainLast(c), c.len>>
    ELSE IF ~StrictTurns(c) THEN <<"strict-turns", c.mode>>
    ELSE IF ~Increasing(c) THEN <<"chain-is-hull", c.mode, "not increasing">>
    ELSE IF RunLen(c.edge) # c.len - 1 THEN <<"malformed-record", "edge">>
    ELSE IF ~OnSide(c) THEN <<"chain-is-hull", c.mode, "a point lies outside the chain">>
    ELSE <<"ok">>

GotSet(c) == {c.got[k] : k \in 1..Len(c.got)}
ExtGot(c) == {c.got[k] : k \in {j \in 1..Len(c.got) : c.ext[j] = 1}}
Rotated(c) == \E k \in 1..Len(c.exp) :
                 /\ c.exp[k] = c.got[1] /\ c.got[1] = c.alt
                 /\ c.got = SubSeq(c.exp, k, Len(c.exp)) \o SubSeq(c.exp, 1, k - 1)
GrahamVerdict(c) ==
    IF c.outcome # "returned" THEN <<"completes", c.outcome>>
    ELSE IF Len(c.bnd) # Len(c.got) \/ Len(c.ext) # Len(c.got) THEN <<"malformed-record", "flags">>
    ELSE IF Cardinality(ExtGot(c)) # c.n_ext THEN <<"graham-contains-extremes", Cardinality(ExtGot(c)), c.n_ext>>
    ELSE IF \E k \in 1..Len(c.got) : c.bnd[k] # 1 THEN <<"graham-only-boundary", "interior or invalid index">>
    ELSE IF Cardinality(GotSet(c)) # Len(c.got) THEN <<"graham-only-boundary", "duplicates">>
    ELSE IF c.general /\ c.got # c.exp /\ (Len(c.got) = 0 \/ ~Rotated(c)) THEN <<"graham-exact-general-position", Len(c.got), Len(c.exp)>>
    ELSE <<"ok">>

Verdict(c) == IF c.kind = "chain" THEN ChainVerdict(c) ELSE GrahamVerdict(c)
Init == i = 1
Next == /\ i <= Len(Cases)
        /\ LET v == Verdict(Cases[i]) IN IF v[1] = "ok" THEN TRUE ELSE PrintT(<<"VERDICT", Cases[i].id>> \o v)
        /\ i' = i + 1
        /\ IF i = Len(Cases) THEN PrintT(<<"DONE", Len(Cases)>>) ELSE TRUE
Spec == Init /\ [][Next]_i
=============================================================================
