SPECIFICATION Spec
