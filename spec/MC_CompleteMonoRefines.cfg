SPECIFICATION Spec
CONSTANTS G = 6
          NMax = 4
          Dens = {6}
          Links = {"complete"}
          Variant = "ok"
          Emit = FALSE
PROPERTY IsScanStep
