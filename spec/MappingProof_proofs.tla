------------------------- MODULE MappingProof_proofs -------------------------
(* TLAPS proofs for MappingProof.tla (tools/prove.sh). *)
EXTENDS MappingProof, TLAPS

LEMMA MonoLe == ASSUME ArgsOK, NEW a \in 1..m, NEW b \in 1..m, a <= b PROVE S[a] <= S[b]
  BY DEF ArgsOK

LEMMA InitInv == Init => Inv
  BY DEF Init, Inv, TypeOK, CountInv, CursorInv, OutInv, ArgsOK

LEMMA AdvanceInv == Inv /\ Advance => Inv'
  <1> SUFFICES ASSUME Inv, Advance PROVE Inv' OBVIOUS
  <1> USE DEF Inv, TypeOK
  <1>a. ArgsOK' BY DEF Advance, ArgsOK
  <1>0. k \in 1..q /\ I[k] \in 0..(m - 1) /\ j + 1 \in 1..m /\ I[k] + 1 \in 1..m /\ j + 2 \in 1..m
        BY DEF Advance, Guard, ArgsOK
  <1>1. j + 1 <= I[k]
    <2>1. ~(I[k] + 1 <= j + 1)
      <3> SUFFICES ASSUME I[k] + 1 <= j + 1 PROVE FALSE OBVIOUS
      <3>1. S[I[k] + 1] <= S[j + 1] BY <1>0, MonoLe
      <3> QED BY <3>1, <1>0 DEF Advance, Guard, ArgsOK
    <2> QED BY <2>1, <1>0
  <1>2. TypeOK' BY <1>a, <1>0, <1>1 DEF Advance, ArgsOK
  <1>3. CountInv' BY <1>0 DEF Advance, CountInv, ArgsOK
  <1>4. CursorInv' BY <1>1 DEF Advance, CursorInv
  <1>5. OutInv' BY DEF Advance, OutInv
  <1> QED BY <1>2, <1>3, <1>4, <1>5

LEMMA AppendInv == Inv /\ Append1 => Inv'
  <1> SUFFICES ASSUME Inv, Append1 PROVE Inv' OBVIOUS
  <1> USE DEF Inv, TypeOK
  <1>a. ArgsOK' BY DEF Append1, ArgsOK
  <1>0. k \in 1..q /\ I[k] \in 0..(m - 1) /\ j + 1 \in 1..m /\ I[k] + 1 \in 1..m /\ j <= I[k]
        BY DEF Append1, ArgsOK, CursorInv
  <1>1. j = I[k]
    <2>1. CASE ~(j < m - 1) BY <2>1, <1>0
    <2>2. CASE ~(S[j + 1] < S[I[k] + 1])
      <3>1. ~(j + 1 < I[k] + 1) BY <2>2, <1>0 DEF ArgsOK
      <3> QED BY <3>1, <1>0
    <2> QED BY <2>1, <2>2 DEF Append1, Guard
  <1>2. I[k] + count = S[I[k] + 1] BY <1>1, <1>0 DEF CountInv, ArgsOK
  <1>3. TypeOK' BY <1>a, <1>0, <1>2 DEF Append1, ArgsOK
  <1>4. CountInv' BY DEF Append1, CountInv
  <1>5. CursorInv'
    <2> SUFFICES ASSUME k' <= q' PROVE j' <= I'[k'] BY DEF CursorInv
    <2>1. k + 1 \in 1..q /\ k < k + 1 BY <1>0 DEF Append1
    <2>2. I[k] <= I[k + 1] BY <2>1, <1>0 DEF ArgsOK
    <2> QED BY <2>2, <1>1 DEF Append1
  <1>6. OutInv'
    <2> SUFFICES ASSUME NEW p \in 1..(k' - 1) PROVE out'[p] = S'[I'[p] + 1] BY DEF OutInv
    <2>1. CASE p < k BY <2>1 DEF Append1, OutInv
    <2>2. CASE p = k BY <2>2, <1>2 DEF Append1
    <2> QED BY <2>1, <2>2 DEF Append1
  <1> QED BY <1>3, <1>4, <1>5, <1>6

LEMMA StutterInv == Inv /\ UNCHANGED vars => Inv'
  BY DEF Inv, TypeOK, ArgsOK, CountInv, CursorInv, OutInv, vars

THEOREM Invariance == Spec => []Inv
  <1>1. Inv /\ [Next]_vars => Inv' BY AdvanceInv, AppendInv, StutterInv DEF Next
  <1> QED BY InitInv, <1>1, PTL DEF Spec

THEOREM MappingCorrectForEveryN == Spec => []MapCorrect
  <1>1. Inv => MapCorrect
    <2> SUFFICES ASSUME Inv, k = q + 1 PROVE out = [p \in 1..q |-> S[I[p] + 1]] BY DEF MapCorrect
    <2>0. q \in Nat /\ k - 1 = q BY DEF Inv, TypeOK, ArgsOK
    <2>1. out \in [1..q -> Int] BY <2>0 DEF Inv, TypeOK
    <2>2. \A p \in 1..q : out[p] = S[I[p] + 1] BY <2>0 DEF Inv, OutInv
    <2>3. DOMAIN out = 1..q BY <2>1
    <2> QED BY <2>1, <2>2, <2>3
  <1> QED BY <1>1, Invariance, PTL
=============================================================================
