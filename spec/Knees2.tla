------------------------------- MODULE Knees2 -------------------------------
(***************************************************************************)
(* Growth beyond the listed properties (DESIGN 9.3): the iterated          *)
(* best-candidate selection of zmethod.knees2.  Candidates are positions   *)
(* on an integer x axis; two candidates are neighbours when they are       *)
(* within XStep in x and related by the (symmetric, reflexive) y-          *)
(* neighbourhood oracle.  In every round a candidate survives iff it is    *)
(* alone in its neighbourhood or it is the first maximiser of              *)
(* rank_corners over its neighbourhood (the gap to the previous member of  *)
(* that neighbourhood, the first member's gap being its own x).            *)
(* Checked: the candidate set only shrinks, the loop terminates within     *)
(* |candidates| rounds, and the result is a fixpoint of the round.         *)
(***************************************************************************)
EXTENDS Integers, Sequences, FiniteSets, SequencesExt, TLC
CONSTANTS N, XStep
VARIABLES cand, ynb, rounds, pc
vars == <<cand, ynb, rounds, pc>>

Sorted(S) == SetToSortSeq(S, <)
Nbh(C, i, yn) == {j \in C : (IF i > j THEN i - j ELSE j - i) <= XStep /\ yn[<<IF i < j THEN i ELSE j, IF i < j THEN j ELSE i>>]}
\* rank_corners(points, n): d[0] = x[n[0]] - x[0]; d[k] = x[n[k]] - x[n[k-1]]  (x[0] = 0 here)
Gaps(nb) == LET s == Sorted(nb) IN [k \in 1..Len(s) |-> IF k = 1 THEN s[1] ELSE s[k] - s[k - 1]]
BestOf(nb) == LET s == Sorted(nb)  g == Gaps(nb)
              IN s[CHOOSE k \in 1..Len(s) : (\A o \in 1..Len(s) : g[o] <= g[k]) /\ (\A o \in 1..Len(s) : g[o] = g[k] => k <= o)]
Round(C, yn) == {i \in C : Nbh(C, i, yn) = {i} \/ BestOf(Nbh(C, i, yn)) = i}

Pairs == {<<a, b>> : a \in 1..N, b \in 1..N}
Init == /\ cand \in SUBSET (1..N)
        /\ ynb \in [{p \in Pairs : p[1] <= p[2]} -> BOOLEAN]
        /\ \A a \in 1..N : ynb[<<a, a>>]
        /\ rounds = 0 /\ pc = "loop"
Step == /\ pc = "loop"
        /\ LET best == Round(cand, ynb)
           IN IF best = cand THEN pc' = "done" /\ cand' = cand
              ELSE cand' = best /\ pc' = "loop"
        /\ rounds' = rounds + 1
        /\ UNCHANGED ynb
Next == Step
Spec == Init /\ [][Next]_vars /\ WF_vars(Next)

Shrinks == [][cand' \subseteq cand]_vars
Terminates == <>(pc = "done")
RoundBound == rounds <= N + 1
Fixpoint == pc = "done" => Round(cand, ynb) = cand
=============================================================================
