SPECIFICATION Spec
CONSTANTS G = 6
          NMax = 4
          Dens = {6}
          Links = {"single", "complete", "centroid", "average"}
          Variant = "ok"
          Emit = FALSE
INVARIANT Magnitudes
INVARIANT LabelsWellFormed
INVARIANT RuleHolds
INVARIANT StateAgrees
INVARIANT EqualsDefinition
INVARIANT JudgeAccepts
INVARIANT MonotoneInT
PROPERTY Terminates
