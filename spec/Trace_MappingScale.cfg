SPECIFICATION Spec
