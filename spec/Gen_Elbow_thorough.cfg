SPECIFICATION Spec
CONSTANTS ArmMin = 3
          ArmMax = 6
          Thorough = TRUE
          Emit = TRUE
INVARIANT Lemmas
INVARIANT KneedleLemma
