------------------------- MODULE Trace_MultiKneeSteps -------------------------
(***************************************************************************)
(* Action-level trace validation of multi_knee.multi_knee against the      *)
(* ACTIONS of MultiKnee.tla (growth; notes only - see Trace_RdpSteps.tla). *)
(* Snapshots: the local work stack and the knee list at every back-edge of *)
(* the work loop.  Each consecutive pair must be a PopSmall / PopStraight /*)
(* PopDetect step (TLC infers the gate value and the detector's answer),   *)
(* the iteration after the last snapshot must empty the stack, and Finish  *)
(* must yield the returned (sorted) array.                                 *)
(***************************************************************************)
EXTENDS MultiKnee, IOUtils

Cases == JsonDeserialize(IOEnv.CASES_FILE)
VARIABLES tid, l
tvars == <<n, t2, stack, knees, K, Curved, calls, pops, pc, tid, l>>

Ev == Cases[tid].events
Load(k) == /\ n' = Cases[k].n /\ t2' = Cases[k].t2 /\ stack' = << <<0, Cases[k].n>> >> /\ knees' = <<>>
           /\ K' = Empty /\ Curved' = [x \in {} |-> TRUE] /\ calls' = <<>> /\ pops' = 0 /\ pc' = "run"
           /\ tid' = k /\ l' = 1
TInit == /\ n = Cases[1].n /\ t2 = Cases[1].t2 /\ stack = << <<0, Cases[1].n>> >> /\ knees = <<>>
         /\ K = Empty /\ Curved = [x \in {} |-> TRUE] /\ calls = <<>> /\ pops = 0 /\ pc = "run"
         /\ tid = 1 /\ l = 1

Pop == PopSmall \/ PopStraight \/ PopDetect
MatchStep == /\ pc = "run" /\ l <= Len(Ev) /\ Pop
             /\ stack' = Ev[l].stack /\ knees' = Ev[l].knees
             /\ l' = l + 1 /\ tid' = tid
LastStep == /\ pc = "run" /\ l = Len(Ev) + 1 /\ stack # <<>> /\ Pop /\ stack' = <<>>
            /\ UNCHANGED <<tid, l>>
FinishStep == /\ pc = "run" /\ l = Len(Ev) + 1 /\ stack = <<>>
              /\ Finish /\ knees' = Cases[tid].final
              /\ UNCHANGED <<tid, l>>
Step == MatchStep \/ LastStep \/ FinishStep

Advance == IF tid < Len(Cases) THEN Load(tid + 1)
           ELSE /\ PrintT(<<"DONE", Len(Cases)>>) /\ pc' = "end"
                /\ UNCHANGED <<n, t2, stack, knees, K, Curved, calls, pops, tid, l>>
Accepted == pc = "done" /\ Advance
Rejected == /\ pc = "run" /\ ~ENABLED Step
            /\ PrintT(<<"VERDICT", Cases[tid].id, "no-machine-step", l, stack, IF l <= Len(Ev) THEN Ev[l].stack ELSE <<>>>>)
            /\ Advance
TNext == Step \/ Accepted \/ Rejected
TSpec == TInit /\ [][TNext]_tvars
=============================================================================
