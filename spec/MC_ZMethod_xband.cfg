SPECIFICATION Spec
CONSTANTS ZMax = 1
          NoYGuard = FALSE
          XBandLeftOpen = TRUE
          NMin = 4
          N = 4
          GapMax = 2
          HMax = 2
          WMax = 2
          HBMin = 1
          HBMax = 2
INVARIANT ResultOk
