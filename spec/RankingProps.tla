---------------------------- MODULE RankingProps ----------------------------
(* variable-free half of Ranking.tla, shared with Trace_Ranking *)
EXTENDS Integers, Sequences, FiniteSets, Geometry
GapRank(xs, ks) == [i \in 1..Len(ks) |-> xs[ks[i]] - (IF i = 1 THEN xs[1] ELSE xs[ks[i-1]])]
Tri2Rank(xs, ys, ks) == [i \in 1..Len(ks) |-> (xs[ks[i]] - xs[ks[i]-1]) * (ys[ks[i]] - ys[ks[i]+1])]
SumTo(s, k) == IF k = 0 THEN 0 ELSE LET F[j \in 0..k] == IF j = 0 THEN 0 ELSE F[j-1] + s[j] IN F[k]
SlopeRankOk(cls, num) == IF Len(cls) = 1 THEN num = <<1>> ELSE RankOk(cls, num)
=============================================================================
