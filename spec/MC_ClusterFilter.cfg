SPECIFICATION Spec
CONSTANTS M = 4
          ScoreMax = 2
          Modes = {"ranked", "hull"}
          PickWorst = FALSE
INVARIANT ClusterOk
INVARIANT NeverEmptyRanked
PROPERTY Terminates
