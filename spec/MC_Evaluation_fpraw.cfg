SPECIFICATION Spec
CONSTANTS CmN = {3, 5}
          CmESmall = 2
          CmEBig = 2
          CmKMax = 4
          ErrN = {3}
          YMax = 1
          ErrKMax = 2
          ErrEMax = 2
          ErrEYAll = FALSE
          Variant = "fpraw"
          Emit = FALSE
INVARIANT CmIdentities
