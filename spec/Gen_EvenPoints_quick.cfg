SPECIFICATION Spec
CONSTANTS Grids = {8}
          MaxRet = 5
          MaxRet16 = 2
          MaxKnees = 4
          Stairs = FALSE
          Emit = TRUE
INVARIANT EvenLaws
INVARIANT SegLaws

