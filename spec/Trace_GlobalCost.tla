------------------------- MODULE Trace_GlobalCost -------------------------
(* Binding T for C15: recorded query histories against ONE shared cache dict are consumed query by
   query; state = the abstract cache (set of keys) of GlobalCost.tla.  Each event carries the key set
   observed in the real dict after the call, whether the value was bit-identical to a fresh-cache
   evaluation, and the class of its comparison with the exact definition. *)
EXTENDS SimplifyProps, TLC, Json, IOUtils
Cases == JsonDeserialize(IOEnv.CASES_FILE)
VARIABLES i, e, cache
vars == <<i, e, cache>>

PairsOf(S) == {<<S[j], S[j+1]>> : j \in 1..(Len(S)-1)}
AsSetOfPairs(ks) == {<<ks[j][1], ks[j][2]>> : j \in 1..Len(ks)}
\* Violations of what C15 states.  The key layout of the dict is NOT part of the property: a mismatch with
\* the machine's DOMAIN is reported as DRIFT (the specification no longer describes the code), not a violation.
EventClause(c, ev, cch) ==
    IF ev.outcome # "returned" THEN <<"returns", ev.outcome>>
    ELSE IF ~ev.shared_eq_fresh THEN <<"cache-transparent", ev.S>>
    ELSE IF ev.defcls = "differs" THEN <<"equals-definition", c.metric, ev.S>>
    ELSE IF ~ev.nonneg THEN <<"non-negative", ev.S>>
    ELSE IF Len(ev.S) = c.n /\ ev.perfect = "bad" THEN <<"perfect-fit-value", ev.S>>
    ELSE IF AsSetOfPairs(ev.keys) # cch \cup PairsOf(ev.S) THEN <<"DRIFT:cache-keys", ev.keys>>
    ELSE IF ev.tss # (c.metric = "r2") THEN <<"DRIFT:cache-keys", "tss">>
    ELSE <<"ok">>

Init == i = 1 /\ e = 1 /\ cache = {}
Consume ==
    /\ i <= Len(Cases) /\ e <= Len(Cases[i].events)
    /\ LET c == Cases[i]  ev == c.events[e]  v == EventClause(c, ev, cache)
       IN /\ IF v[1] = "ok" THEN TRUE ELSE PrintT(<<"VERDICT", c.id>> \o v)
          /\ cache' = cache \cup PairsOf(ev.S)
    /\ e' = e + 1 /\ i' = i
NextCase ==
    /\ i <= Len(Cases) /\ e > Len(Cases[i].events)
    /\ i' = i + 1 /\ e' = 1 /\ cache' = {}
    /\ IF i = Len(Cases) THEN PrintT(<<"DONE", Len(Cases)>>) ELSE TRUE
Next == Consume \/ NextCase
Spec == Init /\ [][Next]_vars
=============================================================================
