---------------------------- MODULE Gen_Geometry ----------------------------
(* C17, bindings M and G: the definitions of Geometry.tla are checked against their algebraic
   laws on a complete integer grid (invariants), and every case is emitted with its exact expected
   value to be replayed into linear_fit / knee_ranking / menger / postprocessing primitives. *)
EXTENDS Geometry, TLC, Json, SequencesExt

CONSTANTS G,      \* grid side: coordinates 0..G
          VMax,   \* rank vectors over 0..VMax
          VLen    \* rank vector length up to VLen
Pts == (0..G) \X (0..G)
PtSeq == SetToSeq(Pts)

VARIABLE c
Cases ==
    {[kind |-> "seg", a |-> a, b |-> b] : a \in Pts, b \in Pts}
    \cup {[kind |-> "rect", a |-> a, b |-> b, p |-> p, q |-> q] :
              a \in Pts, b \in Pts, p \in {<<0, 0>>, <<1, 0>>, <<1, 2>>, <<0, 1>>, <<2, 2>>}, q \in Pts}
    \cup {[kind |-> "tri", f |-> f, g |-> g, h |-> h] : f \in Pts, g \in Pts, h \in Pts}
    \cup {[kind |-> "rank", v |-> v] : v \in UNION {[1..m -> 0..VMax] : m \in 1..VLen}}

Init == c \in Cases

Expected(x) ==
    IF x.kind = "seg" THEN
        [kind |-> "seg", a |-> x.a, b |-> x.b, pts |-> PtSeq,
         d2seg |-> [i \in 1..Len(PtSeq) |-> Dist2Seg(PtSeq[i], x.a, x.b)],
         perp2 |-> IF x.a = x.b THEN <<>> ELSE [i \in 1..Len(PtSeq) |-> Perp2(PtSeq[i], x.a, x.b)],
         d2a |-> [i \in 1..Len(PtSeq) |-> Dist2(PtSeq[i], x.a)]]
    ELSE IF x.kind = "rect" THEN
        [kind |-> "rect", a |-> x.a, b |-> x.b, p |-> x.p, q |-> x.q,
         iou |-> IoU(Rect(x.a, x.b), Rect(x.p, x.q))]
    ELSE IF x.kind = "tri" THEN
        [kind |-> "tri", f |-> x.f, g |-> x.g, h |-> x.h,
         distinct |-> (x.f # x.g /\ x.g # x.h /\ x.f # x.h),
         menger2 |-> IF x.f # x.g /\ x.g # x.h /\ x.f # x.h THEN Menger2(x.f, x.g, x.h) ELSE QZero,
         cross |-> Cross(x.f, x.g, x.h)]
    ELSE
        [kind |-> "rank", v |-> x.v,
         distinct |-> (\A i, j \in 1..Len(x.v) : i # j => x.v[i] # x.v[j]),
         rank |-> RankOf(x.v)]

Emit == /\ c.kind # "done"
        /\ PrintT(ToJson(Expected(c)))
        /\ c' = [kind |-> "done"]
Next == Emit
Spec == Init /\ [][Next]_c

(* ---- laws of the definitions (binding M) ------------------------------ *)
SegLaws == c.kind = "seg" =>
    \A p \in Pts :
        /\ (c.a # c.b => QGe(Dist2Seg(p, c.a, c.b), Perp2(p, c.a, c.b)))          \* segment >= line
        /\ (Dist2Seg(p, c.a, c.b)[1] = 0) = OnClosedSegment(p, c.a, c.b)        \* zero iff on the segment
        /\ Dist2Seg(p, c.a, c.b) = Dist2Seg(p, c.b, c.a) \/ QEq(Dist2Seg(p, c.a, c.b), Dist2Seg(p, c.b, c.a))
        /\ QLe(Dist2Seg(p, c.a, c.b), Q(Dist2(p, c.a), 1))
RectLaws == c.kind = "rect" =>
    LET A == Rect(c.a, c.b)  B == Rect(c.p, c.q) IN
        /\ QEq(IoU(A, B), IoU(B, A))
        /\ QGe(IoU(A, B), QZero) /\ QLe(IoU(A, B), QOne)
        /\ (Area(A) > 0 => QEq(IoU(A, A), QOne))
        /\ (Inter(A, B) = 0 => IoU(A, B) = QZero)
TriLaws == (c.kind = "tri" /\ c.f # c.g /\ c.g # c.h /\ c.f # c.h) =>
        /\ QEq(Menger2(c.f, c.g, c.h), Menger2(c.g, c.f, c.h))
        /\ QEq(Menger2(c.f, c.g, c.h), Menger2(c.h, c.g, c.f))
        /\ QEq(Menger2(c.f, c.g, c.h), Menger2(c.g, c.h, c.f))
        /\ (Menger2(c.f, c.g, c.h)[1] = 0) = Collinear(c.f, c.g, c.h)
RankLaws == c.kind = "rank" => RankOk(c.v, RankOf(c.v)) \/ \E i, j \in 1..Len(c.v) : i # j /\ c.v[i] = c.v[j]
=============================================================================
