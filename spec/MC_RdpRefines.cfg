SPECIFICATION Spec
CONSTANTS N = 8
          Buggy = FALSE
INVARIANT AbsInv
PROPERTY Refines
