---------------------------- MODULE FixedSizeProof ----------------------------
(***************************************************************************)
(* C05, first sentence, for EVERY curve length n and EVERY requested size  *)
(* k (including k < 2 and k > n): fixed-size RDP returns exactly           *)
(* min(max(k,2), n) indices.  Abstraction of the priority-stack loop of    *)
(* rdp.rdp_fixed (Fixed.tla): WHICH segment is refined and WHERE is        *)
(* dropped; a step spends one unit of budget and retains one index that    *)
(* was not retained before.  Invariant: |R| + max(b,0) = max(k,2).         *)
(* Proofs: FixedSizeProof_proofs.tla.  Fixed.tla's fixed phase refines     *)
(* this module (TLC, MC_FixedSizeRefines.cfg).                             *)
(***************************************************************************)
EXTENDS Integers, FiniteSets

VARIABLES n, k, R, b
vars == <<n, k, R, b>>

Max2(a, c) == IF a >= c THEN a ELSE c
Min2(a, c) == IF a <= c THEN a ELSE c
Pos(a) == IF a > 0 THEN a ELSE 0

Init == /\ n \in Nat /\ n >= 2 /\ k \in Int
        /\ R = {0, n - 1} /\ b = k - 2
\* `while length > 0 and stack: ... reduced.append(left+index); length -= 1`
Step == /\ b > 0
        /\ \E i \in (0..(n - 1)) \ R : R' = R \cup {i}
        /\ b' = b - 1
        /\ UNCHANGED <<n, k>>
Spec == Init /\ [][Step]_vars

TypeOK == /\ n \in Nat /\ n >= 2 /\ k \in Int /\ b \in Int
          /\ R \subseteq 0..(n - 1) /\ 0 \in R /\ (n - 1) \in R
SizeInv == Cardinality(R) + Pos(b) = Max2(k, 2)
Inv == TypeOK /\ SizeInv

Terminated == b <= 0 \/ R = 0..(n - 1)           \* budget spent, or nothing left to refine (the stack is empty)
ExactSize == Terminated => Cardinality(R) = Min2(Max2(k, 2), n)
=============================================================================
