----------------------------- MODULE MC_ZMethod -----------------------------
(***************************************************************************)
(* Binding M for C10: the round machine of ZMethod.tla on every small      *)
(* call.  Init is a tight product (sizes, x gaps, integer heights, w, y     *)
(* band); ZLevels, the stop level and the order of same-level groups are    *)
(* chosen lazily by the machine itself.                                     *)
(***************************************************************************)
EXTENDS ZMethod

CONSTANTS NMin, N,       \* curve sizes NMin..N
          GapMax,        \* x gaps 1..GapMax
          HMax,          \* integer heights 0..HMax
          WMax,          \* x band width 1..WMax
          HBMin, HBMax   \* y band (y_height) HBMin..HBMax in height units

RECURSIVE PrefixSum(_, _)
PrefixSum(g, p) == IF p = 0 THEN 0 ELSE g[p] + PrefixSum(g, p - 1)

\* A gap larger than w decides every comparison |x_a - x_b| >= w exactly like a gap equal to w, so
\* gaps range over 1..min(GapMax, w) without loss of generality.
Min(a, b) == IF a < b THEN a ELSE b
Init == \E nn \in NMin..N, ww \in 1..WMax :
          \E gaps \in [1..(nn - 1) -> 1..Min(GapMax, ww)], hs \in [0..(nn - 1) -> 0..HMax] :
            /\ n = nn /\ w = ww
            /\ xs = [p \in 0..(nn - 1) |-> PrefixSum(gaps, p)]
            /\ hr = hs
            /\ yb \in HBMin..HBMax
            /\ ytab = <<>>
            /\ zkey = [p \in 0..(nn - 1) |-> 0]
            /\ zgiven = [on |-> FALSE]
            \* `y_min == 1` needs a flat curve (y <= 1)
            /\ early \in (IF \A p \in 0..(nn - 1) : hs[p] = hs[0] THEN BOOLEAN ELSE {FALSE})
            /\ zl = Empty /\ stopLevel = -1
            /\ InitProgram

Spec == Init /\ [][Next]_vars /\ WF_vars(Next)
=============================================================================
