------------------------- MODULE Trace_Neighbourhood -------------------------
(* Growth binding T: recorded results of evaluation.get_neighbourhood / _binary / _fast with the table
   good[k] = (R2 of the end-point line through points k..a passes t), judged by the characterisations proved for the
   loop machines of Neighbourhood.tla.  good is a sequence indexed by k+1. *)
EXTENDS Integers, Sequences, TLC, Json, IOUtils
Cases == JsonDeserialize(IOEnv.CASES_FILE)
VARIABLE ci
GoodAt(c, k) == k = c.a - 1 \/ c.good[k + 1]
Verdict(c) ==
    IF c.outcome # "returned" THEN <<"returns", c.outcome>>
    ELSE IF c.i < c.b \/ c.i > c.a THEN <<"bracket", c.i>>
    ELSE IF c.mode = "linear" THEN
         (IF (\A k \in c.i..(c.a - 1) : GoodAt(c, k)) /\ (c.i > c.b => ~GoodAt(c, c.i - 1)) THEN <<"ok">>
          ELSE <<"leftmost-run", c.i>>)
    ELSE IF c.mode = "fast" THEN (IF c.i = c.a \/ c.goodge[c.i + 1] THEN <<"ok">> ELSE <<"fast-result-passes", c.i>>)
    ELSE <<"ok">>
Init == ci = 1
Next == /\ ci <= Len(Cases)
        /\ LET v == Verdict(Cases[ci]) IN IF v[1] = "ok" THEN TRUE ELSE PrintT(<<"VERDICT", Cases[ci].id>> \o v)
        /\ ci' = ci + 1
        /\ IF ci = Len(Cases) THEN PrintT(<<"DONE", Len(Cases)>>) ELSE TRUE
Spec == Init /\ [][Next]_ci
=============================================================================
