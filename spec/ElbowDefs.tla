----------------------------- MODULE ElbowDefs -----------------------------
(* Membership in the two-slope elbow family of C03 and its mechanism lemmas (no variables). *)
EXTENDS Geometry

(* ---- the mechanism lemmas (what the property's anchors name) ------------- *)
\* pts: sequence of <<x, y8>>; corner: 1-based position of the corner
OnlyCornerTurns(pts, corner) ==
    \A k \in 2..(Len(pts) - 1) : (Cross(pts[k - 1], pts[k], pts[k + 1]) # 0) = (k = corner)
LeftFits(pts, k) == \A j \in 1..k : Cross(pts[1], pts[k], pts[j]) = 0
RightFits(pts, k) == \A j \in k..Len(pts) : Cross(pts[k], pts[Len(pts)], pts[j]) = 0
\* the two end-point lines fit both arms with zero residual only when split at the corner
ZeroResidualOnlyAtCorner(pts, corner) ==
    \A k \in 3..(Len(pts) - 2) : (LeftFits(pts, k) /\ RightFits(pts, k)) = (k = corner)
StrictlyIncreasingX(pts) == \A k \in 1..(Len(pts) - 1) : pts[k][1] < pts[k + 1][1]
Monotone(pts) == (\A k \in 1..(Len(pts) - 1) : pts[k][2] < pts[k + 1][2])
                 \/ (\A k \in 1..(Len(pts) - 1) : pts[k][2] > pts[k + 1][2])
\* non-strict version: one arm may be flat (slope 0)
WeaklyMonotone(pts) == (\A k \in 1..(Len(pts) - 1) : pts[k][2] <= pts[k + 1][2])
                       \/ (\A k \in 1..(Len(pts) - 1) : pts[k][2] >= pts[k + 1][2])
IsElbow(pts, corner) ==
    /\ corner >= 4 /\ corner <= Len(pts) - 3          \* each arm at least 3 segments long
    /\ StrictlyIncreasingX(pts)
    /\ \A k \in 1..(Len(pts) - 1) : pts[k + 1][1] - pts[k][1] \in 1..4
    /\ OnlyCornerTurns(pts, corner)
    /\ ZeroResidualOnlyAtCorner(pts, corner)

=============================================================================
