---------------------------- MODULE Trace_Chain ----------------------------
(***************************************************************************)
(* Binding T for C05: the history rdp_fixed(points, k), k = 0, 1, ..., is  *)
(* consumed event by event.  State: the previous member of the chain.      *)
(* Each event must have the exact size min(max(k,2),n) and must extend the *)
(* previous member by one greedy step (GreedyClause) over tables indexed   *)
(* by positions in the universe U (the largest member of the chain).       *)
(***************************************************************************)
EXTENDS SimplifyProps, TLC, Json, IOUtils

Cases == JsonDeserialize(IOEnv.CASES_FILE)
VARIABLES i, e, prev
vars == <<i, e, prev>>

PosIn(U, a) == CHOOSE p \in 1..Len(U) : U[p] = a
\* tables over positions in U re-indexed by original index (+1)
FarAt(c) == [a \in 1..c.n |-> [b \in 1..c.n |->
               IF InSeq(a - 1, c.U) /\ InSeq(b - 1, c.U) THEN c.far[PosIn(c.U, a - 1)][PosIn(c.U, b - 1)] ELSE <<>>]]
RankAt(c) == [a \in 1..c.n |-> [b \in 1..c.n |->
               IF InSeq(a - 1, c.U) /\ InSeq(b - 1, c.U) THEN c.rank[PosIn(c.U, a - 1)][PosIn(c.U, b - 1)] ELSE -1]]

EventClause(c, ev, pv) ==
    IF ev.outcome # "returned" THEN <<"returns", ev.k, ev.outcome>>
    ELSE IF ~IsReduction(ev.S, c.n) THEN <<"exact-size", ev.k, ev.S, "not a reduction">>
    ELSE IF Len(ev.S) # Clamp(ev.k, c.n) THEN <<"exact-size", ev.k, Len(ev.S), Clamp(ev.k, c.n)>>
    ELSE IF pv = <<>> THEN <<"ok">>
    ELSE IF Len(ev.S) = Len(pv) THEN (IF ev.S = pv THEN <<"ok">> ELSE <<"nested", ev.k, pv, ev.S>>)
    ELSE LET cl == GreedyClause(pv, ev.S, FarAt(c), RankAt(c))
         IN IF cl = "ok" THEN <<"ok">> ELSE <<cl, ev.k, pv, ev.S>>

Init == i = 1 /\ e = 1 /\ prev = <<>>
Consume ==
    /\ i <= Len(Cases) /\ e <= Len(Cases[i].events)
    /\ LET c == Cases[i]  ev == c.events[e]  v == EventClause(c, ev, prev)
       IN /\ IF v[1] = "ok" THEN TRUE ELSE PrintT(<<"VERDICT", c.id>> \o v)
          /\ prev' = IF ev.outcome = "returned" /\ IsReduction(ev.S, c.n) THEN ev.S ELSE <<>>
    /\ e' = e + 1 /\ i' = i
NextCase ==
    /\ i <= Len(Cases) /\ e > Len(Cases[i].events)
    /\ i' = i + 1 /\ e' = 1 /\ prev' = <<>>
    /\ IF i = Len(Cases) THEN PrintT(<<"DONE", Len(Cases)>>) ELSE TRUE
Next == Consume \/ NextCase
Spec == Init /\ [][Next]_vars
=============================================================================
