-------------------------- MODULE Trace_FixedSteps --------------------------
(***************************************************************************)
(* Action-level trace validation of rdp.rdp_fixed and rdp.grdp against the *)
(* ACTIONS of Fixed.tla (growth beyond the listed properties; notes only). *)
(* The recorder reads, at every back-edge of the work loops of _rdp_fixed  *)
(* and _grdp, the local priority stack (scores replaced by their dense     *)
(* rank among all scores of the call), the retained indices and the        *)
(* remaining budget / the `curved` flag out of the running frame           *)
(* (sys.monitoring, no source hook).  Every consecutive pair of snapshots  *)
(* must be one FixedStepA / GrdpStepA step whose arguments (the retained   *)
(* index and the two child scores) are bound from the logged snapshot; TLC *)
(* infers what was not logged (the cost levels behind `curved`).  The      *)
(* iteration after the last back-edge has no snapshot: it must lead to the *)
(* loop's exit condition, and FixedEnd / GrdpEnd must yield the returned   *)
(* index list.  Batch walk over Cases with (tid, l) as in Trace_RdpSteps.  *)
(***************************************************************************)
EXTENDS Fixed, Json, IOUtils

Cases == JsonDeserialize(IOEnv.CASES_FILE)
VARIABLES tid, l
tvars == <<n, mode, par, stack, reduced, budget, curved, tl, runs, far, prio, cst, ins, result, steps, pc, tid, l>>

Ev == Cases[tid].events
Fin == Cases[tid].final

LoadVals(k, nn, md, pr, st, rd, bd, cv, t, rn, fr, po, cs, is, rs, sp, p, ti, li) ==
    /\ nn = Cases[k].n
    /\ md = Cases[k].kind
    /\ pr = (IF Cases[k].kind = "fixed" THEN [k |-> Cases[k].k] ELSE [t |-> 1])
    /\ st = (IF Cases[k].n > 2 THEN << <<0, 0, Cases[k].n>> >> ELSE <<>>)
    /\ rd = <<0, Cases[k].n - 1>>
    /\ bd = (IF Cases[k].kind = "fixed" THEN Cases[k].k - 2 ELSE 0)
    /\ cv = FALSE /\ t = (IF Cases[k].kind = "fixed" THEN 0 ELSE 1) /\ rn = <<>>
    /\ fr = Empty /\ po = Empty /\ cs = Empty /\ is = <<>> /\ rs = <<>> /\ sp = 0
    /\ p = (IF Cases[k].kind = "fixed" THEN "fixed" ELSE "ginit")
    /\ ti = k /\ li = 1

TInit == LoadVals(1, n, mode, par, stack, reduced, budget, curved, tl, runs, far, prio, cst, ins, result, steps, pc, tid, l)
Load(k) == LoadVals(k, n', mode', par', stack', reduced', budget', curved', tl', runs', far', prio', cst', ins', result', steps', pc', tid', l')

\* arguments bound from a logged retained list / stack
NewIdx(target) == {x \in Range(target) : x \notin Range(reduced)}
Scores(st, a, b) == LET S == {e \in Range(st) : e[2] = a /\ e[3] = b} IN IF S = {} THEN {0} ELSE {e[1] : e \in S}
StepA(i, pl, pr) == IF mode = "fixed" THEN FixedStepA(i, pl, pr) ELSE GrdpStepA(i, pl, pr)

\* `global_cost = ...; curved = ...` before the loop of _grdp: not logged.  TLC chooses the level; what the trace does tell
\* is whether the loop was entered (an iteration was logged, or the result has a third index), which for a non-empty
\* stack is exactly the value of `curved` - bound here so that the unlogged choice leaves no dead branch behind.
Silent == /\ pc = "ginit" /\ GInit
          /\ curved' = (Len(Ev) >= 1 \/ Fin # <<0, n - 1>>)
          /\ UNCHANGED <<tid, l>>

\* one logged loop iteration: a machine step, with logged arguments, that lands on the logged snapshot
MatchStep == /\ pc \in {"fixed", "grdp"} /\ l <= Len(Ev) /\ stack # <<>>
             /\ \E i \in NewIdx(Ev[l].reduced) :
                  \E pl \in Scores(Ev[l].stack, Pop[2], i + 1), pr \in Scores(Ev[l].stack, i, Pop[3]) : StepA(i, pl, pr)
             /\ stack' = Ev[l].stack /\ reduced' = Ev[l].reduced
             /\ (mode = "fixed" => budget' = Ev[l].budget)
             /\ (mode = "grdp" => curved' = Ev[l].curved)
             /\ l' = l + 1 /\ tid' = tid
\* the iteration after the last back-edge (if there is one): it must make the loop condition false
LastStep == /\ pc \in {"fixed", "grdp"} /\ l = Len(Ev) + 1 /\ stack # <<>>
            /\ \E i \in NewIdx(Fin) : \E pl \in 0..1, pr \in 0..1 : StepA(i, pl, pr)
            /\ reduced' = Fin
            /\ (IF mode = "fixed" THEN budget' <= 0 \/ stack' = <<>> ELSE ~curved' \/ stack' = <<>>)
            /\ l' = l + 1 /\ tid' = tid
\* the loop's exit and the return: the machine's result is the returned (sorted) index list
EndStep == /\ pc \in {"fixed", "grdp"} /\ l >= Len(Ev) + 1
           /\ (IF mode = "fixed" THEN FixedEnd ELSE GrdpEnd)
           /\ result' = Fin
           /\ UNCHANGED <<tid, l>>
Step == Silent \/ MatchStep \/ LastStep \/ EndStep

Frozen == UNCHANGED <<n, mode, par, stack, reduced, budget, curved, tl, runs, far, prio, cst, ins, result, steps, tid, l>>
Advance == IF tid < Len(Cases) THEN Load(tid + 1)
           ELSE /\ PrintT(<<"DONE", Len(Cases)>>) /\ pc' = "end" /\ Frozen
Accepted == pc = "done" /\ Advance
Rejected == /\ pc \in {"fixed", "grdp", "ginit"} /\ ~ENABLED Step
            /\ PrintT(<<"VERDICT", Cases[tid].id, "no-machine-step", l, stack, IF l <= Len(Ev) THEN Ev[l].stack ELSE <<>>>>)
            /\ Advance
TNext == Step \/ Accepted \/ Rejected
TSpec == TInit /\ [][TNext]_tvars
=============================================================================
