SPECIFICATION TSpec
CONSTANTS N = 2
          Buggy = FALSE
