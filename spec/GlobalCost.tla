----------------------------- MODULE GlobalCost -----------------------------
(***************************************************************************)
(* evaluation.compute_global_cost with its segment cache as a history      *)
(* machine (C15, and the cost oracle used by C06).                          *)
(*                                                                         *)
(* A query is a breakpoint set S (ascending, both ends).  The cache maps a *)
(* key to the IDENTITY of the computation that produced the stored number: *)
(* <<l, r, metric>> for a segment error, <<"tss", metric>> for the total   *)
(* sum of squares.  The returned cost is described structurally (which     *)
(* segments contribute, the divisor, the normalisation) - the CostExpr -   *)
(* and the real arithmetic of a CostExpr is done by the trusted evaluator  *)
(* harness/costdef.py over exact fractions (DESIGN 3.2 item 3).            *)
(*                                                                         *)
(*   KeyMode = "pair"  : cache keyed by (l, r)              (the code)     *)
(*   KeyMode = "left"  : keyed by l only                    (negative)     *)
(*   SwitchMetric      : the metric may change between queries that share  *)
(*                       the cache                           (negative)    *)
(***************************************************************************)
EXTENDS SimplifyProps, TLC, Json

CONSTANTS N, MaxQueries, Metrics, KeyMode, SwitchMetric, Emit

VARIABLES n, metric, cache, used, log, pc
vars == <<n, metric, cache, used, log, pc>>

Breakpoints(m) == {SortedSeqOf({0, m - 1} \cup T) : T \in SUBSET (1..(m-2))}
Segs(S) == [j \in 1..(Len(S)-1) |-> <<S[j], S[j+1]>>]
Contributing(S) == SelectSeq(Segs(S), LAMBDA sg : sg[2] - sg[1] + 1 > 2)     \* <= 2 points contribute 0
\* the divisor counts every interior breakpoint once per adjoining segment
Total(S, m) == m + Len(S) - 2
Normalisation(mt) == IF mt = "r2" THEN "one-minus-rss-over-tss"
                     ELSE IF mt \in {"rmsle", "rmspe"} THEN "sqrt-of-mean" ELSE "mean"
CostExpr(S, m, mt) == [metric |-> mt, segs |-> Contributing(S), total |-> Total(S, m),
                       norm |-> Normalisation(mt), clip0 |-> TRUE]
KeyOf(sg) == IF KeyMode = "pair" THEN sg ELSE <<sg[1]>>
TssKey == IF KeyMode = "pair" THEN <<-1, -1>> ELSE <<-1>>

Init == /\ n \in 2..N
        /\ metric \in Metrics
        /\ cache = [x \in {} |-> <<>>]
        /\ used = <<>> /\ log = <<>> /\ pc = "open"

RECURSIVE Fill(_, _, _)
\* `if (left, right) not in cache: cache[(left, right)] = segment_error` for each consecutive pair
Fill(c, sgs, mt) == IF sgs = <<>> THEN c
                    ELSE LET k == KeyOf(Head(sgs))
                         IN Fill(IF k \in DOMAIN c THEN c ELSE (k :> <<Head(sgs)[1], Head(sgs)[2], mt>>) @@ c,
                                 Tail(sgs), mt)

Query(S) ==
    /\ pc = "open" /\ Len(log) < MaxQueries
    /\ \E mt \in (IF SwitchMetric THEN Metrics ELSE {metric}) :
         LET c1 == Fill(cache, Segs(S), mt)
             c2 == IF mt = "r2" /\ TssKey \notin DOMAIN c1 THEN (TssKey :> <<-1, -1, mt>>) @@ c1 ELSE c1
         IN /\ cache' = c2
            /\ metric' = mt
            \* identities actually read for this answer
            /\ used' = [j \in 1..(Len(S)-1) |-> <<Segs(S)[j], c2[KeyOf(Segs(S)[j])]>>]
            /\ log' = Append(log, [S |-> S, expr |-> CostExpr(S, n, mt),
                                   keys |-> {k \in DOMAIN c2 : k # TssKey}, tss |-> (TssKey \in DOMAIN c2)])
    /\ UNCHANGED <<n, pc>>

Close == /\ pc = "open" /\ Len(log) >= 1
         /\ pc' = "closed"
         /\ Emit => PrintT(ToJson([n |-> n, metric |-> metric, log |-> log]))
         /\ UNCHANGED <<n, metric, cache, used, log>>

Next == (\E S \in Breakpoints(n) : Query(S)) \/ Close
Spec == Init /\ [][Next]_vars

(* ---- properties -------------------------------------------------------- *)
\* every number read from the cache is what a fresh computation for that segment and metric would store:
\* this is cache transparency at the design level (shared cache = fresh cache, for every history)
CacheSound == \A j \in 1..Len(used) : used[j][2] = <<used[j][1][1], used[j][1][2], metric>>
\* the cache holds exactly the consecutive pairs of the queries made so far
CacheDomain == {k \in DOMAIN cache : k # TssKey} =
               UNION {{KeyOf(Segs(log[q].S)[j]) : j \in 1..(Len(log[q].S)-1)} : q \in 1..Len(log)}
\* all points as breakpoints: nothing contributes (cost 0, R2 1)
PerfectFit == \A q \in 1..Len(log) : Len(log[q].S) = n => log[q].expr.segs = <<>>
DivisorOk == \A q \in 1..Len(log) : log[q].expr.total = n + Len(log[q].S) - 2
=============================================================================
