SPECIFICATION Spec
