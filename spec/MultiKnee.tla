----------------------------- MODULE MultiKnee -----------------------------
(***************************************************************************)
(* multi_knee.multi_knee: the wrapper that turns a single-knee detector    *)
(* into a recursive multi-knee detector (C02).                             *)
(*                                                                         *)
(* Implementation-shaped machine: explicit stack of half-open ranges, one  *)
(* action per pop.  Oracles, lazily chosen and memoised:                   *)
(*   K[<<l,r>>]       the detector's answer on points[l:r]: 0..len-2 (the  *)
(*                    detectors never return the last index) or -1 = None  *)
(*   Curved[<<l,r>>]  the straightness gate (endpoint-line SMAPE >= t1)    *)
(* Property-level operator: MKSet(l, r), the recursive decomposition that  *)
(* the property states, over the same two tables.                          *)
(*   KMayBeLast = TRUE is a negative instance (a detector that may return  *)
(*   the last index makes the left child equal to its parent).             *)
(***************************************************************************)
EXTENDS MultiKneeProps, SequencesExt, TLC, Json

CONSTANTS N, T2s, KMayBeLast, AllCurved, Emit
VARIABLES n, t2, stack, knees, K, Curved, calls, pops, pc
vars == <<n, t2, stack, knees, K, Curved, calls, pops, pc>>

Empty == [x \in {} |-> 0]
Top == stack[Len(stack)]
Memo(f, key, v) == IF key \in DOMAIN f THEN f ELSE (key :> v) @@ f
Answers(l, r) == IF <<l, r>> \in DOMAIN K THEN {K[<<l, r>>]}
                 ELSE (0..(IF KMayBeLast THEN r - l - 1 ELSE r - l - 2)) \cup {None}
Gate(l, r) == IF <<l, r>> \in DOMAIN Curved THEN {Curved[<<l, r>>]}
              ELSE IF AllCurved THEN {TRUE} ELSE BOOLEAN

Init == /\ n \in 2..N /\ t2 \in T2s
        /\ stack = << <<0, n>> >> /\ knees = <<>>
        /\ K = Empty /\ Curved = [x \in {} |-> TRUE]
        /\ calls = <<>> /\ pops = 0 /\ pc = "run"

\* `if len(pt) > t2` fails
PopSmall == /\ pc = "run" /\ stack # <<>> /\ Top[2] - Top[1] <= t2
            /\ stack' = Front(stack) /\ pops' = pops + 1
            /\ UNCHANGED <<n, t2, knees, K, Curved, calls, pc>>
\* gate evaluated; not curved
PopStraight == /\ pc = "run" /\ stack # <<>> /\ Top[2] - Top[1] > t2
               /\ FALSE \in Gate(Top[1], Top[2])
               /\ Curved' = Memo(Curved, Top, FALSE)
               /\ stack' = Front(stack) /\ pops' = pops + 1
               /\ UNCHANGED <<n, t2, knees, K, calls, pc>>
\* curved; detector consulted
PopDetect == /\ pc = "run" /\ stack # <<>> /\ Top[2] - Top[1] > t2
             /\ TRUE \in Gate(Top[1], Top[2])
             /\ Curved' = Memo(Curved, Top, TRUE)
             /\ \E a \in Answers(Top[1], Top[2]) :
                  /\ K' = Memo(K, Top, a)
                  /\ calls' = Append(calls, <<Top[1], Top[2], a>>)
                  /\ IF a = None
                     THEN stack' = Front(stack) /\ knees' = knees
                     ELSE LET idx == a + Top[1]
                          IN /\ knees' = Append(knees, idx)
                             /\ stack' = Front(stack) \o << <<Top[1], idx + 1>>, <<idx + 1, Top[2]>> >>
             /\ pops' = pops + 1
             /\ UNCHANGED <<n, t2, pc>>
Finish == /\ pc = "run" /\ stack = <<>>
          /\ knees' = SortSeq(knees, <)
          /\ pc' = "done"
          /\ Emit => PrintT(ToJson([n |-> n, t2 |-> t2, calls |-> calls, result |-> SortSeq(knees, <)]))
          /\ UNCHANGED <<n, t2, stack, K, Curved, calls, pops>>
Next == PopSmall \/ PopStraight \/ PopDetect \/ Finish
Spec == Init /\ [][Next]_vars /\ WF_vars(Next)

(* ---- the property-level decomposition --------------------------------- *)
\* result on points[l:r] as a set of absolute indices; KT / CT are total lookup operators
KTab == [l \in 1..(n + 1) |-> [r \in 1..(n + 1) |-> IF <<l - 1, r - 1>> \in DOMAIN K THEN K[<<l - 1, r - 1>>] ELSE None]]
CTab == [l \in 1..(n + 1) |-> [r \in 1..(n + 1) |-> IF <<l - 1, r - 1>> \in DOMAIN Curved THEN Curved[<<l - 1, r - 1>>] ELSE FALSE]]

(* ---- properties -------------------------------------------------------- *)
Terminates == <>(pc = "done")
PopBound == pops <= 2 * (n - 1) + 1
Sorted == pc = "done" => \A j \in 1..(Len(knees) - 1) : knees[j] < knees[j + 1]
InRange == pc = "done" => \A j \in 1..Len(knees) : 0 <= knees[j] /\ knees[j] <= n - 2
Interior == (pc = "done" /\ \A key \in DOMAIN K : K[key] # 0) => \A j \in 1..Len(knees) : knees[j] >= 1
Decomposition == pc = "done" => {knees[j] : j \in 1..Len(knees)} = MKSet(0, n, t2, KTab, CTab)
EmptyGate == (pc = "done" /\ (n <= t2 \/ ~CTab[1][n + 1])) => knees = <<>>
=============================================================================
