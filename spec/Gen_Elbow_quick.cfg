SPECIFICATION Spec
CONSTANTS ArmMin = 3
          ArmMax = 4
          Thorough = FALSE
          Emit = TRUE
INVARIANT Lemmas
INVARIANT KneedleLemma
