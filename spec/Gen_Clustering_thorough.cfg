SPECIFICATION Spec
CONSTANTS G = 12
          NMax = 7
          Dens = {8, 10}
          Links = {"single", "complete", "centroid", "average"}
          Variant = "ok"
          Emit = TRUE
INVARIANT Magnitudes
INVARIANT LabelsWellFormed
INVARIANT RuleHolds
INVARIANT StateAgrees
INVARIANT EqualsDefinition
INVARIANT JudgeAccepts
INVARIANT MonotoneInT
