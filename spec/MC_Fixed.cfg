SPECIFICATION Spec
CONSTANTS N = 5
          PrioMax = 1
          CostMax = 2
          Modes = {"fixed", "grdp", "mp", "minpoint"}
          Buggy = FALSE
          EverySecond = FALSE
INVARIANT WellFormed
INVARIANT StepBound
INVARIANT ChainComplete
INVARIANT ExactSize
INVARIANT StackSorted
INVARIANT StackIsSplittable
INVARIANT ResultOk
INVARIANT TestedEvery
PROPERTY Terminates
