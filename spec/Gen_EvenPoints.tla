--------------------------- MODULE Gen_EvenPoints ---------------------------
(***************************************************************************)
(* C14, bindings M and G.  EvenPoints of Filters.tla on dyadic grids       *)
(* (unit-spaced x with n-1 in {8, 16}, heights 0..4, tx in {1/16,1/8,1/4}, *)
(* ty in {1/8,1/4,1/2}), where the code's float arithmetic is exact:       *)
(*   kind "reduced"  every reduction with <= MaxRet retained points x every *)
(*                   subset of knee POSITIONS      (add_points_even)       *)
(*   kind "markers"  every non-empty knee set of <= MaxKnees original      *)
(*                   indices                       (add_points_even_knees) *)
(* each with all 9 (tx, ty) pairs and both `extremes` settings.  The laws  *)
(* of the definition are invariants (M); every case is printed with its    *)
(* expected index arrays and replayed by harness/props/c14.py (G).         *)
(* Curves: a fixed list of height profiles per grid (staircases, plateaus, *)
(* tent, zigzag, noisy, increasing, ranges 1..4) and, with Stairs = TRUE,  *)
(* all 70 monotone unit-step staircases 4 -> 0 and their mirror images     *)
(* (those with <= 3 retained points / <= 2 marker knees).                  *)
(***************************************************************************)
EXTENDS Filters, TLC, Json

CONSTANTS Grids,      \* subset of {8, 16}: n - 1
          MaxRet,     \* reductions with 2..MaxRet retained points
          MaxRet16,   \* the same bound on the 16-grid
          MaxKnees,   \* markers variant: 1..MaxKnees knees (one fewer on the 16-grid)
          Stairs,     \* TRUE: add the staircase family on the 8-grid
          Emit

VARIABLES c, out, pc
vars == <<c, out, pc>>

Profiles8 == { <<4,4,3,3,2,2,1,1,0>>, <<4,3,2,1,0,0,0,0,0>>, <<4,2,1,1,0,1,2,1,3>>, <<0,1,2,3,4,3,2,1,0>>,
               <<2,2,2,2,2,2,2,2,0>>, <<3,0,3,0,3,0,3,0,3>>, <<4,4,4,4,0,0,0,0,2>>, <<1,0,0,0,0,0,0,0,0>>,
               <<0,0,0,0,1,1,2,3,4>>, <<4,0,1,2,0,3,0,1,0>>, <<3,3,2,2,2,1,1,1,1>>, <<2,4,3,3,1,2,0,0,1>> }
Profiles16 == { <<4,4,4,3,3,3,2,2,2,2,1,1,1,1,0,0,0>>, <<4,3,2,2,1,1,1,0,0,0,0,0,0,0,0,0,0>>,
                <<2,0,2,0,2,0,2,0,2,0,2,0,2,0,2,0,2>>, <<0,1,1,2,2,3,3,4,4,4,3,3,2,2,1,1,0>>,
                <<4,2,3,1,2,0,1,0,2,1,3,0,0,1,0,2,1>>, <<0,0,0,0,0,0,0,0,1,1,1,2,2,3,3,4,4>> }
StairSet == LET down == {[i \in 1..9 |-> 4 - Cardinality({d \in D : d < i})] : D \in kSubset(4, 1..8)}
            IN down \cup {[i \in 1..9 |-> h[10 - i]] : h \in down}
CurveOf(h) == [i \in 1..Len(h) |-> <<i - 1, h[i]>>]
\* families: <<profiles, bound on retained points, bound on marker knees>>
Families(g) == IF g = 8 THEN {<<Profiles8, MaxRet, MaxKnees>>} \cup (IF Stairs THEN {<<StairSet \ Profiles8, 3, 2>>} ELSE {})
               ELSE {<<Profiles16, MaxRet16, MaxKnees - 1>>}
Reductions(g, r) == {SortedSeqOf({0, g} \cup T) : T \in UNION {kSubset(j, 1..(g-1)) : j \in 0..(r - 2)}}
KneeSets(g, m) == UNION {kSubset(j, 0..g) : j \in 1..m}

\* tight nested choice (no big set of records is ever built or filtered)
InitCase(x) ==
    \E g \in Grids : \E fam \in Families(g) : \E h \in fam[1] :
        \/ \E S \in Reductions(g, fam[2]) : \E kp \in SUBSET (0..(Len(S) - 1)) :
              x = [kind |-> "reduced", pts |-> CurveOf(h), reduced |-> S, kpos |-> SortedSeqOf(kp)]
        \/ \E ks \in KneeSets(g, fam[3]) :
              x = [kind |-> "markers", pts |-> CurveOf(h), knees |-> SortedSeqOf(ks)]

TX == <<Q(1, 16), Q(1, 8), Q(1, 4)>>
TY == <<Q(1, 8), Q(1, 4), Q(1, 2)>>
Settings == {<<a, b, e>> : a \in 1..3, b \in 1..3, e \in BOOLEAN}
MarkersOf(x) == IF x.kind = "reduced" THEN x.reduced ELSE <<0>> \o x.knees \o <<Len(x.pts) - 1>>
KneesOf(x) == IF x.kind = "reduced" THEN MapSpec(x.kpos, x.reduced) ELSE x.knees
Combo(x, s) ==
    LET segs == SegsOf(x.pts, MarkersOf(x), TX[s[1]], TY[s[2]])
        u == SortedSeqOf(EvenUnion(Len(x.pts), KneesOf(x), segs, s[3]))
    IN [tx |-> TX[s[1]], ty |-> TY[s[2]], extremes |-> s[3], union |-> u,
        segs |-> SetToSeq(segs), exp |-> RunMin(HeightsOf(x.pts), u)]
Combos(x) == LET ss == SetToSeq(Settings) IN [j \in 1..Len(ss) |-> Combo(x, ss[j])]

Init == InitCase(c) /\ out = <<>> /\ pc = "compute"
Compute == /\ pc = "compute"
           /\ out' = Combos(c) /\ pc' = "emit"
           /\ UNCHANGED c
EmitCase == /\ pc = "emit"
            /\ Emit => PrintT(ToJson([case |-> c, combos |-> out]))
            /\ pc' = "done"
            /\ UNCHANGED <<c, out>>
Next == Compute \/ EmitCase
Spec == Init /\ [][Next]_vars

(* ---------------- laws of the definition (binding M) ------------------- *)
N == Len(c.pts)
Hs == HeightsOf(c.pts)
EvenLaws == pc # "compute" => \A j \in 1..Len(out) :
    LET r == out[j] IN
        /\ \A k \in 1..Len(r.exp) : r.exp[k] >= 0 /\ r.exp[k] < N            \* every index valid
        /\ StrictlyIncreasing(r.exp)                                          \* sorted, duplicate-free
        /\ Range(r.exp) \subseteq Range(r.union)                              \* only candidates
        /\ RunMin(Hs, r.exp) = r.exp                                          \* idempotent tail
        /\ (Len(r.union) > 0 => r.exp[1] = r.union[1])
        /\ (r.extremes => r.exp[1] = 0 /\ N - 1 \in Range(r.union))
        /\ Range(KneesOf(c)) \subseteq Range(r.union)
\* on these grids the m inserted points are m distinct indices inside (a, b]
SegLaws == pc # "compute" => \A j \in 1..Len(out) : \A s \in Range(out[j].segs) :
        /\ s[3] >= 1
        /\ SegNew(s[1], s[2], s[3]) \subseteq (s[1]+1)..s[2]
        /\ Cardinality(SegNew(s[1], s[2], s[3])) = s[3]
\* the definition by cases agrees with the one-line EvenReduced / EvenMarkers operators
OperatorsAgree == pc # "compute" => \A j \in 1..Len(out) :
    out[j].exp = IF c.kind = "reduced"
                 THEN EvenReduced(c.pts, c.reduced, c.kpos, out[j].tx, out[j].ty, out[j].extremes)
                 ELSE EvenMarkers(c.pts, c.knees, out[j].tx, out[j].ty, out[j].extremes)
=============================================================================
