SPECIFICATION Spec
CONSTANTS N = 6
          MaxPerm = 3
          Repeats = TRUE
          Emit = TRUE
INVARIANT MapsExactly
