SPECIFICATION Spec
CONSTANTS N = 6
          MaxPerm = 3
          Emit = TRUE
INVARIANT MapsExactly
