---------------------------- MODULE Neighbourhood ----------------------------
(***************************************************************************)
(* Growth beyond the listed properties (DESIGN 9.2): the three R^2         *)
(* neighbourhood searches of evaluation.py as loop machines over an        *)
(* arbitrary oracle good[i] = "R2 of the end-point line through points     *)
(* i..a passes the threshold" (lazily chosen, memoised).                   *)
(*   mode "linear" : get_neighbourhood      (walk left while the fit holds) *)
(*   mode "binary" : get_neighbourhood_binary (the 'inaccurate' bisection)  *)
(*   mode "fast"   : get_neighbourhood_fast   (bisection, then walk right)  *)
(* Checked: termination, the bracket b <= result <= a, and for "linear"    *)
(* the exact characterisation: the leftmost i such that every j in i..a-1  *)
(* is good (a-1 counts as good by construction).                           *)
(***************************************************************************)
EXTENDS Integers, Sequences, FiniteSets, TLC
CONSTANTS N, Modes
VARIABLES a, b, mode, i, right, r2ok, prev, good, steps, pc
vars == <<a, b, mode, i, right, r2ok, prev, good, steps, pc>>

Memo(f, key, v) == IF key \in DOMAIN f THEN f ELSE (key :> v) @@ f
Choices(k) == IF k \in DOMAIN good THEN {good[k]} ELSE BOOLEAN

Init == /\ a \in 2..N /\ b \in 0..(a - 2) /\ mode \in Modes
        /\ good = [k \in {} |-> TRUE] /\ steps = 0 /\ prev = -1
        /\ IF mode = "linear" THEN i = a - 1 /\ right = a /\ r2ok = TRUE /\ pc = "walk"
           ELSE i = b /\ right = a /\ r2ok = FALSE /\ pc = "bisect"

\* get_neighbourhood: `while r2 > t and i > b: previous = i; i -= 1; r2 = R2(i..a)`
WalkLeft == /\ pc = "walk" /\ r2ok /\ i > b
            /\ \E g \in Choices(i - 1) :
                 /\ good' = Memo(good, i - 1, g) /\ r2ok' = g
            /\ prev' = i /\ i' = i - 1 /\ steps' = steps + 1
            /\ UNCHANGED <<a, b, mode, right, pc>>
WalkEnd == /\ pc = "walk" /\ ~(r2ok /\ i > b)
           /\ i' = IF r2ok THEN i ELSE prev          \* `if r2 > t: return i ... else: return previous_res`
           /\ pc' = "done" /\ UNCHANGED <<a, b, mode, right, r2ok, prev, good, steps>>

\* get_neighbourhood_binary: `while abs(i-right) > 1: r2 = R2(i..a); if r2 < t: i = (i+right)//2 else: right = i; i = (b+right)//2`
Bisect == /\ pc = "bisect" /\ (IF i > right THEN i - right ELSE right - i) > 1
          /\ \E g \in Choices(i) :
               /\ good' = Memo(good, i, g)
               /\ IF ~g THEN i' = (i + right) \div 2 /\ right' = right
                        ELSE right' = i /\ i' = (b + i) \div 2
          /\ steps' = steps + 1
          /\ UNCHANGED <<a, b, mode, r2ok, prev, pc>>
BisectEnd == /\ pc = "bisect" /\ ~((IF i > right THEN i - right ELSE right - i) > 1)
             /\ IF mode = "binary" THEN pc' = "done" /\ UNCHANGED <<r2ok, good>>
                ELSE /\ pc' = "right"                   \* fast: r2 of i..a, then `while r2 < t and i < a: i += 1`
                     /\ \E g \in Choices(i) : good' = Memo(good, i, g) /\ r2ok' = g
             /\ UNCHANGED <<a, b, mode, i, right, prev, steps>>
WalkRight == /\ pc = "right" /\ ~r2ok /\ i < a
             /\ \E g \in Choices(i + 1) : good' = Memo(good, i + 1, g) /\ r2ok' = g
             /\ i' = i + 1 /\ steps' = steps + 1
             /\ UNCHANGED <<a, b, mode, right, prev, pc>>
RightEnd == /\ pc = "right" /\ ~(~r2ok /\ i < a)
            /\ pc' = "done" /\ UNCHANGED <<a, b, mode, i, right, r2ok, prev, good, steps>>

Next == WalkLeft \/ WalkEnd \/ Bisect \/ BisectEnd \/ WalkRight \/ RightEnd
Spec == Init /\ [][Next]_vars /\ WF_vars(Next)

Terminates == <>(pc = "done")
Bracket == pc = "done" => (b <= i /\ i <= a)
StepBound == steps <= 2 * N + 2
GoodAt(k) == k = a - 1 \/ (k \in DOMAIN good /\ good[k])
\* linear search: the leftmost start of a run of good fits ending at a-1
LinearIsLeftmostRun == (pc = "done" /\ mode = "linear") =>
    /\ \A k \in i..(a - 1) : GoodAt(k)
    /\ (i > b => ~GoodAt(i - 1))
\* fast search: the result passes the threshold unless it ran into a
FastResultGood == (pc = "done" /\ mode = "fast") => (r2ok \/ i = a)
=============================================================================
