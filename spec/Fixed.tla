------------------------------- MODULE Fixed -------------------------------
(***************************************************************************)
(* The priority-stack family of rdp.py as one implementation-shaped        *)
(* machine: _rdp_fixed (rdp_fixed), _grdp (grdp), mp_grdp (the fixed loop  *)
(* continues on the SAME stack and retained set) and min_point_rdp         *)
(* (thresholds tried in descending order, fixed-size fallback).            *)
(*                                                                         *)
(* Data-dependent decisions are lazily chosen, memoised oracles:           *)
(*   far[<<l,r>>]  the index the distance argmax returns for points[l:r]   *)
(*   prio[<<l,r>>] the ordering score (order_triangle/area/segment) level  *)
(*   cst[S]        the global-cost level of retained set S; a threshold of *)
(*                 level tl accepts S iff cst[S] < tl                      *)
(* Phase 1 ("chain") runs the fixed-size loop to exhaustion and records    *)
(* the insertion order `ins`; that history DEFINES the refinement sequence *)
(* S_2, S_3, ... against which every variant is then judged (C05, C06).    *)
(***************************************************************************)
EXTENDS SimplifyProps, TLC

CONSTANTS N,           \* curve sizes 2..N
          PrioMax,     \* ordering-score levels 0..PrioMax
          CostMax,     \* cost levels 0..CostMax, threshold levels 1..CostMax
          Modes,       \* subset of {"fixed","grdp","mp","minpoint"}
          Buggy,       \* TRUE: pinned-tree defects D2/D3 (end-point split, 2-point seed) - negative instance
          EverySecond  \* TRUE: global cost tested only every second insertion - negative instance

VARIABLES n, mode, par, stack, reduced, budget, curved, tl, runs,
          far, prio, cst, ins, result, steps, pc
vars == <<n, mode, par, stack, reduced, budget, curved, tl, runs, far, prio, cst, ins, result, steps, pc>>

Empty == [x \in {} |-> 0]
Seed == IF n > 2 \/ Buggy THEN << <<0, 0, n>> >> ELSE <<>>
Pop == stack[Len(stack)]
StableInsert(s, e) ==           \* list.sort(key=cost) is stable: e goes after every entry with cost <= e's
    LET pos == Cardinality({j \in 1..Len(s) : s[j][1] <= e[1]})
    IN SubSeq(s, 1, pos) \o <<e>> \o SubSeq(s, pos + 1, Len(s))
FarChoices(l, r) == IF <<l, r>> \in DOMAIN far THEN {far[<<l, r>>]}
                    ELSE IF Buggy THEN l..(r-1) ELSE (l+1)..(r-2)
PrioChoices(l, r) == IF <<l, r>> \in DOMAIN prio THEN {prio[<<l, r>>]} ELSE 0..PrioMax
CostChoices(S) == IF S \in DOMAIN cst THEN {cst[S]} ELSE 0..CostMax
Memo(f, key, v) == IF key \in DOMAIN f THEN f ELSE (key :> v) @@ f

\* one iteration body shared by _rdp_fixed and _grdp: pop the highest-priority segment, retain its
\* farthest point, push the children that still have interior points, re-sort.
Refine(i, pl, pr) ==
    LET l == Pop[2]  r == Pop[3]
        hasL == (i + 1) - l > 2
        hasR == r - i > 2
    IN /\ i \in FarChoices(l, r)
       /\ pl \in (IF hasL THEN PrioChoices(l, i + 1) ELSE {0})
       /\ pr \in (IF hasR THEN PrioChoices(i, r) ELSE {0})
       /\ far' = Memo(far, <<l, r>>, i)
       /\ prio' = LET p1 == IF hasL THEN Memo(prio, <<l, i + 1>>, pl) ELSE prio
                  IN IF hasR THEN Memo(p1, <<i, r>>, pr) ELSE p1
       /\ reduced' = SortSeq(Append(reduced, i), <)
       /\ stack' = LET s0 == Front(stack)
                       s1 == IF hasL THEN StableInsert(s0, <<pl, l, i + 1>>) ELSE s0
                   IN IF hasR THEN StableInsert(s1, <<pr, i, r>>) ELSE s1
       /\ steps' = steps + 1

Init == /\ n \in 2..N
        /\ mode = "chain" /\ par = [k |-> 0]
        /\ stack = Seed /\ reduced = <<0, n - 1>> /\ budget = n - 2
        /\ curved = FALSE /\ tl = 0 /\ runs = <<>>
        /\ far = Empty /\ prio = Empty /\ cst = Empty
        /\ ins = <<>> /\ result = <<>> /\ steps = 0 /\ pc = "chain"

(* ---- phase 1: the chain ------------------------------------------------ *)
ChainStep == /\ pc = "chain" /\ budget > 0 /\ stack # <<>>
             /\ \E i \in 0..(n-1), pl \in 0..PrioMax, pr \in 0..PrioMax :
                  /\ Refine(i, pl, pr)
                  /\ ins' = Append(ins, i)
             /\ budget' = budget - 1
             /\ UNCHANGED <<n, mode, par, curved, tl, runs, cst, result, pc>>
ChainEnd == /\ pc = "chain" /\ (budget <= 0 \/ stack = <<>>)
            /\ pc' = "start"
            /\ UNCHANGED <<n, mode, par, stack, reduced, budget, curved, tl, runs, far, prio, cst, ins, result, steps>>

(* ---- phase 2: one public call ------------------------------------------ *)
DescLists == {SetToSortSeq(T, >) : T \in (SUBSET (1..CostMax)) \ {{}}}
Start ==
    /\ pc = "start"
    /\ \E md \in Modes :
         /\ mode' = md
         /\ \/ /\ md = "fixed"
               /\ \E k \in 0..(n+1) : par' = [k |-> k] /\ budget' = k - 2
               /\ pc' = "fixed" /\ tl' = 0 /\ runs' = <<>>
            \/ /\ md = "grdp"
               /\ \E t \in 1..CostMax : par' = [t |-> t] /\ tl' = t
               /\ pc' = "ginit" /\ budget' = 0 /\ runs' = <<>>
            \/ /\ md = "mp"
               /\ \E t \in 1..CostMax, m \in 0..(n+1) : par' = [t |-> t, m |-> m] /\ tl' = t
               /\ pc' = "ginit" /\ budget' = 0 /\ runs' = <<>>
            \/ /\ md = "minpoint"
               /\ \E ts \in DescLists, m \in 0..(n+1) : par' = [ts |-> ts, m |-> m] /\ runs' = ts
               /\ pc' = "mpnext" /\ budget' = 0 /\ tl' = 0
    /\ stack' = Seed /\ reduced' = <<0, n - 1>> /\ steps' = 0 /\ curved' = FALSE
    /\ UNCHANGED <<n, far, prio, cst, ins, result>>

\* `global_cost = compute_global_cost(points, reduced, cost, cache); curved = ...` before the loop
GInit == /\ pc = "ginit"
         /\ \E lev \in CostChoices(reduced) :
              /\ cst' = Memo(cst, reduced, lev)
              /\ curved' = ~(lev < tl)
         /\ pc' = "grdp"
         /\ UNCHANGED <<n, mode, par, stack, reduced, budget, tl, runs, far, prio, ins, result, steps>>

\* one iteration of `while curved and stack` in _grdp: refine, then test the new retained set
\* (the arguments are what a recorded iteration can tell: Trace_FixedSteps binds them from the logged snapshot)
GrdpStepA(i, pl, pr) ==
            /\ pc = "grdp" /\ curved /\ stack # <<>>
            /\ Refine(i, pl, pr)
            /\ IF EverySecond /\ Len(reduced') % 2 = 1
               THEN curved' = curved /\ cst' = cst
               ELSE \E lev \in CostChoices(reduced') :
                      /\ cst' = Memo(cst, reduced', lev)
                      /\ curved' = ~(lev < tl)
            /\ UNCHANGED <<n, mode, par, budget, tl, runs, ins, result, pc>>
GrdpStep == \E i \in 0..(n-1), pl \in 0..PrioMax, pr \in 0..PrioMax : GrdpStepA(i, pl, pr)

GrdpEnd == /\ pc = "grdp" /\ (~curved \/ stack = <<>>)
           /\ \/ /\ mode = "grdp"
                 /\ result' = reduced /\ pc' = "done" /\ UNCHANGED <<budget, runs>>
              \/ /\ mode = "mp" /\ Len(reduced) >= par.m
                 /\ result' = reduced /\ pc' = "done" /\ UNCHANGED <<budget, runs>>
              \/ /\ mode = "mp" /\ Len(reduced) < par.m          \* continue with the same stack and set
                 /\ budget' = par.m - Len(reduced) /\ pc' = "fixed" /\ UNCHANGED <<result, runs>>
              \/ /\ mode = "minpoint" /\ Len(reduced) >= par.m
                 /\ result' = reduced /\ pc' = "done" /\ UNCHANGED <<budget, runs>>
              \/ /\ mode = "minpoint" /\ Len(reduced) < par.m
                 /\ runs' = Tail(runs) /\ pc' = "mpnext" /\ UNCHANGED <<budget, result>>
           /\ UNCHANGED <<n, mode, par, stack, reduced, curved, tl, far, prio, cst, ins, steps>>

\* `for current_t in t: reduced, removed = grdp(points, t=current_t)` / `return rdp_fixed(points, min_points)`
MpNext == /\ pc = "mpnext"
          /\ stack' = Seed /\ reduced' = <<0, n - 1>> /\ steps' = 0 /\ curved' = FALSE
          /\ IF runs = <<>> THEN /\ budget' = par.m - 2 /\ pc' = "fixed" /\ tl' = tl
                            ELSE /\ tl' = Head(runs) /\ pc' = "ginit" /\ budget' = budget
          /\ UNCHANGED <<n, mode, par, runs, far, prio, cst, ins, result>>

FixedStepA(i, pl, pr) ==
             /\ pc = "fixed" /\ budget > 0 /\ stack # <<>>
             /\ Refine(i, pl, pr)
             /\ budget' = budget - 1
             /\ UNCHANGED <<n, mode, par, curved, tl, runs, cst, ins, result, pc>>
FixedStep == \E i \in 0..(n-1), pl \in 0..PrioMax, pr \in 0..PrioMax : FixedStepA(i, pl, pr)
FixedEnd == /\ pc = "fixed" /\ (budget <= 0 \/ stack = <<>>)
            /\ result' = reduced /\ pc' = "done"
            /\ UNCHANGED <<n, mode, par, stack, reduced, budget, curved, tl, runs, far, prio, cst, ins, steps>>

Next == ChainStep \/ ChainEnd \/ Start \/ GInit \/ GrdpStep \/ GrdpEnd \/ MpNext \/ FixedStep \/ FixedEnd
Spec == Init /\ [][Next]_vars /\ WF_vars(Next)

(* ---- the property-level reading of the chain --------------------------- *)
SpecS(j) == SortedSeqOf({0, n - 1} \cup {ins[x] : x \in 1..(IF j - 2 < Len(ins) THEN j - 2 ELSE Len(ins))})
AccAt(level, j) == SpecS(j) \in DOMAIN cst /\ cst[SpecS(j)] < level
KStar(level) == FirstAccepted([j \in 2..n |-> AccAt(level, j)], n)
GrdpSpec(level) == SpecS(KStar(level))
Expected ==
    IF mode = "fixed" THEN SpecS(Clamp(par.k, n))
    ELSE IF mode = "grdp" THEN GrdpSpec(par.t)
    ELSE IF mode = "mp" THEN SpecS(MpSize(KStar(par.t), par.m, n))
    ELSE LET good == {x \in 1..Len(par.ts) : Len(GrdpSpec(par.ts[x])) >= par.m}
         IN IF good # {} THEN GrdpSpec(par.ts[CHOOSE x \in good : \A y \in good : x <= y])
            ELSE SpecS(Clamp(par.m, n))

(* ---- properties -------------------------------------------------------- *)
Terminates == <>(pc = "done")
\* C01
WellFormed == pc = "done" => IsReduction(result, n)
StepBound == steps <= (IF n > 2 THEN n - 2 ELSE 0)
\* C05
ChainComplete == pc # "chain" => Len(ins) = n - 2 /\ Cardinality(Range(ins)) = n - 2
ExactSize == (pc = "done" /\ mode = "fixed") => Len(result) = Clamp(par.k, n)
StackSorted == \A j \in 1..(Len(stack) - 1) : stack[j][1] <= stack[j+1][1]
\* the stack holds exactly the retained segments that still have interior points, so the popped
\* (last) entry has maximal ordering score among ALL of them
StackIsSplittable == pc \in {"chain", "fixed", "grdp"} =>
    {<<stack[j][2], stack[j][3] - 1>> : j \in 1..Len(stack)} = Splittable(reduced)
\* C05 + C06: every variant returns the member of the chain the property names
ResultOk == pc = "done" => result = Expected
TestedEvery == (pc = "done" /\ mode \in {"grdp", "mp"}) => \A j \in 2..KStar(par.t) : SpecS(j) \in DOMAIN cst
=============================================================================
