------------------------------ MODULE LRefine ------------------------------
(***************************************************************************)
(* The iterative refinement loops of lmethod.knee and dfdt.knee as         *)
(* machines over an arbitrary (lazily chosen, memoised) table of per-cutoff*)
(* answers: K[c] = get_knee on the prefix 0..c (L-method), G[c] = argmin   *)
(* on the suffix from c (DFDT).  C09's termination clauses.                *)
(*   Guard = "visited" : Refinement.original stops when a knee value is    *)
(*                  revisited (repaired code).                             *)
(*   Guard = "none"    : the pinned rule - ends only when two consecutive  *)
(*                  knees are equal; TLC exhibits the 2-cycle (negative).  *)
(*   Guard = "previous": stops when the new knee equals the knee before    *)
(*                  the last one (a 2-cycle guard); TLC exhibits a cycle   *)
(*                  of length 3 (negative; seeded change C09-5).           *)
(***************************************************************************)
EXTENDS DetectorProps, TLC
CONSTANTS N, Limits, Modes, Guard
VARIABLES n, mode, limit, cur, last, cutoff, K, seen, done, pc
vars == <<n, mode, limit, cur, last, cutoff, K, seen, done, pc>>

Memo(f, key, v) == IF key \in DOMAIN f THEN f ELSE (key :> v) @@ f
Init == /\ n \in 5..N /\ mode \in Modes /\ limit \in Limits
        /\ IF mode = "dfdt" THEN cur = 0 /\ last = -1 /\ cutoff = 0
                           ELSE cur = n /\ last = -1 /\ cutoff = n
        /\ K = [x \in {} |-> 0] /\ seen = {} /\ done = FALSE
        /\ pc = "loop"

(* ---- L-method ----------------------------------------------------------- *)
PrefixLen(c) == IF c + 1 < n THEN c + 1 ELSE n
LStep == /\ pc = "loop" /\ mode # "dfdt" /\ cur # last /\ ~done
         /\ \E k \in (IF cutoff \in DOMAIN K THEN {K[cutoff]} ELSE 2..(PrefixLen(cutoff) - 3)) :
              /\ K' = Memo(K, cutoff, k)
              /\ last' = cur /\ cur' = k
              /\ IF mode = "adjusted" THEN cutoff' = Max2(limit, (k + cur) \div 2) /\ done' = FALSE /\ seen' = seen
                 ELSE IF mode = "original"
                      THEN /\ cutoff' = Max2(limit, Min2(2 * k, n))
                           /\ done' = ((Guard = "visited" /\ k \in seen) \/ (Guard = "previous" /\ k = last)) /\ seen' = seen \cup {k}
                      ELSE cutoff' = cutoff /\ done' = TRUE /\ seen' = seen
         /\ UNCHANGED <<n, mode, limit, pc>>
LEnd == /\ pc = "loop" /\ mode # "dfdt" /\ (cur = last \/ done)
        /\ pc' = "done" /\ UNCHANGED <<n, mode, limit, cur, last, cutoff, K, seen, done>>

(* ---- DFDT: `while last_knee < knee and (len(x)-cutoff) > 2` ---------------- *)
DStep == /\ pc = "loop" /\ mode = "dfdt" /\ last < cur /\ n - cutoff > 2
         /\ \E g \in (IF cutoff \in DOMAIN K THEN {K[cutoff]} ELSE (cutoff + 1)..(n - 2)) :
              /\ K' = Memo(K, cutoff, g)
              /\ last' = cur /\ cur' = g /\ cutoff' = CeilHalf(g)
         /\ UNCHANGED <<n, mode, limit, seen, done, pc>>
DEnd == /\ pc = "loop" /\ mode = "dfdt" /\ ~(last < cur /\ n - cutoff > 2)
        /\ pc' = "done" /\ UNCHANGED <<n, mode, limit, cur, last, cutoff, K, seen, done>>

Next == LStep \/ LEnd \/ DStep \/ DEnd
Spec == Init /\ [][Next]_vars /\ WF_vars(Next)

Terminates == <>(pc = "done")
InteriorResult == pc = "done" => (cur >= 1 /\ cur <= n - 2)
\* the L-method result is a split point of the admissible range
LRange == (pc = "done" /\ mode # "dfdt") => (cur >= 2 /\ cur <= n - 3)
=============================================================================
