------------------------------ MODULE Pipeline ------------------------------
(***************************************************************************)
(* The end-to-end composition used by demos/*.py as a stage machine (C08): *)
(* simplify -> multi-knee on the reduced curve -> worst-knee filter ->      *)
(* corner filter -> cluster filter -> index mapping.  Each stage is         *)
(* modelled by what its own property guarantees (C01, C02, C13, C12, C07),  *)
(* not by its algorithm: the detector returns ANY strictly increasing list  *)
(* of interior positions, the corner and cluster filters return ANY         *)
(* subsequence, the worst filter is RunMin, Map is MapSpec.  TLC shows the  *)
(* pipeline invariants follow from the stage guarantees.                    *)
(*   DupReduced = TRUE: the simplifier may repeat an index (the pinned      *)
(*   tree's defect D2) - negative instance: the mapped list is no longer    *)
(*   strictly increasing.                                                   *)
(***************************************************************************)
EXTENDS PipelineProps, SequencesExt, FiniteSetsExt, TLC
CONSTANTS N, HMax, DupReduced
VARIABLES n, reduced, hred, stage, knees, prev
vars == <<n, reduced, hred, stage, knees, prev>>

SortedSeqOf(S) == SetToSortSeq(S, <)
SubseqsOf(s) == {SortedSeqOf(T) : T \in SUBSET {j : j \in 1..Len(s)}}      \* index sets
Pick(s, idx) == [j \in 1..Len(idx) |-> s[idx[j]]]

Init == /\ n \in 3..N
        /\ \E T \in SUBSET (1..(n - 2)) :
             \/ reduced = SortedSeqOf({0, n - 1} \cup T)
             \/ /\ DupReduced /\ T # {}
                /\ \E d \in T : reduced = SortSeq(SortedSeqOf({0, n - 1} \cup T) \o <<d>>, <)
        /\ hred \in [1..Len(reduced) -> 0..HMax]
        /\ stage = "simplified" /\ knees = <<>> /\ prev = <<>>

\* C02: strictly increasing positions inside [0, r-2]
Detect == /\ stage = "simplified"
          /\ \E T \in SUBSET (0..(Len(reduced) - 2)) : knees' = SortedSeqOf(T)
          /\ stage' = "detected" /\ prev' = knees /\ UNCHANGED <<n, reduced, hred>>
FilterWorst == /\ stage = "detected"
               /\ knees' = RunMin(knees, hred)
               /\ stage' = "worst" /\ prev' = knees /\ UNCHANGED <<n, reduced, hred>>
FilterCorner == /\ stage = "worst"
                /\ \E idx \in SubseqsOf(knees) : knees' = Pick(knees, idx)
                /\ stage' = "corner" /\ prev' = knees /\ UNCHANGED <<n, reduced, hred>>
FilterCluster == /\ stage = "corner"
                 /\ \E idx \in SubseqsOf(knees) : knees' = Pick(knees, idx)
                 /\ stage' = "clustered" /\ prev' = knees /\ UNCHANGED <<n, reduced, hred>>
\* C07: mapping(I, reduced, removed) = reduced[I]
Map == /\ stage = "clustered"
       /\ knees' = [j \in 1..Len(knees) |-> reduced[knees[j] + 1]]
       /\ stage' = "mapped" /\ prev' = knees /\ UNCHANGED <<n, reduced, hred>>
Next == Detect \/ FilterWorst \/ FilterCorner \/ FilterCluster \/ Map
Spec == Init /\ [][Next]_vars /\ WF_vars(Next)

FilterIsSubsequence == stage \in {"worst", "corner", "clustered"} => IsSubseq(knees, prev)
HeightsOk == stage \in {"worst", "corner", "clustered"} => HeightsMonotone(knees, hred)
\* at the end: original indices, strictly increasing, each a retained point with the reduced-space knee's height
MappedOk == stage = "mapped" =>
    /\ StrictInc(knees)
    /\ \A j \in 1..Len(knees) : InSeq(knees[j], reduced) /\ knees[j] = reduced[prev[j] + 1]
    /\ \A j \in 1..(Len(knees) - 1) : hred[prev[j] + 1] >= hred[prev[j + 1] + 1]
Completes == <>(stage = "mapped")
=============================================================================
