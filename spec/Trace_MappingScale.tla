------------------------ MODULE Trace_MappingScale ------------------------
(***************************************************************************)
(* Binding T for C07 at production size: reductions of curves of 10^3 ..   *)
(* 10^5 points (returned by the simplifiers, or index sets handed to       *)
(* compute_removed_points) with up to tens of thousands of retained        *)
(* indices.  Same clauses and the same property operators                  *)
(* (SimplifyProps!RemovedOf, MapSpec) as Trace_Mapping.  The clauses need  *)
(* no oracle table: only the encoding of a case is compact -               *)
(*   cp_same = TRUE   the table compute_removed_points returned is, row by *)
(*                    row, the table in `removed` (it is sent once);       *)
(*   maps[m].all      the position list is 0, 1, ..., Len(reduced)-1 (it   *)
(*                    is not sent; `idxs` is then empty);                  *)
(*   derived = TRUE   the reduction is an index set handed to              *)
(*                    compute_removed_points, whose table is `removed`;    *)
(* and a verdict quotes the first differing row / position instead of the  *)
(* whole tables.                                                           *)
(***************************************************************************)
EXTENDS SimplifyProps, TLC, Json, IOUtils

Cases == JsonDeserialize(IOEnv.CASES_FILE)
VARIABLE i

Idxs(c, m) == IF m.all THEN [p \in 1..Len(c.reduced) |-> p - 1] ELSE m.idxs
BadMap(c) == {m \in 1..Len(c.maps) : c.maps[m].out # MapSpec(Idxs(c, c.maps[m]), c.reduced)}

\* first position at which two sequences differ (CHOOSE over an interval takes its least witness in TLC; any witness would do)
Diff(a, b) ==
    IF Len(a) # Len(b) THEN <<"length", Len(a), Len(b)>>
    ELSE LET j == CHOOSE j \in 1..Len(a) : a[j] # b[j] IN <<"at", j - 1, a[j], b[j]>>

Verdict(c) ==
    LET exp == RemovedOf(c.reduced)
        cp == IF c.cp_same THEN c.removed ELSE c.cp
    IN  IF Len(c.reduced) < 2 THEN <<"mapping-equals-reduced", "fewer than two retained indices">>
        ELSE IF c.removed # exp THEN <<(IF c.derived THEN "compute-removed-points" ELSE "removed-table-agrees")>> \o Diff(c.removed, exp)
        ELSE IF cp # exp THEN <<"compute-removed-points">> \o Diff(cp, exp)
        ELSE IF BadMap(c) # {} THEN
             LET m == CHOOSE m \in BadMap(c) : TRUE
             IN <<(IF c.maps[m].sorted THEN "mapping-equals-reduced" ELSE "unsorted-rows"), "map", m - 1>>
                    \o Diff(c.maps[m].out, MapSpec(Idxs(c, c.maps[m]), c.reduced))
        ELSE <<"ok">>

Init == i = 1
Next == /\ i <= Len(Cases)
        /\ LET v == Verdict(Cases[i]) IN IF v[1] = "ok" THEN TRUE ELSE PrintT(<<"VERDICT", Cases[i].id>> \o v)
        /\ i' = i + 1
        /\ IF i = Len(Cases) THEN PrintT(<<"DONE", Len(Cases)>>) ELSE TRUE
Spec == Init /\ [][Next]_i
=============================================================================
