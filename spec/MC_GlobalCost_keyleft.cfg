SPECIFICATION Spec
CONSTANTS N = 5
          MaxQueries = 3
          Metrics = {"r2", "rmspe", "rmsle", "rpd", "smape"}
          KeyMode = "left"
          SwitchMetric = FALSE
          Emit = FALSE
INVARIANT CacheSound
