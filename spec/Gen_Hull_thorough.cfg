SPECIFICATION Spec
CONSTANTS NMax = 7
          YMax = 4
          GSide = 4
          SetMin = 3
          SetMax = 5
          Modes = {"lower", "upper", "graham"}
          Guarded = TRUE
          Emit = TRUE
INVARIANT ChainIsHull
INVARIANT UpperIsHull
INVARIANT NoUnderflow
INVARIANT GrahamContainsExtremes
INVARIANT GrahamOnlyBoundary
INVARIANT GrahamExact
INVARIANT GrahamNoDup
