SPECIFICATION Spec
CONSTANTS NMax = 5
          YMax = 3
          Emit = TRUE
INVARIANT KneeInterior
INVARIANT KneeIsAPeak
INVARIANT NoPeakOnALine
