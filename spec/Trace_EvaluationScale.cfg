SPECIFICATION Spec
