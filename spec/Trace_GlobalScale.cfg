SPECIFICATION Spec
