-------------------------- MODULE Trace_Detectors --------------------------
(* Binding T for C09 (and the loop clauses of C02): recorded single-knee detector calls with rank / optimiser
   tables computed from the STATED criterion (not from the function under test). *)
EXTENDS DetectorProps, TLC, Json, IOUtils
Cases == JsonDeserialize(IOEnv.CASES_FILE)
VARIABLE i

Common(c) ==
    IF c.outcome \in {"budget", "watchdog"} THEN <<"terminates", c.outcome>>
    ELSE IF c.outcome # "returned" THEN <<"returns", c.outcome>>
    ELSE IF c.result < c.lo_ok \/ c.result > c.hi_ok THEN <<"interior", c.result>>
    ELSE <<"ok">>

Specific(c) ==
    IF c.kind = "argopt" THEN
        LET S == IF c.sense = "max" THEN ArgMax(c.rank, c.lo, c.hi) ELSE ArgMin(c.rank, c.lo, c.hi)
        IN IF c.result \in S THEN <<"ok">> ELSE <<"not-optimal", c.det, c.result, S>>
    ELSE IF c.kind = "dfdt" THEN
        LET F == DfdtFinals(c.n, c.G, 0, -1, 0, c.n + 3)
        IN IF c.result \in F THEN <<"ok">> ELSE <<"loop-fixpoint", "dfdt", c.result, F>>
    ELSE \* "lknee"
        LET F == LFinals(c.n, c.A, c.mode, c.limit, c.n, -1, c.n, {}, c.n + 3)
        IN IF c.result \in F \/ -8 \in F THEN <<"ok">> ELSE <<"loop-fixpoint", "lmethod", c.mode, c.result, F>>

Verdict(c) == LET v == Common(c) IN IF v[1] # "ok" THEN v ELSE Specific(c)

Init == i = 1
Next == /\ i <= Len(Cases)
        /\ LET v == Verdict(Cases[i]) IN IF v[1] = "ok" THEN TRUE ELSE PrintT(<<"VERDICT", Cases[i].id>> \o v)
        /\ i' = i + 1
        /\ IF i = Len(Cases) THEN PrintT(<<"DONE", Len(Cases)>>) ELSE TRUE
Spec == Init /\ [][Next]_i
=============================================================================
