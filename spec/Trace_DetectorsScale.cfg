SPECIFICATION Spec
