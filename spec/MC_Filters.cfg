SPECIFICATION Spec
CONSTANTS NMax = 4
          FullN = 4
          YMax = 3
          Uneven = TRUE
          Variant = "ok"
          Emit = FALSE
INVARIANT MachineIsRunMin
INVARIANT HminIsPrefixMin
INVARIANT RunMinLaws
INVARIANT CornerLaws
INVARIANT Small32
PROPERTY Terminates
