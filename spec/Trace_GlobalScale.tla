-------------------------- MODULE Trace_GlobalScale --------------------------
(***************************************************************************)
(* Binding T for C06 on production-size curves (10^3 .. 10^5 points, results *)
(* of thousands of indices).  Trace_Simplify's kinds "global" / "minpoint"   *)
(* need the WHOLE chain S_2 .. S_n and the class of every member; here the   *)
(* tables are SPARSE: only the chain members the recorded result mentions    *)
(* (S_L for L = |result|, from rdp.rdp_fixed) and the acceptance classes of  *)
(* a sample of members (always L and L-1, plus earlier ones).  Every clause  *)
(* below is a NECESSARY condition of the property, so a rejection is sound   *)
(* whatever the sample is; what the sample cannot decide is "unjudged".      *)
(*                                                                           *)
(*   kind "gscale"  one call of grdp (m = 0) or mp_grdp(m):                  *)
(*        result  = the returned index list ( <<-1>> when it did not return) *)
(*        member  = S_L = rdp_fixed(points, L) on the same curve / options   *)
(*        probes  = << <<k, class of cost(S_k) against t>> >>,               *)
(*                  class \in {"accept","reject","nan","tie"}                *)
(*        MpSpec(m) = S_max(k*, min(m, n)),  GrdpSpec = MpSpec(0)            *)
(*   kind "mscale"  one call of min_point_rdp(ts, m):                        *)
(*        ks      = |grdp(t)| for the thresholds in DESCENDING order (each   *)
(*                  of them is judged by a "gscale" case of the same batch)  *)
(*        members = << <<size, S_size>> >> (default configuration)           *)
(***************************************************************************)
EXTENDS SimplifyProps, TLC, Json, IOUtils

Cases == JsonDeserialize(IOEnv.CASES_FILE)
VARIABLE i

Min2(a, b) == IF a < b THEN a ELSE b
ProbesAt(c, k) == {p \in 1..Len(c.probes) : c.probes[p][1] = k}
Cls(c, k) == IF ProbesAt(c, k) = {} THEN "missing" ELSE c.probes[CHOOSE p \in ProbesAt(c, k) : TRUE][2]
Accepted(c, S) == {p \in S : c.probes[p][2] = "accept"}

\* the clause of C06 a wrong grdp / mp_grdp result is reported under (same names as Trace_Simplify): a result that is
\* not a member of the chain at all breaks "returns the shortest member ..."; one that stops on the rejecting side
\* with no sampled member accepted breaks "... and all points if none is"
MClause(c) == IF c.f = "mp_grdp" THEN "min-points-continuation" ELSE "first-accepted"
GClause(c) == IF c.f = "mp_grdp" THEN "min-points-continuation"
              ELSE IF Accepted(c, 1..Len(c.probes)) # {} THEN "first-accepted"
              ELSE "all-points-when-none"

GScaleVerdict(c) ==
    LET L     == Len(c.result)
        mm    == Min2(c.m, c.n)
        upto  == {p \in 1..Len(c.probes) : c.probes[p][1] <= L}
        below == {p \in 1..Len(c.probes) : c.probes[p][1] < L}
    IN  IF ~IsReduction(c.result, c.n) THEN <<MClause(c), "not-a-reduction", L>>
        ELSE IF L < mm THEN <<"min-points-continuation", "fewer-than-min-points", L, mm>>
        ELSE IF c.member # c.result THEN <<MClause(c), "not-the-chain-member", L>>
        \* undefined cost or a comparison within rounding noise of the threshold: the property does not pin the side
        ELSE IF \E p \in upto : c.probes[p][2] \in {"nan", "tie"} THEN <<"ok">>
        ELSE IF L > mm \/ mm <= 2
        THEN \* more points than the minimum asks for: the call claims k* = L
             IF L < c.n /\ Cls(c, L) = "missing" THEN <<"incomplete-table", L>>
             ELSE IF L > 2 /\ Cls(c, L - 1) = "missing" THEN <<"incomplete-table", L - 1>>
             ELSE IF L < c.n /\ Cls(c, L) = "reject" THEN <<GClause(c), "stopped-on-the-rejecting-side", L, c.n>>
             ELSE IF Accepted(c, below) # {}
                  THEN <<GClause(c), "shorter-member-accepted", c.probes[CHOOSE p \in Accepted(c, below) : TRUE][1], L>>
                  ELSE <<"ok">>
        ELSE \* exactly min(m, n) > 2 points: right iff k* <= L, i.e. iff some member up to S_L is accepted (or L = n)
             IF L = c.n \/ Accepted(c, upto) # {} THEN <<"ok">> ELSE <<"unjudged", L>>

MemberIdx(c, k) == {x \in 1..Len(c.members) : c.members[x][1] = k}
MScaleVerdict(c) ==
    LET good == {y \in 1..Len(c.ks) : c.ks[y] >= c.m}
        size == IF good # {} THEN c.ks[CHOOSE y \in good : \A z \in good : y <= z] ELSE Clamp(c.m, c.n)
    IN  IF MemberIdx(c, size) = {} THEN <<"incomplete-table", size>>
        ELSE IF c.result = c.members[CHOOSE x \in MemberIdx(c, size) : TRUE][2] THEN <<"ok">>
        ELSE <<(IF good = {} THEN "fixed-fallback" ELSE "threshold-order"), Len(c.result), size>>

Verdict(c) == IF c.kind = "gscale" THEN GScaleVerdict(c) ELSE MScaleVerdict(c)

Init == i = 1
Next == /\ i <= Len(Cases)
        /\ LET v == Verdict(Cases[i]) IN IF v[1] = "ok" THEN TRUE ELSE PrintT(<<"VERDICT", Cases[i].id>> \o v)
        /\ i' = i + 1
        /\ IF i = Len(Cases) THEN PrintT(<<"DONE", Len(Cases)>>) ELSE TRUE
Spec == Init /\ [][Next]_i
=============================================================================
