---------------------------- MODULE MappingProof ----------------------------
(***************************************************************************)
(* C07 for EVERY curve length, every reduction and every ascending list of *)
(* positions: the cursor loop of rdp.mapping (sorted table) returns        *)
(* reduced[I[p]] for every position - the unbounded counterpart of the     *)
(* invariant MapOK that TLC checks on Mapping.tla for n <= 8.              *)
(* S = the reduction (1-based here: S[1] = 0 < S[2] < ... ), row r of the  *)
(* removed table is <<S[r], S[r+1]-S[r]-1>>, I = the positions (0-based,   *)
(* non-decreasing; repeats allowed).  Loop invariant, in closed form (no   *)
(* sums): count = S[j+1] - j, the cursor never passes the position asked   *)
(* for, and every value appended so far is the retained original index.    *)
(* Proofs: MappingProof_proofs.tla.  Mapping.tla refines this module       *)
(* (TLC, MC_MappingRefines.cfg).                                           *)
(***************************************************************************)
EXTENDS Integers

VARIABLES m, S, q, I,            \* the call's arguments (never change)
          j, count, k, out       \* the loop's state
vars == <<m, S, q, I, j, count, k, out>>

ArgsOK == /\ m \in Nat /\ m >= 2 /\ S \in [1..m -> Int] /\ S[1] = 0
          /\ \A a, b \in 1..m : a < b => S[a] < S[b]
          /\ q \in Nat /\ I \in [1..q -> 0..(m - 1)]
          /\ \A a, b \in 1..q : a < b => I[a] <= I[b]

Init == /\ ArgsOK
        /\ j = 0 /\ count = 0 /\ k = 1 /\ out = [p \in 1..0 |-> 0]

Guard == j < m - 1 /\ S[j + 1] < S[I[k] + 1]
\* `while j < len(sorted_removed) and sorted_removed[j][0] < value: count += sorted_removed[j][1]; j += 1`
Advance == /\ k <= q /\ Guard
           /\ count' = count + (S[j + 2] - S[j + 1] - 1)
           /\ j' = j + 1
           /\ UNCHANGED <<m, S, q, I, k, out>>
\* `rv.append(i + count)`
Append1 == /\ k <= q /\ ~Guard
           /\ out' = [p \in 1..k |-> IF p < k THEN out[p] ELSE I[k] + count]
           /\ k' = k + 1
           /\ UNCHANGED <<m, S, q, I, j, count>>
Next == Advance \/ Append1
Spec == Init /\ [][Next]_vars

TypeOK == /\ ArgsOK
          /\ j \in 0..(m - 1) /\ count \in Int /\ k \in 1..(q + 1)
          /\ out \in [1..(k - 1) -> Int]
CountInv == count = S[j + 1] - j
CursorInv == k <= q => j <= I[k]
OutInv == \A p \in 1..(k - 1) : out[p] = S[I[p] + 1]
Inv == TypeOK /\ CountInv /\ CursorInv /\ OutInv

\* the property: when the loop is over, the result is reduced[I] (MapSpec of SimplifyProps.tla)
MapCorrect == k = q + 1 => out = [p \in 1..q |-> S[I[p] + 1]]
=============================================================================
