----------------------- MODULE Trace_ElbowScaleShift -----------------------
(* C03, small exact elbows TRANSLATED IN X by an exact power of two (2^10 .. 2^30): the same compact description as
   Trace_ElbowScale (arm lengths, tiled spacing patterns, slopes and height offset in eighths) plus

       xoff   the translation of every abscissa (heights are not touched)

   and sparse samples <<index, x, y8>> of the array that was replayed, with ABSOLUTE abscissae.  A case is admitted
   only if xoff is one of the exact powers of two, the curve is short enough for every integer to stay below 2^31
   (2^30 + 4 * 4096) and the samples, moved back by xoff, are admitted by Trace_ElbowScale!Verdicts; the clause is
   judged by the very same operator (every answer is the corner index, Kneedle only on monotone members). *)
EXTENDS Trace_ElbowScale

Offsets == {2^k : k \in 10..30}
Unshift(c) == [c EXCEPT !.samples = [k \in DOMAIN c.samples |->
                  <<c.samples[k][1], c.samples[k][2] - c.xoff, c.samples[k][3]>>]]
VerdictsX(c) == IF c.xoff \notin Offsets \/ c.a + c.b > 4096 THEN {<<"not-in-family", c.xoff>>}
                ELSE Verdicts(Unshift(c))

NextX == /\ i <= Len(Cases)
         /\ \A v \in VerdictsX(Cases[i]) : PrintT(<<"VERDICT", Cases[i].id>> \o v)
         /\ i' = i + 1
         /\ IF i = Len(Cases) THEN PrintT(<<"DONE", Len(Cases)>>) ELSE TRUE
SpecX == Init /\ [][NextX]_i
=============================================================================
