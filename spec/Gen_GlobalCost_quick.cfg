SPECIFICATION Spec
CONSTANTS N = 5
          MaxQueries = 3
          Metrics = {"r2", "rmspe", "rmsle", "rpd", "smape"}
          KeyMode = "pair"
          SwitchMetric = FALSE
          Emit = TRUE
INVARIANT CacheSound
INVARIANT CacheDomain
INVARIANT PerfectFit
INVARIANT DivisorOk
