SPECIFICATION Spec
CONSTANTS N = 13
          Limits = {4, 6, 10}
          Modes = {"none", "adjusted", "original", "dfdt"}
          Guard = "visited"
INVARIANT InteriorResult
INVARIANT LRange
PROPERTY Terminates
