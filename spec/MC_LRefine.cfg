SPECIFICATION Spec
CONSTANTS N = 13
          Limits = {4, 6, 10}
          Modes = {"none", "adjusted", "original", "dfdt"}
          Guard = TRUE
INVARIANT InteriorResult
INVARIANT LRange
PROPERTY Terminates
