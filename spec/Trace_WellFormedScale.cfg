SPECIFICATION ScaleSpec
