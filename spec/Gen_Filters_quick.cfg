SPECIFICATION Spec
CONSTANTS NMax = 5
          FullN = 5
          YMax = 3
          Uneven = FALSE
          Variant = "ok"
          Emit = TRUE
INVARIANT MachineIsRunMin
INVARIANT HminIsPrefixMin
INVARIANT RunMinLaws
INVARIANT CornerLaws
INVARIANT Small32
