---------------------------- MODULE Trace_Elbow ----------------------------
(* Harness-generated long elbows (arms up to 40, random spacing patterns) are admitted to the replay only
   if TLC confirms they are members of the family of Elbow.tla (IsElbow: the mechanism lemmas hold). *)
EXTENDS ElbowDefs, TLC, Json, IOUtils
Cases == JsonDeserialize(IOEnv.CASES_FILE)
VARIABLE i
Verdict(c) == IF IsElbow(c.pts, c.corner + 1) THEN <<"ok">> ELSE <<"not-an-elbow", c.corner>>
Init == i = 1
Next == /\ i <= Len(Cases)
        /\ LET v == Verdict(Cases[i]) IN IF v[1] = "ok" THEN TRUE ELSE PrintT(<<"VERDICT", Cases[i].id>> \o v)
        /\ i' = i + 1
        /\ IF i = Len(Cases) THEN PrintT(<<"DONE", Len(Cases)>>) ELSE TRUE
Spec == Init /\ [][Next]_i
=============================================================================
