--------------------------- MODULE MappingRefines ---------------------------
(* Mapping.tla (explored by TLC; its behaviours are replayed into rdp.mapping) refines MappingProof.tla, whose result is   *)
(* PROVED correct for every reduction and every ascending position list by TLAPS: checked here by TLC for n <= N.         *)
(* (the optional argsort step stutters; unsorted tables reach the same loop after it)                                      *)
EXTENDS Mapping
Abs == INSTANCE MappingProof WITH m <- Len(reduced), S <- reduced, q <- Len(idxs), I <- idxs
\* the proved loop starts once the table is in order
Refines == [](pc # "start" => Abs!Inv)
StepsRefine == [][pc # "start" => [Abs!Next]_<<Len(reduced), reduced, Len(idxs), idxs, j, count, k, out>>]_vars
AbsCorrect == pc # "start" => Abs!MapCorrect
=============================================================================
