SPECIFICATION Spec
CONSTANTS M = 5
          ScoreMax = 1
          Modes = {"ranked", "hull"}
          PickWorst = FALSE
INVARIANT ClusterOk
INVARIANT NeverEmptyRanked
PROPERTY Terminates
