SPECIFICATION Spec
