--------------------------- MODULE FixedSizeRefines ---------------------------
(* The fixed-size phase of Fixed.tla (mode "fixed": one rdp_fixed call) refines FixedSizeProof.tla, whose exact-size      *)
(* result is PROVED for every n and k by TLAPS: checked here by TLC for n <= N.                                          *)
EXTENDS Fixed
RangeOf(s) == {s[j] : j \in 1..Len(s)}
P == INSTANCE FixedSizeProof WITH k <- par.k, R <- RangeOf(reduced), b <- budget
InFixed == pc = "fixed" /\ mode = "fixed"
AbsInv == InFixed => P!Inv
StepsRefine == [][(InFixed /\ pc' = "fixed") => [P!Step]_<<n, par.k, RangeOf(reduced), budget>>]_vars
\* the loop's exit condition is the abstraction's: an empty stack means nothing is left to refine
ExitAgrees == InFixed => ((budget <= 0 \/ stack = <<>>) <=> P!Terminated)
=============================================================================
