------------------------------ MODULE Ranking ------------------------------
(* Growth beyond the listed properties: the three knee-ranking heuristics that the listed properties do not mention.
     rank_corners          : the x gap to the previous knee (to the first point for the first knee)
     rank_corners_triangle : 0.5 * (x[k]-x[k-1]) * (y[k]-y[k+1])      (here: twice that, an integer)
     slope_ranking         : rank of |slope of the knee's left neighbourhood|, min-max normalised
   Definitions and their laws (checked by TLC over all small integer curves, MC_Ranking.cfg); Trace_Ranking.tla judges
   recorded calls of the real functions with the same operators.  Positions are 1-based here (0-based in the code). *)
EXTENDS RankingProps, SequencesExt

CONSTANTS N, MaxV
VARIABLES xs, ys, ks
vars == <<xs, ys, ks>>
Incr(s) == \A i \in 1..(Len(s)-1) : s[i] < s[i+1]
Init == \E n \in 3..N :
          /\ xs \in {s \in [1..n -> 0..MaxV] : Incr(s)}
          /\ ys \in [1..n -> 0..MaxV]
          /\ \E S \in (SUBSET (2..(n-1))) \ {{}} : ks = SetToSortSeq(S, LAMBDA a, b : a < b)
Next == UNCHANGED vars
Spec == Init /\ [][Next]_vars

\* laws
GapsPositive == \A i \in 1..Len(ks) : GapRank(xs, ks)[i] > 0
GapsTelescope == SumTo(GapRank(xs, ks), Len(ks)) = xs[ks[Len(ks)]] - xs[1]
TriSign == \A i \in 1..Len(ks) : (Tri2Rank(xs, ys, ks)[i] > 0) = (ys[ks[i]] > ys[ks[i]+1])
TriIsShoelaceWhenFlatLeft ==       \* the "fast" triangle equals the true doubled area when the left neighbour is level with the knee
    \A i \in 1..Len(ks) : ys[ks[i]-1] = ys[ks[i]] =>
        LET a == <<xs[ks[i]-1], ys[ks[i]-1]>>  b == <<xs[ks[i]], ys[ks[i]]>>  c == <<xs[ks[i]+1], ys[ks[i]+1]>>
            t == Tri2Rank(xs, ys, ks)[i]  cr == Cross(a, b, c)
        IN (IF t < 0 THEN -t ELSE t) = (IF cr < 0 THEN -cr ELSE cr)
=============================================================================
