SPECIFICATION Spec
CONSTANTS CmN = {3, 5}
          CmESmall = 2
          CmEBig = 2
          CmKMax = 4
          ErrN = {3}
          YMax = 1
          ErrKMax = 2
          ErrEMax = 2
          ErrEYAll = FALSE
          Variant = "ok"
          Emit = FALSE
INVARIANT Quantifier
INVARIANT CmIdentities
INVARIANT CmGreedyCount
INVARIANT OneToOne
INVARIANT ScoreRange
INVARIANT ScorePerfect
INVARIANT ErrNonNegative
INVARIANT ZeroOnPerfect
INVARIANT ZeroOnlyIfCovered
INVARIANT StrategySides
INVARIANT MatchIsNearest
PROPERTY Terminates
