SPECIFICATION TSpec
CONSTANTS G = 1
          NMax = 2
          Dens = {1}
          Links = {"single"}
          Variant = "ok"
          Emit = FALSE
