-------------------------- MODULE Trace_LRefineSteps --------------------------
(***************************************************************************)
(* Action-level trace validation of the refinement loops of lmethod.knee   *)
(* and dfdt.knee against the ACTIONS of LRefine.tla (growth beyond the     *)
(* listed properties; notes only).  The recorder reads, at every back-edge *)
(* of the two `while` loops, the locals current knee, last knee, cutoff    *)
(* and (L-method) done / visited out of the running frame (sys.monitoring, *)
(* no source hook).  Every consecutive pair of snapshots must be one LStep *)
(* / DStep of the machine: TLC chooses the single-knee answer K[cutoff] it *)
(* was not told separately (it is pinned by the logged next `cur`, must    *)
(* lie in the admissible range of the prefix / suffix and, through the     *)
(* memo table, must be the SAME answer whenever the same cutoff recurs -   *)
(* the loops call a pure function).  The iteration after the last          *)
(* back-edge has no snapshot: it must make the loop condition false, and   *)
(* LEnd / DEnd must leave the returned knee in `cur`.                      *)
(***************************************************************************)
EXTENDS LRefine, Json, IOUtils

Cases == JsonDeserialize(IOEnv.CASES_FILE)
VARIABLES tid, l
tvars == <<n, mode, limit, cur, last, cutoff, K, seen, done, pc, tid, l>>

Ev == Cases[tid].events
Fin == Cases[tid].final
SetOf(s) == {s[j] : j \in 1..Len(s)}

LoadVals(k, nn, md, lm, cu, la, co, kk, se, dn, p, ti, li) ==
    /\ nn = Cases[k].n /\ md = Cases[k].mode /\ lm = Cases[k].limit
    /\ (IF Cases[k].mode = "dfdt" THEN cu = 0 /\ la = -1 /\ co = 0
                                  ELSE cu = Cases[k].n /\ la = -1 /\ co = Cases[k].n)
    /\ kk = [x \in {} |-> 0] /\ se = {} /\ dn = FALSE /\ p = "loop" /\ ti = k /\ li = 1
TInit == LoadVals(1, n, mode, limit, cur, last, cutoff, K, seen, done, pc, tid, l)
Load(k) == LoadVals(k, n', mode', limit', cur', last', cutoff', K', seen', done', pc', tid', l')

Body == IF mode = "dfdt" THEN DStep ELSE LStep
MatchStep == /\ pc = "loop" /\ l <= Len(Ev)
             /\ Body
             /\ cur' = Ev[l].cur /\ last' = Ev[l].last /\ cutoff' = Ev[l].cutoff
             /\ (mode # "dfdt" => done' = Ev[l].done /\ seen' = SetOf(Ev[l].seen))
             /\ l' = l + 1 /\ tid' = tid
\* the iteration after the last back-edge: the loop condition must be false afterwards
LastStep == /\ pc = "loop" /\ l = Len(Ev) + 1
            /\ Body
            /\ cur' = Fin
            /\ (IF mode = "dfdt" THEN ~(last' < cur' /\ n - cutoff' > 2) ELSE (cur' = last' \/ done'))
            /\ l' = l + 1 /\ tid' = tid
EndStep == /\ pc = "loop" /\ l = Len(Ev) + 2
           /\ (IF mode = "dfdt" THEN DEnd ELSE LEnd)
           /\ cur = Fin
           /\ UNCHANGED <<tid, l>>
Step == MatchStep \/ LastStep \/ EndStep

Frozen == UNCHANGED <<n, mode, limit, cur, last, cutoff, K, seen, done, tid, l>>
Advance == IF tid < Len(Cases) THEN Load(tid + 1)
           ELSE /\ PrintT(<<"DONE", Len(Cases)>>) /\ pc' = "end" /\ Frozen
Accepted == pc = "done" /\ Advance
Rejected == /\ pc = "loop" /\ ~ENABLED Step
            /\ PrintT(<<"VERDICT", Cases[tid].id, "no-machine-step", l, <<cur, last, cutoff>>,
                        IF l <= Len(Ev) THEN <<Ev[l].cur, Ev[l].last, Ev[l].cutoff>> ELSE <<Fin>>>>)
            /\ Advance
TNext == Step \/ Accepted \/ Rejected
TSpec == TInit /\ [][TNext]_tvars
=============================================================================
