----------------------------- MODULE Clustering -----------------------------
(***************************************************************************)
(* clustering.single_linkage / complete_linkage / centroid_linkage /       *)
(* average_linkage (C11): one implementation-shaped single-pass machine    *)
(* per linkage, with the running state the code keeps (previous x, anchor  *)
(* index, centroid as an exact rational + size, window start), checked     *)
(* against a declarative definition NewCluster written only in terms of    *)
(* the labels assigned so far (members of the current cluster), never in   *)
(* terms of the running state.                                             *)
(* One module is the model-checking instance (M) and, with Emit = TRUE,    *)
(* the generator (G).  The pure operators of the first section are also    *)
(* what Trace_Clustering (T) judges recorded executions with.              *)
(* All arithmetic is over exact rationals <<num, den>> (Rational.tla); the *)
(* decision dist / range >= p/q is taken by cross-multiplication.          *)
(***************************************************************************)
EXTENDS Rational, Sequences, FiniteSets, SequencesExt, FiniteSetsExt, TLC, Json

CONSTANTS G,        \* layouts are strictly increasing integer sequences in 0..G
          NMax,     \* with 2..NMax points
          Dens,     \* thresholds t = j/d, d \in Dens, j \in 1..d   (t > 0)
          Links,    \* subset of {"single", "complete", "centroid", "average"}
          Variant,  \* "ok" = the code; "strict" / "stale" / "window" = seeded bugs (negative instances)
          Emit

VARIABLES xs,       \* the layout (sequence of x values)
          t,        \* the threshold <<p, q>>
          link,
          i,        \* next point to label (1-based)
          labels,   \* labels assigned so far
          prev,     \* single:   x of the previous point
          anchor,   \* complete: index of the first point of the current cluster
          cen, size,\* centroid: running centroid (exact, normalised) and cluster size
          win,      \* average:  index where the member window starts
          pc
vars == <<xs, t, link, i, labels, prev, anchor, cen, size, win, pc>>

(* ======================= pure definitions ============================== *)
RECURSIVE Gcd(_, _)
Gcd(a, b) == IF b = 0 THEN a ELSE Gcd(b, a % b)
QNorm(q) == LET g == Gcd(Abs(q[1]), q[2]) IN IF g = 0 THEN q ELSE <<q[1] \div g, q[2] \div g>>

XRange(X) == X[Len(X)] - X[1]
\* d / range  ?  p/q   for a distance d = <<dn, dd>> (dd > 0), range L > 0, q > 0
RatioGe(d, L, tt) == d[1] * tt[2] >= tt[1] * L * d[2]
RatioEq(d, L, tt) == d[1] * tt[2] =  tt[1] * L * d[2]

\* the members of the cluster that is current when point k (>= 2) arrives, from the labels alone
MembersOf(lab, k) == {j \in 1..(k-1) : lab[j] = lab[k-1]}
\* the linkage distance of point k to a set M of member indices (what the property states)
LinkDist(X, lk, M, k) ==
    CASE lk = "single"   -> <<X[k] - X[k-1], 1>>                                   \* gap to the previous point
      [] lk = "complete" -> <<X[k] - X[Min(M)], 1>>                                \* to the cluster's first point
      [] lk = "centroid" -> <<Abs(X[k] * Cardinality(M) - MapThenSumSet(LAMBDA m : X[m], M)), Cardinality(M)>>
      [] lk = "average"  -> <<MapThenSumSet(LAMBDA m : Abs(X[k] - X[m]), M), Cardinality(M)>>
NewCluster(X, lk, tt, lab, k) == RatioGe(LinkDist(X, lk, MembersOf(lab, k), k), XRange(X), tt)
ExactTie(X, lk, tt, lab, k)   == RatioEq(LinkDist(X, lk, MembersOf(lab, k), k), XRange(X), tt)
\* the code's incrementally updated float centroid cannot be relied on to hit an exact tie once the
\* cluster has two or more members: the property does not pin that decision (DESIGN 3.2)
Ambiguous(X, lk, tt, lab, k) == lk = "centroid" /\ Cardinality(MembersOf(lab, k)) >= 2 /\ ExactTie(X, lk, tt, lab, k)

WellFormedLabels(lab) == /\ Len(lab) >= 1 /\ lab[1] = 0
                         /\ \A k \in 2..Len(lab) : lab[k] - lab[k-1] \in {0, 1}
FollowsRule(X, lk, tt, lab) ==
    \A k \in 2..Len(lab) : Ambiguous(X, lk, tt, lab, k) \/ ((lab[k] # lab[k-1]) <=> NewCluster(X, lk, tt, lab, k))

\* the labelling the property determines (ambiguous ties resolved as ">="), by recursion on the prefix
RECURSIVE SpecLabels(_, _, _, _)
SpecLabels(X, lk, tt, lab) ==
    IF Len(lab) >= Len(X) THEN lab
    ELSE LET k == Len(lab) + 1           \* NewCluster(.., lab, k) only looks at lab[1..k-1]
         IN SpecLabels(X, lk, tt, Append(lab, lab[k-1] + (IF NewCluster(X, lk, tt, lab, k) THEN 1 ELSE 0)))
SpecCount(X, lk, tt) == LET l == SpecLabels(X, lk, tt, <<0>>) IN l[Len(l)] + 1

\* decision tables (binding T): tab[s][k] for a cluster that starts at s and a point k > s:
\* 1 = merge (distance/range < t), 2 = split (>= t), 3 = near (either side allowed), 0 = unused
DecisionOf(X, lk, tt, s, k) ==
    LET M == s..(k-1)
        d == LinkDist(X, lk, M, k)
    IN IF lk = "centroid" /\ k - s >= 2 /\ RatioEq(d, XRange(X), tt) THEN 3
       ELSE IF RatioGe(d, XRange(X), tt) THEN 2 ELSE 1
ExactTable(X, lk, tt) == [s \in 1..Len(X) |-> [k \in 1..Len(X) |-> IF k > s THEN DecisionOf(X, lk, tt, s, k) ELSE 0]]
StartOf(lab, k) == Min(MembersOf(lab, k))
\* verdict on a label vector against a decision table: <<"ok">> or <<clause, details...>>
TableClause(lk, n, lab, tab) ==
    IF Len(lab) # n THEN <<"one-label-per-point", Len(lab), n>>
    ELSE IF lab[1] # 0 THEN <<"labels-start-at-0", lab[1]>>
    ELSE IF \E k \in 2..n : lab[k] - lab[k-1] \notin {0, 1}
         THEN <<"contiguous", CHOOSE k \in 2..n : lab[k] - lab[k-1] \notin {0, 1}>>
    ELSE LET bad == {k \in 2..n : LET d == tab[StartOf(lab, k)][k]
                                  IN (d = 2 /\ lab[k] = lab[k-1]) \/ (d = 1 /\ lab[k] # lab[k-1])}
         IN IF bad = {} THEN <<"ok">>
            ELSE LET k == Min(bad) IN <<"rule(" \o lk \o ")", k - 1, StartOf(lab, k) - 1, tab[StartOf(lab, k)][k]>>
\* counts of clusters for increasing thresholds must not increase
MonoClause(counts) ==
    IF \E j \in 2..Len(counts) : counts[j] > counts[j-1]
    THEN <<"monotone-in-t", CHOOSE j \in 2..Len(counts) : counts[j] > counts[j-1]>>
    ELSE <<"ok">>

(* ======================= the machines ================================= *)
N == Len(xs)
L == XRange(xs)
Layouts == UNION { {SetToSortSeq(S, <) : S \in kSubset(m, 0..G)} : m \in 2..NMax }
TSet == UNION { {<<j, d>> : j \in 1..d} : d \in Dens }

Init == /\ xs \in Layouts /\ t \in TSet /\ link \in Links
        /\ i = 2 /\ labels = <<0>>
        /\ prev = xs[1] /\ anchor = 1 /\ cen = <<xs[1], 1>> /\ size = 1 /\ win = 1
        /\ pc = "run"

\* `if distance >= t` (the strict variant is the seeded bug  `>`)
Split(d) == IF Variant = "strict" THEN RatioGe(d, L, t) /\ ~RatioEq(d, L, t) ELSE RatioGe(d, L, t)
LastLabel == labels[Len(labels)]
Emitting(split) == labels' = Append(labels, LastLabel + (IF split THEN 1 ELSE 0))

SingleStep ==
    /\ pc = "run" /\ link = "single" /\ i <= N
    /\ Emitting(Split(<<Abs(xs[i] - prev), 1>>))
    /\ prev' = xs[i] /\ i' = i + 1
    /\ UNCHANGED <<xs, t, link, anchor, cen, size, win, pc>>

CompleteStep ==
    /\ pc = "run" /\ link = "complete" /\ i <= N
    /\ LET split == Split(<<Abs(xs[i] - xs[anchor]), 1>>)
       IN /\ Emitting(split)
          /\ anchor' = IF split /\ Variant # "stale" THEN i ELSE anchor
    /\ i' = i + 1
    /\ UNCHANGED <<xs, t, link, prev, cen, size, win, pc>>

\* `if distance < t: merge, update centre  else: new cluster, reset centre`; the running centre is the
\* exact value of  size/(size+1) * centre + 1/(size+1) * x
CenDist == <<Abs(xs[i] * cen[2] - cen[1]), cen[2]>>
CenTieAmbiguous == size >= 2 /\ RatioEq(CenDist, L, t)
CentroidMerge ==
    /\ pc = "run" /\ link = "centroid" /\ i <= N
    /\ ~Split(CenDist) \/ CenTieAmbiguous
    /\ Emitting(FALSE)
    /\ cen' = QNorm(QAdd(QMul(<<size, size + 1>>, cen), <<xs[i], size + 1>>))
    /\ size' = size + 1 /\ i' = i + 1
    /\ UNCHANGED <<xs, t, link, prev, anchor, win, pc>>
CentroidSplit ==
    /\ pc = "run" /\ link = "centroid" /\ i <= N
    /\ Split(CenDist) \/ CenTieAmbiguous
    /\ Emitting(TRUE)
    /\ cen' = <<xs[i], 1>> /\ size' = 1 /\ i' = i + 1
    /\ UNCHANGED <<xs, t, link, prev, anchor, win, pc>>

\* `cluster_points = points[idx:i]; distance = sum(|cluster_points - x_i|) / (len(cluster_points) * length)`
AverageStep ==
    /\ pc = "run" /\ link = "average" /\ i <= N
    /\ LET lo == IF Variant = "window" /\ win > 1 THEN win - 1 ELSE win
           split == Split(<<MapThenSumSet(LAMBDA m : Abs(xs[m] - xs[i]), lo..(i-1)), i - lo>>)
       IN /\ Emitting(split)
          /\ win' = IF split THEN i ELSE win
    /\ i' = i + 1
    /\ UNCHANGED <<xs, t, link, prev, anchor, cen, size, pc>>

HasTie == \E k \in 2..N : ExactTie(xs, link, t, labels, k)
IsAmbiguous == \E k \in 2..N : Ambiguous(xs, link, t, labels, k)
Return ==
    /\ pc = "run" /\ i > N
    /\ pc' = "done"
    /\ Emit => PrintT(ToJson([x |-> xs, tnum |-> t[1], tden |-> t[2], link |-> link, labels |-> labels,
                              tie |-> HasTie, amb |-> IsAmbiguous]))
    /\ UNCHANGED <<xs, t, link, i, labels, prev, anchor, cen, size, win>>

Next == SingleStep \/ CompleteStep \/ CentroidMerge \/ CentroidSplit \/ AverageStep \/ Return
Spec == Init /\ [][Next]_vars /\ WF_vars(Next)

(* ======================= properties (binding M) ======================= *)
Magnitudes == Small(cen, 32768) /\ Small(t, 32768)
LabelsWellFormed == WellFormedLabels(labels) /\ Len(labels) = i - 1
\* a new cluster starts at k  iff  the declarative linkage distance of k to the members is >= t
RuleHolds == FollowsRule(xs, link, t, labels)
\* the running state is what the declarative side computes from the members
StateAgrees ==
    pc = "run" =>
        LET M == MembersOf(labels, i)       \* members of the current cluster (point i not yet labelled)
        IN /\ link = "single"   => prev = xs[i-1]
           /\ link = "complete" => anchor = Min(M)
           /\ link = "centroid" => size = Cardinality(M) /\ QEq(cen, <<MapThenSumSet(LAMBDA m : xs[m], M), Cardinality(M)>>)
           /\ link = "average"  => win = Min(M) /\ M = win..(i-1)
\* unless a tie was ambiguous the machine's result is the labelling the definition determines
EqualsDefinition == (pc = "done" /\ ~IsAmbiguous) => labels = SpecLabels(xs, link, t, <<0>>)
\* the table-driven judge used for recorded executions accepts every behaviour of the machine
JudgeAccepts == pc = "done" => TableClause(link, N, labels, ExactTable(xs, link, t)) = <<"ok">>
\* "consequently": single / complete cluster counts never increase when t grows
MonotoneInT ==
    (pc = "done" /\ link \in {"single", "complete"}) =>
        \A t2 \in TSet : QGt(t2, t) => SpecCount(xs, link, t2) <= LastLabel + 1
Terminates == <>(pc = "done")
=============================================================================
