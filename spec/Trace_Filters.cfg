SPECIFICATION Spec
