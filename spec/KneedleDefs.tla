---------------------------- MODULE KneedleDefs ----------------------------
(***************************************************************************)
(* Growth beyond the listed properties (DESIGN 9.1): the Kneedle detector  *)
(* without smoothing, over integer points <<x, y>> with strictly           *)
(* increasing x.  Everything is computed on the common denominator dx*dy   *)
(* of the normalised difference curve, so all comparisons are exact.       *)
(*   direction  : Increasing iff the end-point slope is > 0                *)
(*   concavity  : Clockwise iff the curve lies above its chord on balance  *)
(*   difference : x+y | 1-(x+y) | y-x | |y-x| on the unit-normalised curve  *)
(*   knee       : the highest strict local maximum of the difference curve *)
(***************************************************************************)
EXTENDS Integers, Sequences, FiniteSets

AbsI(v) == IF v < 0 THEN -v ELSE v
MinOf(S) == CHOOSE m \in S : \A o \in S : m <= o
MaxOf(S) == CHOOSE m \in S : \A o \in S : m >= o
Xs(p) == {p[k][1] : k \in 1..Len(p)}
Ys(p) == {p[k][2] : k \in 1..Len(p)}
DX(p) == MaxOf(Xs(p)) - MinOf(Xs(p))
DYraw(p) == MaxOf(Ys(p)) - MinOf(Ys(p))
DY(p) == IF DYraw(p) = 0 THEN 1 ELSE DYraw(p)                 \* `diff[diff == 0] = 1.0`
Increasing(p) == p[Len(p)][2] > p[1][2]
\* sign of sum_i (y_i - chord(x_i)), scaled by (x_n - x_1) > 0
VoteNum(p) == LET n == Len(p)
                  RECURSIVE S(_)
                  S(k) == IF k = 0 THEN 0
                          ELSE S(k - 1) + (p[k][2] - p[1][2]) * (p[n][1] - p[1][1]) - (p[n][2] - p[1][2]) * (p[k][1] - p[1][1])
              IN S(n)
Clockwise(p) == VoteNum(p) > 0
\* numerators of the difference curve over the common denominator DX*DY, as one sequence (computed once per call)
DdSeq(p, inc, cw) ==
    LET xm == MinOf(Xs(p))  ym == MinOf(Ys(p))  dx == DX(p)  dy == DY(p)
    IN [k \in 1..Len(p) |->
          LET X == (p[k][1] - xm) * dy
              Y == (p[k][2] - ym) * dx
          IN IF ~inc /\ cw THEN X + Y
             ELSE IF ~inc /\ ~cw THEN dx * dy - (X + Y)
             ELSE IF inc /\ cw THEN Y - X
             ELSE AbsI(Y - X)]
DdNum(p, k, inc, cw) == DdSeq(p, inc, cw)[k]
PeaksOf(dd) == {k \in 2..(Len(dd) - 1) : dd[k] > dd[k - 1] /\ dd[k] > dd[k + 1]}
Peaks(p, inc, cw) == PeaksOf(DdSeq(p, inc, cw))
\* 0-based index of the highest peak (first one on equal heights), -1 when there is no peak
HighestPeak(p, inc, cw) ==
    LET dd == DdSeq(p, inc, cw)
        P == PeaksOf(dd)
    IN IF P = {} THEN -1
       ELSE (CHOOSE k \in P : (\A o \in P : dd[o] <= dd[k]) /\ (\A o \in P : dd[o] = dd[k] => k <= o)) - 1
KneedleKnee(p) == HighestPeak(p, Increasing(p), Clockwise(p))
\* all peaks of both rotations (kneedle.knees with PeakDetection.All), 0-based, as a set
KneedleAll(p) == {k - 1 : k \in Peaks(p, Increasing(p), TRUE) \cup Peaks(p, Increasing(p), FALSE)}
\* cases whose binary64 evaluation is not pinned: an exact tie between neighbours / between peak heights / in the vote
TiedNeighbours(p, inc, cw) == LET dd == DdSeq(p, inc, cw) IN \E k \in 1..(Len(p) - 1) : dd[k] = dd[k + 1]
TiedPeaks(p, inc, cw) == LET dd == DdSeq(p, inc, cw) IN \E a \in PeaksOf(dd), b \in PeaksOf(dd) : a # b /\ dd[a] = dd[b]
AmbiguousKnee(p) == VoteNum(p) = 0 \/ TiedNeighbours(p, Increasing(p), Clockwise(p)) \/ TiedPeaks(p, Increasing(p), Clockwise(p))
AmbiguousAll(p) == DYraw(p) = 0 \/ TiedNeighbours(p, Increasing(p), TRUE) \/ TiedNeighbours(p, Increasing(p), FALSE)
=============================================================================
