SPECIFICATION Spec
CONSTANTS N = 5
          PrioMax = 1
          CostMax = 1
          Modes = {"fixed"}
          Buggy = FALSE
          EverySecond = FALSE
INVARIANT AbsInv
INVARIANT ExitAgrees
PROPERTY StepsRefine
