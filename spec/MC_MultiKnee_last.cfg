SPECIFICATION Spec
CONSTANTS N = 4
          T2s = {2, 3, 4}
          KMayBeLast = TRUE
          AllCurved = FALSE
          Emit = FALSE
INVARIANT PopBound
