SPECIFICATION Spec
