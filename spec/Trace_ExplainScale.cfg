SPECIFICATION Spec
