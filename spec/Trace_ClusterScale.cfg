SPECIFICATION Spec
