----------------------- MODULE CompleteMonoProof_proofs -----------------------
(* TLAPS proofs for CompleteMonoProof.tla (tools/prove.sh). *)
EXTENDS CompleteMonoProof, TLAPS

LEMMA MonoLe == ASSUME ArgsOK, NEW p \in 1..n, NEW q \in 1..n, p <= q PROVE X[p] <= X[q]
  BY DEF ArgsOK

LEMMA InitInv == Init => Inv
  BY DEF Init, Inv, TypeOK, Ahead, ArgsOK

LEMMA StepInv == Inv /\ Step => Inv'
  <1> SUFFICES ASSUME Inv, Step PROVE Inv' OBVIOUS
  <1> USE DEF Inv, TypeOK
  <1>a. ArgsOK' BY DEF Step, ArgsOK
  <1>0. i \in 1..n /\ a1 \in 1..n /\ a2 \in 1..n /\ a1 < i /\ a2 < i
        /\ X[i] \in Int /\ X[a1] \in Int /\ X[a2] \in Int
        BY DEF Step, ArgsOK
  <1> DEFINE s1 == X[i] - X[a1] >= D1
             s2 == X[i] - X[a2] >= D2
  <1>1. /\ a1' = (IF s1 THEN i ELSE a1) /\ c1' = (IF s1 THEN c1 + 1 ELSE c1)
        /\ a2' = (IF s2 THEN i ELSE a2) /\ c2' = (IF s2 THEN c2 + 1 ELSE c2)
        /\ i' = i + 1
        BY DEF Step, ScanStep
  <1>2. TypeOK'
    <2>1. n' = n /\ i' = i + 1 /\ i <= n BY DEF Step
    <2>2. (a1' = i \/ a1' = a1) /\ (a2' = i \/ a2' = a2) BY <1>1
    <2>3. (c1' = c1 + 1 \/ c1' = c1) /\ (c2' = c2 + 1 \/ c2' = c2) BY <1>1
    <2>4. i' \in 2..(n' + 1) BY <2>1 DEF ArgsOK
    <2>5. a1' \in 1..(i' - 1) /\ a2' \in 1..(i' - 1) BY <2>1, <2>2, <1>0
    <2>6. c1' \in Nat /\ c2' \in Nat BY <2>3
    <2> QED BY <1>a, <2>4, <2>5, <2>6 DEF TypeOK
  <1>3. Ahead'
    <2>1. CASE c2 < c1
      \* scan 2 gains at most one; if it catches up it did so by splitting NOW, so its anchor is i >= a1'
      BY <2>1, <1>0, <1>1 DEF Ahead
    <2>2. CASE c2 = c1 /\ a2 >= a1
      <3>1. X[a1] <= X[a2] BY <2>2, <1>0, MonoLe
      <3>2. s2 => s1 BY <3>1, <1>0 DEF ArgsOK
      <3> QED BY <2>2, <3>2, <1>0, <1>1 DEF Ahead
    <2> QED BY <2>1, <2>2 DEF Ahead
  <1> QED BY <1>2, <1>3

LEMMA StutterInv == Inv /\ UNCHANGED vars => Inv'
  BY DEF Inv, TypeOK, ArgsOK, Ahead, vars

THEOREM Invariance == Spec => []Inv
  <1>1. Inv /\ [Step]_vars => Inv' BY StepInv, StutterInv
  <1> QED BY InitInv, <1>1, PTL DEF Spec

THEOREM CompleteLinkageMonotoneForEveryLayout == Spec => []Monotone
  <1>1. Inv => Monotone BY DEF Inv, TypeOK, Ahead, Monotone
  <1> QED BY <1>1, Invariance, PTL
=============================================================================
