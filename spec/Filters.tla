------------------------------ MODULE Filters ------------------------------
(***************************************************************************)
(* Post-processing filters of kneeliverse.postprocessing (C13, C14).       *)
(* No variables: declarative property-level operators plus the step        *)
(* functions of the implementation-shaped WorstFilter machine (the Gen_/MC_*)
(* modules own the variables).  Knee indices are 0-based as in the code,   *)
(* sequences 1-based: the point with index k is P[k+1].                    *)
(*   P  curve, sequence of integer points <<x, y>>, x strictly increasing  *)
(*   H  heights, sequence (H[k+1] = height of index k): integers or ranks  *)
(*   K  ascending sequence of knee indices                                 *)
(***************************************************************************)
EXTENDS Geometry, SimplifyProps

HeightsOf(P) == [j \in 1..Len(P) |-> P[j][2]]

\* the subsequence of K at the positions p that satisfy keep(p)
KeepPos(K, keep(_)) ==
    LET s == SortedSeqOf({p \in 1..Len(K) : keep(p)}) IN [j \in 1..Len(s) |-> K[s[j]]]
\* the same, from a class table aligned with K
KeepWhere(K, cls, Wanted) == KeepPos(K, LAMBDA p : cls[p] \in Wanted)

(* ---- C13: worst-knee filter ------------------------------------------- *)
\* Declarative: a knee is kept iff no earlier knee of the list is strictly lower (the first knee
\* always is; ties are kept).  For <= 1 knees this is the argument itself.
RunMin(H, K) == KeepPos(K, LAMBDA p : \A q \in 1..(p-1) : H[K[p]+1] <= H[K[q]+1])
\* knees kept only thanks to the tie rule (equal to the lowest earlier knee)
TieKept(H, K) == KeepPos(K, LAMBDA p : /\ \A q \in 1..(p-1) : H[K[p]+1] <= H[K[q]+1]
                                       /\ \E q \in 1..(p-1) : H[K[p]+1] = H[K[q]+1])

\* Implementation-shaped machine (postprocessing.filter_worst_knees): state [kept, hmin, i].
\* variant "ok" is the code; "strict" (h < h_min) and "stale" (h_min never updated) are the
\* negative instances.
WFInit(H, K) == IF Len(K) <= 1 THEN [kept |-> K, hmin |-> 0, i |-> Len(K) + 1]
                ELSE [kept |-> <<K[1]>>, hmin |-> H[K[1]+1], i |-> 2]
WFMore(K, s) == s.i <= Len(K)
WFKeeps(H, K, s, variant) == IF variant = "strict" THEN H[K[s.i]+1] < s.hmin ELSE H[K[s.i]+1] <= s.hmin
WFStep(H, K, s, variant) ==
    IF WFKeeps(H, K, s, variant)
    THEN [kept |-> Append(s.kept, K[s.i]), hmin |-> (IF variant = "stale" THEN s.hmin ELSE H[K[s.i]+1]), i |-> s.i + 1]
    ELSE [s EXCEPT !.i = s.i + 1]

(* ---- C13: corner filter / selector ------------------------------------ *)
Classes == {"end", "below", "atleast"}
HasBoth(n, k) == k - 1 >= 0 /\ k + 1 < n
\* IoU of the corner rectangle rect((x0, y2), p1) and the neighbour rectangle rect(p0, p2)
CornerIoU(P, k) == LET p0 == P[k]  p1 == P[k+1]  p2 == P[k+2]
                   IN IoU(Rect(<<p0[1], p2[2]>>, p1), Rect(p0, p2))
CornerClass(P, k, t) == IF ~HasBoth(Len(P), k) THEN "end"
                        ELSE IF QLt(CornerIoU(P, k), t) THEN "below" ELSE "atleast"
ClassTable(P, K, t) == [p \in 1..Len(K) |-> CornerClass(P, K[p], t)]
FilterByClass(K, cls) == KeepWhere(K, cls, {"end", "below"})
SelectByClass(K, cls) == KeepWhere(K, cls, {"atleast"})
CornerFilter(P, K, t) == FilterByClass(K, ClassTable(P, K, t))
CornerSelect(P, K, t) == SelectByClass(K, ClassTable(P, K, t))
BothKnees(n, K) == KeepPos(K, LAMBDA p : HasBoth(n, K[p]))

\* laws (K ascending): F, S the outputs of filter / selector
SubseqAsc(A, K) == StrictlyIncreasing(A) /\ Range(A) \subseteq Range(K)
PartitionLaw(n, K, F, S) ==
    LET B == Range(BothKnees(n, K))
        Fi == Range(F) \cap B
    IN /\ Fi \cup Range(S) = B
       /\ Fi \cap Range(S) = {}
       /\ Len(F) = Cardinality(Range(F)) /\ Len(S) = Cardinality(Range(S))
EndsKept(n, K, F) == \A p \in 1..Len(K) : ~HasBoth(n, K[p]) => K[p] \in Range(F)

(* ---- C14: even-point insertion ---------------------------------------- *)
XRange(P) == P[Len(P)][1] - P[1][1]                          \* x is increasing
YRange(P) == LET ys == {P[j][2] : j \in 1..Len(P)} IN Max(ys) - Min(ys)
SegW(P, a, b) == Q(Abs(P[b+1][1] - P[a+1][1]), XRange(P))    \* normalised width
SegH(P, a, b) == Q(Abs(P[b+1][2] - P[a+1][2]), YRange(P))    \* normalised height
Wide(P, a, b, tx) == QGt(SegW(P, a, b), QMul(Q(2, 1), tx))
High(P, a, b, ty) == QGt(SegH(P, a, b), ty)
CeilQ(q) == (q[1] + q[2] - 1) \div q[2]                      \* q >= 0
\* number of inserted points: ceil(W / (2 tx))
CountOf(P, a, b, tx) == LET w == SegW(P, a, b) IN CeilQ(Q(w[1] * tx[2], w[2] * 2 * tx[1]))
\* the m evenly index-spaced points of segment (a, b)
SegNew(a, b, m) == {a + j * ((b - a) \div m) : j \in 1..m}
\* consecutive pairs of the marker list M (retained points, or 0 - knees - n-1)
Gaps(M) == {<<M[j], M[j+1]>> : j \in 1..(Len(M)-1)}
Candidates(P, M, tx, ty) == {g \in Gaps(M) : Wide(P, g[1], g[2], tx) /\ High(P, g[1], g[2], ty)}
\* union before the height filter; Segs = set of <<a, b, m>>
EvenUnion(n, KM, Segs, extremes) ==
    Range(KM) \cup UNION {SegNew(s[1], s[2], s[3]) : s \in Segs} \cup (IF extremes THEN {0, n-1} ELSE {})
EvenOut(H, KM, Segs, extremes) == RunMin(H, SortedSeqOf(EvenUnion(Len(H), KM, Segs, extremes)))
SegsOf(P, M, tx, ty) == {<<g[1], g[2], CountOf(P, g[1], g[2], tx)>> : g \in Candidates(P, M, tx, ty)}
\* M markers (original indices), KM knees as original indices
EvenPoints(P, M, KM, tx, ty, extremes) == EvenOut(HeightsOf(P), KM, SegsOf(P, M, tx, ty), extremes)
\* postprocessing.add_points_even: S retained indices, Kpos knee POSITIONS in the reduced curve
EvenReduced(P, S, Kpos, tx, ty, extremes) == EvenPoints(P, S, MapSpec(Kpos, S), tx, ty, extremes)
\* postprocessing.add_points_even_knees: K knees as original indices, used as markers
EvenMarkers(P, K, tx, ty, extremes) == EvenPoints(P, <<0>> \o K \o <<Len(P)-1>>, K, tx, ty, extremes)
=============================================================================
