SPECIFICATION Spec
CONSTANTS NMax = 3
          FullN = 3
          YMax = 2
          Uneven = FALSE
          Variant = "stale"
          Emit = FALSE
INVARIANT MachineIsRunMin
