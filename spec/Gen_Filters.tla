---------------------------- MODULE Gen_Filters ----------------------------
(***************************************************************************)
(* C13, bindings M and G.  The WorstFilter machine of Filters.tla runs on  *)
(* every grid curve x every ascending knee list and is checked against the *)
(* declarative RunMin; the corner filter / selector are checked against    *)
(* their laws for every threshold of interest (fixed ones plus every IoU   *)
(* value of the curve = exact ties).  With Emit = TRUE every behaviour is  *)
(* printed with the expected outputs of the three functions (replayed into *)
(* postprocessing.filter_worst_knees / filter_corner_knees /               *)
(* select_corner_knees by harness/props/c13.py).                           *)
(***************************************************************************)
EXTENDS Filters, TLC, Json

CONSTANTS NMax,     \* curves with 2..NMax points
          FullN,    \* every knee subset for n <= FullN; small / full / alternating lists above
          YMax,     \* heights 0..YMax
          Uneven,   \* TRUE: uneven integer spacings as well
          Variant,  \* "ok" | "strict" | "stale" (negative instances of the machine)
          Emit

VARIABLES P, K, wf, pc
vars == <<P, K, wf, pc>>

Patterns == IF Uneven THEN {<<1>>, <<1, 2>>, <<3, 1>>, <<1, 0, 2>>} ELSE {<<1>>, <<1, 0, 2>>}   \* <<1, 0, 2>>: repeated abscissae (vertical neighbours)
XOf(pat, n) == [k \in 1..n |-> IF k = 1 THEN 0 ELSE SeqSum([g \in 1..(k-1) |-> pat[((g-1) % Len(pat)) + 1]])]
KneeSets(n) == IF n <= FullN THEN SUBSET (0..(n-1))
               ELSE {s \in SUBSET (0..(n-1)) : Cardinality(s) <= 2 \/ s = 0..(n-1)}
                    \cup {{k \in 0..(n-1) : k % 2 = 0}, {k \in 0..(n-1) : k % 2 = 1}, 1..(n-2)}

N == Len(P)
H == HeightsOf(P)
BaseT == {Q(0, 1), Q(1, 4), Q(1, 3), Q(1, 2), Q(1, 1)}
IoUs == {CornerIoU(P, k) : k \in 1..(N-2)}
Thresholds == SetToSeq(BaseT \cup {q \in IoUs : \A b \in BaseT : ~QEq(q, b)})

\* tight nested choice: no set of curves is built (a UNION of thousands of sequences is quadratic in TLC)
Init == /\ \E n \in 2..NMax : \E pat \in (IF n > FullN THEN {<<1>>} ELSE Patterns) : \E ys \in [1..n -> 0..YMax] :
              P = [k \in 1..n |-> <<XOf(pat, n)[k], ys[k]>>]
        /\ \E s \in KneeSets(Len(P)) : K = SortedSeqOf(s)
        /\ wf = WFInit(HeightsOf(P), K)
        /\ pc = "run"

WorstKeep == /\ pc = "run" /\ WFMore(K, wf) /\ WFKeeps(H, K, wf, Variant)
             /\ wf' = WFStep(H, K, wf, Variant)
             /\ UNCHANGED <<P, K, pc>>
WorstDrop == /\ pc = "run" /\ WFMore(K, wf) /\ ~WFKeeps(H, K, wf, Variant)
             /\ wf' = WFStep(H, K, wf, Variant)
             /\ UNCHANGED <<P, K, pc>>
Behaviour == LET ts == Thresholds IN
    [pts |-> P, knees |-> K, worst |-> wf.kept, ties |-> TieKept(H, K), both |-> BothKnees(N, K),
     ts |-> ts,
     filt |-> [j \in 1..Len(ts) |-> CornerFilter(P, K, ts[j])],
     sel |-> [j \in 1..Len(ts) |-> CornerSelect(P, K, ts[j])]]
Return == /\ pc = "run" /\ ~WFMore(K, wf)
          /\ pc' = "done"
          /\ Emit => PrintT(ToJson(Behaviour))
          /\ UNCHANGED <<P, K, wf>>
Next == WorstKeep \/ WorstDrop \/ Return
Spec == Init /\ [][Next]_vars /\ WF_vars(Next)

(* ---------------- properties (binding M) ------------------------------ *)
Done == pc = "done"
MachineIsRunMin == Done => wf.kept = RunMin(H, K)
\* the machine's running minimum is the minimum over the knees seen so far
HminIsPrefixMin == (pc = "run" /\ Len(K) > 1) => \A q \in 1..(wf.i - 1) : wf.hmin <= H[K[q]+1]
RunMinLaws == Done =>
    LET R == RunMin(H, K) IN
        /\ RunMin(H, R) = R                                    \* idempotent
        /\ SubseqAsc(R, K)                                     \* order preserved
        /\ (Len(K) <= 1 => R = K)
        /\ (Len(K) >= 1 => R[1] = K[1])                        \* first knee always kept
        /\ \A j \in 1..(Len(R)-1) : H[R[j+1]+1] <= H[R[j]+1]   \* heights never rise
CornerLaws == Done =>
    \A t \in Range(Thresholds) :
        LET F == CornerFilter(P, K, t)  S == CornerSelect(P, K, t) IN
            /\ PartitionLaw(N, K, F, S)
            /\ EndsKept(N, K, F)
            /\ CornerFilter(P, F, t) = F /\ CornerSelect(P, S, t) = S          \* idempotent
            /\ SubseqAsc(F, K) /\ SubseqAsc(S, K)
            /\ \A k \in Range(S) : HasBoth(N, k) /\ QGe(CornerIoU(P, k), t)
            /\ \A k \in Range(F) : HasBoth(N, k) => QLt(CornerIoU(P, k), t)
\* the laws hold for EVERY class table, not only for those that come from rectangles
ASSUME ClassTableLaws ==
    \A n \in 0..6 : \A cls \in [1..n -> Classes] :
        LET Kn == [p \in 1..n |-> p - 1]
            F == FilterByClass(Kn, cls)  S == SelectByClass(Kn, cls)
            B == {Kn[p] : p \in {p \in 1..n : cls[p] # "end"}}
            clsF == [j \in 1..Len(F) |-> cls[F[j]+1]]  clsS == [j \in 1..Len(S) |-> cls[S[j]+1]]
        IN /\ (Range(F) \cap B) \cup Range(S) = B /\ Range(F) \cap Range(S) = {}
           /\ FilterByClass(F, clsF) = F /\ SelectByClass(S, clsS) = S
           /\ SubseqAsc(F, Kn) /\ SubseqAsc(S, Kn)
Small32 == \A q \in IoUs : Small(q, 32768)
Terminates == <>Done
=============================================================================
