------------------------- MODULE Trace_FiltersScale -------------------------
(***************************************************************************)
(* Binding T for the post-processing filters on PRODUCTION-SIZE inputs     *)
(* (C13 "scale" family): one recorded (curve, knee list) of 10^2 .. 10^5   *)
(* knees on a curve of up to ~10^5 points, judged against the same         *)
(* property-level operators of Filters.tla as Trace_Filters, but with      *)
(* SPARSE tables: nothing in a case is indexed by the points of the curve. *)
(*   n      number of points (only HasBoth needs it)                       *)
(*   knees  the ascending knee list K handed to the three functions        *)
(*   kh     exact dense height rank of knee K[p], ALIGNED WITH K (instead  *)
(*          of Trace_Filters' table over all n points)                     *)
(*   worst, worst2   filter_worst_knees applied once / twice; raised # ""   *)
(*          when one of the two calls did not complete (exception, loop    *)
(*          budget, watchdog), likewise in every record of ts              *)
(*   ts     one record per threshold t: cls (aligned with K: 0 no two      *)
(*          neighbours, 1 IoU < t, 2 IoU >= t, from the library's own      *)
(*          rect / rect_overlap compared bit-exactly with t), filt, filt2, *)
(*          sel, sel2 (corner filter / selector applied once / twice)      *)
(* The worst-knee rule is RunMin of Filters.tla applied to the knee        *)
(* POSITIONS (the curve restricted to its knees: height table kh, knee     *)
(* list 0..m-1) and mapped back through K.  RunMin is quadratic in the     *)
(* number of knees; above DeclMax knees the verdict uses the linear        *)
(* prefix-minimum scan ScanRunMin, which is ASSUMEd equal to RunMin on     *)
(* every height table over 0..2 of length <= 6 and re-compared with RunMin *)
(* on every recorded case of at most DeclMax knees (verdict "spec-scan").  *)
(* Verdict details are short (lengths and the first difference), never the *)
(* lists themselves.                                                       *)
(***************************************************************************)
EXTENDS Filters, TLC, Json, IOUtils

Cases == JsonDeserialize(IOEnv.CASES_FILE)
VARIABLE i

DeclMax == 1200

One(cond, v) == IF cond THEN <<>> ELSE <<v>>

\* positions 0..m-1 as a "knee list" of the curve restricted to its knees
PosList(m) == [p \in 1..m |-> p - 1]
\* linear scan: [min |-> lowest rank so far, kept |-> kept positions (0-based), ties |-> kept only thanks to <=]
ScanStep(kh, acc, p) ==
    IF p = 1 THEN [min |-> kh[1], kept |-> <<0>>, ties |-> {}]
    ELSE IF kh[p] <= acc.min
         THEN [min |-> kh[p], kept |-> Append(acc.kept, p - 1),
               ties |-> IF kh[p] = acc.min THEN acc.ties \cup {p - 1} ELSE acc.ties]
         ELSE acc
Scan(kh) == FoldLeft(LAMBDA acc, p : ScanStep(kh, acc, p), [min |-> 0, kept |-> <<>>, ties |-> {}],
                     [p \in 1..Len(kh) |-> p])
ScanRunMin(kh) == Scan(kh).kept

SmallTables == UNION {[1..L -> 0..2] : L \in 0..6}
ASSUME ScanIsRunMin == \A h \in SmallTables : /\ ScanRunMin(h) = RunMin(h, PosList(Len(h)))
                                              /\ Scan(h).ties = Range(TieKept(h, PosList(Len(h))))

ClsName(v) == IF v = 0 THEN "-" ELSE IF v = 1 THEN "below" ELSE "atleast"

\* first position where two sequences differ (0 when equal): <<position, a there or -1, b there or -1>>
FirstDiff(a, b) ==
    LET m == IF Len(a) < Len(b) THEN Len(a) ELSE Len(b)
        D == {j \in 1..m : a[j] # b[j]}
        j == IF D # {} THEN Min(D) ELSE IF Len(a) = Len(b) THEN 0 ELSE m + 1
    IN <<j, IF j >= 1 /\ j <= Len(a) THEN a[j] ELSE -1, IF j >= 1 /\ j <= Len(b) THEN b[j] ELSE -1>>
Brief(a, b) == <<Len(a), Len(b)>> \o FirstDiff(a, b)

WorstVerdicts(c) ==
    IF c.raised # "" THEN << <<"completes", c.raised>> >> ELSE
    LET Kn == c.knees
        m == Len(Kn)
        sc == Scan(c.kh)
        posD == RunMin(c.kh, PosList(m))                       \* only evaluated when m <= DeclMax
        pos == IF m <= DeclMax THEN posD ELSE sc.kept
        expW == [j \in 1..Len(pos) |-> Kn[pos[j] + 1]]
        tiesK == {Kn[q + 1] : q \in sc.ties}
        tieLost == (Range(expW) \ Range(c.worst)) \cap tiesK # {}
    IN  One(m > DeclMax \/ posD = sc.kept, <<"spec-scan", m>>)
     \o One(c.worst = expW, <<(IF tieLost THEN "tie-kept" ELSE "running-minimum")>> \o Brief(c.worst, expW))
     \o One(c.worst2 = c.worst, <<"idempotent(filter_worst_knees)">> \o Brief(c.worst, c.worst2))

CornerVerdicts(c, r) ==
    IF r.raised # "" THEN << <<"completes", r.t, r.raised>> >> ELSE
    LET Kn == c.knees
        n == c.n
        cl == [p \in 1..Len(Kn) |-> IF ~HasBoth(n, Kn[p]) THEN "end" ELSE ClsName(r.cls[p])]
        expF == FilterByClass(Kn, cl)
        expS == SelectByClass(Kn, cl)
        T(v) == <<v[1], r.t>> \o Tail(v)
    IN  One(EndsKept(n, Kn, r.filt), T(<<"ends-kept">> \o Brief(r.filt, expF)))
     \o One(SubseqAsc(r.filt, Kn) /\ SubseqAsc(r.sel, Kn), T(<<"order-preserved", Len(r.filt), Len(r.sel)>>))
     \o One(PartitionLaw(n, Kn, r.filt, r.sel), T(<<"partition", Len(r.filt), Len(r.sel), Len(BothKnees(n, Kn))>>))
     \o One(r.filt = expF, T(<<"corner-split(filter_corner_knees)">> \o Brief(r.filt, expF)))
     \o One(r.sel = expS, T(<<"corner-split(select_corner_knees)">> \o Brief(r.sel, expS)))
     \o One(r.filt2 = r.filt, T(<<"idempotent(filter_corner_knees)">> \o Brief(r.filt, r.filt2)))
     \o One(r.sel2 = r.sel, T(<<"idempotent(select_corner_knees)">> \o Brief(r.sel, r.sel2)))

RECURSIVE CornerAll(_, _)
CornerAll(c, j) == IF j > Len(c.ts) THEN <<>> ELSE CornerVerdicts(c, c.ts[j]) \o CornerAll(c, j + 1)

Verdicts(c) == WorstVerdicts(c) \o CornerAll(c, 1)

Init == i = 1
Next == /\ i <= Len(Cases)
        /\ LET vs == Verdicts(Cases[i])
           IN \A k \in 1..Len(vs) : PrintT(<<"VERDICT", Cases[i].id>> \o vs[k])
        /\ i' = i + 1
        /\ IF i = Len(Cases) THEN PrintT(<<"DONE", Len(Cases)>>) ELSE TRUE
Spec == Init /\ [][Next]_i
=============================================================================
