SPECIFICATION Spec
