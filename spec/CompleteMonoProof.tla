-------------------------- MODULE CompleteMonoProof --------------------------
(***************************************************************************)
(* C11, last sentence, for EVERY layout: complete linkage never produces   *)
(* more clusters for a larger threshold.  Two scans of the same strictly   *)
(* increasing abscissae run in lockstep (a product machine), scan 1 with   *)
(* threshold D1, scan 2 with D2 >= D1 (thresholds in the units of x:       *)
(* D = t * range; with rational t multiply x through by the denominator).  *)
(* Each scan keeps what clustering.complete_linkage keeps: the index a of  *)
(* the first point of its current cluster and that cluster's label c.      *)
(* "Greedy stays ahead": scan 2 has fewer clusters so far, or as many and  *)
(* its current cluster started no earlier.  Proofs:                        *)
(* CompleteMonoProof_proofs.tla.  ScanStep is the single-scan step that    *)
(* Clustering.tla's CompleteStep is checked against by TLC                 *)
(* (MC_CompleteMonoRefines.cfg).                                           *)
(***************************************************************************)
EXTENDS Integers

VARIABLES n, X, D1, D2,          \* arguments (never change)
          i, a1, c1, a2, c2      \* next point; anchor and label of each scan
vars == <<n, X, D1, D2, i, a1, c1, a2, c2>>

ArgsOK == /\ n \in Nat /\ n >= 1 /\ X \in [1..n -> Int]
          /\ \A p, q \in 1..n : p < q => X[p] < X[q]
          /\ D1 \in Int /\ D2 \in Int /\ D1 <= D2

\* one step of complete linkage on point k: `if (x[k] - x[anchor]) >= threshold: new cluster, anchor = k`
ScanStep(XX, D, k, a, c, an, cn) ==
    /\ an = (IF XX[k] - XX[a] >= D THEN k ELSE a)
    /\ cn = (IF XX[k] - XX[a] >= D THEN c + 1 ELSE c)

Init == /\ ArgsOK
        /\ i = 2 /\ a1 = 1 /\ c1 = 0 /\ a2 = 1 /\ c2 = 0
Step == /\ i <= n
        /\ ScanStep(X, D1, i, a1, c1, a1', c1')
        /\ ScanStep(X, D2, i, a2, c2, a2', c2')
        /\ i' = i + 1
        /\ UNCHANGED <<n, X, D1, D2>>
Spec == Init /\ [][Step]_vars

TypeOK == /\ ArgsOK /\ i \in 2..(n + 1)
          /\ a1 \in 1..(i - 1) /\ a2 \in 1..(i - 1) /\ c1 \in Nat /\ c2 \in Nat
Ahead == c2 < c1 \/ (c2 = c1 /\ a2 >= a1)
Inv == TypeOK /\ Ahead

\* the property: at every moment (hence at the end, where the number of clusters is c + 1) scan 2 has no more clusters
Monotone == c2 <= c1
=============================================================================
