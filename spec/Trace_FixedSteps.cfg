SPECIFICATION TSpec
CONSTANTS N = 2
          PrioMax = 100000
          CostMax = 1
          Modes = {"fixed", "grdp"}
          Buggy = FALSE
          EverySecond = FALSE
