SPECIFICATION Spec
