SPECIFICATION Spec
