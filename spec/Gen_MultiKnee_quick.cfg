SPECIFICATION Spec
CONSTANTS N = 7
          T2s = {2, 3, 4}
          KMayBeLast = FALSE
          AllCurved = TRUE
          Emit = TRUE
INVARIANT PopBound
INVARIANT Sorted
INVARIANT InRange
INVARIANT Interior
INVARIANT Decomposition
INVARIANT EmptyGate
