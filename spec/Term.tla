-------------------------------- MODULE Term --------------------------------
(* A deep-embedded language of real-valued expressions (DESIGN 3.2 item 3).

   A Term is a nested record [op |-> "...", ...].  The specification BUILDS Terms from textbook
   definitions; it never computes a real number.  Two evaluators give Terms their meaning:

   * harness/term.py  eval_term(t): exact over fractions.Fraction (eps = 10^-16 exactly), with
     sqrt / log / atan applied in binary64 where they occur.  This is the value the implementation
     is compared with.
   * QEval(t, e) below: exact rational evaluation INSIDE TLC of the rational fragment (no sqrt, ln1p,
     atan), with the symbolic constant eps replaced by the rational e (10^-16 does not fit TLC's
     32-bit integers; laws that hold for every eps > 0 are checked with small stand-ins).  Every
     intermediate result is reduced by its gcd; TLC reports an error on 32-bit overflow, so a result
     is never silently wrong.

   All constructor names carry the prefix T so that the module can be EXTENDed next to
   Rational.tla (Num, Abs), Geometry.tla (Sub) and the CommunityModules (Max, Min, Sum).
   JSON form (ToJson): {"op": "add", "a": {...}, "b": {...}}, {"op": "sum", "xs": [...]},
   {"op": "num", "p": 1, "q": 2}, {"op": "eps"}. *)
EXTENDS Rational, Sequences, TLC

TNum(p, q)  == [op |-> "num", p |-> p, q |-> q]          \* the rational p/q, q > 0
TInt(n)     == TNum(n, 1)
TQ(r)       == TNum(r[1], r[2])                           \* from a Rational.tla pair <<num, den>>
TEps        == [op |-> "eps"]                             \* the library's guard constant 10^-16
TNeg(a)     == [op |-> "neg", a |-> a]
TSq(a)      == [op |-> "sq", a |-> a]
TAbs(a)     == [op |-> "abs", a |-> a]
TSqrt(a)    == [op |-> "sqrt", a |-> a]
TLn1p(a)    == [op |-> "ln1p", a |-> a]                   \* natural log of (1 + a)
TAtan(a)    == [op |-> "atan", a |-> a]
TAdd(a, b)  == [op |-> "add", a |-> a, b |-> b]
TSub(a, b)  == [op |-> "sub", a |-> a, b |-> b]
TMul(a, b)  == [op |-> "mul", a |-> a, b |-> b]
TDiv(a, b)  == [op |-> "div", a |-> a, b |-> b]
TMax(a, b)  == [op |-> "max", a |-> a, b |-> b]
TMin(a, b)  == [op |-> "min", a |-> a, b |-> b]
TSum(s)     == [op |-> "sum", xs |-> s]                   \* s: sequence of Terms (0 when empty)
TMean(s)    == [op |-> "mean", xs |-> s]                  \* s non-empty
TMedian(s)  == [op |-> "median", xs |-> s]                \* s non-empty; mean of the two middle values

TInts(v)    == [i \in 1..Len(v) |-> TInt(v[i])]           \* integer vector -> vector of Terms
TMap2(F(_, _), u, v) == [i \in 1..Len(u) |-> F(u[i], v[i])]

(* ---- exact rational evaluation of the rational fragment, inside TLC ---------------------- *)
RECURSIVE TGcd(_, _)
TGcd(a, b) == IF b = 0 THEN a ELSE TGcd(b, a % b)
QNorm(q) == LET s == IF q[2] < 0 THEN -1 ELSE 1
                g == TGcd(Abs(q[1]), Abs(q[2]))
            IN  <<(s * q[1]) \div g, (s * q[2]) \div g>>
QDivide(a, b) == <<a[1] * b[2], a[2] * b[1]>>              \* b # 0; sign repaired by QNorm
QMaxOf(a, b) == IF QLe(a, b) THEN b ELSE a
QMinOf(a, b) == IF QLe(a, b) THEN a ELSE b

RECURSIVE QEval(_, _)
QEval(t, e) ==
    CASE t.op = "num"  -> QNorm(<<t.p, t.q>>)
      [] t.op = "eps"  -> e
      [] t.op = "neg"  -> LET a == QEval(t.a, e) IN <<-a[1], a[2]>>
      [] t.op = "sq"   -> LET a == QEval(t.a, e) IN QMul(a, a)
      [] t.op = "abs"  -> LET a == QEval(t.a, e) IN <<Abs(a[1]), a[2]>>
      [] t.op = "add"  -> QNorm(QAdd(QEval(t.a, e), QEval(t.b, e)))
      [] t.op = "sub"  -> QNorm(QSub(QEval(t.a, e), QEval(t.b, e)))
      [] t.op = "mul"  -> QNorm(QMul(QEval(t.a, e), QEval(t.b, e)))
      [] t.op = "div"  -> LET b == QEval(t.b, e) IN
                          IF b[1] = 0 THEN Assert(FALSE, <<"QEval: division by zero", t>>)
                          ELSE QNorm(QDivide(QEval(t.a, e), b))
      [] t.op = "max"  -> QMaxOf(QEval(t.a, e), QEval(t.b, e))
      [] t.op = "min"  -> QMinOf(QEval(t.a, e), QEval(t.b, e))
      [] t.op \in {"sum", "mean"} ->
            LET n == Len(t.xs)
                S[i \in 0..n] == IF i = 0 THEN QZero ELSE QNorm(QAdd(S[i-1], QEval(t.xs[i], e)))
            IN  IF t.op = "sum" THEN S[n] ELSE QNorm(<<S[n][1], S[n][2] * n>>)
      [] OTHER -> Assert(FALSE, <<"QEval: not in the rational fragment", t.op>>)

QE(t) == QEval(t, QZero)          \* for eps-free Terms
IsZeroT(t) == QE(t)[1] = 0
Radicand(t) == t.a                \* the Term under a TSqrt
=============================================================================
