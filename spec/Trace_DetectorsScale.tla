----------------------- MODULE Trace_DetectorsScale -----------------------
(* Binding T for the "scale" family of C09: recorded single-knee detector calls on production-size curves
   (10^3 .. 10^5 points) with SPARSE tables computed from the STATED criterion (not from the function under test).

   argopt : idx / rank are parallel sequences - a selection of indices of the admissible range lo..hi and their
            noise-merged dense ranks IN THE FULL criterion vector.  The harness always puts into the selection
            the returned index (when admissible) and members of the optimiser set, so "the result has the extreme
            rank of the selection" is exactly "the result is an optimiser of the full range"; the rest of the
            selection (threshold neighbours, local optima, an even sample) documents what the result beat.
   dfdt   : G is a sequence of [cut, ks] - the optimiser sets (absolute indices) of the cutoffs that the loop
            machine of DetectorProps can reach from cutoff 0 (the closure is computed by the harness; a missing
            entry is a harness error and is reported as such, never accepted).
   lknee  : A is the same for the L-method refinement (ks = <<>>: the prefix pins nothing). *)
EXTENDS DetectorProps, TLC, Json, IOUtils
Cases == JsonDeserialize(IOEnv.CASES_FILE)
VARIABLE i

Common(c) ==
    IF c.outcome \in {"budget", "watchdog"} THEN <<"terminates", c.outcome>>
    ELSE IF c.outcome # "returned" THEN <<"returns", c.outcome>>
    ELSE IF c.result < c.lo_ok \/ c.result > c.hi_ok THEN <<"interior", c.result>>
    ELSE <<"ok">>

\* ---- sparse argopt
Sel(c) == 1..Len(c.idx)
WellFormed(c) == /\ Len(c.idx) = Len(c.rank)
                 /\ \A j \in Sel(c) : c.idx[j] >= c.lo /\ c.idx[j] <= c.hi
                 /\ \A j, k \in Sel(c) : j # k => c.idx[j] # c.idx[k]
Best(c) == IF c.sense = "max" THEN {k \in Sel(c) : \A j \in Sel(c) : c.rank[j] <= c.rank[k]}
           ELSE {k \in Sel(c) : \A j \in Sel(c) : c.rank[k] <= c.rank[j]}
BestIdx(c) == {c.idx[k] : k \in Best(c)}

\* ---- sparse loop tables
Entry(T, cut) == {j \in 1..Len(T) : T[j].cut = cut}
Has(T, cut) == Entry(T, cut) # {}
Ks(T, cut) == T[CHOOSE j \in Entry(T, cut) : TRUE].ks

\* -9 = out of fuel, -8 = reached an unpinned prefix, -7 = the table lacks a reachable cutoff (harness error)
RECURSIVE DfdtFinalsS(_, _, _, _, _, _)
DfdtFinalsS(n, G, knee, last, cutoff, fuel) ==
    IF fuel = 0 THEN {-9}
    ELSE IF last < knee /\ n - cutoff > 2
         THEN IF ~Has(G, cutoff) THEN {-7}
              ELSE LET ks == Ks(G, cutoff) IN
                   UNION {DfdtFinalsS(n, G, ks[j], knee, CeilHalf(ks[j]), fuel - 1) : j \in 1..Len(ks)}
         ELSE {knee}

RECURSIVE LFinalsS(_, _, _, _, _, _, _, _, _)
LFinalsS(n, A, mode, limit, cur, last, cutoff, seen, fuel) ==
    IF fuel = 0 THEN {-9}
    ELSE IF cur = last THEN {cur}
    ELSE IF ~Has(A, Min2(cutoff, n)) THEN {-7}
    ELSE LET ks == Ks(A, Min2(cutoff, n)) IN
         IF ks = <<>> THEN {-8}
         ELSE UNION { LET c2 == ks[j] IN
                      IF mode = "none" THEN {c2}
                      ELSE IF mode = "adjusted"
                           THEN LFinalsS(n, A, mode, limit, c2, cur, Max2(limit, (c2 + cur) \div 2), seen, fuel - 1)
                           ELSE IF c2 \in seen THEN {c2}
                                ELSE LFinalsS(n, A, mode, limit, c2, cur, Max2(limit, Min2(2 * c2, n)), seen \cup {c2}, fuel - 1)
                    : j \in 1..Len(ks) }

Specific(c) ==
    IF c.kind = "common" THEN <<"ok">>      \* tie sets too large to enumerate: only termination / interior are judged
    ELSE IF c.kind = "argopt" THEN
        IF ~WellFormed(c) \/ c.result \notin {c.idx[j] : j \in Sel(c)} THEN <<"table-incomplete", c.det, c.result>>
        ELSE IF c.result \in BestIdx(c) THEN <<"ok">> ELSE <<"not-optimal", c.det, c.result, BestIdx(c)>>
    ELSE IF c.kind = "dfdt" THEN
        LET F == DfdtFinalsS(c.n, c.G, 0, -1, 0, c.fuel)
        IN IF -7 \in F THEN <<"table-incomplete", "dfdt", c.result>>
           ELSE IF c.result \in F THEN <<"ok">> ELSE <<"loop-fixpoint", "dfdt", c.result, F>>
    ELSE \* "lknee"
        LET F == LFinalsS(c.n, c.A, c.mode, c.limit, c.n, -1, c.n, {}, c.fuel)
        IN IF -7 \in F THEN <<"table-incomplete", "lmethod", c.result>>
           ELSE IF c.result \in F \/ -8 \in F THEN <<"ok">> ELSE <<"loop-fixpoint", "lmethod", c.mode, c.result, F>>

Verdict(c) == LET v == Common(c) IN IF v[1] # "ok" THEN v ELSE Specific(c)

Init == i = 1
Next == /\ i <= Len(Cases)
        /\ LET v == Verdict(Cases[i]) IN IF v[1] = "ok" THEN TRUE ELSE PrintT(<<"VERDICT", Cases[i].id>> \o v)
        /\ i' = i + 1
        /\ IF i = Len(Cases) THEN PrintT(<<"DONE", Len(Cases)>>) ELSE TRUE
Spec == Init /\ [][Next]_i
=============================================================================
