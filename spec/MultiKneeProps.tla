--------------------------- MODULE MultiKneeProps ---------------------------
(* Property-level operators of C02 (no variables): the recursive decomposition the property states. *)
EXTENDS Naturals, Integers, Sequences, FiniteSets
None == -1        \* the detector answered None
Unknown == -2     \* table entry that could not be computed (detector raised on that slice)

\* KT[l][r] / CT[l][r] are total tables indexed by l+1, r+1 (sequences of sequences)
RECURSIVE MKSet(_, _, _, _, _)
MKSet(l, r, tt, KT, CT) ==
    IF r - l <= tt \/ ~CT[l + 1][r + 1] THEN {}
    ELSE LET a == KT[l + 1][r + 1]
         IN IF a = None THEN {}
            ELSE {l + a} \cup MKSet(l, l + a + 1, tt, KT, CT) \cup MKSet(l + a + 1, r, tt, KT, CT)


\* the same decomposition over a SPARSE table: a sequence of entries <<l, r, answer, curved>> for the slices the recursion
\* visits (long curves, where tabulating every slice is not feasible); a missing entry counts as Unknown
HasEntry(tab, l, r) == \E j \in 1..Len(tab) : tab[j][1] = l /\ tab[j][2] = r
Entry(tab, l, r) == tab[CHOOSE j \in 1..Len(tab) : tab[j][1] = l /\ tab[j][2] = r]
RECURSIVE MKSparse(_, _, _, _)
MKSparse(l, r, tt, tab) ==
    IF r - l <= tt THEN {}
    ELSE IF ~HasEntry(tab, l, r) THEN {Unknown}
    ELSE LET e == Entry(tab, l, r)
         IN IF ~e[4] \/ e[3] = None THEN {}
            ELSE IF e[3] = Unknown THEN {Unknown}
            ELSE {l + e[3]} \cup MKSparse(l, l + e[3] + 1, tt, tab) \cup MKSparse(l + e[3] + 1, r, tt, tab)

\* does the decomposition consult an Unknown entry?
RECURSIVE UsesUnknown(_, _, _, _, _)
UsesUnknown(l, r, tt, KT, CT) ==
    IF r - l <= tt \/ ~CT[l + 1][r + 1] THEN FALSE
    ELSE LET a == KT[l + 1][r + 1]
         IN IF a = Unknown THEN TRUE
            ELSE IF a = None THEN FALSE
            ELSE UsesUnknown(l, l + a + 1, tt, KT, CT) \/ UsesUnknown(l + a + 1, r, tt, KT, CT)
=============================================================================
