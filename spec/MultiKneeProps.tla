--------------------------- MODULE MultiKneeProps ---------------------------
(* Property-level operators of C02 (no variables): the recursive decomposition the property states. *)
EXTENDS Naturals, Integers, Sequences, FiniteSets
None == -1        \* the detector answered None
Unknown == -2     \* table entry that could not be computed (detector raised on that slice)

\* KT[l][r] / CT[l][r] are total tables indexed by l+1, r+1 (sequences of sequences)
RECURSIVE MKSet(_, _, _, _, _)
MKSet(l, r, tt, KT, CT) ==
    IF r - l <= tt \/ ~CT[l + 1][r + 1] THEN {}
    ELSE LET a == KT[l + 1][r + 1]
         IN IF a = None THEN {}
            ELSE {l + a} \cup MKSet(l, l + a + 1, tt, KT, CT) \cup MKSet(l + a + 1, r, tt, KT, CT)


\* does the decomposition consult an Unknown entry?
RECURSIVE UsesUnknown(_, _, _, _, _)
UsesUnknown(l, r, tt, KT, CT) ==
    IF r - l <= tt \/ ~CT[l + 1][r + 1] THEN FALSE
    ELSE LET a == KT[l + 1][r + 1]
         IN IF a = Unknown THEN TRUE
            ELSE IF a = None THEN FALSE
            ELSE UsesUnknown(l, l + a + 1, tt, KT, CT) \/ UsesUnknown(l + a + 1, r, tt, KT, CT)
=============================================================================
