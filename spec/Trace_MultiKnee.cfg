SPECIFICATION Spec
