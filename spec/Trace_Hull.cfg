SPECIFICATION Spec
