------------------------------ MODULE Rational ------------------------------
(* Exact rationals as <<num, den>> with den > 0, compared by cross-multiplication.  TLC's
   integers are 32-bit: every instance that uses this module keeps |num|, den < 2^15 or so, which
   the Small() guard below lets instances assert. *)
EXTENDS Integers
Q(nu, de) == <<nu, de>>
Num(q) == q[1]
Den(q) == q[2]
QLt(a, b) == a[1] * b[2] <  b[1] * a[2]
QLe(a, b) == a[1] * b[2] <= b[1] * a[2]
QEq(a, b) == a[1] * b[2] =  b[1] * a[2]
QGe(a, b) == QLe(b, a)
QGt(a, b) == QLt(b, a)
QAdd(a, b) == <<a[1] * b[2] + b[1] * a[2], a[2] * b[2]>>
QSub(a, b) == <<a[1] * b[2] - b[1] * a[2], a[2] * b[2]>>
QMul(a, b) == <<a[1] * b[1], a[2] * b[2]>>
QZero == <<0, 1>>
QOne == <<1, 1>>
Abs(x) == IF x < 0 THEN -x ELSE x
Max2(x, y) == IF x >= y THEN x ELSE y
Min2(x, y) == IF x <= y THEN x ELSE y
Small(q, bound) == Abs(q[1]) < bound /\ q[2] > 0 /\ q[2] < bound
=============================================================================
