------------------------------ MODULE Mapping ------------------------------
(***************************************************************************)
(* rdp.mapping(indexes, reduced, removed, sorted) as an implementation-    *)
(* shaped machine: one action per loop iteration of the code (the optional *)
(* argsort, the inner while that advances the cursor j, the append).       *)
(* MC_Mapping explores it over the whole bounded structure space and       *)
(* checks it against MapSpec; with Emit = TRUE the same module is the      *)
(* generator whose behaviours are replayed into the real function.         *)
(***************************************************************************)
EXTENDS SimplifyProps, TLC, Json

CONSTANTS N,        \* largest curve length explored
          MaxPerm,  \* row permutations are enumerated for tables with <= MaxPerm rows
          Repeats,  \* TRUE: position lists may repeat a position (the library itself passes [0,1,1,2])
          Emit      \* TRUE: print one JSON behaviour per terminal state (binding G)

VARIABLES n, reduced, removed, sortedFlag, idxs,   \* the call's arguments
          srt, j, count, k, out, pc                \* the function's locals
vars == <<n, reduced, removed, sortedFlag, idxs, srt, j, count, k, out, pc>>

Perms(m) == IF m <= MaxPerm THEN Permutations(1..m) ELSE {[x \in 1..m |-> x]}

Init ==
    /\ n \in 2..N
    /\ \E T \in SUBSET (1..(n-2)) :
         /\ reduced = SortedSeqOf({0, n-1} \cup T)
         /\ \E sf \in BOOLEAN :
              /\ sortedFlag = sf
              /\ \E p \in (IF sf THEN {[x \in 1..(Cardinality(T)+1) |-> x]} ELSE Perms(Cardinality(T)+1)) :
                   removed = [r \in 1..(Cardinality(T)+1) |-> RemovedOf(SortedSeqOf({0, n-1} \cup T))[p[r]]]
         \* ascending position lists: every strictly ascending one, and (Repeats) ascending lists with repeated positions
         /\ \/ \E Q \in SUBSET (0..(Cardinality(T)+1)) : idxs = SortedSeqOf(Q)
            \/ /\ Repeats
               /\ \E p1 \in 0..(Cardinality(T)+1), p2 \in 0..(Cardinality(T)+1), k1 \in 1..2, k2 \in 0..2 :
                    /\ p1 <= p2 /\ k1 + k2 >= 2 /\ (p1 = p2 => k2 = 0)
                    /\ idxs = [x \in 1..k1 |-> p1] \o [x \in 1..k2 |-> p2]
    /\ srt = <<>> /\ j = 0 /\ count = 0 /\ k = 1 /\ out = <<>> /\ pc = "start"

\* `if not sorted: sorted_removed = removed[np.argsort(removed[:, 0])]`
SortRemoved ==
    /\ pc = "start"
    /\ srt' = IF sortedFlag THEN removed
              ELSE SortSeq(removed, LAMBDA a, b : a[1] < b[1])
    /\ pc' = "loop"
    /\ UNCHANGED <<n, reduced, removed, sortedFlag, idxs, j, count, k, out>>

\* one iteration of `while j < len(sorted_removed) and sorted_removed[j][0] < value`
Advance ==
    /\ pc = "loop" /\ k <= Len(idxs)
    /\ j < Len(srt) /\ srt[j+1][1] < reduced[idxs[k]+1]
    /\ count' = count + srt[j+1][2]
    /\ j' = j + 1
    /\ UNCHANGED <<n, reduced, removed, sortedFlag, idxs, srt, k, out, pc>>

\* `idx = i + count; rv.append(idx)`
Append1 ==
    /\ pc = "loop" /\ k <= Len(idxs)
    /\ ~(j < Len(srt) /\ srt[j+1][1] < reduced[idxs[k]+1])
    /\ out' = Append(out, idxs[k] + count)
    /\ k' = k + 1
    /\ UNCHANGED <<n, reduced, removed, sortedFlag, idxs, srt, j, count, pc>>

Return ==
    /\ pc = "loop" /\ k > Len(idxs)
    /\ pc' = "done"
    /\ Emit => PrintT(ToJson([n |-> n, reduced |-> reduced, removed |-> removed,
                              sorted |-> sortedFlag, idxs |-> idxs, expected |-> MapSpec(idxs, reduced)]))
    /\ UNCHANGED <<n, reduced, removed, sortedFlag, idxs, srt, j, count, k, out>>

Next == SortRemoved \/ Advance \/ Append1 \/ Return
Spec == Init /\ [][Next]_vars /\ WF_vars(Next)

(* ---- properties -------------------------------------------------------- *)
TypeOK == pc \in {"start", "loop", "done"} /\ IsReduction(reduced, n)
\* C07: the machine computes exactly reduced[I]
MapsExactly == pc = "done" => out = MapSpec(idxs, reduced)
\* the loop invariant that makes it so: everything emitted so far is right, and
\* count is the number of dropped points of the segments consumed so far
LoopInv == pc = "loop" =>
    /\ out = MapSpec(SubSeq(idxs, 1, k-1), reduced)
    /\ count = SeqSum([r \in 1..j |-> srt[r][2]])
    /\ \A r \in 1..(Len(srt)-1) : srt[r][1] < srt[r+1][1]
\* the removed table of a reduction always satisfies C01's accounting
TableOK == Conservation(reduced, removed, n) /\ Len(removed) = Len(reduced) - 1
\* linear step bound: at most |removed| cursor moves + |I| appends
Terminates == <>(pc = "done")
=============================================================================
