SPECIFICATION Spec
CONSTANTS N = 5
          HMax = 2
          DupReduced = TRUE
INVARIANT MappedOk
