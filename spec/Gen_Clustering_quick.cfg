SPECIFICATION Spec
CONSTANTS G = 8
          NMax = 5
          Dens = {8}
          Links = {"single", "complete", "centroid", "average"}
          Variant = "ok"
          Emit = TRUE
INVARIANT Magnitudes
INVARIANT LabelsWellFormed
INVARIANT RuleHolds
INVARIANT StateAgrees
INVARIANT EqualsDefinition
INVARIANT JudgeAccepts
INVARIANT MonotoneInT
