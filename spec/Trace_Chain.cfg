SPECIFICATION Spec
