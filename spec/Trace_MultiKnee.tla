-------------------------- MODULE Trace_MultiKnee --------------------------
(* Binding T for C02: a recorded call <detector>.multi_knee(points, t1, t2) together with the tables
   K[l][r] = <detector>.knee(points[l:r]) and C[l][r] = straightness gate for every slice longer than t2
   (both from public entry points on the identical sub-arrays) is judged against MKSet. *)
EXTENDS MultiKneeProps, TLC, Json, IOUtils
Cases == JsonDeserialize(IOEnv.CASES_FILE)
VARIABLE i

Verdict(c) ==
    IF c.outcome \in {"budget", "watchdog"} THEN <<"terminates", c.outcome>>
    ELSE IF c.outcome # "returned" THEN <<"returns", c.outcome>>
    ELSE IF c.pops > 2 * (2 * (c.n - 1) + 1) + 4 THEN <<"step-bound", c.pops>>
    ELSE IF \E j \in 1..(Len(c.result) - 1) : c.result[j] >= c.result[j + 1] THEN <<"increasing", c.result>>
    ELSE IF \E j \in 1..Len(c.result) : c.result[j] < 0 \/ c.result[j] > c.n - 2 THEN <<"range", c.result>>
    ELSE IF ~c.exempt_interior /\ \E j \in 1..Len(c.result) : c.result[j] < 1 THEN <<"interior", c.result>>
    ELSE IF c.sparse THEN
        (LET exp == MKSparse(0, c.n, c.t2, c.tab)
         IN IF Unknown \in exp THEN <<"ok">>
            ELSE IF exp = {} /\ c.result # <<>> THEN <<"empty-gate", c.result>>
            ELSE IF {c.result[j] : j \in 1..Len(c.result)} = exp THEN <<"ok">>
            ELSE <<"decomposition", c.result, exp>>)
    ELSE IF (c.n <= c.t2 \/ ~c.C[1][c.n + 1]) /\ c.result # <<>> THEN <<"empty-gate", c.result>>
    ELSE IF UsesUnknown(0, c.n, c.t2, c.K, c.C) THEN <<"ok">>          \* a needed table entry could not be computed
    ELSE LET exp == MKSet(0, c.n, c.t2, c.K, c.C)
         IN IF {c.result[j] : j \in 1..Len(c.result)} = exp THEN <<"ok">>
            ELSE <<"decomposition", c.result, exp>>

Init == i = 1
Next == /\ i <= Len(Cases)
        /\ LET v == Verdict(Cases[i]) IN IF v[1] = "ok" THEN TRUE ELSE PrintT(<<"VERDICT", Cases[i].id>> \o v)
        /\ i' = i + 1
        /\ IF i = Len(Cases) THEN PrintT(<<"DONE", Len(Cases)>>) ELSE TRUE
Spec == Init /\ [][Next]_i
=============================================================================
