SPECIFICATION Spec
CONSTANTS ZMax = 1
          NoYGuard = TRUE
          XBandLeftOpen = FALSE
          NMin = 4
          N = 4
          GapMax = 1
          HMax = 1
          WMax = 2
          HBMin = 1
          HBMax = 1
INVARIANT ResultOk
