SPECIFICATION Spec
CONSTANTS G = 3
          VMax = 3
          VLen = 4
INVARIANT SegLaws
INVARIANT RectLaws
INVARIANT TriLaws
INVARIANT RankLaws
