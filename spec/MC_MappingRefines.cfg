SPECIFICATION Spec
CONSTANTS N = 7
          MaxPerm = 3
          Repeats = TRUE
          Emit = FALSE
PROPERTY Refines
PROPERTY StepsRefine
INVARIANT AbsCorrect
