------------------------- MODULE CompleteMonoRefines -------------------------
(* Every complete-linkage step of Clustering.tla (explored by TLC; its behaviours are replayed into clustering.py) is a      *)
(* ScanStep of CompleteMonoProof.tla - whose product of two scans is PROVED monotone in the threshold for every layout -   *)
(* on the abscissae multiplied through by the threshold's denominator: (x_i - x_a)/L >= p/q  <=>  q x_i - q x_a >= p L.     *)
EXTENDS Clustering
P == INSTANCE CompleteMonoProof WITH n <- Len(xs), X <- [k \in 1..Len(xs) |-> t[2] * xs[k]], D1 <- t[1] * L, D2 <- t[1] * L,
                                     a1 <- anchor, c1 <- labels[Len(labels)], a2 <- anchor, c2 <- labels[Len(labels)]
IsScanStep == [][(link = "complete" /\ pc = "run" /\ i' = i + 1) =>
                    P!ScanStep([k \in 1..Len(xs) |-> t[2] * xs[k]], t[1] * L, i, anchor, labels[Len(labels)],
                               anchor', labels'[Len(labels')])]_vars
=============================================================================
