SPECIFICATION Spec
CONSTANTS N = 9
          Buggy = FALSE
INVARIANT StepBound
INVARIANT WellFormed
INVARIANT OutputExplainable
PROPERTY Terminates
PROPERTY ChildrenShrink
