--------------------------- MODULE PipelineProps ---------------------------
(* Property-level operators of C08 (no variables). *)
EXTENDS Naturals, Integers, Sequences, FiniteSets
InSeq(x, s) == \E j \in 1..Len(s) : s[j] = x
StrictInc(s) == \A j \in 1..(Len(s) - 1) : s[j] < s[j + 1]
\* t is a subsequence of s (order preserving selection)
RECURSIVE IsSubseq(_, _)
IsSubseq(t, s) == IF t = <<>> THEN TRUE
                  ELSE IF s = <<>> THEN FALSE
                  ELSE IF Head(t) = Head(s) THEN IsSubseq(Tail(t), Tail(s)) ELSE IsSubseq(t, Tail(s))
\* h[k+1] = height rank of index/position k;  heights non-increasing along the knee list
HeightsMonotone(knees, h) == \A j \in 1..(Len(knees) - 1) : h[knees[j] + 1] >= h[knees[j + 1] + 1]
\* the greedy running-minimum subsequence (C13), used by the pipeline model
RECURSIVE RunMinFrom(_, _, _)
RunMinFrom(knees, h, cur) == IF knees = <<>> THEN <<>>
                             ELSE IF h[Head(knees) + 1] <= cur THEN <<Head(knees)>> \o RunMinFrom(Tail(knees), h, h[Head(knees) + 1])
                             ELSE RunMinFrom(Tail(knees), h, cur)
RunMin(knees, h) == IF Len(knees) <= 1 THEN knees ELSE <<knees[1]>> \o RunMinFrom(Tail(knees), h, h[knees[1] + 1])
=============================================================================
