SPECIFICATION Spec
CONSTANTS N = 8
          MaxPerm = 4
          Repeats = TRUE
          Emit = FALSE
INVARIANT TypeOK
INVARIANT MapsExactly
INVARIANT LoopInv
INVARIANT TableOK
PROPERTY Terminates
