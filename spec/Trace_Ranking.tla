--------------------------- MODULE Trace_Ranking ---------------------------
(* Binding T for the growth module Ranking: recorded calls of postprocessing.rank_corners, rank_corners_triangle
   (integer curves: exact) and knee_ranking.slope_ranking (|slope| classes of the neighbourhood fits, result * (m-1)). *)
EXTENDS RankingProps, TLC, Json, IOUtils
Cases == JsonDeserialize(IOEnv.CASES_FILE)
VARIABLE i
Verdict(c) ==
    IF c.outcome # "returned" THEN <<"completes", c.kind, c.outcome>>
    ELSE IF c.kind = "gaps" THEN (IF c.out = GapRank(c.xs, c.ks) THEN <<"ok">> ELSE <<"gap-definition", c.out, GapRank(c.xs, c.ks)>>)
    ELSE IF c.kind = "tri" THEN (IF c.out = Tri2Rank(c.xs, c.ys, c.ks) THEN <<"ok">> ELSE <<"triangle-definition", c.out, Tri2Rank(c.xs, c.ys, c.ks)>>)
    ELSE IF c.kind = "slope" THEN
        (IF ~c.integral THEN <<"slope-rank-normalised", c.num>>
         ELSE IF SlopeRankOk(c.cls, c.num) THEN <<"ok">> ELSE <<"slope-rank-order", c.cls, c.num>>)
    ELSE <<"unknown-kind", c.kind>>
Init == i = 1
Next == /\ i <= Len(Cases)
        /\ LET v == Verdict(Cases[i]) IN IF v[1] = "ok" THEN TRUE ELSE PrintT(<<"VERDICT", Cases[i].id>> \o v)
        /\ i' = i + 1
        /\ IF i = Len(Cases) THEN PrintT(<<"DONE", Len(Cases)>>) ELSE TRUE
Spec == Init /\ [][Next]_i
=============================================================================
