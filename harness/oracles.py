"""Oracle tables (DESIGN 3.2): classes, tie sets and ranks computed from the library's OWN public
primitives on the identical sub-arrays.  Tables only - never verdicts."""
import math

import numpy as np

from harness import numeric
from harness import enums


def _m():
    import kneeliverse.rdp as rdp
    import kneeliverse.linear_fit as lf
    import kneeliverse.metrics as metrics
    import kneeliverse.evaluation as ev
    return rdp, lf, metrics, ev


def cls_of(value, t, is_r2):
    """accept / reject / nan exactly as the code compares (bit-exact, R2 inverted)."""
    v = float(value)
    if math.isnan(v):
        return "nan"
    curved = (v < t) if is_r2 else (v >= t)
    return "reject" if curved else "accept"


COST_PRIMITIVE = {"r2": "linear_r2_points", "rmspe": "rmspe_points", "rmsle": "rmsle_points", "smape": "smape_points",
                  "rpd": "rpd_points"}


def cost_class(P, a, b, t, cost):
    """class of the endpoint-line cost of points a..b (inclusive) against t."""
    rdp, lf, metrics, ev = _m()
    pt = P[a:b + 1]
    if len(pt) <= 2:
        return "accept"
    # the metric primitive itself, selected by NAME: the simplifier's own dispatch (rdp.compute_cost_coef) is part of what
    # is being judged, not of the oracle
    v = getattr(lf, COST_PRIMITIVE[cost])(pt, lf.linear_fit_points(pt))
    return cls_of(v, t, cost == "r2")


def dist_fn(distance):
    rdp, lf, metrics, ev = _m()
    return lf.perpendicular_distance_points if distance == "perpendicular" else lf.shortest_distance_points


def far_set(P, a, b, distance):
    """interior indices of a..b whose distance to the chord is maximal up to rounding noise."""
    pt = P[a:b + 1]
    if len(pt) <= 2:
        return []
    d = np.asarray(dist_fn(distance)(pt, pt[0], pt[-1]), float)
    inner = d[1:-1]
    if not np.all(np.isfinite(inner)):
        return list(range(a + 1, b))          # undefined distances: nothing is pinned
    scale = max(float(np.max(np.abs(pt - pt[0]))), 1e-300)
    mx = float(inner.max())
    tol = max(numeric.REL * mx, 1e-12 * scale, float(np.finfo(float).eps))
    return [a + 1 + i for i in range(len(inner)) if inner[i] >= mx - tol]


def order_score(P, a, b, order, distance):
    rdp, lf, metrics, ev = _m()
    pt = P[a:b + 1]
    d = dist_fn(distance)(pt, pt[0], pt[-1])
    if order == "triangle":
        return float(0.5 * np.linalg.norm(pt[0] - pt[-1]) * d.max())
    if order == "area":
        return float(np.sum(d))
    return float(lf.linear_fit_residuals_points(pt))


def score_ranks(scores, P):
    """noise-merged dense ranks of ordering scores (absolute noise relative to the curve's magnitude)."""
    yscale = max(float(np.max(np.abs(P[:, 1]))), float(np.max(np.abs(P[:, 0] - P[0, 0]))), 1.0)
    finite = [s for s in scores if not math.isnan(s)]
    mx = max([abs(s) for s in finite] + [0.0])
    return numeric.ranks(scores, rel=numeric.REL, ab=max(1e-12 * yscale * yscale, 1e-13 * mx))


def global_class(P, S, t, cost):
    rdp, lf, metrics, ev = _m()
    c = enums.pick(metrics.Metrics, cost)
    v = ev.compute_global_cost(P, np.array(S), c)
    return cls_of(v, t, c is metrics.Metrics.r2)
