"""Shared driver for the five simplifiers (C01, C04-C08): one recorded event per public call."""
import numpy as np

from harness import monitor
from harness import enums


def _mods():
    import kneeliverse.rdp as rdp
    import kneeliverse.metrics as metrics
    return rdp, metrics


def call(P, spec, budget=None, wall=20):
    """spec: {'f': name, 't':..., 'distance':..., 'cost':..., 'order':..., 'length':..., 'min_points':..., 'ts':[...]}
    Returns event dict: outcome, reduced (list[int]) / removed (rows) when returned, steps."""
    rdp, metrics = _mods()
    f = spec["f"]
    n = len(P)
    if spec.get("dtype") == "int64":          # the same (integral) values stored as an int64 array
        P = np.asarray(P).astype(np.int64)
    kw = {}
    if "distance" in spec:
        kw["distance"] = enums.pick(rdp.Distance, spec["distance"])
    if "cost" in spec:
        kw["cost"] = enums.pick(metrics.Metrics, spec["cost"])
    if "order" in spec:
        kw["order"] = enums.pick(rdp.Order, spec["order"])
    if f == "rdp":
        args = (P, spec["t"])
    elif f == "grdp":
        args = (P, spec["t"])
    elif f == "rdp_fixed":
        args = (P, spec["length"])
    elif f == "mp_grdp":
        args = (P, spec["t"], spec["min_points"])
    elif f == "min_point_rdp":
        args = (P, list(spec["ts"]), spec["min_points"])
        kw = {}
    else:
        raise ValueError(f)
    mult = len(spec["ts"]) + 1 if f == "min_point_rdp" else 1
    per = None
    if budget is None:
        # total hard stop: at most ~2n refinement steps per pass, each doing at most one pass over the retained
        # segments / the points (grdp recomputes the global cost per step) -> quadratic, with a wide margin.
        # (an earlier linear total, 400n+4000, cut returning calls on 3000-point curves: DESIGN 11.3)
        budget = mult * monitor.quad(n, 16)
        # the refinement loops themselves are what C01 bounds linearly: cut a spinning one early
        per = {k: mult * (8 * n + 64) for k in STEP_LOOPS[f]}
        wall = max(wall, int(wall * n * n / 250000.0))
    out, val, counts = monitor.call(getattr(rdp, f), args, kw, budget=budget, wall=wall, per=per)
    ev = {"f": f, "n": n, "outcome": out, "counts": counts}
    if out == "returned":
        red, rem = val
        red = np.asarray(red)
        rem = np.asarray(rem)
        ev["reduced"] = [int(v) for v in red.tolist()]
        ev["reduced_integral"] = bool(np.all(red == np.floor(red)))
        if rem.ndim == 2 and rem.shape[1] == 2:
            ev["removed"] = [[int(a), int(b)] for a, b in rem.tolist()]
            ev["removed_integral"] = bool(np.all(rem == np.floor(rem)))
        elif rem.size == 0:
            ev["removed"] = []
            ev["removed_integral"] = True
        else:
            ev["removed"] = None
            ev["removed_integral"] = False
    else:
        ev["error"] = val
    return ev


# loop that performs the refinement steps of each simplifier, by code-object name
STEP_LOOPS = {"rdp": ("rdp",), "grdp": ("_grdp",), "rdp_fixed": ("_rdp_fixed",),
              "mp_grdp": ("_grdp", "_rdp_fixed"), "min_point_rdp": ("_grdp", "_rdp_fixed")}


def steps_of(ev):
    return sum(ev["counts"].get(k, 0) for k in STEP_LOOPS[ev["f"]])


DISTANCES = ["shortest", "perpendicular"]
COSTS = ["r2", "rmspe", "rmsle", "rpd", "smape"]
ORDERS = ["triangle", "area", "segment"]


def harvest_thresholds(P, cost, rng, k=3):
    """Thresholds equal to observed segment costs (exact ties by construction)."""
    import kneeliverse.rdp as rdp
    import kneeliverse.linear_fit as lf
    import kneeliverse.metrics as metrics
    n = len(P)
    out = []
    if n < 3:
        return out
    for _ in range(k):
        a = rng.randint(0, n - 3)
        b = rng.randint(a + 2, n - 1)
        pt = P[a:b + 1]
        try:
            v = float(rdp.compute_cost_coef(pt, lf.linear_fit_points(pt), enums.pick(metrics.Metrics, cost)))
        except Exception:
            continue
        if np.isfinite(v) and v > 0 and (cost != "r2" or v <= 1):
            out.append(v)
    return out


def integral(P):
    P = np.asarray(P, float)
    return bool(np.all(P == np.floor(P)) and np.all(np.abs(P) < 2 ** 40))


def maybe_int(rng, P, spec, prob=0.35):
    """for integral curves, sometimes ask for the int64 representation"""
    if integral(P) and rng.random() < prob:
        spec = dict(spec, dtype="int64")
    return spec


def random_spec(rng, P, f=None):
    n = len(P)
    f = f or rng.choice(["rdp", "grdp", "rdp_fixed", "mp_grdp", "min_point_rdp"])
    cost = rng.choice(COSTS)
    ts = [0.01, 0.1, 0.5, 0.9, 0.001] + harvest_thresholds(P, cost, rng, 2)
    t = rng.choice(ts)
    spec = {"f": f}
    if f in ("rdp", "grdp", "mp_grdp"):
        spec.update(t=t, distance=rng.choice(DISTANCES), cost=cost)
    if f in ("grdp", "mp_grdp", "rdp_fixed"):
        spec["order"] = rng.choice(ORDERS)
    if f == "rdp_fixed":
        spec.update(length=rng.randint(0, n + 1), distance=rng.choice(DISTANCES))
    if f == "mp_grdp":
        spec["min_points"] = rng.randint(0, n + 1)
    if f == "min_point_rdp":
        spec.update(ts=rng.sample([0.5, 0.1, 0.01, 0.001, 0.0001, 0.05], rng.randint(1, 3)),
                    min_points=rng.randint(0, n + 1))
    return maybe_int(rng, P, spec)
