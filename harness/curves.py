"""Curve families used by the drivers.  Every family is deterministic in its seed.
A "performance curve" (the properties' domain): n >= 2 points, finite, strictly increasing x, y >= 0."""
import itertools
import math
import os
import random

import numpy as np

TRACES = os.path.join(os.environ.get("KNEE_REPO", "/repo"), "traces")


def mk(x, y):
    return np.column_stack([np.asarray(x, float), np.asarray(y, float)])


def grid_curves(n, ymax, spacings=(1,), limit=None, rng=None):
    """All curves with y in 0..ymax^n and x built from the given spacings (cycled patterns)."""
    out = []
    pats = []
    for s in spacings:
        pats.append([s] * (n - 1))
    if len(spacings) > 1:
        pats.append([spacings[i % len(spacings)] for i in range(n - 1)])
    for pat in pats:
        x = np.concatenate([[0], np.cumsum(pat)])
        for ys in itertools.product(range(ymax + 1), repeat=n):
            out.append(mk(x, ys))
    if limit is not None and len(out) > limit and rng is not None:
        out = rng.sample(out, limit)
    return out


def adversarial():
    """Families the unit tests never contain (DESIGN 5/C01)."""
    out = []
    out.append(mk([1, 4, 7], [2, 1, 0]))                       # collinear run ending at 0 (D1)
    out.append(mk([0, 1, 3], [0, 9, 27]))                      # sloped collinear, rounding noise at end (D2)
    out.append(mk([0, 1], [3, 1]))                             # n = 2 (D3)
    out.append(mk([0, 5], [0, 0]))
    out.append(mk(range(6), [5, 4, 3, 2, 1, 0]))               # collinear to zero
    out.append(mk(range(7), [0, 0, 0, 0, 0, 0, 0]))            # all-zero
    out.append(mk(range(7), [3, 3, 3, 3, 3, 3, 3]))            # plateau
    out.append(mk(range(8), [9, 9, 9, 5, 5, 5, 1, 1]))         # staircase
    out.append(mk([0, 1, 2, 4, 7, 8, 13], [21, 18, 15, 9, 0, 0, 0]))
    out.append(mk([0, 2, 3, 7, 8, 9, 15], [0, 6, 9, 21, 24, 27, 45]))   # sloped collinear, uneven spacing
    out.append(mk([0, 3, 4, 9, 10], [1, 10, 13, 28, 31]))
    out.append(mk(range(9), [1e12, 5e11, 2e11, 1e11, 5e10, 2e10, 1e10, 5e9, 1e9]))
    out.append(mk(range(9), [1e-12 * v for v in [90, 50, 30, 20, 14, 10, 8, 7, 6.5]]))
    out.append(mk([1e6 * v for v in range(1, 9)], [8, 4, 2, 1, .5, .25, .125, .0625]))
    out.append(mk(range(10), [0, 0, 0, 1, 0, 0, 2, 0, 0, 0]))
    out.append(mk(range(10), [10, 9, 8, 7, 6, 5.000000001, 4, 3, 2, 1]))
    out.append(mk(range(5), [0.1, 0.2, 0.30000000000000004, 0.4, 0.5]))  # collinear up to rounding
    out.append(mk([0, 1, 2, 3, 4, 5], [1/3, 2/3, 1, 4/3, 5/3, 2]))
    out.append(mk(range(12), [100, 50, 33.3, 25, 20, 16.6, 14.2, 12.5, 11.1, 10, 9, 8.3]))
    # non-integer abscissae on a curve that reaches exactly 0: a line fitted through two such points reproduces them only up
    # to rounding, and the relative metrics turn 1e-16 against 0 into an error of order 1
    out.append(mk([0.5, 0.6000000000000001, 0.7000000000000001, 0.8], [1.0, 0.5, 0.2, 0.0]))
    out.append(mk([0.1 * k + 0.3 for k in range(9)], [0.9, 0.55, 0.31, 0.17, 0.06, 0.0, 0.0, 0.0, 0.0]))
    return out


def clipped_curve(rng, nmin=4, nmax=30):
    """a decaying curve with non-integer abscissae, shifted down and clipped at 0 (reaches exactly 0 before its end)"""
    n = rng.randint(nmin, nmax)
    x = np.cumsum([rng.choice([0.1, 0.2, 0.3, 0.7]) for _ in range(n)]) + rng.choice([0.0, 0.5, 3.3])
    y = np.array(sorted([rng.random() for _ in range(n)], reverse=True))
    y = np.clip(y - y[rng.randint(n // 2, n - 1)], 0.0, None)
    return mk(x, y)


def random_curve(rng, nmin=3, nmax=40, kind=None):
    n = rng.randint(nmin, nmax)
    x = np.cumsum([rng.randint(1, 4) for _ in range(n)]).astype(float)
    k = rng.randint(0, 6) if kind is None else kind
    if k == 0:
        y = np.array(sorted([rng.random() for _ in range(n)], reverse=True)) * 10
    elif k == 1:
        y = np.array([rng.randint(0, 5) for _ in range(n)], float)
    elif k == 2:
        y = 10.0 / x + np.array([rng.random() * 0.1 for _ in range(n)])
    elif k == 3:
        y = np.abs(np.array([rng.gauss(0, 1) for _ in range(n)]))
    elif k == 4:   # multi-knee staircase, decreasing
        y = []
        cur = 100.0
        for i in range(n):
            cur -= rng.choice([0, 0, 0.5, 1, 5, 20]) * rng.random()
            y.append(max(cur, 0.0))
        y = np.array(y)
    elif k == 5:   # MRC-like with plateaus and rounded heights
        y = np.round(np.array(sorted([rng.random() for _ in range(n)], reverse=True)), rng.choice([1, 2, 3]))
    else:          # increasing concave
        y = np.log1p(x) + np.array([rng.random() * 0.05 for _ in range(n)])
    return mk(x, y)


def mrc_curve(rng, nmin=4, nmax=120):
    """miss-ratio-like: strictly increasing non-negative integer x, y in [0,1] (C10)."""
    n = rng.randint(nmin, nmax)
    x = np.cumsum([rng.randint(1, 5) for _ in range(n)]).astype(float)
    kind = rng.randint(0, 3)
    if kind == 0:
        y = np.array(sorted([rng.random() for _ in range(n)], reverse=True))
    elif kind == 1:
        y = np.round(np.array(sorted([rng.random() for _ in range(n)], reverse=True)), 1)
    elif kind == 2:
        y = np.clip(1.0 / (1 + 0.3 * np.arange(n)) + np.array([rng.gauss(0, 0.02) for _ in range(n)]), 0, 1)
    else:
        steps = sorted(rng.sample(range(1, n), min(n - 1, rng.randint(1, 4))))
        y = np.ones(n)
        lvl = 1.0
        for i in range(n):
            if i in steps:
                lvl *= rng.choice([0.3, 0.5, 0.8])
            y[i] = lvl - 0.001 * i * rng.random()
        y = np.clip(y, 0, 1)
    return mk(x, y)


_trace_cache = {}


def bundled(name):
    if name not in _trace_cache:
        p = os.path.join(TRACES, name)
        _trace_cache[name] = np.genfromtxt(p, delimiter=",")
    return _trace_cache[name]


def trace_windows(rng, count, wmin=20, wmax=200, names=("web0_reduced.csv",)):
    out = []
    for _ in range(count):
        nm = rng.choice(list(names))
        try:
            P = bundled(nm)
        except Exception:
            continue
        if P.ndim != 2 or len(P) < wmin:
            continue
        w = rng.randint(wmin, min(wmax, len(P)))
        s = rng.randint(0, len(P) - w)
        W = P[s:s + w]
        # keep the domain: strictly increasing x
        keep = np.concatenate([[True], np.diff(W[:, 0]) > 0])
        W = W[keep]
        if len(W) >= 3 and np.all(np.isfinite(W)) and np.all(W[:, 1] >= 0):
            out.append(np.array(W, float))
    return out
