"""Observation without source hooks (DESIGN 3.1): loop back-edge counting with sys.monitoring
(Python 3.12) restricted to the code objects of kneeliverse, a hard budget that turns a hang
into a recorded outcome, and a SIGALRM watchdog behind it."""
import signal
import sys
import types

TOOL = 4  # a free sys.monitoring tool id
_mon = sys.monitoring
_state = {"on": False, "count": {}, "total": 0, "budget": None, "per": None, "snap": None, "snaps": []}


class BudgetExceeded(Exception):
    pass


class WatchdogTimeout(Exception):
    pass


def _codes_of(mod):
    seen = []

    def walk(co):
        seen.append(co)
        for c in co.co_consts:
            if isinstance(c, types.CodeType):
                walk(c)

    for v in vars(mod).values():
        f = getattr(v, "py_func", v)          # numba dispatchers keep the python function
        if isinstance(f, types.FunctionType) and f.__module__ == mod.__name__:
            walk(f.__code__)
    return seen


def _on_jump(code, src, dst):
    if dst < src:
        st = _state
        if st["on"]:
            k = code.co_name
            c = st["count"][k] = st["count"].get(k, 0) + 1
            st["total"] += 1
            if st["budget"] is not None and st["total"] > st["budget"]:
                st["on"] = False
                raise BudgetExceeded(k)
            if st["per"] and k in st["per"] and c > st["per"][k]:
                st["on"] = False
                raise BudgetExceeded(k)
            if st["snap"] and k in st["snap"] and len(st["snaps"]) < 4000:
                # growth only (DESIGN 11.6, action-level traces): a projection of the monitored frame's locals at a loop
                # back-edge, read without touching the source; absent names simply yield no snapshot
                try:
                    v = st["snap"][k](sys._getframe(1).f_locals)
                    if v is not None:
                        st["snaps"].append(v)
                except Exception:
                    pass
    return None


_installed = False


def install():
    global _installed
    if _installed:
        return
    import importlib
    import pkgutil
    import kneeliverse
    _mon.use_tool_id(TOOL, "knee-verif")
    _mon.register_callback(TOOL, _mon.events.JUMP, _on_jump)
    for m in pkgutil.iter_modules(kneeliverse.__path__):
        mod = importlib.import_module("kneeliverse." + m.name)
        for co in _codes_of(mod):
            _mon.set_local_events(TOOL, co, _mon.events.JUMP)
    _installed = True


def _margin(fn, budget, per, st, out):
    """KNEE_BUDGET_STATS=<file>: log calls that used more than 2% of a hard stop (to audit the margins)."""
    import os
    f = os.environ.get("KNEE_BUDGET_STATS")
    if not f or not budget:
        return
    r = st["total"] / float(budget)
    rp = max([st["count"].get(k, 0) / float(v) for k, v in (per or {}).items()] or [0.0])
    if r > 0.02 or rp > 0.25 or out in ("budget", "watchdog"):
        with open(f, "a") as fh:
            fh.write("%s %s total=%.4f per=%.4f %s\n" % (os.environ.get("KNEE_CHECK_ID", "?"), getattr(fn, "__name__", "?"), r, rp, out))


def _alarm(*a):
    raise WatchdogTimeout()


def quad(n, c=8):
    """A total back-edge budget that is sound for code doing at most linearly many steps of at most linear work:
    the budget only has to turn a hang into a recorded outcome, it must never cut a run that would have returned."""
    return c * n * n + 4000 * n + 200000


def call(fn, args, kwargs=None, budget=20000, wall=20, per=None, snap=None):
    """Run fn(*args) under the back-edge budget and the watchdog.
    budget: hard stop over ALL back-edges of library code (a hang detector: callers pass a bound that no
            returning execution can reach); per: {code name: limit} hard stops for the loops whose iteration
            count a property bounds (a spinning refinement loop is cut after its own, linear, limit).
    wall:   seconds of *CPU time of this process* (ITIMER_VIRTUAL), so that a loaded machine cannot turn a
            slow but returning call into a 'watchdog' outcome; a real-time alarm at 30x is the last backstop.
    Returns (outcome, value, counts): outcome in {'returned','raised:<Type>','budget','watchdog'}."""
    install()
    kwargs = kwargs or {}
    st = _state
    st["count"] = {}
    st["total"] = 0
    st["budget"] = budget
    st["per"] = per
    st["snap"] = snap
    st["snaps"] = []
    st["on"] = True
    old = signal.signal(signal.SIGALRM, _alarm)
    oldv = signal.signal(signal.SIGVTALRM, _alarm)
    signal.alarm(30 * wall)
    signal.setitimer(signal.ITIMER_VIRTUAL, wall)
    try:
        v = fn(*args, **kwargs)
        out = "returned"
    except BudgetExceeded:
        v, out = None, "budget"
    except WatchdogTimeout:
        v, out = None, "watchdog"
    except Exception as ex:  # the library raised: a recorded outcome, not a harness error
        v, out = repr(ex)[:200], "raised:" + type(ex).__name__
    finally:
        signal.setitimer(signal.ITIMER_VIRTUAL, 0)
        signal.alarm(0)
        signal.signal(signal.SIGALRM, old)
        signal.signal(signal.SIGVTALRM, oldv)
        st["on"] = False
    _margin(fn, budget, per, st, out)
    return out, v, dict(st["count"])
