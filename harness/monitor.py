"""Observation without source hooks (DESIGN 3.1): loop back-edge counting with sys.monitoring
(Python 3.12) restricted to the code objects of kneeliverse, a hard budget that turns a hang
into a recorded outcome, and a SIGALRM watchdog behind it."""
import signal
import sys
import types

TOOL = 4  # a free sys.monitoring tool id
_mon = sys.monitoring
_state = {"on": False, "count": {}, "total": 0, "budget": None}


class BudgetExceeded(Exception):
    pass


class WatchdogTimeout(Exception):
    pass


def _codes_of(mod):
    seen = []

    def walk(co):
        seen.append(co)
        for c in co.co_consts:
            if isinstance(c, types.CodeType):
                walk(c)

    for v in vars(mod).values():
        f = getattr(v, "py_func", v)          # numba dispatchers keep the python function
        if isinstance(f, types.FunctionType) and f.__module__ == mod.__name__:
            walk(f.__code__)
    return seen


def _on_jump(code, src, dst):
    if dst < src:
        st = _state
        if st["on"]:
            k = code.co_name
            st["count"][k] = st["count"].get(k, 0) + 1
            st["total"] += 1
            if st["budget"] is not None and st["total"] > st["budget"]:
                st["on"] = False
                raise BudgetExceeded(k)
    return None


_installed = False


def install():
    global _installed
    if _installed:
        return
    import importlib
    import pkgutil
    import kneeliverse
    _mon.use_tool_id(TOOL, "knee-verif")
    _mon.register_callback(TOOL, _mon.events.JUMP, _on_jump)
    for m in pkgutil.iter_modules(kneeliverse.__path__):
        mod = importlib.import_module("kneeliverse." + m.name)
        for co in _codes_of(mod):
            _mon.set_local_events(TOOL, co, _mon.events.JUMP)
    _installed = True


def _alarm(*a):
    raise WatchdogTimeout()


def call(fn, args, kwargs=None, budget=20000, wall=20):
    """Run fn(*args) under the back-edge budget and the watchdog.
    Returns (outcome, value, counts): outcome in {'returned','raised:<Type>','budget','watchdog'}."""
    install()
    kwargs = kwargs or {}
    st = _state
    st["count"] = {}
    st["total"] = 0
    st["budget"] = budget
    st["on"] = True
    old = signal.signal(signal.SIGALRM, _alarm)
    signal.alarm(wall)
    try:
        v = fn(*args, **kwargs)
        out = "returned"
    except BudgetExceeded:
        v, out = None, "budget"
    except WatchdogTimeout:
        v, out = None, "watchdog"
    except Exception as ex:  # the library raised: a recorded outcome, not a harness error
        v, out = repr(ex)[:200], "raised:" + type(ex).__name__
    finally:
        signal.alarm(0)
        signal.signal(signal.SIGALRM, old)
        st["on"] = False
    return out, v, dict(st["count"])
