"""Trusted evaluator for the structural cost expressions of GlobalCost.tla (DESIGN 3.2 item 3):
exact rational arithmetic (fractions.Fraction, eps = 10^-16 exactly) with sqrt / log applied in
binary64.  Definitions only - no decisions."""
import math
from fractions import Fraction as F

EPS = F(1, 10 ** 16)


def _line(xa, ya, xb, yb):
    m = (ya - yb) / (xa - xb)
    return m, ya - m * xa


def seg_terms(P, a, b):
    """exact (y_i, h_i) for the points a..b against the line through the end points."""
    xa, ya, xb, yb = F(float(P[a][0])), F(float(P[a][1])), F(float(P[b][0])), F(float(P[b][1]))
    m, c = _line(xa, ya, xb, yb)
    out = []
    for i in range(a, b + 1):
        x, y = F(float(P[i][0])), F(float(P[i][1]))
        out.append((y, m * x + c))
    return out


def summand(metric, y, h):
    """returns (value, exact?) - rmsle goes through binary64 logs."""
    if metric == "r2":
        return (y - h) ** 2, True
    if metric == "rmspe":
        return ((y - h) / (y + EPS)) ** 2, True
    if metric == "rpd":
        return abs(y - h) / (max(y, h) + EPS), True
    if metric == "smape":
        return 2 * abs(h - y) / (abs(y) + abs(h) + EPS), True
    if metric == "rmsle":
        return (math.log(float(y) + 1.0) - math.log(float(h) + 1.0)) ** 2, False
    raise ValueError(metric)


def ill_conditioned(metric, y, h):
    """0/eps situations: exact numerator 0 (or within double rounding of it) over a denominator that is
    only the eps guard - the float evaluation is rounding noise divided by 1e-16."""
    if metric in ("rmspe",):
        return abs(float(y)) < 1e-9 and abs(float(y - h)) < 1e-9
    if metric in ("rpd",):
        return abs(float(max(y, h))) < 1e-9
    if metric == "smape":
        return abs(float(y)) + abs(float(h)) < 1e-9
    if metric == "rmsle":
        return float(h) <= -1.0 + 1e-12 or float(y) <= -1.0 + 1e-12
    return False


def eval_expr(P, expr):
    """expr = CostExpr record from GlobalCost.tla.  Returns (float value, ambiguous?)."""
    metric = expr["metric"]
    tot = 0
    amb = False
    for a, b in expr["segs"]:
        for y, h in seg_terms(P, a, b):
            if ill_conditioned(metric, y, h):
                amb = True
            v, _ = summand(metric, y, h)
            tot = tot + v
    norm = expr["norm"]
    if norm == "one-minus-rss-over-tss":
        ys = [F(float(v)) for v in P[:, 1]]
        mean = sum(ys) / len(ys)
        tss = sum((y - mean) ** 2 for y in ys)
        val = float(1 - tot) if tss == 0 else float(1 - F(tot) / tss)
        if tss != 0 and float(tss) < 1e-20:
            amb = True
    elif norm == "sqrt-of-mean":
        val = math.sqrt(float(tot) / expr["total"])
    else:
        val = float(tot) / expr["total"]
    if expr.get("clip0", True) and val < 0:
        val = 0.0
    return val, amb


def global_rmse_def(P, S):
    """RMSE of the curve against the piecewise-linear interpolation through the breakpoints S
    (independent definition: point-wise interpolation)."""
    n = len(P)
    tot = F(0)
    k = 0
    for i in range(n):
        while not (S[k] <= i <= S[k + 1]):
            k += 1
        a, b = S[k], S[k + 1]
        xa, ya, xb, yb = F(float(P[a][0])), F(float(P[a][1])), F(float(P[b][0])), F(float(P[b][1]))
        x, y = F(float(P[i][0])), F(float(P[i][1]))
        h = ya + (yb - ya) * (x - xa) / (xb - xa)
        tot += (y - h) ** 2
    return math.sqrt(float(tot / n))


def mip_def(P, S):
    base = global_rmse_def(P, S)
    ip = sorted(global_rmse_def(P, S[:i] + S[i + 1:]) - base for i in range(1, len(S) - 1))
    m = len(ip)
    med = ip[m // 2] if m % 2 else 0.5 * (ip[m // 2 - 1] + ip[m // 2])
    dev = sorted(abs(v - med) for v in ip)
    mad = dev[m // 2] if m % 2 else 0.5 * (dev[m // 2 - 1] + dev[m // 2])
    return med, mad
