"""Call recipes for the dynamic half of C20: how to call every public function of the package on one
small 'world' of valid inputs.  A recipe returns (callable, args list, kwargs).  Array-valued arguments
are converted per representation variant by the caller."""
import numpy as np


class World:
    def __init__(self, rng, integral):
        n = 14
        self.n = n
        x = np.cumsum([rng.randint(1, 3) for _ in range(n)]).astype(float)
        if integral:
            y = np.array(sorted([rng.randint(1, 60) for _ in range(n)], reverse=True), float)
            y[4] = y[5]
        else:
            y = np.array(sorted([rng.random() * 0.9 + 0.05 for _ in range(n)], reverse=True))
        y[-1] = 0.0          # the curve reaches exactly 0 (relative metrics divide by y + eps there)
        self.P = np.column_stack([x, y])
        self.x, self.y = x.copy(), y.copy()
        self.yh = (y + 1.0) if integral else (y * 0.9 + 0.01)
        self.coef = (float(y[0]), -0.25) if not integral else (float(y[0]), -2.0)
        self.knees = np.array([3, 5, 6, 9])
        self.reduced = np.array([0, 2, 5, 6, 9, 13])
        self.removed = np.array([[0, 1], [2, 2], [5, 0], [6, 2], [9, 3]])
        self.rknees = np.array([1, 3, 4])
        self.exp = self.P[[4, 8]] + (np.array([[1.0, 1.0], [0.0, 2.0]]) if integral else np.array([[0.5, 0.01], [0.0, 0.02]]))
        self.cm = np.array([[3, 1], [2, 8]])
        self.vec = y[:6].copy()
        self.tlist = [0.01, 0.1, 0.001]
        # z-method wants integer x and y in [0, 1]
        self.Z = np.column_stack([x, (y / (y.max() + 1.0)) if integral else y])
        # a convex decreasing curve (every point on the lower hull) with a few points lifted off the hull, so that clusters
        # of adjacent knees contain exactly one / several / no hull points
        yb = np.round(4000.0 / (x + 2.0)) if integral else 40.0 / (x + 2.0)
        for j in (4, 6, 7, 9):
            yb[j] = yb[j] + (3.0 if integral else 0.05) + 0.4 * (yb[j - 1] - yb[j])
        if integral:
            yb = np.round(yb)
        self.B = np.column_stack([x, yb])


def recipes():
    import kneeliverse.clustering as cl
    import kneeliverse.convex_hull as ch
    import kneeliverse.curvature as cu
    import kneeliverse.dfdt as df
    import kneeliverse.evaluation as ev
    import kneeliverse.knee_ranking as kr
    import kneeliverse.kneedle as kn
    import kneeliverse.linear_fit as lf
    import kneeliverse.lmethod as lm
    import kneeliverse.menger as me
    import kneeliverse.metrics as mt
    import kneeliverse.multi_knee as mk
    import kneeliverse.postprocessing as pp
    import kneeliverse.rdp as rdp
    import kneeliverse.zmethod as zm
    import uts.gradient as grad
    R = {}

    def add(mod, name, f):
        R["%s.%s" % (mod.__name__.split(".")[-1], name)] = (getattr(mod, name), f)

    for nm in ("single_linkage", "complete_linkage", "centroid_linkage", "average_linkage"):
        add(cl, nm, lambda W: ([W.P[W.knees], 0.2], {}))
    for nm in ("graham_scan", "graham_scan_lower", "graham_scan_upper"):
        add(ch, nm, lambda W: ([W.P], {}))
    add(cu, "knee", lambda W: ([W.P], {}))
    add(cu, "multi_knee", lambda W: ([W.P, 0.001, 3], {}))
    add(df, "get_knee", lambda W: ([W.x, W.y], {}))
    add(df, "get_knee_gradient", lambda W: ([grad.cfd(W.x, W.y)], {}))
    add(df, "knee", lambda W: ([W.P], {}))
    add(df, "multi_knee", lambda W: ([W.P, 0.001, 3], {}))
    add(ev, "get_neighbourhood_points", lambda W: ([W.P, 9, 2, 0.9], {}))
    add(ev, "get_neighbourhood_fast_points", lambda W: ([W.P, 9, 2, 0.9], {}))
    add(ev, "get_neighbourhood_binary", lambda W: ([W.x, W.y, 9, 2, 0.9], {}))
    add(ev, "get_neighbourhood_fast", lambda W: ([W.x, W.y, 9, 2, 0.9], {}))
    add(ev, "get_neighbourhood", lambda W: ([W.x, W.y, 9, 2, 0.9], {}))
    add(ev, "accuracy_knee", lambda W: ([W.P, W.knees, 0.9], {}))
    add(ev, "accuracy_trace", lambda W: ([W.P, W.knees], {}))
    for nm in ("mae", "mse", "rmse", "rmspe"):
        for s in ev.Strategy:
            R["evaluation.%s[%s]" % (nm, s)] = (getattr(ev, nm), (lambda s: lambda W: ([W.P, W.knees, W.exp, s], {}))(s))
    add(ev, "cm", lambda W: ([W.P, W.knees, W.exp, 0.05], {}))
    for nm in ("accuracy", "f1score", "mcc"):
        add(ev, nm, lambda W: ([W.cm], {}))
    add(ev, "compute_global_rmse", lambda W: ([W.P, W.reduced], {}))
    add(ev, "mip", lambda W: ([W.P, W.reduced], {}))
    for c in mt.Metrics:
        R["evaluation.compute_global_cost[%s]" % c] = (ev.compute_global_cost, (lambda c: lambda W: ([W.P, W.reduced, c], {}))(c))
        R["evaluation.compute_partial_cost[%s]" % c] = (ev.compute_partial_cost, (lambda c: lambda W: ([W.y, W.yh, c], {}))(c))
        R["evaluation.compute_cost[%s]" % c] = (ev.compute_cost, (lambda c: lambda W: ([W.P, W.vec[:5], c, {}], {}))(c))
        R["rdp.compute_cost_coef[%s]" % c] = (rdp.compute_cost_coef, (lambda c: lambda W: ([W.P, W.coef, c], {}))(c))
    add(kr, "distances", lambda W: ([W.P[3], W.P], {}))
    add(kr, "rect_overlap", lambda W: ([W.P[5], W.P[2], W.P[6], W.P[3]], {}))
    add(kr, "rect", lambda W: ([W.P[2], W.P[5]], {}))
    add(kr, "distance_to_similarity", lambda W: ([W.vec], {}))
    add(kr, "rank", lambda W: ([W.vec], {}))
    add(kr, "slope_ranking", lambda W: ([W.P, W.knees, 0.8], {}))
    for m in (kr.ClusterRanking.left, kr.ClusterRanking.linear, kr.ClusterRanking.right):
        R["knee_ranking.smooth_ranking[%s]" % m] = (kr.smooth_ranking, (lambda m: lambda W: ([W.P, W.knees, m], {}))(m))
    for cd in kn.Direction:
        for cc in kn.Concavity:
            R["kneedle.differences[%s,%s]" % (cd, cc)] = (kn.differences, (lambda cd, cc: lambda W: ([W.P, cd, cc], {}))(cd, cc))
    for p in kn.PeakDetection:
        for t in (1.0, 0.0, 2.5):          # smoothing window incl. the "no smoothing" boundary value
            R["kneedle.knees[%s,t=%s]" % (p, t)] = (kn.knees, (lambda p, t: lambda W: ([W.P, t, 1.0, p], {}))(p, t))
    for t in (1.0, 0.0):
        R["kneedle.knee[t=%s]" % t] = (kn.knee, (lambda t: lambda W: ([W.P, t], {}))(t))
    add(kn, "multi_knee", lambda W: ([W.P, 0.01, 3], {}))
    add(lf, "linear_fit_points", lambda W: ([W.P], {}))
    add(lf, "linear_fit", lambda W: ([W.x, W.y], {}))
    add(lf, "linear_transform_points", lambda W: ([W.P, W.coef], {}))
    add(lf, "linear_transform", lambda W: ([W.x, W.coef], {}))
    add(lf, "linear_hv_residuals_points", lambda W: ([W.P], {}))
    add(lf, "linear_hv_residuals", lambda W: ([W.x, W.y], {}))
    for v in (False, True):
        R["linear_fit.linear_fit_transform_points[%s]" % v] = (lf.linear_fit_transform_points, (lambda v: lambda W: ([W.P, v], {}))(v))
        R["linear_fit.linear_fit_transform[%s]" % v] = (lf.linear_fit_transform, (lambda v: lambda W: ([W.x, W.y, v], {}))(v))
    for r in mt.R2:
        R["linear_fit.linear_r2_points[%s]" % r] = (lf.linear_r2_points, (lambda r: lambda W: ([W.P, W.coef, r], {}))(r))
        R["linear_fit.linear_r2[%s]" % r] = (lf.linear_r2, (lambda r: lambda W: ([W.x, W.y, W.coef, r], {}))(r))
        R["linear_fit.r2_points[%s]" % r] = (lf.r2_points, (lambda r: lambda W: ([W.P, r], {}))(r))
        R["linear_fit.r2[%s]" % r] = (lf.r2, (lambda r: lambda W: ([W.x, W.y, r], {}))(r))
        R["metrics.r2[%s]" % r] = (mt.r2, (lambda r: lambda W: ([W.y, W.yh, r], {}))(r))
    for nm in ("rmspe", "rmsle", "smape", "rpd", "rmse", "linear_residuals"):
        add(lf, nm + "_points", lambda W: ([W.P, W.coef], {}))
        add(lf, nm, lambda W: ([W.x, W.y, W.coef], {}))
    add(lf, "linear_fit_residuals_points", lambda W: ([W.P], {}))
    add(lf, "linear_fit_residuals", lambda W: ([W.x, W.y], {}))
    add(lf, "angle", lambda W: ([W.coef, (1.0, 0.25)], {}))
    add(lf, "cross2d", lambda W: ([W.P - W.P[0], W.P[3] - W.P[0]], {}))
    add(lf, "shortest_distance_points", lambda W: ([W.P, W.P[0], W.P[-1]], {}))
    add(lf, "perpendicular_distance", lambda W: ([W.P], {}))
    add(lf, "perpendicular_distance_index", lambda W: ([W.P, 2, 9], {}))
    add(lf, "perpendicular_distance_points", lambda W: ([W.P, W.P[0], W.P[-1]], {}))
    for f in lm.Fit:
        for c in lm.Cost:
            R["lmethod.compute_error[%s,%s]" % (f, c)] = (lm.compute_error, (lambda f, c: lambda W: ([W.x, W.y, 5, W.x[-1] - W.x[0], f, c], {}))(f, c))
            R["lmethod.get_knee[%s,%s]" % (f, c)] = (lm.get_knee, (lambda f, c: lambda W: ([W.x, W.y, f, c], {}))(f, c))
        for r in lm.Refinement:
            R["lmethod.knee[%s,%s]" % (f, r)] = (lm.knee, (lambda f, r: lambda W: ([W.P, f, r, 5], {}))(f, r))
    add(lm, "multi_knee", lambda W: ([W.P, 0.001, 4], {}))
    add(me, "menger_curvature", lambda W: ([W.P[2], W.P[3], W.P[5]], {}))
    add(me, "knee", lambda W: ([W.P], {}))
    add(me, "multi_knee", lambda W: ([W.P, 0.001, 4], {}))
    for nm in ("rmse", "rmsle", "rmspe", "rpd", "residuals", "smape"):
        add(mt, nm, lambda W: ([W.y, W.yh], {}))
    for c in (mt.Metrics.smape, mt.Metrics.r2):
        R["multi_knee.multi_knee[%s]" % c] = (mk.multi_knee, (lambda c: lambda W: ([cu.knee, W.P, 0.001 if c is mt.Metrics.smape else 0.99, 3, c], {}))(c))
    add(pp, "filter_corner_knees", lambda W: ([W.P, W.knees, 0.33], {}))
    add(pp, "select_corner_knees", lambda W: ([W.P, W.knees, 0.33], {}))
    add(pp, "filter_worst_knees", lambda W: ([W.P, W.knees], {}))
    for m in kr.ClusterRanking:
        R["postprocessing.filter_clusters[%s]" % m] = (pp.filter_clusters, (lambda m: lambda W: ([W.P, W.knees, cl.single_linkage, 0.2, m], {}))(m))
    # hull ranking on clusters of adjacent knees (exactly one / several hull points inside a cluster)
    for kn_ in ([2, 5, 6, 7, 10], [3, 4, 5, 8, 9, 11], [1, 2, 6, 7, 8, 12]):
        R["postprocessing.filter_clusters[hull,%s]" % "-".join(map(str, kn_))] = (
            pp.filter_clusters, (lambda kn_: lambda W: ([W.B, np.array(kn_), cl.single_linkage, 0.2, kr.ClusterRanking.hull], {}))(kn_))
    add(pp, "filter_clusters_corners", lambda W: ([W.P, W.knees, cl.complete_linkage, 0.2], {}))
    for e in (False, True):
        R["postprocessing.add_points_even[%s]" % e] = (pp.add_points_even, (lambda e: lambda W: ([W.P, W.reduced, W.rknees, W.removed, 0.05, 0.05, e], {}))(e))
        R["postprocessing.add_points_even_knees[%s]" % e] = (pp.add_points_even_knees, (lambda e: lambda W: ([W.P, W.knees, 0.05, 0.05, e], {}))(e))
    add(pp, "triangle_area", lambda W: ([W.P[2:5]], {}))
    add(pp, "rank_corners_triangle", lambda W: ([W.P, W.knees], {}))
    add(pp, "rank_corners", lambda W: ([W.P, W.knees], {}))
    for s in (True, False):
        R["rdp.mapping[%s]" % s] = (rdp.mapping, (lambda s: lambda W: ([W.rknees, W.reduced, W.removed if s else W.removed[::-1].copy(), s], {}))(s))
    add(rdp, "compute_removed_points", lambda W: ([W.P, W.reduced], {}))
    add(rdp, "order_triangle", lambda W: ([W.P, 5, lf.shortest_distance_points], {}))
    add(rdp, "order_area", lambda W: ([W.P, 5, lf.shortest_distance_points], {}))
    add(rdp, "order_segment", lambda W: ([W.P, 5], {}))
    for d in rdp.Distance:
        for c in (mt.Metrics.smape, mt.Metrics.r2, mt.Metrics.rpd):
            t = 0.9 if c is mt.Metrics.r2 else 0.02
            R["rdp.rdp[%s,%s]" % (d, c)] = (rdp.rdp, (lambda d, c, t: lambda W: ([W.P, t, d, c], {}))(d, c, t))
            R["rdp.grdp[%s,%s]" % (d, c)] = (rdp.grdp, (lambda d, c, t: lambda W: ([W.P, t, d, c, rdp.Order.area], {}))(d, c, t))
        for o in rdp.Order:
            R["rdp.rdp_fixed[%s,%s]" % (d, o)] = (rdp.rdp_fixed, (lambda d, o: lambda W: ([W.P, 6, d, o], {}))(d, o))
            R["rdp.mp_grdp[%s,%s]" % (d, o)] = (rdp.mp_grdp, (lambda d, o: lambda W: ([W.P, 0.05, 7, d, mt.Metrics.smape, o], {}))(d, o))
    add(rdp, "min_point_rdp", lambda W: ([W.P, W.tlist, 6], {}))
    add(zm, "map_index", lambda W: ([W.x, W.x[[2, 5, 9]]], {}))
    for o in zm.Outlier:
        R["zmethod.knees2[%s]" % o] = (zm.knees2, (lambda o: lambda W: ([W.Z, 0.05, 0.05, o], {}))(o))
    add(zm, "knees", lambda W: ([W.Z, 0.1, 0.05, 0.1], {}))
    R["zmethod.knees[x_max,y_range]"] = (zm.knees, lambda W: ([W.Z, 0.1, 0.05, 0.1, 40, [1.0, 0.0]], {}))
    add(zm, "getPoints", lambda W: ([W.Z, 0.1, 0.05, 0.1], {}))
    return R


# public functions deliberately not driven dynamically, with the reason (reported in the evidence)
NOT_DRIVEN = {
    "rdp.plot_frame": "writes image files with matplotlib; statically judged (known finding D14)",
    "evaluation.compute_global_segment_cost": "legacy function that cannot be called (known finding D13, static arity)",
}
