"""Production-size inputs (10^3 .. 10^5 points, hundreds of knees / clusters, deep refinements).

Seed round 15 ("scale") showed that nearly every check only ever looked at curves of a few dozen to a few hundred points, so
a change that is invisible below some size (a block seam at 4096 / 16384 points, an int16 / int32 index or accumulator, a
bounded work stack, a sampling shortcut above a size threshold, an iteration cap) passed all of them.  This module holds the
shared builders; every check replays a few of them through its own trace validator with SPARSE tables (oracle values only for
the index pairs the result actually mentions), so the JSON that reaches TLC stays small while the call itself is long.

All builders are deterministic functions of their arguments, return C-contiguous float64 (n, 2) arrays with x = 0..n-1
(strictly increasing) and - where it costs nothing - dyadic ordinates, so that the exact oracles stay exact.
"""
import numpy as np

# sizes straddle the thresholds such shortcuts typically use: 2^8, 2^10, 2^12, 2^14, 2^15, 2^16, 10^4, 10^5
THRESHOLDS = (256, 1024, 4096, 10000, 16384, 32768, 65536, 100000)


def sizes(ctx, lo=1000, hi=110000, k_quick=3, k_thorough=8):
    """A seed-dependent choice of sizes in [lo, hi], each just above one of THRESHOLDS (plus a ragged remainder so that
    n is not a multiple of a block size)."""
    cand = []
    for t in THRESHOLDS:
        for n in (t + 1, t + 1 + ctx.rng.randrange(1, max(2, t // 4)), 2 * t + 3 + ctx.rng.randrange(0, 50)):
            if lo <= n <= hi:
                cand.append(n)
    cand = sorted(set(cand))
    k = k_quick if ctx.quick else k_thorough
    if len(cand) <= k:
        return cand
    # always keep the largest, sample the rest
    pick = set(ctx.rng.sample(cand[:-1], k - 1)) | {cand[-1]}
    return sorted(pick)


def _xy(y):
    y = np.asarray(y, dtype=float)
    return np.ascontiguousarray(np.column_stack([np.arange(len(y), dtype=float), y]))


def staircase(n, steps, rng=None, grow=False, jitter=0):
    """Non-increasing staircase: `steps` plateaus separated by sharp drops (knees at the foot of each drop).  grow=True makes
    the drops larger to the right (one-sided refinements: the farthest point of every prefix is near its right end).
    jitter (integer amplitude) adds an alternating +-jitter on the plateaus while keeping the curve non-increasing overall
    only if jitter == 0."""
    steps = max(1, min(steps, n // 4))
    w = n // steps
    y = np.empty(n)
    level = 0.0
    tops = []
    for s in range(steps):
        drop = (s + 1) if grow else (1 + (rng.randrange(1, 4) if rng else 1))
        a, b = s * w, (n if s == steps - 1 else (s + 1) * w)
        y[a:b] = level
        tops.append(level)
        level -= 8.0 * drop
    y -= y.min()
    if jitter:
        y = y + jitter * ((np.arange(n) % 2) * 2 - 1)
        y -= min(0.0, y.min())
    return _xy(y)


def zigzag(n, growth=1.0 / 64):
    """Zigzag whose amplitude grows slowly to the right: threshold RDP recurses one-sidedly, leaving one pending sibling per
    level (work-stack depth of the order of n / 2 instead of log n)."""
    i = np.arange(n)
    y = ((i % 2) * 2 - 1) * (1.0 + growth * i)
    return _xy(y - y.min())


def spikes(n, period=4):
    """Flat line with a spike every `period` samples, spike height growing to the right."""
    i = np.arange(n)
    y = np.where(i % period == period // 2, 1.0 + i / 32.0, 0.0)
    return _xy(y)


def convex_pl(n, corners):
    """Convex increasing piecewise-linear curve with `corners` corners, slopes 1, 2, 3, ... (integer ordinates): a knee at
    every corner, sharpness fading to the right."""
    corners = max(1, min(corners, n // 3))
    w = n // (corners + 1)
    slope = np.ones(n)
    for c in range(1, corners + 1):
        slope[c * w:] = c + 1
    y = np.concatenate([[0.0], np.cumsum(slope[1:])])
    return _xy(y)


def valley(n, rng=None):
    """Decreasing convex branch, then a rising tail (the lower hull has vertices on both branches and ends at n-1)."""
    i = np.arange(n, dtype=float)
    m = (2 * n) // 3 + (rng.randrange(-n // 16, n // 16) if rng else 0)
    y = np.floor((i - m) ** 2 / max(1.0, n / 64.0))
    return _xy(y)


def elbow(n, corner, s1, s2):
    """Exact two-slope elbow: slope s1 up to `corner`, s2 after (dyadic slopes keep every ordinate exact)."""
    i = np.arange(n, dtype=float)
    y = np.where(i <= corner, s1 * i, s1 * corner + s2 * (i - corner))
    return _xy(y - min(0.0, y.min()))


def mrc(n, rng, knees=6):
    """Miss-ratio-curve-like: non-increasing, convex decay pieces separated by cliffs, small deterministic texture."""
    i = np.arange(n, dtype=float)
    y = 1000.0 * np.exp(-4.0 * i / n)
    for _ in range(knees):
        c = rng.randrange(n // 10, n - n // 10)
        y[c:] -= rng.randrange(5, 60)
    y = np.minimum.accumulate(y)
    y = np.floor(y * 64.0) / 64.0
    return _xy(y - y.min())


def jitter_line(n, a, b, amp, slope=-0.04, top=1000.0):
    """Straight decreasing line with an alternating +-amp jitter on indices a..b (aliasing bait for strided sampling)."""
    i = np.arange(n, dtype=float)
    y = top + slope * i
    j = np.arange(a, b)
    y[j] += amp * ((j % 2) * 2 - 1)
    return _xy(y)


def tile(v, n):
    """The first n entries of the infinite repetition of the 1-D pattern v."""
    v = np.asarray(v)
    r = -(-n // len(v))
    return np.tile(v, r)[:n].copy()
