"""Process-parallel map for the recording side (one numba compile per worker, not per case)."""
import multiprocessing as mp
import os


def pmap(fn, items, procs=None, chunksize=None):
    items = list(items)
    if not items:
        return []
    procs = procs or min(14, max(1, (os.cpu_count() or 2) - 2))
    if len(items) < 32 or procs == 1:
        return [fn(x) for x in items]
    chunksize = chunksize or max(1, len(items) // (procs * 8))
    ctx = mp.get_context("fork")
    with ctx.Pool(procs) as pool:
        return pool.map(fn, items, chunksize=chunksize)
