"""Static, hand-checkable good cases for the binding self-tests (DESIGN 2.4).  They do not depend
on the code under test: each is accepted by its Trace_ module, and each listed corruption of it
must be rejected with the named clause.  Loaded from harness/static_cases.json (generated once
from the repaired tree by tools/mk_static_cases.py and committed)."""
import copy
import json
import os

_p = os.path.join(os.path.dirname(os.path.abspath(__file__)), "static_cases.json")
with open(_p) as f:
    _ALL = json.load(f)


def get(name):
    return copy.deepcopy(_ALL[name])
