"""Growth of the specification beyond the listed properties (DESIGN 9): extra generator/replay bindings whose
mismatches are reported as GROWTH-MISMATCH notes in the evidence of a related check - never as a VIOLATION of a
listed property (the listed properties do not state these behaviours)."""
import numpy as np

from harness import par


def _kneedle_line(b):
    import kneeliverse.kneedle as kn
    P = np.array(b["pts"], float)
    out = []
    if not b["ambKnee"]:
        try:
            k = kn.knee(P, 0)
            k = -1 if k is None else int(k)
        except Exception as ex:
            k = "raised:" + type(ex).__name__
        if k != b["knee"]:
            out.append({"fn": "kneedle.knee(t=0)", "pts": b["pts"], "got": k, "specified": b["knee"]})
    if not b["ambAll"]:
        try:
            ks = sorted(int(v) for v in kn.knees(P, 0, 1.0, kn.PeakDetection.All).tolist())
        except Exception as ex:
            ks = "raised:" + type(ex).__name__
        if ks != sorted(b["all"]):
            out.append({"fn": "kneedle.knees(t=0, All)", "pts": b["pts"], "got": ks, "specified": sorted(b["all"])})
    return out


def kneedle(ctx):
    """KneedleDefs.tla: direction / concavity vote / difference curve / highest strict peak, replayed into
    kneedle.knee(points, 0) and kneedle.knees(points, 0, p=All) on every small integer curve."""
    beh = ctx.gen("Kneedle", "Gen_Kneedle_quick" if ctx.quick else "Gen_Kneedle_thorough", timeout=1800)
    res = par.pmap(_kneedle_line, beh)
    mism = [m for r in res for m in r]
    g = ctx.extra.setdefault("growth", {})
    g["Kneedle"] = {"behaviours_replayed": len(beh),
                    "unambiguous_knee_cases": sum(1 for b in beh if not b["ambKnee"]),
                    "unambiguous_all_peaks_cases": sum(1 for b in beh if not b["ambAll"]),
                    "mismatches": len(mism), "first_mismatches": mism[:3],
                    "what": "Kneedle without smoothing (direction, concavity vote, normalised difference curve, highest strict "
                            "local maximum) as defined in spec/KneedleDefs.tla vs kneedle.knee / kneedle.knees(p=All); beyond the "
                            "listed properties, reported as a note only"}
    for m in mism[:3]:
        print("GROWTH-MISMATCH module=Kneedle %s" % m)
    ctx.traces += len(beh)
    return mism
