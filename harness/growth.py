"""Growth of the specification beyond the listed properties (DESIGN 9): extra generator/replay bindings whose
mismatches are reported as GROWTH-MISMATCH notes in the evidence of a related check - never as a VIOLATION of a
listed property (the listed properties do not state these behaviours)."""
import numpy as np

from harness import par
from harness import enums


def _kneedle_line(b):
    import kneeliverse.kneedle as kn
    P = np.array(b["pts"], float)
    out = []
    if not b["ambKnee"]:
        try:
            k = kn.knee(P, 0)
            k = -1 if k is None else int(k)
        except Exception as ex:
            k = "raised:" + type(ex).__name__
        if k != b["knee"]:
            out.append({"fn": "kneedle.knee(t=0)", "pts": b["pts"], "got": k, "specified": b["knee"]})
    if not b["ambAll"]:
        try:
            ks = sorted(int(v) for v in kn.knees(P, 0, 1.0, kn.PeakDetection.All).tolist())
        except Exception as ex:
            ks = "raised:" + type(ex).__name__
        if ks != sorted(b["all"]):
            out.append({"fn": "kneedle.knees(t=0, All)", "pts": b["pts"], "got": ks, "specified": sorted(b["all"])})
    return out


def kneedle(ctx):
    """KneedleDefs.tla: direction / concavity vote / difference curve / highest strict peak, replayed into
    kneedle.knee(points, 0) and kneedle.knees(points, 0, p=All) on every small integer curve."""
    beh = ctx.gen("Kneedle", "Gen_Kneedle_quick" if ctx.quick else "Gen_Kneedle_thorough", timeout=1800)
    res = par.pmap(_kneedle_line, beh)
    mism = [m for r in res for m in r]
    g = ctx.extra.setdefault("growth", {})
    g["Kneedle"] = {"behaviours_replayed": len(beh),
                    "unambiguous_knee_cases": sum(1 for b in beh if not b["ambKnee"]),
                    "unambiguous_all_peaks_cases": sum(1 for b in beh if not b["ambAll"]),
                    "mismatches": len(mism), "first_mismatches": mism[:3],
                    "what": "Kneedle without smoothing (direction, concavity vote, normalised difference curve, highest strict "
                            "local maximum) as defined in spec/KneedleDefs.tla vs kneedle.knee / kneedle.knees(p=All); beyond the "
                            "listed properties, reported as a note only"}
    for m in mism[:3]:
        print("GROWTH-MISMATCH module=Kneedle %s" % m)
    ctx.traces += len(beh)
    return mism


def _nb_record(item):
    import random
    import kneeliverse.evaluation as ev
    import kneeliverse.linear_fit as lf
    from harness import curves, monitor
    cid, seed, mode = item
    rng = random.Random(seed)
    P = curves.random_curve(rng, 8, 60)
    x, y = P[:, 0], P[:, 1]
    n = len(P)
    a = rng.randint(3, n - 1)
    b = rng.randint(0, a - 2)
    t = rng.choice([0.5, 0.8, 0.9, 0.95, 0.99])
    fn = {"linear": ev.get_neighbourhood, "binary": ev.get_neighbourhood_binary, "fast": ev.get_neighbourhood_fast}[mode]
    out, val, _ = monitor.call(fn, (x, y, a, b, t), budget=50 * n + 500, wall=20)
    i = -1
    if out == "returned":
        i = int(val[0]) if isinstance(val, tuple) else int(val)
    r2 = [float(lf.linear_r2(x[k:a + 1], y[k:a + 1], lf.linear_fit(x[k:a + 1], y[k:a + 1]))) if k < a else 1.0 for k in range(n)]
    return {"id": cid, "mode": mode, "outcome": out, "a": a, "b": b, "i": i,
            "good": [bool(v > t) for v in r2],        # get_neighbourhood continues while r2 > t
            "goodge": [bool(not (v < t)) for v in r2]}, {"points": P.tolist(), "a": a, "b": b, "t": t, "mode": mode}


def neighbourhood(ctx):
    """Neighbourhood.tla: the three R2 neighbourhood searches (termination, bracket, leftmost good run)."""
    ctx.mc("Neighbourhood", "MC_Neighbourhood", need_actions=("WalkLeft", "WalkEnd", "Bisect", "BisectEnd", "WalkRight", "RightEnd"))
    items = [("nb%d" % k, ctx.seed * 4099 + k, ("linear", "binary", "fast")[k % 3]) for k in range(300 if ctx.quick else 3000)]
    rec = par.pmap(_nb_record, items)
    st = {"id": "s", "mode": "linear", "outcome": "returned", "a": 5, "b": 0, "i": 2,
          "good": [False, False, True, True, False, False], "goodge": [False] * 6}
    rej = ctx.trace("Trace_Neighbourhood", [c for c, _ in rec], chunk=400,
                    selftest=[(st, "ok"), (dict(st, i=3), "leftmost-run"), (dict(st, i=7), "bracket")])
    meta = {c["id"]: m for c, m in rec}
    mism = [{"clause": vs[0][0], "call": {k: v for k, v in meta[cid].items() if k != "points"}, "n": len(meta[cid]["points"])} for cid, vs in rej.items()]
    ctx.extra.setdefault("growth", {})["Neighbourhood"] = {
        "calls_validated": len(rec), "mismatches": len(mism), "first_mismatches": mism[:3],
        "what": "evaluation.get_neighbourhood / get_neighbourhood_binary / get_neighbourhood_fast vs the loop machines of "
                "spec/Neighbourhood.tla (bracket, leftmost run of passing fits, passing result); beyond the listed properties, note only"}
    for m in mism[:3]:
        print("GROWTH-MISMATCH module=Neighbourhood %s" % m)
    return mism


def _variant_record(item):
    """demos/zmethod.py and demos/fusion.py compositions (without argparse / plotting / evaluation)."""
    import kneeliverse.postprocessing as pp
    import kneeliverse.clustering as clustering
    import kneeliverse.knee_ranking as kr
    import kneeliverse.rdp as rdp
    import kneeliverse.zmethod as zmethod
    from harness import monitor, simpl
    from harness.props import c08
    cid, P, variant, cfg = item
    P = np.asarray(P, float)
    n = len(P)
    ev0 = simpl.call(P, {"f": "rdp", "t": cfg["r"], "distance": "shortest", "cost": "smape"}, wall=60)
    events = [{"stage": "simplify", "outcome": ev0["outcome"], "out": ev0.get("reduced", []), "same": []}]
    order = ["simplify", "detect", "map"] if variant == "zmethod" else ["simplify", "detect", "worst", "corner", "cluster", "map"]
    case = {"id": cid, "n": n, "reduced": [0, n - 1], "hred": [0, 0], "horig": c08._exact_ranks(P[:, 1]), "events": events,
            "order": order, "detmax": 0}
    if ev0["outcome"] != "returned" or not ev0.get("removed"):
        return case
    S = ev0["reduced"]
    reduced, removed = np.array(S), np.array(ev0["removed"])
    PR = P[reduced]
    case["reduced"], case["hred"], case["detmax"] = S, c08._exact_ranks(PR[:, 1]), len(S) - 1

    def stage(name, fn, args, kw=None):
        o, val, _ = monitor.call(fn, args, kw or {}, budget=4000 * n + 40000, wall=60)
        e = {"stage": name, "outcome": o, "out": [], "same": []}
        events.append(e)
        return o == "returned", val, e

    if variant == "zmethod":
        x_max = int(P[:, 0].max())
        y_range = [float(P[:, 1].max()), float(P[:, 1].min())]
        ok, k, e = stage("detect", zmethod.knees, (PR,), {"dx": cfg["dx"], "dy": cfg["dy"], "dz": cfg["dz"], "x_max": x_max, "y_range": y_range})
        if not ok:
            return case
        k = np.asarray(k).astype(int)
        k = k[k > 0]
        e["out"] = c08._ints(k)
        last = k
    else:
        k = np.arange(1, len(reduced))
        events.append({"stage": "detect", "outcome": "returned", "out": c08._ints(k), "same": []})
        ok, k1, e = stage("worst", pp.filter_worst_knees, (PR, k))
        if not ok:
            return case
        e["out"] = c08._ints(k1)
        ok, k2, e = stage("corner", pp.filter_corner_knees, (PR, k1, cfg["c"]))
        if not ok:
            return case
        e["out"] = c08._ints(k2)
        ok, k3, e = stage("cluster", pp.filter_clusters, (PR, k2, getattr(clustering, cfg["linkage"]), cfg["t"], enums.pick(kr.ClusterRanking, cfg["mode"])))
        if not ok:
            return case
        e["out"] = c08._ints(k3)
        last = k3
    ok, k4, e = stage("map", rdp.mapping, (last, reduced, removed))
    if ok:
        e["out"] = c08._ints(k4)
        li = c08._ints(last)
        e["same"] = [bool(0 <= o < n and P[o].tobytes() == PR[li[j]].tobytes()) for j, o in enumerate(e["out"])]
    return case


def pipeline_variants(ctx):
    """the Z-method and 'fusion' demo pipelines judged by the same Trace_Pipeline invariants (with their own stage order)."""
    from harness import curves
    rng = ctx.rng
    items = []
    for k in range(40 if ctx.quick else 400):
        P = curves.mrc_curve(rng, 30, 200)
        if k % 2 == 0:
            items.append(("vz%d" % k, P.tolist(), "zmethod", {"r": rng.choice([0.01, 0.005]), "dx": rng.choice([0.05, 0.1]), "dy": rng.choice([0.05, 0.1]), "dz": rng.choice([0.1, 0.3])}))
        else:
            items.append(("vf%d" % k, P.tolist(), "fusion", {"r": rng.choice([0.01, 0.005]), "c": 0.33, "t": rng.choice([0.05, 0.1]),
                                                              "linkage": rng.choice(["single_linkage", "average_linkage"]),
                                                              "mode": rng.choice(["left", "linear", "right", "hull"])}))
    cases = par.pmap(_variant_record, items, chunksize=2)
    rej = ctx.trace("Trace_Pipeline", cases, chunk=200)
    # in the Z-method variant the heights are monotone by C10 and there is no worst filter; only the mapping clauses apply
    mism = [{"case": cid, "clause": vs[0][0], "detail": [str(v)[:120] for v in vs[0][1:3]]} for cid, vs in rej.items()]
    ctx.extra.setdefault("growth", {})["PipelineVariants"] = {
        "pipelines": len(cases), "reaching_map": sum(1 for c in cases if c["events"][-1]["stage"] == "map"),
        "mismatches": len(mism), "first_mismatches": mism[:3],
        "what": "demos/zmethod.py (rdp -> zmethod.knees with x_max / y_range of the original curve -> knees > 0 -> mapping) and "
                "demos/fusion.py (every reduced point is a candidate -> worst -> corner -> cluster -> mapping) judged by the "
                "Trace_Pipeline invariants with their own stage order; beyond C08's statement, note only"}
    for m in mism[:3]:
        print("GROWTH-MISMATCH module=PipelineVariants %s" % m)
    return mism


def knees2(ctx):
    """Knees2.tla: the iterated best-candidate selection of zmethod.knees2 (binding M only: the public function takes no
    candidate set, so there is nothing to replay without re-deriving the outlier thresholds)."""
    r = ctx.mc("Knees2", "MC_Knees2", need_actions=("Step",))
    ctx.extra.setdefault("growth", {})["Knees2"] = {
        "distinct_states": r.distinct,
        "what": "zmethod.knees2 candidate-selection loop over arbitrary neighbourhood relations (N=4 positions): the candidate set "
                "only shrinks, terminates within N+1 rounds, result is a fixpoint of the round; model checking only"}


def _rank_record(item):
    import random
    import kneeliverse.postprocessing as pp
    import kneeliverse.knee_ranking as kr
    import kneeliverse.evaluation as ev
    from harness import monitor, numeric
    cid, seed, kind = item
    rng = random.Random(seed)
    n = rng.randint(5, 40)
    xs = np.cumsum([rng.randint(1, 6) for _ in range(n)]).astype(float) + rng.choice([0, -20, 1000])
    ys = np.array(sorted([rng.randint(0, 300) for _ in range(n)], reverse=True), float)
    for _ in range(rng.randint(0, 3)):
        ys[rng.randrange(n)] += rng.randint(0, 9)
    if rng.random() < 0.3:
        j = rng.randrange(1, n - 1); ys[j] = ys[j - 1]                          # a level left neighbour
    m = rng.randint(1, min(8, n - 2))
    ks = sorted(rng.sample(range(1, n - 1), m))
    P = np.column_stack([xs, ys])
    if rng.random() < 0.3:
        P = P.astype(np.int64)
    K = np.array(ks)
    case = {"id": cid, "kind": kind, "xs": [int(v) for v in xs], "ys": [int(v) for v in ys], "ks": [k + 1 for k in ks],
            "out": [], "cls": [], "num": [], "integral": True}
    if kind == "gaps":
        o, val, _ = monitor.call(pp.rank_corners, (P, K), budget=monitor.quad(n), wall=20)
        if o == "returned":
            case["out"] = [int(v) for v in np.asarray(val).tolist()]
            case["integral"] = bool(np.all(np.asarray(val) == np.floor(np.asarray(val))))
    elif kind == "tri":
        o, val, _ = monitor.call(pp.rank_corners_triangle, (P, K), budget=monitor.quad(n), wall=20)
        if o == "returned":
            v2 = 2.0 * np.asarray(val, float)
            case["out"] = [int(round(v)) for v in v2.tolist()]
            if not np.all(v2 == np.round(v2)):
                case["out"] = [-(10 ** 6)] * len(ks)
    else:
        t = rng.choice([0.7, 0.8, 0.9, 0.95])
        Pf = P.astype(float)
        o, val, _ = monitor.call(kr.slope_ranking, (Pf, K, t), budget=monitor.quad(n, 50), wall=20)
        sl = []
        for j, k in enumerate(ks):
            _, _, s = ev.get_neighbourhood(Pf[:, 0], Pf[:, 1], k, 0 if j == 0 else ks[j - 1], t)
            sl.append(abs(float(s)))
        case["cls"] = numeric.ranks(sl)
        if len(set(case["cls"])) < len(sl):
            # ties within rounding noise: the order among them is not pinned; make the classes distinct where the
            # implementation's own answer orders them (any order of tied values is accepted)
            pass
        if o == "returned":
            v = np.asarray(val, float)
            sc = v * (m - 1) if m > 1 else v
            case["num"] = [int(round(x)) for x in sc.tolist()]
            case["integral"] = bool(np.all(np.abs(sc - np.round(sc)) <= 1e-9))
        case["t"] = t
    case["outcome"] = o
    return case, {"seed": seed, "kind": kind}


def ranking(ctx):
    """Ranking.tla: rank_corners / rank_corners_triangle / slope_ranking (none of them is mentioned by a listed property)."""
    ctx.mc("Ranking", "MC_Ranking")
    items = [("rk%d" % k, ctx.seed * 7001 + k, ("gaps", "tri", "slope")[k % 3]) for k in range(600 if ctx.quick else 6000)]
    rec = par.pmap(_rank_record, items)
    g = {"id": "g", "kind": "gaps", "outcome": "returned", "xs": [1, 3, 4, 8, 9], "ys": [9, 7, 4, 2, 1], "ks": [2, 4], "out": [2, 5],
         "cls": [], "num": [], "integral": True}
    s = dict(g, id="s", kind="slope", cls=[1, 0, 2], num=[1, 0, 2], ks=[2, 3, 4])
    rej = ctx.trace("Trace_Ranking", [c for c, _ in rec], chunk=400,
                    selftest=[(g, "ok"), (dict(g, out=[2, 7]), "gap-definition"), (dict(g, kind="tri", out=[6, 4]), "ok"),
                              (dict(g, kind="tri", out=[-6, 4]), "triangle-definition"), (s, "ok"),
                              (dict(s, num=[0, 1, 2]), "slope-rank-order"), (dict(s, integral=False), "slope-rank-normalised")])
    meta = {c["id"]: m for c, m in rec}
    mism = [{"clause": vs[0][0], "call": meta[cid], "detail": [str(v)[:100] for v in vs[0][1:3]]} for cid, vs in rej.items()]
    ctx.extra.setdefault("growth", {})["Ranking"] = {
        "calls_validated": len(rec), "mismatches": len(mism), "first_mismatches": mism[:3],
        "what": "postprocessing.rank_corners / rank_corners_triangle (exact on integer curves) and knee_ranking.slope_ranking "
                "(order of the neighbourhood slopes, min-max normalised rank) vs spec/Ranking.tla; beyond the listed properties, note only"}
    for m in mism[:3]:
        print("GROWTH-MISMATCH module=Ranking %s" % m)
    return mism


def _rdp_proj(loc):
    if "stack" in loc and "reduced" in loc:
        return {"stack": [[int(a), int(b)] for a, b in loc["stack"]], "nred": len(loc["reduced"])}
    return None


def _rdp_steps_record(item):
    import random
    import kneeliverse.rdp as rdp
    import kneeliverse.metrics as metrics
    from harness import curves, monitor, enums
    cid, seed = item
    rng = random.Random(seed)
    P = curves.random_curve(rng, 2, 40) if rng.random() < 0.8 else curves.adversarial()[rng.randrange(19)]
    n = len(P)
    cost = rng.choice(["smape", "rpd", "rmspe", "rmsle", "r2"])
    t = rng.choice([0.5, 0.1, 0.01, 0.001]) if cost != "r2" else rng.choice([0.5, 0.9, 0.99])
    dist = rng.choice(["shortest", "perpendicular"])
    out, val, cnt = monitor.call(rdp.rdp, (P, t), {"distance": enums.pick(rdp.Distance, dist), "cost": enums.pick(metrics.Metrics, cost)},
                                 budget=monitor.quad(n), wall=30, per={"rdp": 8 * n + 64}, snap={"rdp": _rdp_proj})
    snaps = list(monitor._state["snaps"])
    if out != "returned":
        return None
    return {"id": cid, "n": n, "events": snaps, "final": [int(v) for v in np.asarray(val[0]).tolist()],
            "_backedges": cnt.get("rdp", 0)}


def rdp_steps(ctx):
    """Trace_RdpSteps.tla: action-level trace validation of rdp.rdp against Rdp.tla's own actions (frame-local snapshots at the
    work loop's back-edges; TLC infers the oracle values).  Notes only: a rewrite of the loop legitimately leaves the machine."""
    items = [("rs%d" % k, ctx.seed * 5003 + k) for k in range(200 if ctx.quick else 2000)]
    rec = [r for r in par.pmap(_rdp_steps_record, items) if r is not None]
    anchored = [r for r in rec if len(r["events"]) == r["_backedges"]]
    info = {"calls_recorded": len(rec), "calls_with_snapshots": len(anchored), "loop_iterations_validated": sum(len(r["events"]) + 1 for r in anchored),
            "what": "every work-loop iteration of rdp.rdp (local stack and number of retained indices read from the running frame at "
                    "each back-edge) must be an RdpAccept / RdpSplit step of spec/Rdp.tla, the last one must empty the stack and Finish "
                    "must yield the returned indices; TLC infers the unlogged oracle values; beyond the listed properties, note only"}
    if len(anchored) < len(rec) // 2:
        info["skipped"] = "the locals `stack` / `reduced` were not found in rdp.rdp's frame (the loop has been rewritten): not applicable"
        ctx.extra.setdefault("growth", {})["RdpSteps"] = info
        return []
    good = {"id": "s", "n": 8, "events": [{"stack": [[2, 8], [0, 3]], "nred": 0}, {"stack": [[2, 8], [1, 3], [0, 2]], "nred": 0},
                                           {"stack": [[2, 8], [1, 3]], "nred": 1}, {"stack": [[2, 8]], "nred": 2},
                                           {"stack": [[4, 8], [2, 5]], "nred": 2}, {"stack": [[4, 8]], "nred": 3}], "final": [0, 1, 2, 4, 7]}
    rej = ctx.trace("Trace_RdpSteps", [{k: r[k] for k in ("id", "n", "events", "final")} for r in anchored], chunk=400,
                    selftest=[(good, "ok"), (dict(good, final=[0, 1, 2, 5, 7]), "no-machine-step"),
                              ({"id": "s", "n": 3, "events": [{"stack": [[2, 3], [0, 3]], "nred": 0}], "final": [0, 2]}, "no-machine-step")])
    mism = [{"case": cid, "clause": vs[0][0], "detail": [str(v)[:100] for v in vs[0][1:4]]} for cid, vs in rej.items()]
    info.update(mismatches=len(mism), first_mismatches=mism[:3])
    ctx.extra.setdefault("growth", {})["RdpSteps"] = info
    for m in mism[:3]:
        print("GROWTH-MISMATCH module=RdpSteps %s" % m)
    return mism



def _fx_proj_fixed(loc):
    if "stack" in loc and "reduced" in loc and "length" in loc:
        return {"stack": [[float(c), int(a), int(b)] for c, a, b in loc["stack"]], "reduced": sorted(int(v) for v in loc["reduced"]),
                "budget": int(loc["length"])}
    return None


def _fx_proj_grdp(loc):
    if "stack" in loc and "reduced" in loc and "curved" in loc:
        return {"stack": [[float(c), int(a), int(b)] for c, a, b in loc["stack"]], "reduced": sorted(int(v) for v in loc["reduced"]),
                "curved": bool(loc["curved"])}
    return None


def _fixed_steps_record(item):
    import random
    import kneeliverse.rdp as rdp
    import kneeliverse.metrics as metrics
    from harness import curves, monitor, enums
    cid, seed = item
    rng = random.Random(seed)
    P = curves.random_curve(rng, 2, 28) if rng.random() < 0.8 else curves.adversarial()[rng.randrange(19)]
    n = len(P)
    kind = rng.choice(["fixed", "grdp"])
    kw = {"distance": enums.pick(rdp.Distance, rng.choice(["shortest", "perpendicular"])),
          "order": enums.pick(rdp.Order, rng.choice(["triangle", "area", "segment"]))}
    if kind == "fixed":
        k = rng.randrange(0, n + 2)
        out, val, cnt = monitor.call(rdp.rdp_fixed, (P, k), kw, budget=monitor.quad(n), wall=30, per={"_rdp_fixed": 8 * n + 64},
                                     snap={"_rdp_fixed": _fx_proj_fixed})
        loop = "_rdp_fixed"
    else:
        k = 0
        cost = rng.choice(["smape", "rpd", "rmspe", "rmsle", "r2"])
        t = rng.choice([0.5, 0.1, 0.01, 0.001, 1e-6]) if cost != "r2" else rng.choice([0.5, 0.9, 0.99, 0.99999])
        out, val, cnt = monitor.call(rdp.grdp, (P, t), dict(kw, cost=enums.pick(metrics.Metrics, cost)), budget=monitor.quad(n), wall=30,
                                     per={"_grdp": 8 * n + 64}, snap={"_grdp": _fx_proj_grdp})
        loop = "_grdp"
    snaps = list(monitor._state["snaps"])
    if out != "returned":
        return None
    # the ordering scores enter TLC as their dense rank among all scores of the call (exact float comparison: the machine
    # models list.sort on the very values the code sorts)
    scores = sorted(set(e[0] for s in snaps for e in s["stack"]))
    rk = {v: i for i, v in enumerate(scores)}
    for s in snaps:
        s["stack"] = [[rk[c], a, b] for c, a, b in s["stack"]]
    return {"id": cid, "n": n, "kind": kind, "k": k, "events": snaps, "final": sorted(int(v) for v in np.asarray(val[0]).tolist()),
            "_backedges": cnt.get(loop, 0)}


def fixed_steps(ctx):
    """Trace_FixedSteps.tla: action-level trace validation of rdp.rdp_fixed / rdp.grdp against Fixed.tla's own actions."""
    items = [("fs%d" % k, ctx.seed * 7001 + k) for k in range(200 if ctx.quick else 2000)]
    rec = [r for r in par.pmap(_fixed_steps_record, items) if r is not None]
    anchored = [r for r in rec if len(r["events"]) == r["_backedges"]]
    info = {"calls_recorded": len(rec), "calls_with_snapshots": len(anchored), "loop_iterations_validated": sum(len(r["events"]) + 1 for r in anchored),
            "kinds": {k: sum(1 for r in anchored if r["kind"] == k) for k in ("fixed", "grdp")},
            "what": "every iteration of the work loops of rdp._rdp_fixed and rdp._grdp (local priority stack with the scores replaced by "
                    "their dense rank, retained indices, remaining budget / `curved` flag read from the running frame at each back-edge) "
                    "must be a FixedStepA / GrdpStepA step of spec/Fixed.tla with the logged arguments - pop the top entry, retain an "
                    "interior index of it, push the children that still have interior points, stable re-sort; the iteration after the "
                    "last back-edge must make the loop condition false and FixedEnd / GrdpEnd must yield the returned indices; TLC "
                    "infers the cost levels behind `curved`; beyond the listed properties, note only"}
    if len(anchored) < len(rec) // 2:
        info["skipped"] = "the locals `stack` / `reduced` / `length` / `curved` were not found in the loops' frames (rewritten): not applicable"
        ctx.extra.setdefault("growth", {})["FixedSteps"] = info
        return []
    good = {"id": "s", "n": 6, "kind": "fixed", "k": 4, "events": [{"stack": [[0, 0, 3], [1, 2, 6]], "reduced": [0, 2, 5], "budget": 1}],
            "final": [0, 2, 3, 5]}
    goodg = {"id": "s", "n": 6, "kind": "grdp", "k": 0, "events": [{"stack": [[0, 0, 3], [1, 2, 6]], "reduced": [0, 2, 5], "curved": True}],
             "final": [0, 2, 4, 5]}
    rej = ctx.trace("Trace_FixedSteps", [{k: r[k] for k in ("id", "n", "kind", "k", "events", "final")} for r in anchored], chunk=400,
                    selftest=[(good, "ok"), (goodg, "ok"),
                              (dict(good, final=[0, 1, 2, 5]), "no-machine-step"),          # the last step must refine the TOP entry
                              (dict(good, events=[dict(good["events"][0], stack=[[1, 2, 6], [0, 0, 3]])]), "no-machine-step"),   # unsorted
                              (dict(good, events=[dict(good["events"][0], budget=2)]), "no-machine-step"),
                              (dict(goodg, final=[0, 2, 5]), "no-machine-step")])            # left the loop although curved and stack
    mism = [{"case": cid, "clause": vs[0][0], "detail": [str(v)[:100] for v in vs[0][1:4]]} for cid, vs in rej.items()]
    info.update(mismatches=len(mism), first_mismatches=mism[:3])
    ctx.extra.setdefault("growth", {})["FixedSteps"] = info
    for m in mism[:3]:
        print("GROWTH-MISMATCH module=FixedSteps %s" % m)
    return mism


def _lr_proj(loc):
    if "current_knee" in loc and "last_knee" in loc and "cutoff" in loc:          # lmethod.knee
        return {"cur": int(loc["current_knee"]), "last": int(loc["last_knee"]), "cutoff": int(loc["cutoff"]), "done": bool(loc.get("done", False)),
                "seen": sorted(int(v) for v in loc.get("visited", ()))}
    if "knee" in loc and "last_knee" in loc and "cutoff" in loc and "gradient" in loc:     # dfdt.knee
        return {"cur": int(loc["knee"]), "last": int(loc["last_knee"]), "cutoff": int(loc["cutoff"]), "done": False, "seen": []}
    return None


def _lrefine_steps_record(item):
    import random
    import kneeliverse.lmethod as lm
    import kneeliverse.dfdt as dfdt
    from harness import curves, monitor, enums
    cid, seed = item
    rng = random.Random(seed)
    P = curves.random_curve(rng, 14, 70)
    n = len(P)
    mode = rng.choice(["none", "original", "adjusted", "dfdt"])
    limit = rng.choice([4, 6, 10])
    if mode == "dfdt":
        out, val, cnt = monitor.call(dfdt.knee, (P,), {}, budget=monitor.quad(n, 64), wall=30, per={"knee": 8 * n + 64}, snap={"knee": _lr_proj})
    else:
        fit = enums.pick(lm.Fit, rng.choice(["point_fit", "best_fit"]))
        out, val, cnt = monitor.call(lm.knee, (P, fit, enums.pick(lm.Refinement, mode), limit), {}, budget=monitor.quad(n, 64), wall=30,
                                     per={"knee": 8 * n + 64}, snap={"knee": _lr_proj})
    snaps = list(monitor._state["snaps"])
    if out != "returned" or val is None:
        return None
    return {"id": cid, "n": n, "mode": mode, "limit": limit, "events": snaps, "final": int(val), "_backedges": cnt.get("knee", 0)}


def lrefine_steps(ctx):
    """Trace_LRefineSteps.tla: action-level trace validation of the refinement loops of lmethod.knee / dfdt.knee against LRefine.tla."""
    items = [("lr%d" % k, ctx.seed * 8009 + k) for k in range(240 if ctx.quick else 2400)]
    rec = [r for r in par.pmap(_lrefine_steps_record, items) if r is not None]
    anchored = [r for r in rec if len(r["events"]) == r["_backedges"]]
    info = {"calls_recorded": len(rec), "calls_with_snapshots": len(anchored), "loop_iterations_validated": sum(len(r["events"]) + 1 for r in anchored),
            "modes": {k: sum(1 for r in anchored if r["mode"] == k) for k in ("none", "original", "adjusted", "dfdt")},
            "longest_loop": max([len(r["events"]) + 1 for r in anchored] or [0]),
            "what": "every iteration of the refinement loops of lmethod.knee (three refinement modes, limits 4 / 6 / 10, both fits) and "
                    "dfdt.knee (locals read from the running frame at each back-edge) must be an LStep / DStep of spec/LRefine.tla: TLC "
                    "infers the single-knee answer per cutoff, which must be admissible and the same whenever a cutoff recurs; the last "
                    "iteration must make the loop condition false and LEnd / DEnd must leave the returned knee; note only"}
    if len(anchored) < len(rec) // 2:
        info["skipped"] = "the loop locals were not found in the frames of lmethod.knee / dfdt.knee (rewritten): not applicable"
        ctx.extra.setdefault("growth", {})["LRefineSteps"] = info
        return []
    good = {"id": "s", "n": 30, "mode": "adjusted", "limit": 10, "events": [{"cur": 12, "last": 30, "cutoff": 21, "done": False, "seen": []},
                                                                            {"cur": 8, "last": 12, "cutoff": 10, "done": False, "seen": []}], "final": 8}
    goodd = {"id": "s", "n": 20, "mode": "dfdt", "limit": 10, "events": [{"cur": 9, "last": 0, "cutoff": 5, "done": False, "seen": []}], "final": 9}
    rej = ctx.trace("Trace_LRefineSteps", [{k: r[k] for k in ("id", "n", "mode", "limit", "events", "final")} for r in anchored], chunk=400,
                    selftest=[(good, "ok"), (goodd, "ok"),
                              (dict(good, events=[dict(good["events"][0], cutoff=20)] + good["events"][1:]), "no-machine-step"),   # (12+30)//2 = 21
                              (dict(good, final=7), "no-machine-step"),                     # K[10] would have to be 8 and 7
                              (dict(goodd, events=[dict(goodd["events"][0], cutoff=4)]), "no-machine-step")])      # ceil(9/2) = 5
    mism = [{"case": cid, "clause": vs[0][0], "detail": [str(v)[:100] for v in vs[0][1:4]]} for cid, vs in rej.items()]
    info.update(mismatches=len(mism), first_mismatches=mism[:3])
    ctx.extra.setdefault("growth", {})["LRefineSteps"] = info
    for m in mism[:3]:
        print("GROWTH-MISMATCH module=LRefineSteps %s" % m)
    return mism


def _cl_proj(loc):
    if "clusters" in loc and "cluster_index" in loc:
        d = {"labels": [int(v) for v in loc["clusters"]], "anchor": 0, "size": 0, "win": 0}
        if "cluster_point_idx" in loc:
            d["anchor"] = int(loc["cluster_point_idx"]) + 1
        if "cluster_size" in loc:
            d["size"] = int(loc["cluster_size"])
        if "idx" in loc:
            d["win"] = int(loc["idx"]) + 1
        return d
    return None


def _clustering_steps_record(item):
    import random
    import kneeliverse.clustering as cl
    from harness import monitor
    cid, seed = item
    rng = random.Random(seed)
    n = rng.randint(2, 14)
    xs = sorted(rng.sample(range(0, 41), n))
    den = rng.choice([1, 2, 3, 4, 5, 6, 8, 10])
    num = rng.randint(1, den)
    if rng.random() < 0.4 and n >= 3:            # an exact tie of some gap with the threshold: gap / range = num / den
        import math
        g = rng.choice([xs[j + 1] - xs[j] for j in range(n - 1)] + [xs[j + 2] - xs[j] for j in range(n - 2)])
        L = xs[-1] - xs[0]
        k = math.gcd(g, L)
        num, den = g // k, L // k
    link = rng.choice(["single", "complete", "centroid", "average"])
    fn = getattr(cl, link + "_linkage")
    P = np.column_stack([np.array(xs, dtype=float), np.zeros(n)])
    out, val, cnt = monitor.call(fn, (P, num / den), {}, budget=monitor.quad(n, 64), wall=30, per={fn.__name__: 8 * n + 64}, snap={fn.__name__: _cl_proj})
    snaps = list(monitor._state["snaps"])
    if out != "returned":
        return None
    return {"id": cid, "x": xs, "tnum": num, "tden": den, "link": link, "events": snaps, "final": [int(v) for v in np.asarray(val).tolist()],
            "_backedges": cnt.get(fn.__name__, 0)}


def clustering_steps(ctx):
    """Trace_ClusteringSteps.tla: action-level trace validation of the four linkage loops against Clustering.tla's own actions."""
    items = [("cs%d" % k, ctx.seed * 9001 + k) for k in range(400 if ctx.quick else 4000)]
    rec = [r for r in par.pmap(_clustering_steps_record, items) if r is not None]
    anchored = [r for r in rec if len(r["events"]) == r["_backedges"] == len(r["x"]) - 1]
    info = {"calls_recorded": len(rec), "calls_with_snapshots": len(anchored), "loop_iterations_validated": sum(len(r["events"]) for r in anchored),
            "links": {k: sum(1 for r in anchored if r["link"] == k) for k in ("single", "complete", "centroid", "average")},
            "what": "every iteration of the four linkage loops of clustering.py on integer layouts in 0..40 with rational thresholds (40% "
                    "with an exact tie of a gap with the threshold): the label list and the running state (complete: first point of the "
                    "cluster; centroid: cluster size; average: window start) read from the running frame at each back-edge must be "
                    "reached by one SingleStep / CompleteStep / CentroidMerge / CentroidSplit / AverageStep of spec/Clustering.tla, and "
                    "Return must find the returned labels; the float centroid is not logged, the machine's exact one must imply the "
                    "logged decisions; note only"}
    if len(anchored) < len(rec) // 2:
        info["skipped"] = "the loop locals were not found in the frames of the linkage functions (rewritten): not applicable"
        ctx.extra.setdefault("growth", {})["ClusteringSteps"] = info
        return []
    good = {"id": "s", "x": [0, 1, 5, 6], "tnum": 1, "tden": 2, "link": "complete",
            "events": [{"labels": [0, 0], "anchor": 1, "size": 0, "win": 0}, {"labels": [0, 0, 1], "anchor": 3, "size": 0, "win": 0},
                       {"labels": [0, 0, 1, 1], "anchor": 3, "size": 0, "win": 0}], "final": [0, 0, 1, 1]}
    stale = dict(good, events=[good["events"][0], dict(good["events"][1], anchor=1), good["events"][2]])
    rej = ctx.trace("Trace_ClusteringSteps", [{k: r[k] for k in ("id", "x", "tnum", "tden", "link", "events", "final")} for r in anchored], chunk=500,
                    selftest=[(good, "ok"), (stale, "no-machine-step"), (dict(good, final=[0, 0, 1, 2]), "no-machine-step"),
                              (dict(good, tnum=1, tden=1), "no-machine-step")])           # 5/6 < 1: point 3 would merge
    mism = [{"case": cid, "clause": vs[0][0], "detail": [str(v)[:100] for v in vs[0][1:4]]} for cid, vs in rej.items()]
    info.update(mismatches=len(mism), first_mismatches=mism[:3])
    ctx.extra.setdefault("growth", {})["ClusteringSteps"] = info
    for m in mism[:3]:
        print("GROWTH-MISMATCH module=ClusteringSteps %s" % m)
    return mism

def _mk_proj(loc):
    if "stack" in loc and "knees" in loc:
        return {"stack": [[int(a), int(b)] for a, b in loc["stack"]], "knees": [int(k) for k in loc["knees"]]}
    return None


def _mk_steps_record(item):
    import random
    import importlib
    from harness import curves, monitor
    cid, seed = item
    rng = random.Random(seed)
    det = rng.choice(["curvature", "dfdt", "menger", "lmethod", "kneedle"])
    mod = importlib.import_module("kneeliverse." + det)
    P = curves.random_curve(rng, 6, 40)
    n = len(P)
    t1 = rng.choice([0.0, 0.001, 0.01, 0.05])
    t2 = rng.choice([4, 5, 6]) if det in ("menger", "lmethod") else rng.choice([3, 4, 5])
    out, val, cnt = monitor.call(mod.multi_knee, (P, t1, t2), {}, budget=monitor.quad(n, 200), wall=60, per={"multi_knee": 8 * n + 64},
                                 snap={"multi_knee": _mk_proj})
    snaps = list(monitor._state["snaps"])
    if out != "returned":
        return None
    return {"id": cid, "n": n, "t2": t2, "events": snaps, "final": [int(v) for v in np.asarray(val).tolist()],
            "_backedges": cnt.get("multi_knee", 0), "_det": det}


def mk_steps(ctx):
    """Trace_MultiKneeSteps.tla: action-level trace validation of multi_knee.multi_knee against MultiKnee.tla's own actions."""
    import json
    import os
    items = [("ms%d" % k, ctx.seed * 6007 + k) for k in range(150 if ctx.quick else 1500)]
    rec = [r for r in par.pmap(_mk_steps_record, items) if r is not None]
    anchored = [r for r in rec if len(r["events"]) == r["_backedges"]]
    info = {"calls_recorded": len(rec), "calls_with_snapshots": len(anchored), "loop_iterations_validated": sum(len(r["events"]) + 1 for r in anchored),
            "detectors": sorted(set(r["_det"] for r in rec)),
            "what": "every work-loop iteration of multi_knee.multi_knee (local stack and knee list read from the running frame at each "
                    "back-edge) must be a PopSmall / PopStraight / PopDetect step of spec/MultiKnee.tla, the last one must empty the stack "
                    "and Finish must yield the returned array; TLC infers the gate values and the detector's answers; note only"}
    if len(anchored) < len(rec) // 2:
        info["skipped"] = "the locals `stack` / `knees` were not found in multi_knee's frame (the loop has been rewritten): not applicable"
        ctx.extra.setdefault("growth", {})["MultiKneeSteps"] = info
        return []
    good = json.load(open(os.path.join(os.path.dirname(os.path.abspath(__file__)), "static_mksteps.json")))
    badstack = dict(good, events=[dict(good["events"][0], stack=[[0, 12], [11, 12]])] + good["events"][1:])
    rej = ctx.trace("Trace_MultiKneeSteps", [{k: r[k] for k in ("id", "n", "t2", "events", "final")} for r in anchored], chunk=300,
                    selftest=[(good, "ok"), (dict(good, final=[2, 3, 4, 5, 6, 8, 9]), "no-machine-step"), (badstack, "no-machine-step")])
    mism = [{"case": cid, "clause": vs[0][0], "detail": [str(v)[:100] for v in vs[0][1:4]]} for cid, vs in rej.items()]
    info.update(mismatches=len(mism), first_mismatches=mism[:3])
    ctx.extra.setdefault("growth", {})["MultiKneeSteps"] = info
    for m in mism[:3]:
        print("GROWTH-MISMATCH module=MultiKneeSteps %s" % m)
    return mism


def accuracy_knee_t(ctx):
    """evaluation.accuracy_knee documents `t` as the R2 threshold of the neighbourhood search but never passes it on: the result
    is the one for the callee's default (0.9) whatever t is.  Outside the listed properties (C19 covers cm / mae / ... / mcc):
    a note, found by the unused-parameter scan that followed D15."""
    import random
    import kneeliverse.evaluation as ev
    from harness import curves
    rng = random.Random(ctx.seed + 4242)
    differs, same, witness = 0, 0, None
    for _ in range(60):
        P = curves.random_curve(rng, 12, 40)
        n = len(P)
        K = np.array(sorted(rng.sample(range(2, n - 1), min(3, n - 3))))
        x, y = P[:, 0], P[:, 1]
        for t in (0.5, 0.99):
            try:
                got = float(ev.accuracy_knee(P, K, t)[0])
                prev, dxs = 0, []
                for k in K:
                    idx = ev.get_neighbourhood_fast(x, y, int(k), int(prev), t)[0]
                    dxs.append(abs(x[idx] - x[k]) / abs(x[-1] - x[0]))
                    prev = k
                want = float(np.mean(dxs))
            except Exception:
                continue
            if abs(got - want) > 1e-9 * (1 + abs(want)):
                differs += 1
                witness = witness or {"points": P.tolist()[:6] + ["..."], "knees": K.tolist(), "t": t, "average_x": got, "with_t_forwarded": want}
            else:
                same += 1
    ctx.extra.setdefault("growth", {})["accuracy_knee"] = {
        "calls": differs + same, "calls_where_t_is_ignored_visibly": differs, "witness": witness,
        "what": "evaluation.accuracy_knee(points, knees, t): the documented R2 threshold t is not forwarded to get_neighbourhood_fast "
                "(unused parameter); beyond the listed properties, note only"}
    if differs:
        print("GROWTH-MISMATCH module=Neighbourhood accuracy_knee ignores its t argument (%d of %d probe calls differ from the result with t forwarded)" % (differs, differs + same))
    return differs


def safe(ctx, fn):
    """Growth components are notes beyond the listed properties: a failure inside one (a bug of the component, a TLC timeout)
    must never turn the owning check into a machinery failure, let alone a violation."""
    try:
        return fn(ctx)
    except BaseException as ex:      # noqa: B902 - including TLC failures raised by ctx.mc / ctx.trace
        if isinstance(ex, (KeyboardInterrupt, SystemExit)):
            raise
        ctx.extra.setdefault("growth", {})[getattr(fn, "__name__", "?")] = {"skipped": "growth component failed: %s" % repr(ex)[:300]}
        print("GROWTH-SKIPPED %s: %s" % (getattr(fn, "__name__", "?"), repr(ex)[:200]))
        return None
