"""Thin, careful wrapper around TLC 1.8 (tla2tools.jar).

Every run happens with cwd=/verif/spec (so EXTENDS/INSTANCE resolve against the one
source of truth), with its own -metadir inside the run-scoped scratch directory, under an
outer timeout.  The wrapper parses what TLC prints: state counts, per-action coverage,
PrintT lines (bracket matched, so 16-worker interleaving cannot split a value), errors.
"""
import json
import os
import re
import shutil
import subprocess
import time

JAR = "/opt/veriftools/tla/tla2tools.jar:/opt/veriftools/tla/CommunityModules-deps.jar"
SPEC_DIR = os.path.join(os.path.dirname(os.path.dirname(os.path.abspath(__file__))), "spec")


class TLCFailure(Exception):
    """TLC could not be run or its output could not be understood (machinery failure)."""


class TLCResult:
    def __init__(self):
        self.ok = False            # "Model checking completed. No error has been found."
        self.violated = None       # name of violated invariant / property, if any
        self.error_text = ""       # the text TLC printed after the first "Error:" line
        self.generated = 0         # states generated
        self.distinct = 0          # distinct states
        self.depth = 0
        self.coverage = {}         # action name -> (distinct, generated)
        self.prints = []           # raw PrintT payloads (strings)
        self.stdout = ""
        self.wall_s = 0.0
        self.cmd = ""
        self.timed_out = False

    def json_prints(self):
        """PrintT(ToJson(x)) payloads -> python objects."""
        out = []
        for p in self.prints:
            p = p.strip()
            if p.startswith('"'):
                try:
                    out.append(json.loads(json.loads(p)))
                    continue
                except Exception:
                    pass
            if p.startswith("{") or p.startswith("["):
                try:
                    out.append(json.loads(p))
                except Exception:
                    pass
        return out

    def tuple_prints(self, tag):
        """PrintT(<<"TAG", a, b, ...>>) payloads whose first element is tag -> list of lists."""
        out = []
        for p in self.prints:
            p = p.strip()
            if p.startswith("<<") and p.endswith(">>"):
                v = parse_tla_value(p)
                if isinstance(v, list) and v and v[0] == tag:
                    out.append(v)
        return out


_tok = re.compile(r'\s*(<<|>>|\{|\}|\[|\]|,|\|->|:>|@@|"(?:[^"\\]|\\.)*"|-?\d+|TRUE|FALSE|[A-Za-z_][A-Za-z0-9_]*)')


def parse_tla_value(s):
    """Parse the subset of TLA+ values TLC prints: ints, strings, booleans, tuples, sets,
    records, and functions written with :> and @@.  Tuples/sets -> list, records/functions -> dict."""
    toks = _tok.findall(s)
    pos = [0]

    def peek():
        return toks[pos[0]] if pos[0] < len(toks) else None

    def take(t=None):
        v = toks[pos[0]]
        if t is not None and v != t:
            raise ValueError("expected %s got %s in %s" % (t, v, s[:80]))
        pos[0] += 1
        return v

    def atom():
        t = take()
        if t == "<<":
            xs = []
            while peek() != ">>":
                xs.append(expr())
                if peek() == ",":
                    take()
            take(">>")
            return xs
        if t == "{":
            xs = []
            while peek() != "}":
                xs.append(expr())
                if peek() == ",":
                    take()
            take("}")
            return xs
        if t == "[":
            d = {}
            while peek() != "]":
                k = take()
                take("|->")
                d[k] = expr()
                if peek() == ",":
                    take()
            take("]")
            return d
        if t == "(":
            v = expr()
            take(")")
            return v
        if t == "TRUE":
            return True
        if t == "FALSE":
            return False
        if t.startswith('"'):
            return json.loads(t)
        if re.fullmatch(r"-?\d+", t):
            return int(t)
        return t

    def expr():
        v = atom()
        # function literal: a :> b @@ c :> d
        if peek() == ":>":
            d = {}
            take(":>")
            d[_key(v)] = atom()
            while peek() == "@@":
                take("@@")
                k = atom()
                take(":>")
                d[_key(k)] = atom()
            return d
        return v

    return expr()


def _key(k):
    return k if isinstance(k, (int, str)) else json.dumps(k)


def _split_prints(text):
    """Extract PrintT payloads.  TLC prints each PrintT value on its own line(s); values that
    start with <<, {, [ or a quote may be wrapped over several lines, so match brackets."""
    out = []
    lines = text.split("\n")
    i = 0
    openers = {"<": ">", "{": "}", "[": "]"}
    while i < len(lines):
        ln = lines[i]
        st = ln.lstrip()
        if st.startswith('"') and st.rstrip().endswith('"') and len(st.rstrip()) > 1:
            out.append(st.rstrip())
            i += 1
            continue
        if st.startswith("<<") or st.startswith("{") or (st.startswith("[") and "|->" in st):
            buf = st
            depth = _depth(buf)
            while depth > 0 and i + 1 < len(lines):
                i += 1
                buf += " " + lines[i].strip()
                depth = _depth(buf)
            if depth == 0:
                out.append(buf)
        i += 1
    return out


def _depth(s):
    d = 0
    instr = False
    esc = False
    i = 0
    while i < len(s):
        c = s[i]
        if instr:
            if esc:
                esc = False
            elif c == "\\":
                esc = True
            elif c == '"':
                instr = False
        else:
            if c == '"':
                instr = True
            elif s.startswith("<<", i):
                d += 1
                i += 1
            elif s.startswith(">>", i):
                d -= 1
                i += 1
            elif c in "{[":
                d += 1
            elif c in "}]":
                d -= 1
        i += 1
    return d


_cov = re.compile(r"^<(\w+) line (\d+), col \d+ to line \d+, col \d+ of module (\w+)(?: \([\d ]+\))?>: (\d+):(\d+)")


def run(module, cfg=None, scratch=None, workers=16, timeout=900, env=None, deadlock_check=False,
        coverage=True, simulate=None, depth=None, seed=None, heap="6g", extra=()):
    """Run TLC on spec/<module>.tla with spec/<cfg or module>.cfg."""
    if scratch is None:
        raise TLCFailure("scratch dir required")
    cfg = cfg or module
    import tempfile
    os.makedirs(scratch, exist_ok=True)
    meta = tempfile.mkdtemp(prefix="tlc_%s_%s_" % (module, cfg), dir=scratch)      # unique even for parallel chunks
    cmd = ["java", "-XX:+UseParallelGC", "-Xss128m", "-Xmx" + heap, "-cp", JAR, "tlc2.TLC",
           "-config", cfg + ".cfg", "-workers", str(workers), "-metadir", meta, "-noGenerateSpecTE"]
    if not deadlock_check:
        cmd.append("-deadlock")      # -deadlock switches deadlock checking OFF
    if coverage and not simulate:
        cmd += ["-coverage", "1"]
    if simulate:
        cmd += ["-simulate", simulate]
    if depth:
        cmd += ["-depth", str(depth)]
    if seed is not None:
        cmd += ["-seed", str(seed)]
    cmd += list(extra)
    cmd.append(module + ".tla")
    e = dict(os.environ)
    e.pop("JAVA_TOOL_OPTIONS", None)
    if env:
        e.update({k: str(v) for k, v in env.items()})
    # timeouts only exist to turn a runaway TLC into a machinery failure; they are stated for an idle 16-core
    # machine and scaled so that a heavily loaded one does not trip them (KNEE_TLC_TIMEOUT_SCALE, default 4)
    timeout = timeout * float(os.environ.get("KNEE_TLC_TIMEOUT_SCALE", "4"))
    t0 = time.time()
    r = TLCResult()
    r.cmd = " ".join(cmd)
    try:
        p = subprocess.run(cmd, cwd=SPEC_DIR, env=e, stdout=subprocess.PIPE, stderr=subprocess.STDOUT,
                           timeout=timeout, text=True, errors="replace")
        out = p.stdout
        rc = p.returncode
    except subprocess.TimeoutExpired as ex:
        out = ex.stdout or ""
        if isinstance(out, bytes):
            out = out.decode("utf8", "replace")
        rc = -9
        r.timed_out = True
    finally:
        shutil.rmtree(meta, ignore_errors=True)
    r.wall_s = time.time() - t0
    try:
        with open(os.path.join(scratch, "..", "tlc_times.log") if os.path.basename(scratch.rstrip("/")) != ".scratch"
                  else os.path.join(scratch, "tlc_times.log"), "a") as fh:
            fh.write("%s %s %s wall=%.1f timeout=%.0f ratio=%.3f\n" % (os.environ.get("KNEE_CHECK_ID", "?"), module, cfg, r.wall_s, timeout, r.wall_s / timeout))
    except OSError:
        pass
    r.stdout = out
    r.rc = rc
    m = None
    for m in re.finditer(r"(\d+) states generated, (\d+) distinct states found", out):
        pass
    if m:
        r.generated, r.distinct = int(m.group(1)), int(m.group(2))
    m = re.search(r"The depth of the complete state graph search is (\d+)", out)
    if m:
        r.depth = int(m.group(1))
    for ln in out.split("\n"):
        mc = _cov.match(ln.strip())
        if mc:
            r.coverage[mc.group(1)] = (int(mc.group(4)), int(mc.group(5)))
    r.ok = ("Model checking completed. No error has been found." in out) or \
           (simulate is not None and rc == 0 and "Error:" not in out)
    if "Error:" in out:
        r.error_text = out[out.index("Error:"):][:6000]
        mv = re.search(r"Invariant (\w+) is violated", out)
        if mv:
            r.violated = mv.group(1)
        elif re.search(r"Temporal propert(y|ies) .*violated", out):
            r.violated = "<temporal>"
        elif "Deadlock reached" in out:
            r.violated = "<deadlock>"
        elif re.search(r"Action property (\w+)", out):
            r.violated = re.search(r"Action property (\w+)", out).group(1)
        elif "Assumption" in out and "is false" in out:
            r.violated = "<assumption>"
        elif "The postcondition" in out or "postcondition" in out.lower():
            r.violated = "<postcondition>"
    r.prints = _split_prints(out.split("Error:")[0] if False else out)
    return r


def must_pass(r, what):
    """A positive model-checking instance: anything but a clean completion is machinery failure
    unless an invariant/property was violated (which the caller turns into a spec-level finding)."""
    if r.timed_out:
        raise TLCFailure("%s: TLC timed out (%s)" % (what, r.cmd))
    if not r.ok and r.violated is None:
        raise TLCFailure("%s: TLC failed without a property violation:\n%s" % (what, r.stdout[-3000:]))
    return r
