"""Option members are selected the way a user selects them: by NAME (`Metrics.rmspe`), never by value - two members that
share a value are aliases in Python's Enum, and a lookup by value would either hide that or fail."""
# harness-side spellings (the pinned tree's values) -> member names, where they differ
_NAME = {"bestfit": "best_fit", "pointfit": "point_fit", "increasing": "Increasing", "decreasing": "Decreasing",
         "counter-clockwise": "Counterclockwise", "clockwise": "Clockwise"}


def pick(cls, key):
    name = _NAME.get(key, key)
    try:
        return cls[name]
    except KeyError:
        return cls(key)
