"""C18 - convex-hull routines return the true hull.
M+G in one TLC run: Hull.tla machines (monotone chains, Graham scan) are checked against the
brute-force declarative hull on every grid curve / every 3..5-point subset of the grid (invariants),
and every behaviour is emitted and replayed into convex_hull.*.  Negative instance: the scan
without the stack-size guard must underflow."""
import numpy as np

from harness import numeric, par


SCALES = [(1.0, 0.0), (2.0 ** -20, 0.0), (2.0 ** 20, 3.0 * 2.0 ** 20)]   # exact in binary64; the hull is similarity invariant


def _replay_line(b):
    import random
    out = []
    n = len(b["pts"])
    perms = [None]
    if b["mode"] == "graham":        # the input ORDER of a point set is arbitrary: also replay a permutation of it
        perm = list(range(n))
        random.Random(hash(str(b["pts"])) & 0xffff).shuffle(perm)
        perms.append(perm)
    for perm in perms:
        for sc, off in (SCALES if perm is None else SCALES[:1]):
            for clause, detail in _replay_scaled(b, sc, off, perm):
                out.append((clause, dict(detail, scale=sc, offset=off, order=perm)))
            if out:
                return out
    for clause, detail in _replay_nondyadic(b) + _replay_shear_big(b):
        out.append((clause, dict(detail, scale=None, offset=None, order=None)))
    return out


def _exact_chain(P, mode):
    """the hull chain of an x-sorted float curve in exact rational arithmetic (monotone chain, strict turns)."""
    from fractions import Fraction as Fr
    Q = [(Fr(float(a)), Fr(float(c))) for a, c in P]
    st = []
    for i, p in enumerate(Q):
        while len(st) >= 2:
            a, c = Q[st[-2]], Q[st[-1]]
            cr = (c[0] - a[0]) * (p[1] - a[1]) - (p[0] - a[0]) * (c[1] - a[1])
            if (cr <= 0) if mode == "lower" else (cr >= 0):
                st.pop()
            else:
                break
        st.append(i)
    return st


def _replay_nondyadic(b):
    """lower / upper chains with the ordinates mapped through y -> 0.1*y + 0.3 (rounded to binary64): equal ordinates stay
    equal, so level runs stay EXACTLY collinear at a non-integer level, everything else is decided by the exact hull of the
    rounded points.  An orientation test that is only algebraically equal to the cross product drifts here."""
    import kneeliverse.convex_hull as ch
    mode = b["mode"]
    if mode not in ("lower", "upper"):
        return []
    P = np.array(b["pts"], float)
    P[:, 1] = P[:, 1] * 0.1 + 0.3
    fn = ch.graham_scan_lower if mode == "lower" else ch.graham_scan_upper
    try:
        got = [int(v) for v in np.asarray(fn(P)).tolist()]
    except Exception as ex:
        return [("completes", {"mode": mode, "raised": repr(ex)[:200], "map": "y -> 0.1*y + 0.3"})]
    exp = _exact_chain(P.tolist(), mode)
    if got != exp:
        # numeric policy (DESIGN 3.2): a turn whose exact value is non-zero but within rounding noise of zero pins nothing
        from fractions import Fraction as Fr
        Q = [(Fr(float(a)), Fr(float(c))) for a, c in P.tolist()]
        n = len(Q)
        for i in range(n):
            for j in range(i + 1, n):
                for k in range(j + 1, n):
                    cr = (Q[j][0] - Q[i][0]) * (Q[k][1] - Q[i][1]) - (Q[k][0] - Q[i][0]) * (Q[j][1] - Q[i][1])
                    if cr != 0 and abs(cr) < Fr(1, 10 ** 9):
                        return []
        return [("chain-is-hull", {"mode": mode, "got": got, "expected": exp, "map": "y -> 0.1*y + 0.3"})]
    return []


def _replay_shear_big(b):
    """lower / upper chains of the same curve under the integer shear (x, y) -> (m x + y, (m-1) x + y), m = 2^27 + 1, stored
    as an int64 array: determinant 1, so every orientation - hence the chain - is the generator's, but the cross products are
    differences of numbers beyond 2^53: exact in int64, not resolvable in binary64."""
    import kneeliverse.convex_hull as ch
    mode = b["mode"]
    if mode not in ("lower", "upper"):
        return []
    xmax = max(1, max(int(x) for x, _ in b["pts"]))
    m = min(2 ** 27, 2 ** 30 // xmax) + 1          # coordinates stay below 2^31: the int64 cross products cannot overflow
    P = np.array([[m * int(x) + int(y), (m - 1) * int(x) + int(y)] for x, y in b["pts"]], dtype=np.int64)
    fn = ch.graham_scan_lower if mode == "lower" else ch.graham_scan_upper
    try:
        got = [int(v) for v in np.asarray(fn(P)).tolist()]
    except Exception as ex:
        return [("completes", {"mode": mode, "raised": repr(ex)[:200], "map": "int64 shear (x,y)->(mx+y,(m-1)x+y), m=%d" % m})]
    if got != list(b["result"]):
        return [("chain-is-hull", {"mode": mode, "got": got, "expected": list(b["result"]), "map": "int64 shear (x,y)->(mx+y,(m-1)x+y), m=%d" % m})]
    return []


def _replay_scaled(b, sc, off, perm=None):
    import kneeliverse.convex_hull as ch
    bad = []
    P = np.array(b["pts"], float) * sc + off
    if perm is not None:
        P = P[perm]
    mode = b["mode"]
    fn = {"lower": ch.graham_scan_lower, "upper": ch.graham_scan_upper, "graham": ch.graham_scan}[mode]
    try:
        got = [int(v) for v in np.asarray(fn(P)).tolist()]
        if perm is not None:
            got = [perm[g] if 0 <= g < len(perm) else -1 for g in got]     # back to the generator's indices
    except Exception as ex:
        return [("completes", {"mode": mode, "raised": repr(ex)[:200]})]
    exp = list(b["result"])
    if mode in ("lower", "upper"):
        if got != exp:
            if not got or got[0] != 0 or got[-1] != len(P) - 1:
                bad.append(("chain-endpoints", {"got": got, "expected": exp}))
            else:
                bad.append(("chain-is-hull", {"mode": mode, "got": got, "expected": exp}))
    else:
        ext, bnd = set(b["extreme"]), set(b["boundary"])
        if not ext <= set(got):
            bad.append(("graham-contains-extremes", {"got": got, "extreme": sorted(ext)}))
        if not set(got) <= bnd:
            bad.append(("graham-only-boundary", {"got": got, "boundary": sorted(bnd)}))
        if len(set(got)) != len(got):
            bad.append(("graham-only-boundary", {"got": got, "duplicates": True}))
        if b["general"] and got != exp:
            # the property fixes the cyclic clockwise order and the start "lowest-leftmost"; the code starts at
            # the lexicographic (x, y) minimum.  A rotation that starts at the (y, x) minimum is not flagged.
            rot_ok = False
            if sorted(got) == sorted(exp):
                k = exp.index(got[0]) if got[0] in exp else -1
                Q = np.array(b["pts"], float)
                alt = min(range(len(Q)), key=lambda i: (Q[i][1], Q[i][0]))
                rot_ok = k >= 0 and exp[k:] + exp[:k] == got and got[0] == alt
            if not rot_ok:
                bad.append(("graham-exact-general-position", {"got": got, "expected": exp}))
    return bad


def _record_long(item):
    """T: lower / upper chain of a long x-sorted integer curve (float64 or int64 array)."""
    import random
    import kneeliverse.convex_hull as ch
    cid, seed, n, mode, dtype = item
    rng = random.Random(seed)
    x = np.cumsum([rng.randint(1, 3) for _ in range(n)])
    kind = seed % 3
    if kind == 0:
        y = np.array([rng.randint(0, 1000) for _ in range(n)])
    elif kind == 1:      # convex-ish decay with plateaus and collinear runs
        y = np.round(100000.0 / (np.arange(n) + 5.0)).astype(int)
    else:                # staircase
        y = np.array([1000 - 7 * (k // 5) for k in range(n)])
    P = np.column_stack([x, y]).astype(np.int64 if dtype == "int64" else float)
    fn = ch.graham_scan_lower if mode == "lower" else ch.graham_scan_upper
    try:
        r = fn(P)
        out, chain = "returned", [int(v) for v in np.asarray(r).tolist()]
    except Exception as ex:
        out, chain = "raised:" + type(ex).__name__, []
    return {"id": cid, "mode": mode, "outcome": out, "chain": chain, "pts": [[int(a), int(b)] for a, b in zip(x, y)]}, \
           {"long": [cid, seed, n, mode, dtype]}


STATIC_LONG = {"id": "s", "mode": "lower", "outcome": "returned", "chain": [0, 2, 4],
               "pts": [[0, 5], [1, 4], [2, 1], [3, 2], [4, 0]]}


def run(ctx):
    ctx.rule = ("TLC enumerates every grid curve (n<=NMax, y in 0..YMax, 3 spacing patterns) for the lower/upper "
                "chains and every SetMin..SetMax-point subset of the grid for graham_scan, checks the machines against "
                "the brute-force hull and emits each behaviour for replay.  non-trivial: chain drops at least one point, "
                "or the point set has a non-extreme point / is in general position with >= 4 points")
    ctx.assumptions += ["coordinates are small integers, so the orientation predicate is exact in binary64",
                        "graham_scan start vertex: lexicographic (x,y) minimum as in the code; a rotation starting at the (y,x) minimum is tolerated",
                        "every behaviour is also replayed scaled by 2^-20 and by 2^20 (+3*2^20 translation): exact in binary64, same hull"]
    ctx.mc("Hull", "MC_Hull_unguarded", expect="NoUnderflow")
    ctx.mc("Hull", "MC_Hull_small", need_actions=("ChainPop", "ChainPush", "GrahamSort", "GrahamPop", "GrahamPush", "Return"))
    beh = ctx.gen("Hull", "Gen_Hull_quick" if ctx.quick else "Gen_Hull_thorough", timeout=3000)
    if not ctx.quick:
        ctx.mc("Hull", "MC_Hull", need_actions=("ChainPop", "ChainPush", "GrahamSort", "GrahamPop", "GrahamPush", "Return"))
    ctx.exhaustive = True
    res = par.pmap(_replay_line, beh)
    seen = {}
    for b, bad in zip(beh, res):
        if b["mode"] == "graham":
            nt = len(b["extreme"]) < len(b["pts"]) or (b["general"] and len(b["pts"]) >= 4)
        else:
            nt = len(b["result"]) < len(b["pts"])
        ctx.count(("G", b["mode"], b["pts"]), nt)
        for clause, detail in bad:
            k = (clause, b["mode"])
            seen[k] = seen.get(k, 0) + 1
            if seen[k] <= 2:
                ctx.violation(clause, {"kind": "G", "behaviour": b}, detail)
    ctx.extra["violating_behaviours_by_clause"] = {"%s/%s" % k: v for k, v in seen.items()}
    ctx.traces += len(beh)
    # ---- T: long curves
    longs = [("L%d" % k, ctx.seed * 13 + k, n, mode, dt) for k, (n, mode, dt) in enumerate(
        [(300, "lower", "float64"), (300, "upper", "int64"), (800, "lower", "int64"), (800, "upper", "float64"),
         (301, "lower", "float64"), (302, "upper", "float64")] + ([] if ctx.quick else [(2000, "lower", "float64"), (2000, "upper", "int64")]))]
    rec = [_record_long(it) for it in longs]
    bad1 = dict(STATIC_LONG, chain=[0, 1, 2, 4])
    bad2 = dict(STATIC_LONG, chain=[0, 4])
    rej = ctx.trace("Trace_Hull", [c for c, _ in rec], selftest=[(STATIC_LONG, "ok"), (bad1, "strict-turns"), (bad2, "chain-is-hull")], chunk=4)
    metaL = {c["id"]: m for c, m in rec}
    for c, _ in rec:
        ctx.count(("T", c["mode"], len(c["pts"]), c["chain"][:5]), len(c["chain"]) < len(c["pts"]))
    for cid, vs in rej.items():
        ctx.violation(vs[0][0], {"kind": "Tlong", "long": metaL[cid]["long"]}, {"verdict": [str(v)[:200] for v in vs[0]]})
    ctx.sample({"binding": "G", "behaviour": next(b for b in beh if b["mode"] == "lower" and len(b["pts"]) == 5 and len(b["result"]) == 3)})
    ctx.sample({"binding": "G", "behaviour": next(b for b in beh if b["mode"] == "graham" and len(b["pts"]) == 5 and not b["general"])})


def replay(ctx, obj):
    if obj["case"].get("kind") == "Tlong":
        c, m = _record_long(tuple(obj["case"]["long"]))
        rej = ctx.trace("Trace_Hull", [c])
        for cid, vs in rej.items():
            ctx.violation(vs[0][0], obj["case"], {"verdict": [str(v)[:200] for v in vs[0]]})
        return
    for clause, detail in _replay_line(obj["case"]["behaviour"]):
        ctx.violation(clause, obj["case"], detail)
