"""C18 - convex-hull routines return the true hull.
M+G in one TLC run: Hull.tla machines (monotone chains, Graham scan) are checked against the
brute-force declarative hull on every grid curve / every 3..5-point subset of the grid (invariants),
and every behaviour is emitted and replayed into convex_hull.*.  Negative instance: the scan
without the stack-size guard must underflow."""
import numpy as np

from harness import numeric, par


SCALES = [(1.0, 0.0), (2.0 ** -20, 0.0), (2.0 ** 20, 3.0 * 2.0 ** 20)]   # exact in binary64; the hull is similarity invariant


def _replay_line(b):
    import random
    out = []
    n = len(b["pts"])
    perms = [None]
    if b["mode"] == "graham":        # the input ORDER of a point set is arbitrary: also replay a permutation of it
        perm = list(range(n))
        random.Random(hash(str(b["pts"])) & 0xffff).shuffle(perm)
        perms.append(perm)
    for perm in perms:
        for sc, off in (SCALES if perm is None else SCALES[:1]):
            for clause, detail in _replay_scaled(b, sc, off, perm):
                out.append((clause, dict(detail, scale=sc, offset=off, order=perm)))
            if out:
                return out
    for clause, detail in _replay_nondyadic(b) + _replay_shear_big(b):
        out.append((clause, dict(detail, scale=None, offset=None, order=None)))
    return out


def _exact_chain(P, mode):
    """the hull chain of an x-sorted float curve in exact rational arithmetic (monotone chain, strict turns)."""
    from fractions import Fraction as Fr
    Q = [(Fr(float(a)), Fr(float(c))) for a, c in P]
    st = []
    for i, p in enumerate(Q):
        while len(st) >= 2:
            a, c = Q[st[-2]], Q[st[-1]]
            cr = (c[0] - a[0]) * (p[1] - a[1]) - (p[0] - a[0]) * (c[1] - a[1])
            if (cr <= 0) if mode == "lower" else (cr >= 0):
                st.pop()
            else:
                break
        st.append(i)
    return st


def _replay_nondyadic(b):
    """lower / upper chains with the ordinates mapped through y -> 0.1*y + 0.3 (rounded to binary64): equal ordinates stay
    equal, so level runs stay EXACTLY collinear at a non-integer level, everything else is decided by the exact hull of the
    rounded points.  An orientation test that is only algebraically equal to the cross product drifts here."""
    import kneeliverse.convex_hull as ch
    mode = b["mode"]
    if mode not in ("lower", "upper"):
        return []
    P = np.array(b["pts"], float)
    P[:, 1] = P[:, 1] * 0.1 + 0.3
    fn = ch.graham_scan_lower if mode == "lower" else ch.graham_scan_upper
    try:
        got = [int(v) for v in np.asarray(fn(P)).tolist()]
    except Exception as ex:
        return [("completes", {"mode": mode, "raised": repr(ex)[:200], "map": "y -> 0.1*y + 0.3"})]
    exp = _exact_chain(P.tolist(), mode)
    if got != exp:
        # numeric policy (DESIGN 3.2): a turn whose exact value is non-zero but within rounding noise of zero pins nothing
        from fractions import Fraction as Fr
        Q = [(Fr(float(a)), Fr(float(c))) for a, c in P.tolist()]
        n = len(Q)
        for i in range(n):
            for j in range(i + 1, n):
                for k in range(j + 1, n):
                    cr = (Q[j][0] - Q[i][0]) * (Q[k][1] - Q[i][1]) - (Q[k][0] - Q[i][0]) * (Q[j][1] - Q[i][1])
                    if cr != 0 and abs(cr) < Fr(1, 10 ** 9):
                        return []
        return [("chain-is-hull", {"mode": mode, "got": got, "expected": exp, "map": "y -> 0.1*y + 0.3"})]
    return []


def _replay_shear_big(b):
    """lower / upper chains of the same curve under the integer shear (x, y) -> (m x + y, (m-1) x + y), m = 2^27 + 1, stored
    as an int64 array: determinant 1, so every orientation - hence the chain - is the generator's, but the cross products are
    differences of numbers beyond 2^53: exact in int64, not resolvable in binary64."""
    import kneeliverse.convex_hull as ch
    mode = b["mode"]
    if mode not in ("lower", "upper"):
        return []
    xmax = max(1, max(int(x) for x, _ in b["pts"]))
    m = min(2 ** 27, 2 ** 30 // xmax) + 1          # coordinates stay below 2^31: the int64 cross products cannot overflow
    P = np.array([[m * int(x) + int(y), (m - 1) * int(x) + int(y)] for x, y in b["pts"]], dtype=np.int64)
    fn = ch.graham_scan_lower if mode == "lower" else ch.graham_scan_upper
    try:
        got = [int(v) for v in np.asarray(fn(P)).tolist()]
    except Exception as ex:
        return [("completes", {"mode": mode, "raised": repr(ex)[:200], "map": "int64 shear (x,y)->(mx+y,(m-1)x+y), m=%d" % m})]
    if got != list(b["result"]):
        return [("chain-is-hull", {"mode": mode, "got": got, "expected": list(b["result"]), "map": "int64 shear (x,y)->(mx+y,(m-1)x+y), m=%d" % m})]
    return []


def _replay_scaled(b, sc, off, perm=None):
    import kneeliverse.convex_hull as ch
    bad = []
    P = np.array(b["pts"], float) * sc + off
    if perm is not None:
        P = P[perm]
    mode = b["mode"]
    fn = {"lower": ch.graham_scan_lower, "upper": ch.graham_scan_upper, "graham": ch.graham_scan}[mode]
    try:
        got = [int(v) for v in np.asarray(fn(P)).tolist()]
        if perm is not None:
            got = [perm[g] if 0 <= g < len(perm) else -1 for g in got]     # back to the generator's indices
    except Exception as ex:
        return [("completes", {"mode": mode, "raised": repr(ex)[:200]})]
    exp = list(b["result"])
    if mode in ("lower", "upper"):
        if got != exp:
            if not got or got[0] != 0 or got[-1] != len(P) - 1:
                bad.append(("chain-endpoints", {"got": got, "expected": exp}))
            else:
                bad.append(("chain-is-hull", {"mode": mode, "got": got, "expected": exp}))
    else:
        ext, bnd = set(b["extreme"]), set(b["boundary"])
        if not ext <= set(got):
            bad.append(("graham-contains-extremes", {"got": got, "extreme": sorted(ext)}))
        if not set(got) <= bnd:
            bad.append(("graham-only-boundary", {"got": got, "boundary": sorted(bnd)}))
        if len(set(got)) != len(got):
            bad.append(("graham-only-boundary", {"got": got, "duplicates": True}))
        if b["general"] and got != exp:
            # the property fixes the cyclic clockwise order and the start "lowest-leftmost"; the code starts at
            # the lexicographic (x, y) minimum.  A rotation that starts at the (y, x) minimum is not flagged.
            rot_ok = False
            if sorted(got) == sorted(exp):
                k = exp.index(got[0]) if got[0] in exp else -1
                Q = np.array(b["pts"], float)
                alt = min(range(len(Q)), key=lambda i: (Q[i][1], Q[i][0]))
                rot_ok = k >= 0 and exp[k:] + exp[:k] == got and got[0] == alt
            if not rot_ok:
                bad.append(("graham-exact-general-position", {"got": got, "expected": exp}))
    return bad


def _record_long(item):
    """T: lower / upper chain of a long x-sorted integer curve (float64 or int64 array)."""
    import random
    import kneeliverse.convex_hull as ch
    cid, seed, n, mode, dtype = item
    rng = random.Random(seed)
    x = np.cumsum([rng.randint(1, 3) for _ in range(n)])
    kind = seed % 3
    if kind == 0:
        y = np.array([rng.randint(0, 1000) for _ in range(n)])
    elif kind == 1:      # convex-ish decay with plateaus and collinear runs
        y = np.round(100000.0 / (np.arange(n) + 5.0)).astype(int)
    else:                # staircase
        y = np.array([1000 - 7 * (k // 5) for k in range(n)])
    P = np.column_stack([x, y]).astype(np.int64 if dtype == "int64" else float)
    fn = ch.graham_scan_lower if mode == "lower" else ch.graham_scan_upper
    try:
        r = fn(P)
        out, chain = "returned", [int(v) for v in np.asarray(r).tolist()]
    except Exception as ex:
        out, chain = "raised:" + type(ex).__name__, []
    return {"id": cid, "mode": mode, "outcome": out, "chain": chain, "pts": [[int(a), int(b)] for a, b in zip(x, y)]}, \
           {"long": [cid, seed, n, mode, dtype]}


STATIC_LONG = {"id": "s", "mode": "lower", "outcome": "returned", "chain": [0, 2, 4],
               "pts": [[0, 5], [1, 4], [2, 1], [3, 2], [4, 0]]}


# ---------------------------------------------------------------------------------------------------------------------
# scale family: production-size inputs (10^2.5 .. 10^5 points) judged by Trace_HullScale from SPARSE oracle tables
# ---------------------------------------------------------------------------------------------------------------------
# Every input has integer coordinates with (x range) * (y range) < 2^52: each orientation test is an exactly representable
# integer in binary64 as well as in int64, so there is no rounding noise to excuse - the exact hull is demanded at any size.
EXACT = 2 ** 52
CHAIN_SHAPES = ("valley", "noisyvalley", "convex", "convexpl", "tradeoff", "random", "hook", "plunge", "staircase", "zigzag")
SET_SHAPES = ("gp", "box", "disc", "convexpos", "line")
SET_CAP = {"convexpos": (4200, 8400), "line": (10500, 33000)}      # (quick, thorough) size caps: quadratic index recovery / sqrt tie-breaks
CHAIN_DTYPES = ("f64", "i64", "f64s")                               # f64s: both coordinates scaled by 2^-20 (exact)


def _rle(v):
    """run-length code of a 1-D integer array: [[value, count], ...]"""
    v = np.asarray(v, dtype=np.int64)
    if len(v) == 0:
        return []
    cut = np.flatnonzero(np.diff(v) != 0) + 1
    st = np.concatenate([[0], cut])
    en = np.concatenate([cut, [len(v)]])
    return [[int(a), int(b)] for a, b in zip(v[st].tolist(), (en - st).tolist())]


def _curve(shape, n, seed, neg, flip, spacing):
    """x-sorted integer curve (strictly increasing x) of one of CHAIN_SHAPES; a deterministic function of its arguments.
    The shapes are described for the LOWER hull; neg mirrors them for the upper hull, flip mirrors left / right."""
    import random
    from harness import scale
    rng = np.random.default_rng([18, seed, n, CHAIN_SHAPES.index(shape)])
    pyr = random.Random(seed * 7919 + n)
    i = np.arange(n, dtype=np.int64)
    for attempt in range(3):
        # attempt 0: the requested spacing; 1: unit spacing; 2: unit spacing and ordinates / 64 (the last two only if the
        # exactness bound failed)
        dx = rng.integers(1, 4 if n <= 60000 else 3, n).astype(np.int64) if (spacing == "ragged" and attempt == 0) else np.ones(n, dtype=np.int64)
        x = np.cumsum(dx) - dx[0]
        if shape == "valley":             # floored parabola: vertices on both branches, the chain must climb to n-1
            y = scale.valley(n, pyr)[:, 1].astype(np.int64)
        elif shape == "noisyvalley":
            m = int(rng.integers(n // 3, 2 * n // 3 + 1))
            y = (i - m) ** 2 // 4 + rng.integers(0, 1000, n)
        elif shape == "convex":           # strictly increasing slopes: EVERY point is a vertex (chain of n entries)
            m = int(rng.integers(n // 4, 3 * n // 4 + 1))
            y = np.cumsum((i - m) * dx)
        elif shape == "convexpl":         # convex piecewise linear: long exactly collinear runs, only the corners are vertices
            corners = int(rng.integers(3, 200))
            w = max(2, n // (corners + 1))
            y = np.cumsum((i // w - corners // 2) * dx)
        elif shape == "tradeoff":         # the usual decreasing noisy convex trade-off curve
            y = (n - i) ** 2 // 8 + rng.integers(0, 50, n)
        elif shape == "random":
            y = rng.integers(0, 10 ** 6, n)
        elif shape == "hook":             # decreasing convex, then an uptick in the last r points (vertices at the far right end)
            r = int(rng.integers(1, 41))
            q = n - r
            y = (n - i) ** 2 // 16
            y[q:] = y[q - 1] + (i[q:] - q + 1) * int(rng.integers(1, 1000))
        elif shape == "plunge":           # a convex run (every point stacked) and then one point far below: everything is popped
            r = int(rng.integers(0, 41))
            q = n - 1 - r
            y = np.cumsum(i * dx)         # slope i: convex in x for either spacing
            y[q:] = -(int(y.max()) + n) + (i[q:] - q) ** 2 * n * 4
        elif shape == "staircase":
            y = scale.staircase(n, int(rng.integers(4, 300)), pyr)[:, 1].astype(np.int64)
        elif shape == "zigzag":           # amplitude grows to the right (dyadic ordinates times 64)
            y = np.round(scale.zigzag(n)[:, 1] * 64.0).astype(np.int64)
        else:
            raise ValueError(shape)
        y = np.asarray(y, dtype=np.int64)
        if attempt == 2:
            y = y // 64
        if int(x[-1] - x[0]) * int(y.max() - y.min()) < EXACT:
            break
    else:
        raise ValueError("scale curve %s n=%d outside the exact domain" % (shape, n))
    if flip:
        y = y[::-1].copy()
    if neg:
        y = -y
    return x, y


def _next_prime(n):
    n = max(3, n | 1)
    while any(n % d == 0 for d in range(3, int(n ** 0.5) + 1, 2)):
        n += 2
    return n


def _pointset(shape, n, seed):
    """n (about) DISTINCT integer points in a shuffled order; returns (X, Y, general): general = no three collinear, known
    by construction (it is never searched for at this size)."""
    rng = np.random.default_rng([1818, seed, n, SET_SHAPES.index(shape)])
    general = False
    if shape == "gp":                   # (i, i^2 mod p), p prime: a line meets the parabola mod p in at most 2 points
        p = _next_prime(n)
        X = np.arange(n, dtype=np.int64)
        Y = (X * X) % p
        general = True
    elif shape == "box":                # random points strictly inside a box + collinear runs on all four sides + the corners
        W = 4 * n
        k = max(4, n // 8)
        inner = rng.integers(1, W, (n, 2))
        s = rng.choice(np.arange(1, W), size=(4, k), replace=False) if W - 1 >= 4 * k else rng.integers(1, W, (4, k))
        side = np.concatenate([np.column_stack([s[0], np.zeros(k, np.int64)]), np.column_stack([s[1], np.full(k, W)]),
                               np.column_stack([np.zeros(k, np.int64), s[2]]), np.column_stack([np.full(k, W), s[3]])])
        P = np.concatenate([inner, side, [[0, 0], [0, W], [W, 0], [W, W]]]).astype(np.int64)
        P = np.unique(P, axis=0)
        X, Y = P[:, 0], P[:, 1]
    elif shape == "disc":               # random lattice points of a disc: a hull of the order of n^(1/3) vertices, many pops
        R = 8 * n
        P = rng.integers(-R, R + 1, (3 * n, 2)).astype(np.int64)
        P = P[P[:, 0] ** 2 + P[:, 1] ** 2 <= R * R]
        P = np.unique(P, axis=0)
        P = P[rng.permutation(len(P))[:n]]
        X, Y = P[:, 0], P[:, 1]
    elif shape == "convexpos":          # two parabola arcs: EVERY point is an extreme vertex (strictly convex polygon)
        m = max(2, n // 4)
        a = np.arange(-m, m + 1, dtype=np.int64)
        b = np.arange(-m + 1, m, dtype=np.int64)
        X = np.concatenate([a, b])
        Y = np.concatenate([a * a, 2 * m * m - b * b])
        general = True
    elif shape == "line":               # fully collinear set on an oblique line
        dxy = [(1, 0), (0, 1), (3, 2), (5, -7), (1, 1)][seed % 5]
        t = np.unique(rng.integers(0, 4 * n, n)).astype(np.int64)
        X, Y = 17 + dxy[0] * t, -5 + dxy[1] * t
    else:
        raise ValueError(shape)
    perm = rng.permutation(len(X))
    X, Y = np.ascontiguousarray(X[perm]), np.ascontiguousarray(Y[perm])
    assert int(X.max() - X.min() + 1) * int(Y.max() - Y.min() + 1) < EXACT
    return X, Y, general


def _cross(ax, ay, bx, by, cx, cy):
    return (bx - ax) * (cy - ay) - (cx - ax) * (by - ay)


def _exact_planar_hull(X, Y):
    """extreme vertices (indices) of a set of distinct integer points, counter-clockwise from the lexicographic minimum,
    in exact integer arithmetic (Andrew's monotone chain, collinear points dropped)."""
    order = np.lexsort((Y, X)).tolist()
    xs, ys = X.tolist(), Y.tolist()

    def half(seq):
        st = []
        for k in seq:
            while len(st) >= 2 and _cross(xs[st[-2]], ys[st[-2]], xs[st[-1]], ys[st[-1]], xs[k], ys[k]) <= 0:
                st.pop()
            st.append(k)
        return st
    lo, up = half(order), half(order[::-1])
    ccw = lo[:-1] + up[:-1]
    if len(ccw) < 2:
        ccw = lo[:1] + up[:1]
    return ccw


def _encode_chain(cid, mode, x, y, outcome, chain):
    """the Trace_HullScale record of a lower / upper chain: run-length coded steps and exact cross-product sign tables for
    the triples / spans the chain mentions (x, y: int64)."""
    n = len(x)
    c = np.asarray(chain, dtype=np.int64)
    L = len(c)
    big = 2 ** 30
    lo = int(min(max(int(c.min()), -big), big)) if L else -1
    hi = int(min(max(int(c.max()), -big), big)) if L else -1
    rec = {"id": cid, "kind": "chain", "mode": mode, "outcome": outcome, "n": n, "len": L,
           "first": int(min(max(int(c[0]), -big), big)) if L else -1, "lo": lo, "hi": hi, "steps": [], "turn": [], "edge": []}
    if outcome != "returned" or L < 2 or lo < 0 or hi >= n:
        return rec
    d = np.diff(c)
    rec["steps"] = _rle(d)
    if L >= 3:
        a, b, e = c[:-2], c[1:-1], c[2:]
        rec["turn"] = _rle(np.sign(_cross(x[a], y[a], x[b], y[b], x[e], y[e])))
    if np.all(d > 0):
        k = np.arange(int(c[0]), int(c[-1]) + 1)
        seg = np.minimum(np.searchsorted(c, k, side="right") - 1, L - 2)
        a, b = c[seg], c[seg + 1]
        s = np.sign(_cross(x[a], y[a], x[b], y[b], x[k], y[k]))
        red = np.minimum if mode == "lower" else np.maximum
        rec["edge"] = _rle(red.reduceat(s, c[:-1] - c[0]))
    return rec


def _encode_graham(cid, X, Y, general, outcome, got):
    n = len(X)
    rec = {"id": cid, "kind": "graham", "mode": "graham", "outcome": outcome, "n": n, "got": [], "bnd": [], "ext": [],
           "n_ext": 0, "general": bool(general), "exp": [], "alt": -1}
    if outcome != "returned":
        return rec
    ccw = _exact_planar_hull(X, Y)
    ext = set(ccw)
    hx, hy = X[ccw], Y[ccw]
    jx, jy = np.roll(hx, -1), np.roll(hy, -1)
    big = 2 ** 30
    bnd, exf = [], []
    for g in got:
        if not (0 <= g < n):
            bnd.append(0)
            exf.append(0)
            continue
        px, py = int(X[g]), int(Y[g])
        on = (_cross(hx, hy, jx, jy, px, py) == 0) & (np.minimum(hx, jx) <= px) & (px <= np.maximum(hx, jx)) \
            & (np.minimum(hy, jy) <= py) & (py <= np.maximum(hy, jy))
        bnd.append(int(bool(on.any())))
        exf.append(int(g in ext))
    rec.update(got=[int(min(max(g, -big), big)) for g in got], bnd=bnd, ext=exf, n_ext=len(ext),
               exp=([ccw[0]] + ccw[:0:-1]) if general else [],
               alt=int(np.lexsort((X, Y))[0]))
    return rec


def _scale_input(item):
    """(points array as handed to the library, integer x, integer y, general) of one scale item"""
    cid, kind, shape, n, seed, mode, neg, flip, spacing, dtype = item
    if kind == "chain":
        x, y = _curve(shape, n, seed, neg, flip, spacing)
        general = None
    else:
        x, y, general = _pointset(shape, n, seed)
    P = np.ascontiguousarray(np.column_stack([x, y]))
    if dtype == "i64":
        P = P.astype(np.int64)
    elif dtype == "f64s":
        P = P.astype(float) * 2.0 ** -20
    else:
        P = P.astype(float)
    return P, x, y, general


def _scale_case(item):
    """record one scale item: call the library under the loop budget (quadratic in n: the scans are linear, the index
    recovery of graham_scan quadratic at worst) and reduce the result to the sparse Trace_HullScale record."""
    import kneeliverse.convex_hull as ch
    from harness import monitor
    cid, kind, shape, n, seed, mode, neg, flip, spacing, dtype = item
    P, x, y, general = _scale_input(item)
    fn = {"lower": ch.graham_scan_lower, "upper": ch.graham_scan_upper, "graham": ch.graham_scan}[mode]
    P0 = P.copy()
    out, val, counts = monitor.call(fn, (P,), budget=monitor.quad(len(P), 16), wall=300)
    got = []
    if out == "returned":
        try:
            arr = np.asarray(val)
            if arr.ndim != 1 or (arr.size and arr.dtype.kind not in "iu"):
                out = "returned-not-an-index-array:%s%s" % (arr.dtype, list(arr.shape))
            else:
                got = [int(v) for v in arr.tolist()]
        except Exception as ex:
            out = "returned-not-an-index-array:" + type(ex).__name__
    elif out.startswith("raised"):
        out = out + ":" + str(val)[:120]
    if kind == "chain":
        rec = _encode_chain(cid, mode, x, y, out, got)
        nontrivial = out == "returned" and len(got) < len(x)
    else:
        rec = _encode_graham(cid, x, y, general, out, got)
        nontrivial = out == "returned" and (rec["n_ext"] < len(x) or (general and len(x) >= 4))
    info = {"n": len(x), "len": len(got), "head": got[:6], "tail": got[-6:], "nontrivial": bool(nontrivial),
            "back_edges": int(sum(counts.values())),
            "input_mutated": bool(P.shape != P0.shape or not np.array_equal(P, P0))}
    return rec, info


def _scale_items(ctx):
    from harness import scale
    sizes = scale.sizes(ctx, lo=200, hi=110000, k_quick=8, k_thorough=14)
    items = []
    r = ctx.rng
    for n in sizes:
        for shape in CHAIN_SHAPES:
            for mode in ("lower", "upper"):
                aligned = 1 if mode == "upper" else 0          # the shape's structure faces the hull that is asked for
                # hook / plunge stress the far RIGHT end of the scan: their first variant is never mirrored
                variants = [(aligned, r.randrange(2) if shape not in ("hook", "plunge") else 0,
                             r.choice(("unit", "ragged")), r.choice(CHAIN_DTYPES))]
                if not ctx.quick:
                    variants.append((aligned, 1 - variants[0][1], r.choice(("unit", "ragged")), r.choice(CHAIN_DTYPES)))
                    variants.append((1 - aligned, r.randrange(2), r.choice(("unit", "ragged")), r.choice(CHAIN_DTYPES)))
                elif r.randrange(4) == 0:
                    variants.append((1 - aligned, r.randrange(2), "unit", "f64"))
                for neg, flip, spacing, dtype in variants:
                    items.append(["S%d" % len(items), "chain", shape, n, r.randrange(10 ** 6), mode, neg, flip, spacing, dtype])
    cap = 25000 if ctx.quick else 110000
    for n in sizes:
        for shape in SET_SHAPES:
            m = min(n, cap, SET_CAP.get(shape, (cap, cap))[0 if ctx.quick else 1])
            if m < n and any(it[1] == "graham" and it[2] == shape and it[3] == m for it in items):
                continue                                         # the capped size is already there
            items.append(["S%d" % len(items), "graham", shape, m, r.randrange(10 ** 6), "graham", 0, 0, "unit", r.choice(("f64", "i64"))])
    return sizes, items


_SX = np.array([0, 1, 2, 3, 4], dtype=np.int64)
_SY = np.array([5, 4, 1, 2, 0], dtype=np.int64)
_GX = np.array([0, 2, 2, 0, 1, 1], dtype=np.int64)
_GY = np.array([0, 0, 2, 2, 1, 0], dtype=np.int64)
_HX = np.array([0, 4, 3, 1, 2], dtype=np.int64)       # general position, (2, 2) interior
_HY = np.array([0, 1, 4, 3, 2], dtype=np.int64)


def _scale_selftests():
    """STATIC records (independent of the code under test): the good ones must be accepted, each corrupted one rejected
    with its clause."""
    return [(_encode_chain("s", "lower", _SX, _SY, "returned", [0, 2, 4]), "ok"),
            (_encode_chain("s", "upper", _SX, -_SY, "returned", [0, 2, 4]), "ok"),
            (_encode_chain("s", "lower", _SX, _SY, "returned", [0, 1, 2, 4]), "strict-turns"),
            (_encode_chain("s", "lower", _SX, _SY, "returned", [0, 4]), "chain-is-hull"),
            (_encode_chain("s", "lower", _SX, _SY, "returned", [0, 2, 3]), "chain-endpoints"),
            (_encode_chain("s", "lower", _SX, _SY, "returned", [0, 2, 5]), "chain-endpoints"),
            (_encode_chain("s", "upper", _SX, _SY, "returned", [0, 2, 4]), "strict-turns"),
            (_encode_chain("s", "lower", _SX, _SY, "budget", []), "completes"),
            (_encode_graham("s", _GX, _GY, False, "returned", [0, 3, 2, 1]), "ok"),
            (_encode_graham("s", _GX, _GY, False, "returned", [0, 3, 2, 1, 5]), "ok"),
            (_encode_graham("s", _GX, _GY, False, "returned", [0, 3, 2]), "graham-contains-extremes"),
            (_encode_graham("s", _GX, _GY, False, "returned", [0, 3, 2, 1, 4]), "graham-only-boundary"),
            (_encode_graham("s", _GX, _GY, False, "returned", [0, 3, 2, 1, 1]), "graham-only-boundary"),
            (_encode_graham("s", _HX, _HY, True, "returned", [0, 3, 2, 1]), "ok"),
            (_encode_graham("s", _HX, _HY, True, "returned", [0, 1, 2, 3]), "graham-exact-general-position")]


def _exact_chain_int(x, y, mode):
    """the hull chain of an x-sorted integer curve (python integers: exact at any magnitude)"""
    xs, ys = [int(v) for v in x], [int(v) for v in y]
    sg = 1 if mode == "lower" else -1
    st = []
    for k in range(len(xs)):
        while len(st) >= 2 and sg * _cross(xs[st[-2]], ys[st[-2]], xs[st[-1]], ys[st[-1]], xs[k], ys[k]) <= 0:
            st.pop()
        st.append(k)
    return st


def _scale_detail(item, info, verdict):
    """diagnostics for a rejected scale case (computed from the exact hull here, never part of the verdict; the library
    is not called again)"""
    cid, kind, shape, n, seed, mode, neg, flip, spacing, dtype = item
    d = {"verdict": [str(v)[:200] for v in verdict], "shape": shape, "n": info["n"], "mode": mode,
         "options": {"neg": neg, "flip": flip, "spacing": spacing, "dtype": dtype},
         "got_len": info["len"], "got_head": info["head"], "got_tail": info["tail"]}
    try:
        P, x, y, general = _scale_input(item)
        if kind == "chain":
            exp = _exact_chain_int(x, y, mode)
            d["expected_len"] = len(exp)
            d["expected_head"] = exp[:6]
            d["expected_tail"] = exp[-6:]
        else:
            ccw = _exact_planar_hull(x, y)
            d["n_extreme"] = len(ccw)
            d["extreme_clockwise_head"] = ([ccw[0]] + ccw[:0:-1])[:8]
    except Exception as ex:
        d["diagnostics_failed"] = repr(ex)[:200]
    return d


def _run_scale(ctx):
    import time
    t0 = time.time()
    sizes, items = _scale_items(ctx)
    order = sorted(range(len(items)), key=lambda k: -items[k][3])          # long inputs first: better load balance
    res = par.pmap(_scale_case, [items[k] for k in order], chunksize=1)
    recs = [None] * len(items)
    for k, r in zip(order, res):
        recs[k] = r
    t1 = time.time()
    rej = ctx.trace("Trace_HullScale", [r for r, _ in recs], selftest=_scale_selftests(), chunk=125)
    t2 = time.time()
    by = {it[0]: it for it in items}
    infos = {it[0]: info for it, (_, info) in zip(items, recs)}
    shapes, longest, nbytes, margin = {}, 0, 0, 0.0
    import json
    from harness import monitor
    for it, (rec, info) in zip(items, recs):
        ctx.count(("S", it[1:]), info["nontrivial"])
        key = "%s/%s" % (it[5], it[2])
        shapes[key] = shapes.get(key, 0) + 1
        longest = max(longest, info["len"])
        nbytes += len(json.dumps(rec))
        margin = max(margin, info["back_edges"] / float(monitor.quad(info["n"], 16)))
        if info["input_mutated"]:
            ctx.note("scale: %s modified its argument (n=%d, %s) - owned by C20, not judged here" % (it[5], info["n"], it[2]))
    seen = {}
    for cid, vs in rej.items():
        clause = vs[0][0]
        if clause == "malformed-record":
            from harness.main import Machinery
            raise Machinery("Trace_HullScale: the recorder produced a malformed record for %s: %s" % (by[cid], vs))
        k = (clause, by[cid][5])
        seen[k] = seen.get(k, 0) + 1
        if seen[k] <= 3:
            ctx.violation(clause, {"kind": "S", "scale": by[cid]}, _scale_detail(by[cid], infos[cid], vs[0]))
    ctx.extra["scale"] = {"sizes": sizes, "cases": len(items), "cases_by_mode_shape": shapes, "longest_chain": longest,
                          "json_bytes_to_tlc": nbytes, "largest_fraction_of_loop_budget_used": round(margin, 6),
                          "rejected_by_clause": {"%s/%s" % k: v for k, v in seen.items()},
                          "wall_s": {"replay": round(t1 - t0, 1), "tlc": round(t2 - t1, 1)}}
    big = max(range(len(items)), key=lambda k: (items[k][1] == "chain" and items[k][2] == "valley", items[k][3]))
    ctx.sample({"binding": "T-scale", "item": items[big], "record": recs[big][0]})
    ctx.note("scale: graham-exact-general-position is judged only on the sets that are in general position by construction "
             "(gp, convexpos); for the other large sets general position is not searched for (cubic) and only the "
             "superset / subset clauses are judged")


# ---------------------------------------------------------------------------------------------------------------------
# anisotropic integer family (graham_scan): INTEGER dtype AND a coordinate spread so large along ONE axis that squared
# lengths leave the dtype while every orientation determinant still fits it AND collinear runs through the pivot
# ---------------------------------------------------------------------------------------------------------------------
# Every set satisfies 2 * (x range) * (y range) < iinfo(dtype).max / 4 (asserted in python integers): each difference,
# product and determinant of the orientation test is exact in the array's own integer dtype (and in the harness's int64
# tables).  The long side exceeds sqrt(iinfo.max) by a factor >= 1.5, so squared distances do NOT fit the dtype.
# Collinear runs are lattice multiples t * step (t <= 64 resp. 4n): their distances from the pivot differ by a relative
# 1/(4n) at least - far from any rounding tie of a float norm.  Judged by Trace_HullScale exactly like the scale sets.
ANISO_SHAPES = ("ray", "abox", "fan", "aline", "gptall")
ANISO_LIM = {"m32": 2 ** 31 - 1, "m64": 2 ** 63 - 1}
ANISO_WRAP = {"m32": 46341, "m64": 3037000500}                 # ceil(sqrt(iinfo.max))
ANISO_DTYPES = {"m32": ("i32", "i64", "f64"), "m64": ("i64",)}  # f64 / i64 of an int32-sized set: exact controls
ANISO_NP = {"i32": np.int32, "i64": np.int64, "f64": np.float64}


def _aniso(shape, n, seed, orient, mag):
    """about n DISTINCT integer points (python-int exact, returned as int64 arrays, shuffled) of one of ANISO_SHAPES;
    orient 'tall': y range >> x range, 'wide': x range >> y range.  Returns (X, Y, general)."""
    import math
    import random
    rng = random.Random("aniso/%s/%d/%d/%s/%s" % (shape, n, seed, orient, mag))
    lim, wrap = ANISO_LIM[mag], ANISO_WRAP[mag]
    A = lim // 32
    T = rng.choice((4, 6, 8, 16))
    S = rng.choice((1, 2, 3, 3, 10, 100, 400))
    if shape == "gptall":
        n = min(n, 400 if mag == "m32" else n)
        S = max(2, n - 1)
    s_eff = max(S, T) if shape == "fan" else S
    lo, hi = (3 * wrap) // 2, A // (2 * s_eff)
    assert hi >= lo, (shape, n, mag, S)
    L = int(math.exp(rng.uniform(math.log(lo), math.log(hi))))
    L = max(T, T * (L // T))
    general = False
    pts = []                                 # canonical frame 'tall' unless said otherwise; swapped below for 'wide'
    swap = orient == "wide"
    if shape == "ray":
        # pivot (0, 0); a run of k >= 3 lattice points on the FIRST ray (direction d), everything else strictly clockwise
        if not swap:
            d = (rng.randint(0, S // T), L // T)
        else:
            d = (L // T, rng.randint(0, S // T))
        k = min(T, rng.randint(3, 6))
        pts = [(0, 0)] + [(t * d[0], t * d[1]) for t in rng.sample(range(1, T + 1), k)]
        others = max(3, n - 1 - k)
        for _ in range(4 * others):
            q = (rng.randint(1, S), rng.randint(-L, L)) if not swap else (rng.randint(1, L), rng.randint(-S, S))
            if d[0] * q[1] - q[0] * d[1] < 0 and len(pts) < 1 + k + others:
                pts.append(q)
        swap = False                         # built directly in its orientation
    elif shape == "abox":
        # box S x L: lattice runs on the two long sides, a few points on the short sides, most corners, random interior
        step = L // T
        for cx, cy in ((0, 0), (0, L), (S, 0), (S, L)):
            if rng.random() < 0.75:
                pts.append((cx, cy))
        for sx in (0, S):
            pts += [(sx, t * step) for t in rng.sample(range(1, T), min(T - 1, rng.randint(3, 6)))]
        if S >= 2:
            for sy in (0, L):
                pts += [(x, sy) for x in rng.sample(range(1, S), min(S - 1, rng.randint(1, 5)))]
            pts += [(rng.randint(1, S - 1), rng.randint(1, L - 1)) for _ in range(max(0, n - len(pts)))]
    elif shape == "fan":
        # every point on one of R rays from the pivot (0, 0): runs on the first, the middle and the last ray
        sa = max(1, S // T)
        R = max(3, min(n // 4, 40))
        dirs = set()
        if rng.random() < 0.5:
            dirs.add((0, L // T))
        for _ in range(R):
            dirs.add((rng.randint(1, sa), rng.choice((-1, 1)) * rng.randint(1, L // T)))
        pts = [(0, 0)]
        for d in sorted(dirs):
            pts += [(t * d[0], t * d[1]) for t in rng.sample(range(1, T + 1), min(T, rng.randint(2, 6)))]
    elif shape == "aline":
        # fully collinear set along the long axis (or one lattice step off it for short sets)
        Tn = 4 * n
        a = rng.choice((0, 1)) if n <= 64 else 0
        b = max(1, min(L, A // (2 * max(1, a * Tn))) // Tn)
        ox = rng.randint(0, S)
        pts = [(ox + a * t, b * t) for t in rng.sample(range(0, Tn + 1), n)]
    elif shape == "gptall":
        # (i, c * (i^2 mod p)): no three collinear (a line meets the parabola mod p twice at most; scaling y keeps that)
        p = _next_prime(n)
        c = max(1, L // p)
        pts = [(i, c * ((i * i) % p)) for i in range(n)]
        general = True
    else:
        raise ValueError(shape)
    if swap:
        pts = [(y, x) for x, y in pts]
    mx, my = rng.choice(((1, 1), (1, 1), (1, 1), (-1, 1), (1, -1), (-1, -1)))
    off = (0, 0) if rng.random() < 0.5 else (rng.randint(-(lim // 4), lim // 4), rng.randint(-(lim // 4), lim // 4))
    pts = sorted(set((mx * x + off[0], my * y + off[1]) for x, y in pts))
    rng.shuffle(pts)
    assert len(pts) >= 3, (shape, n, seed, orient, mag)
    xs, ys = [p[0] for p in pts], [p[1] for p in pts]
    xr, yr = max(xs) - min(xs), max(ys) - min(ys)
    # every determinant |t1 - t2| <= 2 xr yr fits the dtype with a 4x margin; so does every coordinate
    assert 2 * xr * yr < lim // 4 and max(map(abs, xs + ys)) < lim // 2, (shape, n, seed, orient, mag, xr, yr)
    return np.array(xs, dtype=np.int64), np.array(ys, dtype=np.int64), general


def _aniso_input(item):
    cid, kind, shape, n, seed, mode, orient, mag, dtype = item
    x, y, general = _aniso(shape, n, seed, orient, mag)
    P = np.ascontiguousarray(np.column_stack([x, y])).astype(ANISO_NP[dtype])
    assert np.array_equal(P.astype(np.int64), np.column_stack([x, y]))
    return P, x, y, general


def _first_ray(x, y):
    """(number of points collinear with the pivot on the first clockwise hull edge, squared length of that edge)"""
    ccw = _exact_planar_hull(x, y)
    xs, ys = x.tolist(), y.tolist()
    p, v = ccw[0], ccw[-1]
    run = sum(1 for k in range(len(xs)) if k != p and _cross(xs[p], ys[p], xs[v], ys[v], xs[k], ys[k]) == 0
              and (xs[k] - xs[p]) * (xs[v] - xs[p]) + (ys[k] - ys[p]) * (ys[v] - ys[p]) > 0)
    return run, (xs[v] - xs[p]) ** 2 + (ys[v] - ys[p]) ** 2


def _aniso_case(item):
    import kneeliverse.convex_hull as ch
    from harness import monitor
    cid, kind, shape, n, seed, mode, orient, mag, dtype = item
    P, x, y, general = _aniso_input(item)
    P0 = P.copy()
    out, val, counts = monitor.call(ch.graham_scan, (P,), budget=monitor.quad(len(P), 16), wall=300)
    got = []
    if out == "returned":
        try:
            arr = np.asarray(val)
            if arr.ndim != 1 or (arr.size and arr.dtype.kind not in "iu"):
                out = "returned-not-an-index-array:%s%s" % (arr.dtype, list(arr.shape))
            else:
                got = [int(v) for v in arr.tolist()]
        except Exception as ex:
            out = "returned-not-an-index-array:" + type(ex).__name__
    elif out.startswith("raised"):
        out = out + ":" + str(val)[:120]
    rec = _encode_graham(cid, x, y, general, out, got)
    run, d2 = _first_ray(x, y)
    info = {"n": len(x), "len": len(got), "head": got[:6], "tail": got[-6:],
            "nontrivial": bool(out == "returned" and (rec["n_ext"] < len(x) or (general and len(x) >= 4))),
            "back_edges": int(sum(counts.values())), "first_ray_run": run,
            "first_ray_overflows": bool(dtype != "f64" and d2 > np.iinfo(ANISO_NP[dtype]).max),
            "xrange": int(x.max() - x.min()), "yrange": int(y.max() - y.min()),
            "input_mutated": bool(P.shape != P0.shape or not np.array_equal(P, P0))}
    return rec, info


def _aniso_items(ctx):
    sizes = [5, 8, 16, 40, 120, 400, 1500] + ([] if ctx.quick else [3000, 6000])
    r = ctx.rng
    items = []
    for n in sizes:
        for shape in ANISO_SHAPES:
            for orient in ("tall", "wide"):
                reps = 1 if ctx.quick else 3
                for _ in range(reps):
                    combos = [("m32", "i32"), ("m64", "i64")]
                    if not ctx.quick or r.randrange(3) == 0:
                        combos.append(("m32", r.choice(("i64", "f64"))))      # same magnitudes, a dtype that holds the squares
                    for mag, dtype in combos:
                        items.append(["A%d" % len(items), "aniso", shape, n, r.randrange(10 ** 6), "graham", orient, mag, dtype])
    return sizes, items


_BX = np.array([0, 0, 0, 0, 300, 500, 400], dtype=np.int64)           # int32-sized: 70000^2 > 2^31, determinants < 2^27
_BY = np.array([0, 40000, 50000, 70000, 60000, 20000, -10000], dtype=np.int64)


def _aniso_selftests():
    return [(_encode_graham("s", _BX, _BY, False, "returned", [0, 1, 3, 4, 5, 6]), "ok"),
            (_encode_graham("s", _BX, _BY, False, "returned", [0, 3, 4, 5, 6]), "ok"),
            (_encode_graham("s", _BX, _BY, False, "returned", [0, 1, 4, 5, 6]), "graham-contains-extremes"),
            (_encode_graham("s", _BX + 2 ** 40, _BY * 60000 - 2 ** 50, False, "returned", [0, 2, 4, 5, 6]), "graham-contains-extremes"),
            (_encode_graham("s", _BX + 2 ** 40, _BY * 60000 - 2 ** 50, False, "returned", [0, 2, 3, 4, 5, 6]), "ok"),
            (_encode_graham("s", _BX, _BY, False, "raised:IndexError", []), "completes")] + _scale_selftests()[8:]


def _aniso_detail(item, info, verdict):
    cid, kind, shape, n, seed, mode, orient, mag, dtype = item
    d = {"verdict": [str(v)[:200] for v in verdict], "shape": shape, "n": info["n"], "mode": mode,
         "options": {"orient": orient, "magnitude": mag, "dtype": dtype},
         "xrange": info["xrange"], "yrange": info["yrange"], "first_ray_run": info["first_ray_run"],
         "first_ray_squared_length_overflows_dtype": info["first_ray_overflows"],
         "got_len": info["len"], "got_head": info["head"], "got_tail": info["tail"]}
    try:
        P, x, y, general = _aniso_input(item)
        ccw = _exact_planar_hull(x, y)
        cw = [ccw[0]] + ccw[:0:-1]
        d["n_extreme"] = len(ccw)
        d["extreme_clockwise_head"] = cw[:8]
        d["extreme_points_head"] = [[int(x[k]), int(y[k])] for k in cw[:8]]
        if info["n"] <= 12:
            d["points"] = [[int(a), int(b)] for a, b in zip(x, y)]
    except Exception as ex:
        d["diagnostics_failed"] = repr(ex)[:200]
    return d


def _run_aniso(ctx):
    import json
    import time
    from harness import monitor
    t0 = time.time()
    sizes, items = _aniso_items(ctx)
    order = sorted(range(len(items)), key=lambda k: -items[k][3])
    res = par.pmap(_aniso_case, [items[k] for k in order], chunksize=1)
    recs = [None] * len(items)
    for k, r in zip(order, res):
        recs[k] = r
    t1 = time.time()
    rej = ctx.trace("Trace_HullScale", [r for r, _ in recs], selftest=_aniso_selftests(), chunk=250)
    t2 = time.time()
    by = {it[0]: it for it in items}
    infos = {it[0]: info for it, (_, info) in zip(items, recs)}
    shapes, nbytes, margin, combo = {}, 0, 0.0, {}
    for it, (rec, info) in zip(items, recs):
        ctx.count(("A", it[1:]), info["nontrivial"])
        key = "%s/%s/%s" % (it[2], it[6], it[8])
        shapes[key] = shapes.get(key, 0) + 1
        nbytes += len(json.dumps(rec))
        margin = max(margin, info["back_edges"] / float(monitor.quad(info["n"], 16)))
        if info["first_ray_run"] >= 3 and info["first_ray_overflows"]:
            combo[it[8]] = combo.get(it[8], 0) + 1
        if info["input_mutated"]:
            ctx.note("anisotropic: graham_scan modified its argument (n=%d, %s) - owned by C20, not judged here" % (info["n"], it[2]))
    if min(combo.get("i32", 0), combo.get("i64", 0)) < 5:
        ctx.note("VACUOUS-FAMILY (what the family was built to reach did not occur in this run; a note, not a failure: see DESIGN 11.8): %s" % (combo,)); ctx.extra.setdefault("family_vacuous", True)
    seen = {}
    for cid, vs in rej.items():
        clause = vs[0][0]
        if clause == "malformed-record":
            from harness.main import Machinery
            raise Machinery("Trace_HullScale: the recorder produced a malformed record for %s: %s" % (by[cid], vs))
        k = (clause, by[cid][8])
        seen[k] = seen.get(k, 0) + 1
        if seen[k] <= 3:
            ctx.violation(clause, {"kind": "A", "aniso": by[cid]}, _aniso_detail(by[cid], infos[cid], vs[0]))
    ctx.extra["anisotropic"] = {"sizes": sizes, "cases": len(items), "cases_by_shape_orient_dtype": shapes,
                                "sets_with_overflowing_first_ray_run_of_3_or_more": combo,
                                "json_bytes_to_tlc": nbytes, "largest_fraction_of_loop_budget_used": round(margin, 6),
                                "rejected_by_clause": {"%s/%s" % k: v for k, v in seen.items()},
                                "wall_s": {"replay": round(t1 - t0, 1), "tlc": round(t2 - t1, 1)}}
    big = next(k for k in range(len(items)) if items[k][2] == "ray" and items[k][8] == "i32" and infos[items[k][0]]["n"] <= 16)
    ctx.sample({"binding": "T-anisotropic", "item": items[big], "record": recs[big][0],
                "points": _aniso_input(items[big])[0].tolist()})


def run(ctx):
    ctx.rule = ("TLC enumerates every grid curve (n<=NMax, y in 0..YMax, 3 spacing patterns) for the lower/upper "
                "chains and every SetMin..SetMax-point subset of the grid for graham_scan, checks the machines against "
                "the brute-force hull and emits each behaviour for replay.  non-trivial: chain drops at least one point, "
                "or the point set has a non-extreme point / is in general position with >= 4 points.  "
                "scale family: x-sorted integer curves of 10 shapes (valley, convex, collinear runs, hook / plunge at the far "
                "right end, noise ...) and point sets of 5 shapes (general position, box with collinear sides, disc, convex "
                "position, fully collinear) with 200 .. 110000 points (sizes straddling 2^8 .. 2^16, 10^4, 10^5), float64 / "
                "int64 / 2^-20-scaled, are replayed into the three routines under a quadratic loop budget; Trace_HullScale "
                "judges the same clauses from sparse exact cross-product sign tables (run-length coded).  "
                "anisotropic family: integer point sets (int32 and int64 arrays, plus int64 / float64 controls of the int32-sized "
                "sets) of 5 shapes (a collinear lattice run on the first ray from the pivot, box with runs on its sides, fan of rays, "
                "fully collinear, general position) with 5 .. 1500 (thorough 6000) points whose long axis (y for 'tall', x for "
                "'wide') exceeds sqrt(iinfo.max) while 2*(x range)*(y range) < iinfo.max/4, mirrored / translated / shuffled, are "
                "replayed into graham_scan and judged by Trace_HullScale against the exact python-integer hull")
    ctx.assumptions += ["coordinates are small integers, so the orientation predicate is exact in binary64",
                        "graham_scan start vertex: lexicographic (x,y) minimum as in the code; a rotation starting at the (y,x) minimum is tolerated",
                        "every behaviour is also replayed scaled by 2^-20 and by 2^20 (+3*2^20 translation): exact in binary64, same hull",
                        "scale family: integer coordinates with (x range)*(y range) < 2^52, so every orientation test is exact in "
                        "binary64 and in int64 at any size: no tolerance, the exact hull is demanded; the sign tables sent to TLC are "
                        "computed in int64 / python integers by the harness (trusted, like the recorder)",
                        "anisotropic family: every difference, product and determinant of the orientation test fits the array's "
                        "integer dtype with a 4x margin (asserted per set in python integers), squared lengths do not; collinear runs "
                        "are lattice multiples, so their distances from the pivot differ by a relative 1/(4n) at least (no float tie)"]
    ctx.mc("Hull", "MC_Hull_unguarded", expect="NoUnderflow")
    ctx.mc("Hull", "MC_Hull_small", need_actions=("ChainPop", "ChainPush", "GrahamSort", "GrahamPop", "GrahamPush", "Return"))
    beh = ctx.gen("Hull", "Gen_Hull_quick" if ctx.quick else "Gen_Hull_thorough", timeout=3000)
    if not ctx.quick:
        ctx.mc("Hull", "MC_Hull", need_actions=("ChainPop", "ChainPush", "GrahamSort", "GrahamPop", "GrahamPush", "Return"))
    ctx.exhaustive = True
    res = par.pmap(_replay_line, beh)
    seen = {}
    for b, bad in zip(beh, res):
        if b["mode"] == "graham":
            nt = len(b["extreme"]) < len(b["pts"]) or (b["general"] and len(b["pts"]) >= 4)
        else:
            nt = len(b["result"]) < len(b["pts"])
        ctx.count(("G", b["mode"], b["pts"]), nt)
        for clause, detail in bad:
            k = (clause, b["mode"])
            seen[k] = seen.get(k, 0) + 1
            if seen[k] <= 2:
                ctx.violation(clause, {"kind": "G", "behaviour": b}, detail)
    ctx.extra["violating_behaviours_by_clause"] = {"%s/%s" % k: v for k, v in seen.items()}
    ctx.traces += len(beh)
    # ---- T: long curves
    longs = [("L%d" % k, ctx.seed * 13 + k, n, mode, dt) for k, (n, mode, dt) in enumerate(
        [(300, "lower", "float64"), (300, "upper", "int64"), (800, "lower", "int64"), (800, "upper", "float64"),
         (301, "lower", "float64"), (302, "upper", "float64")] + ([] if ctx.quick else [(2000, "lower", "float64"), (2000, "upper", "int64")]))]
    rec = [_record_long(it) for it in longs]
    bad1 = dict(STATIC_LONG, chain=[0, 1, 2, 4])
    bad2 = dict(STATIC_LONG, chain=[0, 4])
    rej = ctx.trace("Trace_Hull", [c for c, _ in rec], selftest=[(STATIC_LONG, "ok"), (bad1, "strict-turns"), (bad2, "chain-is-hull")], chunk=4)
    metaL = {c["id"]: m for c, m in rec}
    for c, _ in rec:
        ctx.count(("T", c["mode"], len(c["pts"]), c["chain"][:5]), len(c["chain"]) < len(c["pts"]))
    for cid, vs in rej.items():
        ctx.violation(vs[0][0], {"kind": "Tlong", "long": metaL[cid]["long"]}, {"verdict": [str(v)[:200] for v in vs[0]]})
    ctx.sample({"binding": "G", "behaviour": next(b for b in beh if b["mode"] == "lower" and len(b["pts"]) == 5 and len(b["result"]) == 3)})
    ctx.sample({"binding": "G", "behaviour": next(b for b in beh if b["mode"] == "graham" and len(b["pts"]) == 5 and not b["general"])})
    # ---- T: production-size inputs
    _run_scale(ctx)
    # ---- T: anisotropic integer point sets (integer dtype x magnitude beyond sqrt(iinfo.max) x collinear runs)
    _run_aniso(ctx)


def replay(ctx, obj):
    if obj["case"].get("kind") == "S":
        item = list(obj["case"]["scale"])
        rec, info = _scale_case(item)
        rej = ctx.trace("Trace_HullScale", [rec])
        for cid, vs in rej.items():
            ctx.violation(vs[0][0], obj["case"], _scale_detail(item, info, vs[0]))
        return
    if obj["case"].get("kind") == "A":
        item = list(obj["case"]["aniso"])
        rec, info = _aniso_case(item)
        rej = ctx.trace("Trace_HullScale", [rec])
        for cid, vs in rej.items():
            ctx.violation(vs[0][0], obj["case"], _aniso_detail(item, info, vs[0]))
        return
    if obj["case"].get("kind") == "Tlong":
        c, m = _record_long(tuple(obj["case"]["long"]))
        rej = ctx.trace("Trace_Hull", [c])
        for cid, vs in rej.items():
            ctx.violation(vs[0][0], obj["case"], {"verdict": [str(v)[:200] for v in vs[0]]})
        return
    for clause, detail in _replay_line(obj["case"]["behaviour"]):
        ctx.violation(clause, obj["case"], detail)
