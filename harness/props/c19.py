"""C19 - knee-evaluation scores obey their accounting identities.
M: Evaluation.tla - the greedy confusion-matrix machine Cm checked against the accounting identities, the
   declarative greedy count and a brute-force maximum matching; nearest-neighbour errors (4 strategies) and the
   scores as exact rationals with their range / perfect-detection laws.  Negative instances: claiming a knee
   twice and fp without the subtraction must violate CmIdentities.
G: the same module with Emit=TRUE enumerates curves x = 0..n-1 (n-1 a power of two), knee subsets, expected
   point sequences (|K|+|E| <= n), dyadic tolerances; every behaviour is replayed into evaluation.cm / accuracy /
   f1score / mcc and evaluation.mae / mse / rmse / rmspe x 4 strategies."""
import math
from fractions import Fraction as Fr

import numpy as np

from harness import growth, numeric, par

STRATS = ("knees", "expected", "best", "worst")
EPS = 1e-16                      # evaluation.rmspe's default eps


def _close(a, b):
    return numeric.close(a, b, rel=numeric.VAL_REL, ab=numeric.VAL_ABS)


def _heights(n):
    return (np.arange(n) * 3 % 4).astype(float)


def _replay_cm(b):
    import kneeliverse.evaluation as ev
    bad, drift = [], []
    n = b["n"]
    P = np.column_stack([np.arange(n, dtype=float), _heights(n)])
    K = np.array(b["knees"], dtype=int)
    E = np.array([[float(x), float((5 * i + 1) % 3)] for i, x in enumerate(b["ex"])])
    t = b["tnum"] / b["tden"]
    exp = [list(r) for r in b["cm"]]
    # the confusion matrix depends on x only: the same case with heights far outside the x range must give the same matrix
    P2 = P.copy(); P2[:, 1] = P2[:, 1] * 250.0 + 1000.0
    E2 = E.copy(); E2[:, 1] = E2[:, 1] * 250.0 + 1000.0
    gots = []
    for Pv, Ev in ((P, E), (P2, E2)):
        try:
            g = np.asarray(ev.cm(Pv, K, Ev, t))
            gots.append([[int(v) for v in row] for row in g.tolist()])
        except Exception as ex:
            gots.append(None)
            bad.append(("returns", {"fn": "cm", "raised": repr(ex)[:200]}))
    got = gots[0]
    if got is not None and gots[1] is not None and gots[1] != exp:
        got = gots[1]
    if got is not None:
        (tp, fp), (fn, tn) = got
        ident = tp + fn == len(E) and tp + fp == len(K) and tp + fp + fn + tn == n and min(tp, fp, fn, tn) >= 0
        if not ident:
            bad.append(("cm-identities", {"got": got, "K": len(K), "E": len(E), "n": n, "expected": exp}))
        elif tp > b["maxmatch"] or got != exp:
            bad.append(("cm-greedy-count", {"got": got, "expected": exp, "max_matching": b["maxmatch"]}))
    # scores, on the matrix the specification determines
    M = np.array(exp)
    (tp, fp), (fn, tn) = exp
    perfect = fp == 0 and fn == 0
    preds = {"accuracy": b["acc"][0] / b["acc"][1], "f1score": b["f1"][0] / b["f1"][1]}
    fns = {"accuracy": ev.accuracy, "f1score": ev.f1score}
    if b["mccden2"] > 0:                    # MCC is only specified where its denominator is non-zero
        preds["mcc"] = b["mccnum"] / math.sqrt(b["mccden2"])
        fns["mcc"] = ev.mcc
    for name, f in fns.items():
        try:
            v = float(f(M))
        except Exception as ex:
            bad.append(("returns", {"fn": name, "cm": exp, "raised": repr(ex)[:200]}))
            continue
        lo = -1.0 if name == "mcc" else 0.0
        if not (lo - 1e-12 <= v <= 1.0 + 1e-12):
            bad.append(("score-range", {"fn": name, "cm": exp, "got": v}))
        elif perfect and not _close(v, 1.0):
            bad.append(("score-perfect", {"fn": name, "cm": exp, "got": v}))
        elif not _close(v, preds[name]):
            drift.append({"fn": name, "cm": exp, "got": v, "specified": preds[name]})
    return bad, drift


def _rmspe_def(a, bpts, match, eps=None):
    """sqrt(mean(((p - b) / (p + eps))^2)) over both coordinates, exactly over Fractions, sqrt last."""
    eps = Fr(EPS) if eps is None else Fr(eps)
    tot = Fr(0)
    for p, m in zip(a, match):
        q = bpts[m]
        for c in (0, 1):
            tot += ((Fr(p[c]) - Fr(q[c])) / (Fr(p[c]) + eps)) ** 2
    mean = tot / (2 * len(a))
    return _sqrt_fr(mean)


def _sqrt_fr(q):
    """sqrt of a non-negative Fraction: int/int true division is correctly rounded for any size, sqrt last."""
    return math.sqrt(q.numerator / q.denominator)


def _replay_err(b):
    import kneeliverse.evaluation as ev
    bad = []
    n = b["n"]
    P = np.column_stack([np.arange(n, dtype=float), np.array(b["ys"], dtype=float)])
    K = np.array(b["knees"], dtype=int)
    E = np.array(b["expected"], dtype=float)
    kp = [(k, b["ys"][k]) for k in b["knees"]]
    ep = [tuple(p) for p in b["expected"]]
    for s in STRATS:
        st = b["strat"][s]
        a, bp = (kp, ep) if st["side"] == "knees" else (ep, kp)
        want = {"mae": st["mae"][0] / st["mae"][1], "mse": st["mse"][0] / st["mse"][1],
                "rmse": math.sqrt(st["mse"][0] / st["mse"][1]), "rmspe": _rmspe_def(a, bp, st["match"])}
        got = {}
        for name in ("mae", "mse", "rmse", "rmspe"):
            try:
                got[name] = float(getattr(ev, name)(P, K, E, ev.Strategy[s]))
            except Exception as ex:
                bad.append(("returns", {"fn": name, "strategy": s, "raised": repr(ex)[:200]}))
        for name, v in got.items():
            if not (v >= 0.0):
                bad.append(("error-nonnegative", {"fn": name, "strategy": s, "got": v}))
            elif b["perfect"] and abs(v) > numeric.VAL_ABS:
                bad.append(("zero-on-perfect", {"fn": name, "strategy": s, "got": v}))
            elif not _close(v, want[name]):
                bad.append(("error-definition(%s,%s)" % (name, s),
                            {"got": v, "specified": want[name], "iterated_side": st["side"], "matching": st["match"]}))
        if "rmse" in got and "mse" in got and got["mse"] >= 0 and not numeric.close(got["rmse"], math.sqrt(got["mse"]), rel=1e-12):
            bad.append(("rmse-is-sqrt-mse", {"strategy": s, "rmse": got["rmse"], "mse": got["mse"]}))
    # the same curve translated below zero in y (by an integer, exact): nearest-neighbour matching, MAE and MSE are translation
    # invariant, RMSPE is recomputed from its definition on the translated coordinates (negative denominators included)
    dy = -(int(max(b["ys"])) + 3)
    P2 = P + np.array([0.0, float(dy)])
    E2 = E + np.array([0.0, float(dy)])
    kp2 = [(k, b["ys"][k] + dy) for k in b["knees"]]
    ep2 = [(q[0], q[1] + dy) for q in b["expected"]]
    for s in STRATS:
        st = b["strat"][s]
        a2, bp2 = (kp2, ep2) if st["side"] == "knees" else (ep2, kp2)
        try:
            got2 = {name: float(getattr(ev, name)(P2, K, E2, ev.Strategy[s])) for name in ("mae", "mse", "rmspe")}
        except Exception as ex:
            bad.append(("returns", {"fn": "mae/mse/rmspe", "strategy": s, "y_translated_by": dy, "raised": repr(ex)[:200]}))
            continue
        want2 = {"mae": st["mae"][0] / st["mae"][1], "mse": st["mse"][0] / st["mse"][1], "rmspe": _rmspe_def(a2, bp2, st["match"])}
        for name, v in got2.items():
            if not _close(v, want2[name]):
                bad.append(("error-definition(%s,%s)" % (name, s), {"got": v, "specified": want2[name], "y_translated_by": dy}))
    # the optional eps of rmspe at a non-default, exactly representable value
    for s in STRATS:
        st = b["strat"][s]
        a, bp = (kp, ep) if st["side"] == "knees" else (ep, kp)
        try:
            g = float(ev.rmspe(P, K, E, ev.Strategy[s], 0.25))
            w = _rmspe_def(a, bp, st["match"], 0.25)
            if not _close(g, w):
                bad.append(("error-definition(rmspe,%s)" % s, {"got": g, "specified": w, "eps": 0.25}))
        except Exception as ex:
            bad.append(("returns", {"fn": "rmspe", "strategy": s, "eps": 0.25, "raised": repr(ex)[:200]}))
    # the same identity through the DEFAULT strategy (whatever it is): a call without the optional argument is a valid call
    try:
        r0, m0 = float(ev.rmse(P, K, E)), float(ev.mse(P, K, E))
        if m0 >= 0 and not numeric.close(r0, math.sqrt(m0), rel=1e-12):
            bad.append(("rmse-is-sqrt-mse", {"strategy": "<default>", "rmse": r0, "mse": m0}))
    except Exception as ex:
        bad.append(("returns", {"fn": "rmse/mse", "strategy": "<default>", "raised": repr(ex)[:200]}))
    return bad, []


def _replay_line(b):
    return _replay_cm(b) if b["kind"] == "cm" else _replay_err(b)


def _record_big(item):
    """T: a larger confusion-matrix case than the generator enumerates (K as 1-based positions for the spec)."""
    import random
    import kneeliverse.evaluation as ev
    cid, seed = item
    rng = random.Random(seed)
    n = rng.choice([33, 65, 129, 257])
    P = np.column_stack([np.arange(n, dtype=float), np.array([rng.random() * 500 for _ in range(n)])])
    nk = rng.randint(2, min(30, n // 3))
    K = sorted(rng.sample(range(n), nk))
    ne = rng.randint(2, min(40, n - nk))
    ex = [rng.choice(K) + rng.choice([0, 0, 1, -1, 2, 3, -4]) if rng.random() < 0.7 else rng.randrange(n) for _ in range(ne)]
    ex = [min(max(v, 0), n - 1) for v in ex]
    E = np.array([[float(v), rng.random() * 500] for v in ex])
    tn, td = rng.choice([(0, 1), (1, 64), (1, 32), (1, 16), (1, 8), (3, 64)])
    try:
        m = ev.cm(P, np.array(K), E, tn / td)
        out, cm = "returned", [[int(v) for v in row] for row in np.asarray(m).tolist()]
    except Exception as exn:
        out, cm = "raised:" + type(exn).__name__, [[0, 0], [0, 0]]
    return {"id": cid, "outcome": out, "n": n, "K": [k + 1 for k in K], "E": [[int(v), 0] for v in ex], "t": [tn, td], "cm": cm}, {"big": [cid, seed]}


STATIC_BIG = {"id": "s", "outcome": "returned", "n": 9, "K": [3, 8], "E": [[2, 0], [7, 0], [3, 0]], "t": [1, 8],
              "cm": [[2, 0], [1, 6]]}


def run(ctx):
    ctx.rule = ("TLC enumerates (Evaluation.tla) kind cm: curves x=0..n-1, every knee index subset, every expected x "
                "sequence with |K|+|E| <= n (bounded length), t in {0,1/8,1/4,1/2,1}; kind err: every height vector in "
                "0..2 for n=3 and three shapes for n=5, knee subsets, expected point sequences on and off the curve; each "
                "behaviour is replayed into cm/accuracy/f1score/mcc resp. mae/mse/rmse/rmspe x 4 strategies.  non-trivial: "
                "cm with a possible match and at least one miss or false positive; err with a non-zero error")
    ctx.assumptions += numeric.ASSUMPTIONS + [
        "n-1 is a power of two and t dyadic, so distance/range <= t is decided exactly in binary64",
        "nearest knee / nearest neighbour ties: first index (numpy argmin)",
        "rmspe: the matching comes from TLC, the value sqrt(mean(((p-b)/(p+eps))^2)) with eps = 1e-16 is evaluated by the "
        "harness exactly over fractions.Fraction, sqrt last",
        "accuracy/f1score/mcc are judged on range and perfect detection (what the property states); a value that differs "
        "from the textbook formula but obeys those laws is recorded as DRIFT, not as a violation",
        "MCC is not judged where its denominator is zero"]
    acts = ("CmClaim", "CmMiss", "CmReturn", "ErrReturn")
    ctx.mc("Evaluation", "MC_Evaluation_reclaim", expect="CmIdentities")
    ctx.mc("Evaluation", "MC_Evaluation_fpraw", expect="CmIdentities")
    ctx.mc("Evaluation", "MC_Evaluation_small" if ctx.quick else "MC_Evaluation", need_actions=acts)
    beh = ctx.gen("Evaluation", "Gen_Evaluation_quick" if ctx.quick else "Gen_Evaluation_thorough", timeout=3000)
    ctx.exhaustive = True
    res = par.pmap(_replay_line, beh)
    seen, drifts = {}, 0
    for b, (bad, drift) in zip(beh, res):
        if b["kind"] == "cm":
            (tp, fp), (fn, tn) = b["cm"]
            ctx.count(("cm", b["n"], b["knees"], b["ex"], b["tnum"], b["tden"]), b["maxmatch"] >= 1 and fp + fn >= 1)
        else:
            ctx.count(("err", b["ys"], b["knees"], b["expected"]), any(b["strat"][s]["mse"][0] > 0 for s in STRATS))
        for clause, detail in bad:
            seen[clause] = seen.get(clause, 0) + 1
            if seen[clause] <= 2:
                ctx.violation(clause, {"kind": "G", "behaviour": b}, detail)
        for d in drift:
            drifts += 1
            if drifts <= 5:
                print("DRIFT property=C19 %s" % d)
                ctx.note("DRIFT: %s" % d)
    ctx.extra["violating_behaviours_by_clause"] = dict(seen)
    ctx.extra["drift_observations"] = drifts
    ctx.traces += len(beh)
    # ---- T: larger confusion-matrix cases judged by GreedyTP
    import copy
    rec = par.pmap(_record_big, [("B%d" % k, ctx.seed * 977 + k) for k in range(300 if ctx.quick else 3000)])
    b1 = copy.deepcopy(STATIC_BIG); b1["cm"] = [[3, 0], [0, 6]]
    b2 = copy.deepcopy(STATIC_BIG); b2["cm"] = [[1, 1], [2, 5]]
    _validate_big(ctx, [c for c, _ in rec], {c["id"]: m for c, m in rec},
                  selftest=[(STATIC_BIG, "ok"), (b1, "cm-identities"), (b2, "cm-greedy-count")])
    for c, _ in rec:
        ctx.count(("big", c["n"], c["K"], c["E"], c["t"]), c["cm"][0][0] >= 1 and c["cm"][1][0] >= 1)
    # ---- long curves: the scores of the matrix that cm() ITSELF returns (its element type included) stay in range
    import kneeliverse.evaluation as ev2
    import random as _rnd
    rngL = _rnd.Random(ctx.seed + 919)
    for n in ((6000, 20000) if ctx.quick else (6000, 20000, 60000, 200000)):
        P = np.column_stack([np.arange(n, dtype=float), 1000.0 / (1.0 + np.arange(n, dtype=float))])
        K = np.array(sorted(rngL.sample(range(1, n - 1), 12)))
        for perfect in (True, False):
            E = P[K] if perfect else P[np.array(sorted(rngL.sample(range(1, n - 1), 9)))]
            case = {"kind": "long", "n": n, "knees": K.tolist(), "expected_idx": [int(v) for v in E[:, 0]], "perfect": perfect}
            try:
                m = ev2.cm(P, K, E, 0.01)
                sc = {"accuracy": float(ev2.accuracy(m)), "f1score": float(ev2.f1score(m)), "mcc": float(ev2.mcc(m))}
            except Exception as ex:
                ctx.violation("returns", case, {"raised": repr(ex)[:200]})
                continue
            ctx.count(("long", n, perfect), True)
            lo = {"accuracy": 0.0, "f1score": 0.0, "mcc": -1.0}
            for name, v in sc.items():
                if not (lo[name] - 1e-12 <= v <= 1.0 + 1e-12):
                    ctx.violation("score-range", case, {"fn": name, "got": v, "cm": np.asarray(m).tolist()})
                elif perfect and abs(v - 1.0) > 1e-12:
                    ctx.violation("one-on-perfect", case, {"fn": name, "got": v, "cm": np.asarray(m).tolist()})
    # ---- growth beyond C19: the R2 neighbourhood searches of evaluation.py (notes only)
    growth.safe(ctx, growth.neighbourhood)
    growth.safe(ctx, growth.accuracy_knee_t)
    for pick in (lambda b: b["kind"] == "cm" and b["n"] == 5 and len(b["ex"]) == 3 and b["cm"][0][0] == 1 and b["maxmatch"] == 2,
                 lambda b: b["kind"] == "err" and b["n"] == 5 and len(b["knees"]) == 3 and len(b["expected"]) == 2
                 and b["strat"]["best"]["mae"] != b["strat"]["worst"]["mae"]):
        s = next((b for b in beh if pick(b)), None)
        if s is not None:
            ctx.sample({"binding": "G", "behaviour": s})


def _validate_big(ctx, cases, meta, selftest=None):
    rej = ctx.trace("Trace_Evaluation", cases, selftest=selftest, chunk=200)
    for cid, vs in rej.items():
        ctx.violation(vs[0][0], {"kind": "Tbig", "big": meta[cid]["big"]}, {"verdict": [str(v)[:200] for v in vs[0]]})


def _replay_long(ctx, c):
    import kneeliverse.evaluation as ev2
    n = c["n"]
    P = np.column_stack([np.arange(n, dtype=float), 1000.0 / (1.0 + np.arange(n, dtype=float))])
    K = np.array(c["knees"])
    E = P[np.array(c["expected_idx"])]
    try:
        m = ev2.cm(P, K, E, 0.01)
        sc = {"accuracy": float(ev2.accuracy(m)), "f1score": float(ev2.f1score(m)), "mcc": float(ev2.mcc(m))}
    except Exception as ex:
        ctx.violation("returns", c, {"raised": repr(ex)[:200]})
        return
    lo = {"accuracy": 0.0, "f1score": 0.0, "mcc": -1.0}
    for name, v in sc.items():
        if not (lo[name] - 1e-12 <= v <= 1.0 + 1e-12):
            ctx.violation("score-range", c, {"fn": name, "got": v})
        elif c["perfect"] and abs(v - 1.0) > 1e-12:
            ctx.violation("one-on-perfect", c, {"fn": name, "got": v})


def replay(ctx, obj):
    if obj["case"].get("kind") == "long":
        _replay_long(ctx, obj["case"])
        return
    if obj["case"].get("kind") == "Tbig":
        c, m = _record_big(tuple(obj["case"]["big"]))
        _validate_big(ctx, [c], {c["id"]: m})
        return
    bad, drift = _replay_line(obj["case"]["behaviour"])
    for clause, detail in bad:
        ctx.violation(clause, obj["case"], detail)
    for d in drift:
        print("DRIFT property=C19 %s" % d)
