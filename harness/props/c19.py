"""C19 - knee-evaluation scores obey their accounting identities.
M: Evaluation.tla - the greedy confusion-matrix machine Cm checked against the accounting identities, the
   declarative greedy count and a brute-force maximum matching; nearest-neighbour errors (4 strategies) and the
   scores as exact rationals with their range / perfect-detection laws.  Negative instances: claiming a knee
   twice and fp without the subtraction must violate CmIdentities.
G: the same module with Emit=TRUE enumerates curves x = 0..n-1 (n-1 a power of two), knee subsets, expected
   point sequences (|K|+|E| <= n), dyadic tolerances; every behaviour is replayed into evaluation.cm / accuracy /
   f1score / mcc and evaluation.mae / mse / rmse / rmspe x 4 strategies.
T: Trace_Evaluation (confusion matrices of a few hundred points, GreedyTP) and Trace_EvaluationScale (the "scale" family:
   production-size calls - 10^3 .. 10^5 points, 257 .. 70000 knees / expected points - with sparse, TLC-certified tables;
   it includes non-monotone large-amplitude waves with a few points on the iterated side covering part of the x range)."""
import math
from fractions import Fraction as Fr

import numpy as np

from harness import growth, monitor, numeric, par, scale

STRATS = ("knees", "expected", "best", "worst")
EPS = 1e-16                      # evaluation.rmspe's default eps


def _close(a, b):
    return numeric.close(a, b, rel=numeric.VAL_REL, ab=numeric.VAL_ABS)


def _heights(n):
    return (np.arange(n) * 3 % 4).astype(float)


def _replay_cm(b):
    import kneeliverse.evaluation as ev
    bad, drift = [], []
    n = b["n"]
    P = np.column_stack([np.arange(n, dtype=float), _heights(n)])
    K = np.array(b["knees"], dtype=int)
    E = np.array([[float(x), float((5 * i + 1) % 3)] for i, x in enumerate(b["ex"])])
    t = b["tnum"] / b["tden"]
    exp = [list(r) for r in b["cm"]]
    # the confusion matrix depends on x only: the same case with heights far outside the x range must give the same matrix
    P2 = P.copy(); P2[:, 1] = P2[:, 1] * 250.0 + 1000.0
    E2 = E.copy(); E2[:, 1] = E2[:, 1] * 250.0 + 1000.0
    gots = []
    for Pv, Ev in ((P, E), (P2, E2)):
        try:
            g = np.asarray(ev.cm(Pv, K, Ev, t))
            gots.append([[int(v) for v in row] for row in g.tolist()])
        except Exception as ex:
            gots.append(None)
            bad.append(("returns", {"fn": "cm", "raised": repr(ex)[:200]}))
    got = gots[0]
    if got is not None and gots[1] is not None and gots[1] != exp:
        got = gots[1]
    if got is not None:
        (tp, fp), (fn, tn) = got
        ident = tp + fn == len(E) and tp + fp == len(K) and tp + fp + fn + tn == n and min(tp, fp, fn, tn) >= 0
        if not ident:
            bad.append(("cm-identities", {"got": got, "K": len(K), "E": len(E), "n": n, "expected": exp}))
        elif tp > b["maxmatch"] or got != exp:
            bad.append(("cm-greedy-count", {"got": got, "expected": exp, "max_matching": b["maxmatch"]}))
    # scores, on the matrix the specification determines
    M = np.array(exp)
    (tp, fp), (fn, tn) = exp
    perfect = fp == 0 and fn == 0
    preds = {"accuracy": b["acc"][0] / b["acc"][1], "f1score": b["f1"][0] / b["f1"][1]}
    fns = {"accuracy": ev.accuracy, "f1score": ev.f1score}
    if b["mccden2"] > 0:                    # MCC is only specified where its denominator is non-zero
        preds["mcc"] = b["mccnum"] / math.sqrt(b["mccden2"])
        fns["mcc"] = ev.mcc
    for name, f in fns.items():
        try:
            v = float(f(M))
        except Exception as ex:
            bad.append(("returns", {"fn": name, "cm": exp, "raised": repr(ex)[:200]}))
            continue
        lo = -1.0 if name == "mcc" else 0.0
        if not (lo - 1e-12 <= v <= 1.0 + 1e-12):
            bad.append(("score-range", {"fn": name, "cm": exp, "got": v}))
        elif perfect and not _close(v, 1.0):
            bad.append(("score-perfect", {"fn": name, "cm": exp, "got": v}))
        elif not _close(v, preds[name]):
            drift.append({"fn": name, "cm": exp, "got": v, "specified": preds[name]})
    return bad, drift


def _rmspe_def(a, bpts, match, eps=None):
    """sqrt(mean(((p - b) / (p + eps))^2)) over both coordinates, exactly over Fractions, sqrt last."""
    eps = Fr(EPS) if eps is None else Fr(eps)
    tot = Fr(0)
    for p, m in zip(a, match):
        q = bpts[m]
        for c in (0, 1):
            tot += ((Fr(p[c]) - Fr(q[c])) / (Fr(p[c]) + eps)) ** 2
    mean = tot / (2 * len(a))
    return _sqrt_fr(mean)


def _sqrt_fr(q):
    """sqrt of a non-negative Fraction: int/int true division is correctly rounded for any size, sqrt last."""
    return math.sqrt(q.numerator / q.denominator)


def _replay_err(b):
    import kneeliverse.evaluation as ev
    bad = []
    n = b["n"]
    P = np.column_stack([np.arange(n, dtype=float), np.array(b["ys"], dtype=float)])
    K = np.array(b["knees"], dtype=int)
    E = np.array(b["expected"], dtype=float)
    kp = [(k, b["ys"][k]) for k in b["knees"]]
    ep = [tuple(p) for p in b["expected"]]
    for s in STRATS:
        st = b["strat"][s]
        a, bp = (kp, ep) if st["side"] == "knees" else (ep, kp)
        want = {"mae": st["mae"][0] / st["mae"][1], "mse": st["mse"][0] / st["mse"][1],
                "rmse": math.sqrt(st["mse"][0] / st["mse"][1]), "rmspe": _rmspe_def(a, bp, st["match"])}
        got = {}
        for name in ("mae", "mse", "rmse", "rmspe"):
            try:
                got[name] = float(getattr(ev, name)(P, K, E, ev.Strategy[s]))
            except Exception as ex:
                bad.append(("returns", {"fn": name, "strategy": s, "raised": repr(ex)[:200]}))
        for name, v in got.items():
            if not (v >= 0.0):
                bad.append(("error-nonnegative", {"fn": name, "strategy": s, "got": v}))
            elif b["perfect"] and abs(v) > numeric.VAL_ABS:
                bad.append(("zero-on-perfect", {"fn": name, "strategy": s, "got": v}))
            elif not _close(v, want[name]):
                bad.append(("error-definition(%s,%s)" % (name, s),
                            {"got": v, "specified": want[name], "iterated_side": st["side"], "matching": st["match"]}))
        if "rmse" in got and "mse" in got and got["mse"] >= 0 and not numeric.close(got["rmse"], math.sqrt(got["mse"]), rel=1e-12):
            bad.append(("rmse-is-sqrt-mse", {"strategy": s, "rmse": got["rmse"], "mse": got["mse"]}))
    # the same curve translated below zero in y (by an integer, exact): nearest-neighbour matching, MAE and MSE are translation
    # invariant, RMSPE is recomputed from its definition on the translated coordinates (negative denominators included)
    dy = -(int(max(b["ys"])) + 3)
    P2 = P + np.array([0.0, float(dy)])
    E2 = E + np.array([0.0, float(dy)])
    kp2 = [(k, b["ys"][k] + dy) for k in b["knees"]]
    ep2 = [(q[0], q[1] + dy) for q in b["expected"]]
    for s in STRATS:
        st = b["strat"][s]
        a2, bp2 = (kp2, ep2) if st["side"] == "knees" else (ep2, kp2)
        try:
            got2 = {name: float(getattr(ev, name)(P2, K, E2, ev.Strategy[s])) for name in ("mae", "mse", "rmspe")}
        except Exception as ex:
            bad.append(("returns", {"fn": "mae/mse/rmspe", "strategy": s, "y_translated_by": dy, "raised": repr(ex)[:200]}))
            continue
        want2 = {"mae": st["mae"][0] / st["mae"][1], "mse": st["mse"][0] / st["mse"][1], "rmspe": _rmspe_def(a2, bp2, st["match"])}
        for name, v in got2.items():
            if not _close(v, want2[name]):
                bad.append(("error-definition(%s,%s)" % (name, s), {"got": v, "specified": want2[name], "y_translated_by": dy}))
    # the optional eps of rmspe at a non-default, exactly representable value
    for s in STRATS:
        st = b["strat"][s]
        a, bp = (kp, ep) if st["side"] == "knees" else (ep, kp)
        try:
            g = float(ev.rmspe(P, K, E, ev.Strategy[s], 0.25))
            w = _rmspe_def(a, bp, st["match"], 0.25)
            if not _close(g, w):
                bad.append(("error-definition(rmspe,%s)" % s, {"got": g, "specified": w, "eps": 0.25}))
        except Exception as ex:
            bad.append(("returns", {"fn": "rmspe", "strategy": s, "eps": 0.25, "raised": repr(ex)[:200]}))
    # the same identity through the DEFAULT strategy (whatever it is): a call without the optional argument is a valid call
    try:
        r0, m0 = float(ev.rmse(P, K, E)), float(ev.mse(P, K, E))
        if m0 >= 0 and not numeric.close(r0, math.sqrt(m0), rel=1e-12):
            bad.append(("rmse-is-sqrt-mse", {"strategy": "<default>", "rmse": r0, "mse": m0}))
    except Exception as ex:
        bad.append(("returns", {"fn": "rmse/mse", "strategy": "<default>", "raised": repr(ex)[:200]}))
    return bad, []


def _replay_line(b):
    return _replay_cm(b) if b["kind"] == "cm" else _replay_err(b)


def _record_big(item):
    """T: a larger confusion-matrix case than the generator enumerates (K as 1-based positions for the spec)."""
    import random
    import kneeliverse.evaluation as ev
    cid, seed = item
    rng = random.Random(seed)
    n = rng.choice([33, 65, 129, 257])
    P = np.column_stack([np.arange(n, dtype=float), np.array([rng.random() * 500 for _ in range(n)])])
    nk = rng.randint(2, min(30, n // 3))
    K = sorted(rng.sample(range(n), nk))
    ne = rng.randint(2, min(40, n - nk))
    ex = [rng.choice(K) + rng.choice([0, 0, 1, -1, 2, 3, -4]) if rng.random() < 0.7 else rng.randrange(n) for _ in range(ne)]
    ex = [min(max(v, 0), n - 1) for v in ex]
    E = np.array([[float(v), rng.random() * 500] for v in ex])
    tn, td = rng.choice([(0, 1), (1, 64), (1, 32), (1, 16), (1, 8), (3, 64)])
    try:
        m = ev.cm(P, np.array(K), E, tn / td)
        out, cm = "returned", [[int(v) for v in row] for row in np.asarray(m).tolist()]
    except Exception as exn:
        out, cm = "raised:" + type(exn).__name__, [[0, 0], [0, 0]]
    return {"id": cid, "outcome": out, "n": n, "K": [k + 1 for k in K], "E": [[int(v), 0] for v in ex], "t": [tn, td], "cm": cm}, {"big": [cid, seed]}


STATIC_BIG = {"id": "s", "outcome": "returned", "n": 9, "K": [3, 8], "E": [[2, 0], [7, 0], [3, 0]], "t": [1, 8],
              "cm": [[2, 0], [1, 6]]}


# ------------------------------------------------------------------------------------------------------------------
# The "scale" family (seed round 15): production-size calls.  Every case is a small JSON descriptor from which the
# curve, the knee indices and the expected points are rebuilt deterministically (so a replay file stays tiny); all
# coordinates are integers (x = 0..n-1, y in 1..SC_Y), which keeps every oracle exact:
#   err: the nearest-neighbour matching in both directions is computed in int64 (first index on ties), CERTIFIED by
#        TLC (Trace_EvaluationScale: sparse window tables, exact sums in two limbs, side per strategy, perfect flag) and
#        the definitions are evaluated from it (mae / mse as exact fractions, rmspe per term over Fractions, fsum, sqrt
#        last); mae / mse / rmse / rmspe (default eps and eps = 0.25) x 4 strategies are compared with them.
#   cm:  the matrix evaluation.cm returns is judged by TLC (accounting identities, greedy one-to-one count walked one
#        expected point per step from a locally certified nearest-knee table); t = tn/td with td <= 1000, so that
#        distance/range <= t decides in binary64 exactly as over the rationals (distinct quotients differ by more than
#        1/(range * td) > 8e-9).  accuracy / f1score / mcc of that matrix: range and 1 on perfect detection.
SC_Y = 16000
SC_SHAPES = ("hyper", "stairs", "saw", "ramp", "mrc")
# seed round 16: NON-MONOTONE curves whose ordinate scale dwarfs the unit x step (slow waves / sawteeth of amplitude thousands):
# on them the Euclidean nearest neighbour of a point is routinely dozens of candidates away from its nearest neighbour in x
SC_WAVES = ("wave", "sawwave", "decaywave", "triwave")
SC_ROWS = 4000            # rows of one matching table that reach TLC (all of them when the iterated side is not longer)
SC_WINDOW = 250000        # candidate evaluations of one matching table inside TLC


def _machinery(msg):
    import sys
    raise getattr(sys.modules.get("__main__"), "Machinery", RuntimeError)(msg)


def _sc_curve(shape, n, seed, wave=None):
    import random
    i = np.arange(n, dtype=np.int64)
    amp, per = wave if wave else (0, 1)             # wave = [amplitude, period] of the SC_WAVES shapes (integers)
    if shape == "wave":                             # slow sine around mid-height
        y = np.floor(amp * np.sin(2.0 * np.pi * i / per)) + 8000
    elif shape == "sawwave":                        # slow ramps separated by cliffs
        y = 1 + ((i % per) * amp) // per + (i % 3)
    elif shape == "triwave":                        # slow triangle wave
        h = i % per
        y = 1 + (np.minimum(h, per - h) * 2 * amp) // per + (i * 5 % 4)
    elif shape == "decaywave":                      # decaying trace with a periodic component (plateaus and cliffs)
        y = np.floor(9000.0 * np.exp(-4.0 * i / n) + amp * np.sin(2.0 * np.pi * i / per)) + amp + 2
    elif shape == "hyper":
        y = np.floor(15000.0 / np.sqrt(1.0 + i)) + 1 + (i * 37 % 5)
    elif shape == "stairs":
        y = scale.staircase(n, min(400, n // 8), random.Random(seed))[:, 1] + 1
    elif shape == "saw":
        y = 1 + (i * 7919 % 211) * 40 + (i % 7)
    elif shape == "ramp":
        y = 1 + (i * 15000) // n + (i % 3)
    else:
        y = np.floor(scale.mrc(n, random.Random(seed))[:, 1]) + 1
    y = np.asarray(y, dtype=float)
    assert y.min() >= 1 and y.max() <= SC_Y and np.all(y == np.floor(y))
    return np.ascontiguousarray(np.column_stack([i.astype(float), y]))


def _sc_knees(rng, n, nk, mode, win=None):
    if mode == "window":                            # a few knees that cover only the part win = [x0, w] of the x range
        return sorted(rng.sample(range(win[0], win[0] + win[1] + 1), nk))
    if mode == "even":
        return sorted(set(int(v) for v in np.linspace(1, n - 2, nk).astype(int)))
    if mode == "clustered":
        s = set()
        while len(s) < nk:
            c = rng.randrange(1, n - 8)
            for v in range(c, c + rng.randint(2, 6)):
                if len(s) < nk:
                    s.add(v)
        return sorted(s)
    return sorted(rng.sample(range(1, n - 1), nk))


def _sc_build(d):
    """descriptor -> (P, K, E): P float (n, 2), K sorted int array, E float (ne, 2) with integer coordinates, distinct rows"""
    import random
    rng = random.Random(d["seed"])
    n = d["n"]
    P = _sc_curve(d["shape"], n, d["seed"], d.get("wave"))
    win = d.get("win")
    K = _sc_knees(rng, n, d["nk"], d["kmode"], win)
    ne, mode = d["ne"], d["emode"]
    ys = P[:, 1]
    if d["fam"] == "cm":
        tn, td = d["t"]
        w = (tn * (n - 1)) // td                  # the largest distance still within tolerance
        if mode == "perfect":
            xs = list(K)
        else:
            xs = []
            for _ in range(ne):
                u = rng.random()
                if u < 0.2:
                    xs.append(rng.randrange(n))
                else:
                    k = K[rng.randrange(len(K))]
                    sh = rng.choice((0, 0, 1, -1, w, -w, w + 1, -w - 1, rng.randint(-w - 2, w + 2)))
                    xs.append(min(max(k + sh, 0), n - 1))
        if mode == "perfect":
            E = P[np.array(K)].copy()
        else:
            E = np.array([[float(x), 1.0 + 0.5 * m] for m, x in enumerate(xs)])        # distinct points; cm reads x only
        return P, np.array(K, dtype=int), E
    if mode in ("perfect", "perfect-shuffled"):
        pts = [(k, int(ys[k])) for k in K]
    else:
        seen, pts = set(), []
        guard = 0
        while len(pts) < ne:
            guard += 1
            near = mode in ("near", "off") and (guard < 6 * ne) and rng.random() < 0.9
            if mode in ("win-on", "win-level", "win-mixed"):
                # a FEW expected points inside the part win = [x0, w] of the x range: on the curve, or at the height the curve
                # has somewhere else (far off the curve: the nearest knee is where the curve comes back to that height)
                x = rng.randrange(win[0], win[0] + win[1] + 1)
                lvl = mode == "win-level" or (mode == "win-mixed" and rng.random() < 0.5)
                y = int(ys[rng.randrange(n)]) if lvl else int(ys[x])
                if (x, y) not in seen:
                    seen.add((x, y))
                    pts.append((x, y))
                continue
            if mode == "level":                     # anywhere in x; half of them at the height of another point of the curve
                x = rng.randrange(1, n)
                y = int(ys[rng.randrange(n)]) if rng.random() < 0.5 else int(ys[x])
                if (x, y) not in seen:
                    seen.add((x, y))
                    pts.append((x, y))
                continue
            if near:
                x = K[rng.randrange(len(K))] + rng.choice((-2, -1, 0, 0, 1, 2, 3))
                x = min(max(x, 1), n - 1)
            else:
                x = rng.randrange(1, n)
            y = int(ys[x])
            if mode == "off":
                y = max(1, y + rng.choice((-3, -2, -1, 0, 1, 2, 3)))
            if (x, y) not in seen:
                seen.add((x, y))
                pts.append((x, y))
    order = d.get("order", "asis")
    if mode == "perfect-shuffled" or order == "shuffled":
        rng.shuffle(pts)
    elif order == "sorted":
        pts.sort()
    elif order == "reversed":
        pts.sort(reverse=True)
    return P, np.array(K, dtype=int), np.array(pts, dtype=float)


def _sc_call(fn, args, m):
    """every library call of the family: back-edge budget quadratic in the number of matched points (the unchanged code
    uses one back-edge per iterated point), CPU-time watchdog far beyond any returning call"""
    out, v, _ = monitor.call(fn, args, budget=monitor.quad(m, 8), wall=900)
    return out, v


def _limbs(v):
    return [int(v) >> 20, int(v) & ((1 << 20) - 1)]


def _sc_match(A, Bp, rng):
    """exact nearest neighbour (int64, first index on ties) of every row of A among the rows of Bp, the table that lets TLC
    certify it, and the exact numerators of the mean absolute / squared error"""
    na, nb = len(A), len(Bp)
    order = np.argsort(Bp[:, 0], kind="stable")
    bxs = Bp[order, 0]
    mt = np.empty(na, dtype=np.int64)
    r2 = np.empty(na, dtype=np.int64)
    step = max(1, 4000000 // nb)
    for a0 in range(0, na, step):
        a = A[a0:a0 + step]
        dd = (a[:, None, 0] - Bp[None, :, 0]) ** 2 + (a[:, None, 1] - Bp[None, :, 1]) ** 2
        m = dd.argmin(axis=1)
        mt[a0:a0 + step] = m
        r2[a0:a0 + step] = dd[np.arange(len(a)), m]
    diff = np.abs(A - Bp[mt])
    mae_n = int(diff.sum())
    mse_n = int(r2.sum())
    r = np.array([math.isqrt(int(v)) for v in r2], dtype=np.int64)
    lo = np.searchsorted(bxs, A[:, 0] - r, side="left")
    hi = np.searchsorted(bxs, A[:, 0] + r, side="right") - 1
    ok = r2 < (1 << 30)
    rows = np.nonzero(ok)[0]
    full = bool(ok.all())
    if len(rows) > SC_ROWS:
        full = False
        far = rows[np.argsort(r2[rows])[-200:]]
        pick = set(rng.sample([int(v) for v in rows], SC_ROWS - 300)) | set(int(v) for v in far) | \
            set(int(v) for v in rows[:50]) | set(int(v) for v in rows[-50:])
        rows = np.array(sorted(pick))
    width = (hi - lo + 1)[rows]
    if int(width.sum()) > SC_WINDOW:
        full = False
        keep, tot = [], 0
        for i in rng.sample([int(v) for v in rows], len(rows)):
            wv = int(hi[i] - lo[i] + 1)
            if tot + wv <= SC_WINDOW:
                keep.append(i)
                tot += wv
        rows = np.array(sorted(keep), dtype=np.int64)
    tb = {"full": full, "mae": _limbs(mae_n), "mse": _limbs(mse_n),
          "rows": [[int(i) + 1, int(mt[i]) + 1, int(r[i]), int(lo[i]) + 1, int(hi[i]) + 1] for i in rows]}
    return mt, mae_n, mse_n, tb, [int(v) + 1 for v in order]


def _sc_rmspe(A, Bp, mt, eps):
    """sqrt(mean(((p - b) / (p + eps))^2)) over both coordinates: every term exactly over Fractions and correctly rounded,
    exact (fsum) sum of the rounded terms, sqrt last - a relative error of a few 2^-53"""
    eps = Fr(eps)
    terms = []
    den = {}
    for p, q in zip(A.tolist(), Bp[mt].tolist()):
        for c in (0, 1):
            if p[c] != q[c]:
                dv = den.get(p[c])
                if dv is None:
                    dv = den[p[c]] = (Fr(p[c]) + eps) ** 2
                f = Fr((p[c] - q[c]) ** 2) / dv
                terms.append(f.numerator / f.denominator)
    return math.sqrt(math.fsum(terms) / (2 * len(A)))


def _sc_xstats(A, Bp, mt):
    """how far the (Euclidean) matching is from a matching in x alone: iterated points whose match is not a nearest
    candidate in x, and whose match lies outside the x span of the iterated side widened by one candidate on each side"""
    sx = np.sort(Bp[:, 0])
    mx = Bp[mt, 0]
    pos = np.clip(np.searchsorted(sx, A[:, 0]), 1, len(sx) - 1) if len(sx) > 1 else np.zeros(len(A), dtype=int)
    dmin = np.minimum(np.abs(sx[pos - 1] - A[:, 0]), np.abs(sx[pos] - A[:, 0])) if len(sx) > 1 else np.abs(sx[0] - A[:, 0])
    lo = max(int(np.searchsorted(sx, A[:, 0].min(), side="left")) - 1, 0)
    hi = min(int(np.searchsorted(sx, A[:, 0].max(), side="right")), len(sx) - 1)
    return {"nn_not_x_nearest": int((np.abs(mx - A[:, 0]) > dmin).sum()),
            "nn_outside_x_span": int(((mx < sx[lo]) | (mx > sx[hi])).sum())}


def _sc_side(s, nk, ne):
    if s in ("knees", "expected"):
        return s
    if s == "best":
        return "expected" if ne <= nk else "knees"
    return "expected" if ne >= nk else "knees"


def _sc_err_oracle(d):
    import random
    P, K, E = _sc_build(d)
    rng = random.Random(d["seed"] + 7)
    KP = P[K].astype(np.int64)
    Ei = E.astype(np.int64)
    assert np.all(Ei == E) and len(set(map(tuple, Ei.tolist()))) == len(Ei) and len(K) + len(E) <= d["n"]
    wants, tabs, ords = {}, {}, {}
    for side, A, Bp in (("knees", KP, Ei), ("expected", Ei, KP)):
        mt, mae_n, mse_n, tb, order = _sc_match(A, Bp, rng)
        tabs[side], ords[side] = tb, order              # order sorts the MATCHED side of this direction
        na = len(A)
        wants[side] = {"mae": mae_n / (2.0 * na), "mse": mse_n / (2.0 * na), "rmse": math.sqrt(mse_n / (2.0 * na)),
                       "rmspe": _sc_rmspe(A, Bp, mt, EPS), "rmspe25": _sc_rmspe(A, Bp, mt, 0.25),
                       "far_matches": int((mt >= 256).sum()), "max_match_index": int(mt.max())}
        wants[side].update(_sc_xstats(A, Bp, mt))
    perfect = set(map(tuple, Ei.tolist())) == set(map(tuple, KP.tolist()))
    case = {"id": d["id"], "kind": "err", "n": d["n"], "KP": KP.tolist(), "E": Ei.tolist(),
            "ordK": ords["expected"], "ordE": ords["knees"], "mk": tabs["knees"], "me": tabs["expected"],
            "side": {s: _sc_side(s, len(K), len(E)) for s in STRATS}, "perfect": perfect}
    return {"case": case, "wants": wants, "perfect": perfect, "nk": len(K), "ne": len(E)}


def _sc_err_calls(d, s, only=None):
    """the library calls of one strategy (only: one of them - the long cases are cut into one work item per call)"""
    import kneeliverse.evaluation as ev
    P, K, E = _sc_build(d)
    m = len(K) + len(E)
    st = ev.Strategy[s]
    got = {}
    for name in ("mae", "mse", "rmse", "rmspe"):
        if only in (None, name):
            got[name] = _sc_call(getattr(ev, name), (P, K, E, st), m)
    if only in (None, "rmspe25"):
        got["rmspe25"] = _sc_call(ev.rmspe, (P, K, E, st, 0.25), m)
    if s == "expected" and only in (None, "default"):   # the identity through the default strategy as well (no optional argument)
        got["mse_default"] = _sc_call(ev.mse, (P, K, E), m)
        got["rmse_default"] = _sc_call(ev.rmse, (P, K, E), m)
    return {k: (o, (float(v) if o == "returned" else str(v))) for k, (o, v) in got.items()}


def _sc_cm(d):
    import kneeliverse.evaluation as ev
    P, K, E = _sc_build(d)
    n, (tn, td) = d["n"], d["t"]
    assert len(K) + len(E) <= n and td <= 1000 and n <= 200000
    ex = [int(v) for v in E[:, 0]]
    kx = np.array(K, dtype=np.int64)
    pos = np.searchsorted(kx, np.array(ex, dtype=np.int64), side="left")
    nk = []
    for px, p in zip(ex, pos.tolist()):
        c = [k for k in (p - 1, p) if 0 <= k < len(kx)]
        nk.append(min(c, key=lambda k: (abs(int(kx[k]) - px), k)) + 1)
    out, v = _sc_call(ev.cm, (P, K, E, tn / td), len(K) + len(E))
    case = {"id": d["id"], "kind": "cm", "outcome": out, "n": n, "K": [int(k) for k in K], "EX": ex, "t": [tn, td], "nk": nk,
            "cm": [[0, 0], [0, 0]]}
    bad = []
    if out == "returned":
        try:
            g = np.asarray(v)
            case["cm"] = [[int(x) for x in row] for row in g.tolist()]
            if any(x != int(x) for row in g.tolist() for x in row) or g.shape != (2, 2):
                raise ValueError("not a 2x2 integer matrix: %r" % (g.tolist(),))
            if any(abs(x) >= 2 ** 31 for row in case["cm"] for x in row):
                raise ValueError("entry beyond 2^31: %r" % (case["cm"],))
        except Exception as ex2:
            case["outcome"] = "raised:" + type(ex2).__name__
            bad.append(("returns", {"fn": "cm", "raised": repr(ex2)[:200]}))
            return {"case": case, "bad": bad}
        (tp, fp), (fn_, tn_) = case["cm"]
        prod = (tp + fp) * (tp + fn_) * (tn_ + fp) * (tn_ + fn_)
        fns = [("accuracy", ev.accuracy, 0.0), ("f1score", ev.f1score, 0.0)]
        if 0 < prod < 2 ** 62 and min(tp, fp, fn_, tn_) >= 0:       # MCC where its denominator is non-zero (and inside int64)
            fns.append(("mcc", ev.mcc, -1.0))
        for name, f, lo in fns:
            o, sv = _sc_call(f, (v,), 64)
            if o != "returned":
                bad.append(("returns", {"fn": name, "outcome": o, "cm": case["cm"], "what": str(sv)[:200]}))
                continue
            sv = float(sv)
            if not (lo - 1e-12 <= sv <= 1.0 + 1e-12):
                bad.append(("score-range", {"fn": name, "got": sv, "cm": case["cm"]}))
            elif d["emode"] == "perfect" and abs(sv - 1.0) > 1e-12:
                bad.append(("one-on-perfect", {"fn": name, "got": sv, "cm": case["cm"]}))
    return {"case": case, "bad": bad}


def _sc_item(item):
    d, part = item
    if part == "oracle":
        return _sc_err_oracle(d)
    if part == "cm":
        return _sc_cm(d)
    st, _, only = part.partition(":")
    return _sc_err_calls(d, st, only or None)


def _sc_judge_err(d, orc, got):
    """the real-valued results against the TLC-certified definition (tolerances of the small inputs, widened by n * eps)"""
    bad = []
    for s in STRATS:
        side = _sc_side(s, orc["nk"], orc["ne"])
        w = orc["wants"][side]
        na = orc["nk"] if side == "knees" else orc["ne"]
        rel = numeric.VAL_REL + 8 * na * 2.0 ** -52
        vals = {}
        for name, (o, v) in got[s].items():
            fn = name.split("_")[0] if name.endswith("_default") else ("rmspe" if name == "rmspe25" else name)
            what = {"fn": fn, "strategy": "<default>" if name.endswith("_default") else s}
            if name == "rmspe25":
                what["eps"] = 0.25
            if o != "returned":
                bad.append(("returns", dict(what, outcome=o, what=str(v)[:200])))
                continue
            vals[name] = v
            if name.endswith("_default"):
                continue
            if not (v >= 0.0):
                bad.append(("error-nonnegative", dict(what, got=v)))
            elif orc["perfect"] and abs(v) > numeric.VAL_ABS:
                bad.append(("zero-on-perfect", dict(what, got=v, knees=orc["nk"], expected=orc["ne"])))
            elif not numeric.close(v, w[name], rel=rel, ab=numeric.VAL_ABS):
                bad.append(("error-definition(%s,%s)" % (fn, s),
                            dict(what, got=v, specified=w[name], iterated_side=side, iterated=na,
                                 matched_against=orc["ne"] if side == "knees" else orc["nk"],
                                 matches_beyond_index_255=w["far_matches"], matches_not_nearest_in_x=w["nn_not_x_nearest"],
                                 matches_outside_the_x_span_of_the_iterated_side=w["nn_outside_x_span"])))
        for a, b, lab in (("rmse", "mse", s), ("rmse_default", "mse_default", "<default>")):
            if a in vals and b in vals and vals[b] >= 0 and not numeric.close(vals[a], math.sqrt(vals[b]), rel=1e-12):
                bad.append(("rmse-is-sqrt-mse", {"strategy": lab, "rmse": vals[a], "mse": vals[b]}))
    return bad


def _sc_plan(ctx):
    """the descriptors of one run: sizes straddle 256 / 1024 / 4096 / 16384 / 32768 / 65536 on the MATCHED-AGAINST side (both
    sides in turn), on curves whose lengths come from scale.sizes (just above 4096 .. 10^5)"""
    rng = ctx.rng
    ns = scale.sizes(ctx, lo=3000, k_quick=4, k_thorough=8)
    big = max(ns)

    def curve_for(m):
        fit = [n for n in ns if n >= 2 * m + 8]
        return rng.choice(fit) if fit else max(big, m + 8 + rng.randrange(50))

    def desc(fam, nk, ne, emode, **kw):
        d = {"fam": fam, "n": curve_for(nk + ne), "shape": rng.choice(SC_SHAPES), "kmode": rng.choice(("uniform", "uniform", "clustered", "even")),
             "nk": nk, "ne": ne, "emode": emode, "order": rng.choice(("asis", "sorted", "shuffled", "reversed")),
             "seed": rng.randrange(1 << 30)}
        d.update(kw)
        if d["kmode"] == "even":        # linspace may merge a few indices: the descriptor states what is built
            d["nk"] = len(_sc_knees(None, d["n"], nk, "even"))
            if emode in ("perfect", "perfect-shuffled"):
                d["ne"] = d["nk"]
        return d

    tiers = ((257, 330), (600, 1000), (1025, 1100), (4097, 4200))
    err, cmc = [], []
    for rep in range(1 if ctx.quick else 3):
        for ti, (lo, hi) in enumerate(tiers):
            b = rng.randint(lo, hi)
            # beyond 4096 the cost |a| * |b| of one call is kept down on most cases by a shorter other side
            light = lo > 4000 and (ctx.quick or rep > 0)
            sm = max(40, int(b * (rng.uniform(0.12, 0.3) if light else rng.uniform(0.55, 0.95))))
            # one general case with the knees as the longer side, one with the expected points as the longer side ...
            err.append(desc("err", b, sm, rng.choice(("near", "off"))))
            err.append(desc("err", sm, b, rng.choice(("near", "off", "random"))))
            if light:
                continue
            # ... perfect detection (in call order and shuffled) and |E| = |K| (the <= / >= branches of best / worst)
            third = ("perfect", "equal", "perfect-shuffled", "equal")[(ti + rep) % 4]
            if third == "equal":
                err.append(desc("err", b, b, rng.choice(("near", "off")), kmode="uniform"))
            else:
                err.append(desc("err", b, b, third))
            if not ctx.quick:
                err.append(desc("err", b, b, ("perfect-shuffled", "perfect")[(ti + rep) % 2]))
        # lopsided: tens of thousands of points on one side (int16 / uint16 indices, 16384 / 32768 / 65536 seams), few on the other
        huges = [16385 + rng.randrange(3000), 32769 + rng.randrange(3000)] + ([] if ctx.quick else [65537 + rng.randrange(3000)])
        flip = rng.randrange(2)
        for hi_, huge in enumerate(huges):
            few = rng.randint(40, 300)
            if (hi_ + flip + rep) % 2 == 0:      # over the repetitions of the thorough tier every size gets both orientations
                err.append(desc("err", huge, few, rng.choice(("near", "random")), kmode="uniform"))
            else:
                err.append(desc("err", few, huge, "random", kmode="uniform"))
        ts = [(1, 100), (1, 1000), (1, 64), (3, 1000), (1, 8), (0, 1), (1, 250), (1, 1)]
        rng.shuffle(ts)
        for ti, (lo, hi) in enumerate(tiers):
            b = rng.randint(lo, hi)
            cmc.append(desc("cm", b, max(40, int(b * rng.uniform(0.5, 1.6))), "near", t=list(ts[ti])))
            cmc.append(desc("cm", max(40, int(b * rng.uniform(0.3, 0.9))), b, "near", t=list(ts[4 + ti])))
        cmc.append(desc("cm", rng.randint(600, 3000), 0, "perfect", t=list(rng.choice(ts))))
        cmc.append(desc("cm", 16385 + rng.randrange(20000), rng.randint(300, 1500), "near", t=[1, 1000], kmode="uniform"))
    # seed round 16: thousands of points on the SEARCHED side, a FEW (3 .. 20) on the iterated side that cover only a part of the
    # x range, on non-monotone curves whose ordinate scale dwarfs the x step - nearest in x and nearest in the plane disagree
    def span(many, few, orient, wkind, emode):
        d = desc("err", many if orient == "K" else few, few if orient == "K" else many, emode, shape=rng.choice(SC_WAVES),
                 kmode=rng.choice(("uniform", "uniform", "even", "clustered")) if orient == "K" else "window")
        n = d["n"]
        if d["shape"] == "decaywave":
            d["wave"] = [rng.randint(1500, 3400), rng.randint(120, 1500)]
        elif d["shape"] == "wave":
            d["wave"] = [rng.randint(2000, 7000), rng.randint(150, 2000)]
        else:
            d["wave"] = [rng.randint(3000, 15000), rng.randint(100, 1500)]
        w = {"narrow": rng.randint(20, 200), "medium": rng.randint(200, 2000), "wide": rng.randint(n // 10, n // 3)}[wkind]
        w = max(w, 2 * few)
        d["win"] = [rng.randrange(1, n - 1 - w), w]
        return d

    for rep in range(1 if ctx.quick else 3):
        kinds = ["narrow", "medium", "wide", "narrow", "medium"]
        ems = ["win-on", "win-level", "win-mixed", "win-mixed", "win-on"]
        rng.shuffle(kinds)
        rng.shuffle(ems)
        manys = [rng.randint(2000, 5000), rng.randint(2000, 5000), rng.randint(1025, 1300), rng.randint(4097, 5000)]
        if not ctx.quick:
            manys += [rng.randint(257, 1024), (10001, 16385, 32769)[rep] + rng.randrange(2000)]
        for k, many in enumerate(manys):
            err.append(span(many, rng.randint(3, 20), "K", kinds[k % 5], ems[k % 5]))
        # the other orientation: a few knees inside a window, thousands of expected points all over the curve
        for k in range(1 if ctx.quick else 2):
            err.append(span(rng.randint(2000, 5000), rng.randint(3, 20), "E", kinds[(4 + k) % 5], rng.choice(("level", "level", "random"))))
    for d in cmc:
        if d["emode"] == "perfect":
            d["ne"] = d["nk"]
    for k, d in enumerate(err + cmc):
        d["id"] = "S%s%d" % (d["fam"], k)
    return ns, err, cmc


SC_STATIC_CM = {"id": "s", "kind": "cm", "outcome": "returned", "n": 9, "K": [2, 7], "EX": [2, 7, 3], "t": [1, 8],
                "nk": [1, 2, 1], "cm": [[2, 0], [1, 6]]}
# knee points (1,5) (4,5) (6,1); expected (4,4) (2,5) (9,9): (2,5) is at distance 1 of knee 1; knee 2 is nearest to (4,4)
SC_STATIC_ERR = {"id": "e", "kind": "err", "n": 12, "KP": [[1, 5], [4, 5], [6, 1]], "E": [[4, 4], [2, 5], [9, 9]],
                 "ordK": [1, 2, 3], "ordE": [2, 1, 3],
                 "mk": {"full": True, "rows": [[1, 2, 1, 1, 1], [2, 1, 1, 2, 2], [3, 1, 3, 2, 3]], "mae": [0, 7], "mse": [0, 15]},
                 "me": {"full": True, "rows": [[1, 2, 1, 2, 2], [2, 1, 1, 1, 1], [3, 2, 6, 2, 3]], "mae": [0, 11], "mse": [0, 43]},
                 "side": {"knees": "knees", "expected": "expected", "best": "expected", "worst": "expected"}, "perfect": False}
# an exact tie: (2,1) is equally far from both knee points - the first index is the match
SC_STATIC_TIE = {"id": "t", "kind": "err", "n": 5, "KP": [[1, 1], [3, 1]], "E": [[2, 1]], "ordK": [1, 2], "ordE": [1],
                 "mk": {"full": True, "rows": [[1, 1, 1, 1, 1], [2, 1, 1, 1, 1]], "mae": [0, 2], "mse": [0, 2]},
                 "me": {"full": True, "rows": [[1, 1, 1, 1, 2]], "mae": [0, 1], "mse": [0, 1]},
                 "side": {"knees": "knees", "expected": "expected", "best": "expected", "worst": "knees"}, "perfect": False}


def _sc_selftests():
    import copy
    st = [(SC_STATIC_CM, "ok"), (SC_STATIC_ERR, "ok"), (SC_STATIC_TIE, "ok")]

    def mut(base, clause, f):
        c = copy.deepcopy(base)
        f(c)
        st.append((c, clause))
    mut(SC_STATIC_CM, "cm-identities", lambda c: c.update(cm=[[3, 0], [0, 6]]))
    mut(SC_STATIC_CM, "cm-greedy-count", lambda c: c.update(cm=[[1, 1], [2, 5]]))
    mut(SC_STATIC_CM, "table", lambda c: c.update(nk=[2, 2, 1]))
    mut(SC_STATIC_CM, "returns", lambda c: c.update(outcome="budget"))
    mut(SC_STATIC_ERR, "table", lambda c: c["mk"]["rows"].__setitem__(2, [3, 3, 8, 1, 3]))      # a farther point as the match
    mut(SC_STATIC_ERR, "table", lambda c: c["me"]["rows"].__setitem__(2, [3, 2, 6, 3, 3]))      # window hides the nearest
    mut(SC_STATIC_ERR, "table", lambda c: c["mk"].update(mse=[0, 16]))
    mut(SC_STATIC_ERR, "table", lambda c: c["me"].update(mae=[1, 12]))
    mut(SC_STATIC_ERR, "table", lambda c: c["side"].update(best="knees"))
    mut(SC_STATIC_ERR, "table", lambda c: c.update(perfect=True))
    mut(SC_STATIC_ERR, "table", lambda c: c.update(ordE=[1, 2, 3]))
    mut(SC_STATIC_TIE, "table", lambda c: c["me"]["rows"].__setitem__(0, [1, 2, 1, 1, 2]))      # the later of two tied points
    return st


def _sc_validate(ctx, cases, descs, selftest=None):
    """cases through Trace_EvaluationScale; a rejected oracle table is a machinery failure, a rejected cm a violation"""
    sc = ctx.extra.setdefault("scale", {})
    sc["approx_bytes_to_tlc"] = sc.get("approx_bytes_to_tlc", 0) + sum(len(repr(c)) for c in cases)
    # ctx.trace cuts the batch (self-tests in front) into consecutive chunks, one TLC run each: lay the cases out so that the
    # heavy ones (tables of thousands of rows) are spread over the runs
    nst = len(selftest or [])
    nch = max(1, min(6, (len(cases) + 1) // 2))
    chunk = -(-(len(cases) + nst) // nch)
    cap = [max(0, min((c + 1) * chunk, nst + len(cases)) - max(c * chunk, nst)) for c in range(nch)]
    slots = [[] for _ in range(nch)]
    c = 0
    for k in sorted(range(len(cases)), key=lambda k: -len(repr(cases[k]))):
        while len(slots[c % nch]) >= cap[c % nch]:
            c += 1
        slots[c % nch].append(cases[k])
        c += 1
    flat = [x for sl in slots for x in sl]
    assert len(flat) == len(cases)
    rej = ctx.trace("Trace_EvaluationScale", flat, selftest=selftest, chunk=chunk, procs=6)
    for cid, vs in rej.items():
        v = vs[0]
        if v[0] == "table":
            _machinery("Trace_EvaluationScale rejected the harness's own oracle table of case %s (%s): %s" % (cid, descs[cid], v))
        ctx.violation(v[0], {"kind": "Tscale", "desc": descs[cid]}, {"verdict": [str(x)[:200] for x in v]})
    return rej


def _sc_run(ctx, err, cmc, selftest=None):
    def parts(d):
        if d["nk"] + d["ne"] <= 5000:
            return ("oracle",) + STRATS
        return ("oracle",) + tuple("%s:%s" % (st, f) for st in STRATS for f in ("mae", "mse", "rmse", "rmspe", "rmspe25", "default")
                                   if f != "default" or st == "expected")
    items = [(d, part) for d in err for part in parts(d)] + [(d, "cm") for d in cmc]
    # the longest items first (an iterated side of tens of thousands of points costs seconds)
    items.sort(key=lambda it: -(it[0]["nk"] + it[0]["ne"]))
    res = par.pmap(_sc_item, items, chunksize=1)
    by = {}
    for (d, part), r in zip(items, res):
        if ":" in part:
            by.setdefault(d["id"], {}).setdefault(part.partition(":")[0], {}).update(r)
        else:
            by.setdefault(d["id"], {})[part] = r
    descs = {d["id"]: d for d in err + cmc}
    cases = [by[d["id"]]["oracle"]["case"] for d in err] + [by[d["id"]]["cm"]["case"] for d in cmc]
    _sc_validate(ctx, cases, descs, selftest=selftest)
    seen = {}
    for d in err:
        orc = by[d["id"]]["oracle"]
        for clause, detail in _sc_judge_err(d, orc, {s: by[d["id"]][s] for s in STRATS}):
            seen[clause] = seen.get(clause, 0) + 1
            if seen[clause] <= 2:
                ctx.violation(clause, {"kind": "Tscale", "desc": d}, detail)
    for d in cmc:
        for clause, detail in by[d["id"]]["cm"]["bad"]:
            seen[clause] = seen.get(clause, 0) + 1
            if seen[clause] <= 2:
                ctx.violation(clause, {"kind": "Tscale", "desc": d}, detail)
    return by, seen


def _scale_family(ctx):
    import time
    t0 = time.time()
    ns, err, cmc = _sc_plan(ctx)
    by, seen = _sc_run(ctx, err, cmc, selftest=_sc_selftests())
    cov = ctx.extra.setdefault("scale", {})
    cov["curve_lengths"] = sorted(set(d["n"] for d in err + cmc))
    cov["err_cases"] = [{"n": d["n"], "knees": by[d["id"]]["oracle"]["nk"], "expected": by[d["id"]]["oracle"]["ne"], "shape": d["shape"],
                         "knee_layout": d["kmode"], "expected_points": d["emode"], "order": d["order"],
                         "perfect": by[d["id"]]["oracle"]["perfect"],
                         "rows_certified_by_tlc": [len(by[d["id"]]["oracle"]["case"][k]["rows"]) for k in ("mk", "me")],
                         "sums_certified_by_tlc": [by[d["id"]]["oracle"]["case"][k]["full"] for k in ("mk", "me")],
                         "wave_amplitude_period": d.get("wave"), "x_window_of_the_few_point_side": d.get("win"),
                         "matches_not_nearest_in_x": [by[d["id"]]["oracle"]["wants"][k]["nn_not_x_nearest"] for k in ("knees", "expected")],
                         "matches_outside_x_span_of_iterated_side":
                             [by[d["id"]]["oracle"]["wants"][k]["nn_outside_x_span"] for k in ("knees", "expected")]} for d in err]
    part = [d for d in err if d.get("win")]
    few_side = lambda d: "expected" if d["kmode"] != "window" else "knees"
    hit = [d for d in part if by[d["id"]]["oracle"]["wants"][few_side(d)]["nn_outside_x_span"] > 0]
    cov["partial_span_cases"] = {"cases": len(part), "with_a_match_outside_the_x_span_of_the_iterated_side": len(hit),
                                 "of_them_more_than_1024_candidates": sum(1 for d in hit if max(d["nk"], d["ne"]) > 1024)}
    if part and not hit:
        ctx.note("scale family: none of the %d partial-span cases of this run had a nearest neighbour outside the x span of its "
                 "iterated side (the Euclidean-vs-x distinction was not exercised at scale by this seed)" % len(part))
    cov["cm_cases"] = [{"n": d["n"], "knees": len(by[d["id"]]["cm"]["case"]["K"]), "expected": len(by[d["id"]]["cm"]["case"]["EX"]),
                        "t": "%d/%d" % tuple(d["t"]), "expected_points": d["emode"], "cm": by[d["id"]]["cm"]["case"]["cm"]} for d in cmc]
    cov["violating_cases_by_clause"] = dict(seen)
    cov["calls_per_err_case"] = "mae, mse, rmse, rmspe, rmspe(eps=0.25) x 4 strategies + mse / rmse with the default strategy"
    cov["wall_s"] = round(time.time() - t0, 1)
    for d in err:
        o = by[d["id"]]["oracle"]
        ctx.count(("scale-err", d["n"], d["shape"], d["kmode"], d["emode"], d["nk"], d["ne"], d["seed"]),
                  (min(o["nk"], o["ne"]) > 256 or max(o["nk"], o["ne"]) > 256) if not d.get("win")
                  else o["wants"][few_side(d)]["nn_outside_x_span"] > 0)
    for d in cmc:
        m = by[d["id"]]["cm"]["case"]["cm"]
        ctx.count(("scale-cm", d["n"], d["nk"], d["ne"], d["t"], d["seed"]), m[0][0] > 256 or m[1][0] >= 1)
    ctx.traces += 20 * len(err)          # the library calls of the err cases (the cm cases are counted by ctx.trace)
    pick = next((d for d in err if d["emode"] in ("near", "off") and min(d["nk"], d["ne"]) > 256), err[0])
    o = by[pick["id"]]["oracle"]
    ctx.sample({"binding": "T (scale)", "descriptor": pick, "knees": o["nk"], "expected": o["ne"],
                "specified": {k: {f: v[f] for f in ("mae", "mse", "rmse", "rmspe")} for k, v in o["wants"].items()},
                "returned": {s: {f: by[pick["id"]][s][f][1] for f in ("mae", "mse", "rmse", "rmspe")} for s in STRATS}})
    ctx.note("scale family: %d error cases (up to %d knees / %d expected points) and %d confusion-matrix cases on curves of %s points in %.1f s"
             % (len(err), max(d["nk"] for d in err), max(d["ne"] for d in err), len(cmc), cov["curve_lengths"], cov["wall_s"]))


def _scale_replay(ctx, d):
    if d["fam"] == "intfrac":
        _if_run(ctx, [d])
    elif d["fam"] == "cm":
        _sc_run(ctx, [], [d])
    else:
        _sc_run(ctx, [d], [])


# ------------------------------------------------------------------------------------------------------------------
# The "intfrac" family (seed round 17, combinations): INTEGER-dtype curves (int64 / int32) x expected points with FRACTIONAL
# coordinates (halves, quarters, eighths - exact in binary64 - and fifths / tenths), given as a float array, a list of tuples
# or a list of lists.  Every coordinate is k/q with one q per case, so q * (all points) is an integer lattice on which the
# nearest-neighbour matching is the same: the oracle, the sparse tables and the TLC certificate (Trace_EvaluationScale) of the
# scale family are reused on the lattice, and mae = lattice sum / (2 |a| q), mse = lattice sum / (2 |a| q^2), rmspe per term
# over Fractions.  For a q that is not a power of two the coordinates are not exact in binary64: expected points involved in
# an EXACT tie of the matching are dropped from such a case (a tie decided by rounding noise pins nothing).
IF_Q = (2, 4, 10, 8, 5)
IF_DTYPES = ("int64", "int32")
IF_REPS = ("array", "tuples", "array", "lists")


def _if_build(d):
    """descriptor -> (P int dtype (n, 2), K int array, E as it is passed, q * knee points, q * expected points (int64))"""
    import random
    rng = random.Random(d["seed"])
    n, q, mode = d["n"], d["q"], d["emode"]
    Pf = _sc_curve(d["shape"], n, d["seed"], d.get("wave"))
    P = np.ascontiguousarray(Pf.astype(d["dtype"]))
    assert np.all(P == Pf)
    K = _sc_knees(rng, n, d["nk"], d["kmode"])
    ys = Pf[:, 1].astype(np.int64)
    Ka = np.array(K, dtype=int)
    KPs = np.column_stack([Ka.astype(np.int64) * q, ys[Ka] * q])
    if mode == "perfect":
        pts = [(int(k) * q, int(ys[k]) * q) for k in K]
    else:
        seen, pts = set(), []
        while len(pts) < d["ne"]:
            if mode in ("near", "off") and rng.random() < 0.9:
                x = K[rng.randrange(len(K))] + rng.choice((-2, -1, 0, 0, 1, 2, 3))
            else:
                x = rng.randrange(1, n - 1)
            x = min(max(x, 1), n - 2)
            y = int(ys[x])
            if mode == "off":
                y = max(1, y + rng.choice((-3, -2, -1, 0, 1, 2, 3)))
            fx = rng.randrange(q) if rng.random() < 0.8 else 0
            fy = rng.randrange(q) if rng.random() < 0.8 else 0
            if mode == "int":
                fx = fy = 0
            elif not pts and fx == 0 and fy == 0:
                fx = 1                              # at least one fractional coordinate per case
            pt = (x * q + fx, y * q + fy)
            if pt not in seen:
                seen.add(pt)
                pts.append(pt)
    order = d.get("order", "asis")
    if order == "shuffled":
        rng.shuffle(pts)
    elif order == "sorted":
        pts.sort()
    elif order == "reversed":
        pts.sort(reverse=True)
    Es = np.array(pts, dtype=np.int64)
    if q & (q - 1) and mode != "perfect":           # coordinates not exact in binary64: no exact ties may remain
        while True:
            dd = (KPs[:, None, 0] - Es[None, :, 0]) ** 2 + (KPs[:, None, 1] - Es[None, :, 1]) ** 2
            drop = set()
            tie_e = ((dd == dd.min(axis=0)[None, :]).sum(axis=0) > 1)          # an expected point with two nearest knees
            drop.update(int(v) for v in np.nonzero(tie_e)[0])
            for k in np.nonzero((dd == dd.min(axis=1)[:, None]).sum(axis=1) > 1)[0]:   # a knee with two nearest expected points
                drop.add(int(np.nonzero(dd[k] == dd[k].min())[0][-1]))
            if not drop:
                break
            Es = Es[np.array([m for m in range(len(Es)) if m not in drop], dtype=int)]
            assert len(Es) >= 1
    if mode == "perfect":
        Ef = P[Ka].copy()                           # exactly the knee points, in the curve's own dtype
    else:
        Ef = Es / float(q)                          # correctly rounded k/q (exact for q a power of two)
    rep = d["rep"]
    E = Ef if rep == "array" else ([tuple(r) for r in Ef.tolist()] if rep == "tuples" else Ef.tolist())
    return P, Ka, E, KPs, Es


def _if_oracle(d):
    import random
    P, K, E, KPs, Es = _if_build(d)
    q = d["q"]
    rng = random.Random(d["seed"] + 7)
    assert len(set(map(tuple, Es.tolist()))) == len(Es) and len(K) + len(Es) <= d["n"] and len(E) == len(Es)
    wants, tabs, ords = {}, {}, {}
    for side, A, Bp in (("knees", KPs, Es), ("expected", Es, KPs)):
        mt, mae_n, mse_n, tb, order = _sc_match(A, Bp, rng)
        tabs[side], ords[side] = tb, order
        na = len(A)
        mse = Fr(mse_n, 2 * na * q * q)
        wants[side] = {"mae": mae_n / (2.0 * na * q), "mse": mse.numerator / mse.denominator, "rmse": _sqrt_fr(mse),
                       "rmspe": _sc_rmspe(A, Bp, mt, Fr(EPS) * q), "rmspe25": _sc_rmspe(A, Bp, mt, Fr(0.25) * q),
                       "far_matches": int((mt >= 256).sum()), "max_match_index": int(mt.max())}
        wants[side].update(_sc_xstats(A, Bp, mt))
    perfect = set(map(tuple, Es.tolist())) == set(map(tuple, KPs.tolist()))
    case = {"id": d["id"], "kind": "err", "n": d["n"], "KP": KPs.tolist(), "E": Es.tolist(),
            "ordK": ords["expected"], "ordE": ords["knees"], "mk": tabs["knees"], "me": tabs["expected"],
            "side": {s: _sc_side(s, len(K), len(Es)) for s in STRATS}, "perfect": perfect}
    frac = int(((Es % q) != 0).any(axis=1).sum())
    return {"case": case, "wants": wants, "perfect": perfect, "nk": len(K), "ne": len(Es), "fractional_expected_points": frac}


def _if_calls(d, s):
    """the library calls of one strategy; a list of tuples / lists as the ITERATED side is outside what the unchanged rmspe
    accepts (tuple + eps), so rmspe is called on a list only where the knees are iterated"""
    import kneeliverse.evaluation as ev
    P, K, E, _, _ = _if_build(d)
    m = len(K) + len(E)
    st = ev.Strategy[s]
    got = {}
    for name in ("mae", "mse", "rmse"):
        got[name] = _sc_call(getattr(ev, name), (P, K, E, st), m)
    if isinstance(E, np.ndarray) or _sc_side(s, len(K), len(E)) == "knees":
        got["rmspe"] = _sc_call(ev.rmspe, (P, K, E, st), m)
        got["rmspe25"] = _sc_call(ev.rmspe, (P, K, E, st, 0.25), m)
    if s == "expected":
        got["mse_default"] = _sc_call(ev.mse, (P, K, E), m)
        got["rmse_default"] = _sc_call(ev.rmse, (P, K, E), m)
    return {k: (o, (float(v) if o == "returned" else str(v))) for k, (o, v) in got.items()}


def _if_item(item):
    d, part = item
    return _if_oracle(d) if part == "oracle" else _if_calls(d, part)


def _if_plan(ctx):
    import random
    import types
    rng = random.Random(ctx.seed * 7919 + 1717)      # its own stream: the older families see the same ctx.rng as before
    ns = scale.sizes(types.SimpleNamespace(rng=rng, quick=ctx.quick), lo=3000, k_quick=3, k_thorough=8)
    out = []

    def desc(n, nk, ne, emode, **kw):
        k = len(out)
        shapes = ["hyper", "saw", "ramp", "triwave"] + (["stairs", "mrc"] if n >= 400 else [])
        d = {"fam": "intfrac", "n": n, "shape": rng.choice(shapes), "kmode": rng.choice(("uniform", "uniform", "clustered", "even")),
             "nk": nk, "ne": ne, "emode": emode, "order": rng.choice(("asis", "sorted", "shuffled", "reversed")),
             "q": IF_Q[k % len(IF_Q)], "dtype": IF_DTYPES[(k + k // 10) % 2], "rep": IF_REPS[(k + k // 4) % len(IF_REPS)],
             "seed": rng.randrange(1 << 30)}
        d.update(kw)
        if d["shape"] == "triwave":
            d["wave"] = [rng.randint(200, 6000), rng.randint(max(8, min(20, n // 2)), max(9, min(1500, n)))]
        if n < 40:
            d["kmode"] = "uniform"
        if d["kmode"] == "even":
            d["nk"] = len(_sc_knees(None, n, nk, "even"))
        if emode == "perfect":
            d["ne"] = d["nk"]
        out.append(d)

    for rep in range(1 if ctx.quick else 4):
        # the small inputs of the error scores: a few dozen points, 2 .. 6 knees, 1 .. 6 expected points
        for k in range(10):
            n = rng.randint(12, 60)
            nk = rng.randint(2, 6)
            ne = (nk if k % 5 == 3 else rng.randint(1, 6))
            desc(n, nk, ne, ("near", "off", "random", "near", "off")[k % 5])
        desc(rng.randint(12, 60), rng.randint(2, 6), 0, "perfect")
        desc(rng.randint(12, 60), rng.randint(2, 6), rng.randint(2, 5), "int")
        # hundreds of points on both sides, straddling 256 / 1024 (thorough: 4096) on either side
        for lo, hi in ((30, 120), (257, 330), (1025, 1100)) + (() if ctx.quick else ((600, 1000), (4097, 4200))):
            b = rng.randint(lo, hi)
            sm = max(20, int(b * rng.uniform(0.2, 0.9))) if b < 2000 else rng.randint(100, 600)
            n = rng.choice([v for v in ns if v >= 2 * (b + sm) + 8] or [max(ns)])
            if rng.random() < 0.5:
                n = max(2 * (b + sm) + 8 + rng.randrange(50), 300)
            desc(n, b, sm, rng.choice(("near", "off")))
            desc(n, sm, b, rng.choice(("near", "off", "random")))
        desc(rng.choice(ns), rng.randint(257, 400), 0, "perfect")
    for k, d in enumerate(out):
        d["id"] = "IF%d" % k
    return ns, out


def _if_run(ctx, descs, selftest=None):
    items = [(d, part) for d in descs for part in ("oracle",) + STRATS]
    items.sort(key=lambda it: -(it[0]["nk"] + it[0]["ne"]))
    res = par.pmap(_if_item, items, chunksize=1)
    by = {}
    for (d, part), r in zip(items, res):
        by.setdefault(d["id"], {})[part] = r
    cases = [by[d["id"]]["oracle"]["case"] for d in descs]
    byid = {d["id"]: d for d in descs}
    nst = len(selftest or [])
    rej = ctx.trace("Trace_EvaluationScale", cases, selftest=selftest, chunk=-(-(len(cases) + nst) // 3), procs=3)
    for cid, vs in rej.items():
        _machinery("Trace_EvaluationScale rejected the harness's own oracle table of case %s (%s): %s" % (cid, byid[cid], vs[0]))
    seen = {}
    for d in descs:
        for clause, detail in _sc_judge_err(d, by[d["id"]]["oracle"], {s: by[d["id"]][s] for s in STRATS}):
            seen[clause] = seen.get(clause, 0) + 1
            if seen[clause] <= 2:
                ctx.violation(clause, {"kind": "Tscale", "desc": d},
                              dict(detail, curve_dtype=d["dtype"], expected_coordinates="k/%d" % d["q"], expected_given_as=d["rep"]))
    return by, seen


def _intfrac_family(ctx):
    import time
    t0 = time.time()
    ns, descs = _if_plan(ctx)
    by, seen = _if_run(ctx, descs, selftest=[t for t in _sc_selftests() if t[0]["kind"] == "err"])
    cov = ctx.extra.setdefault("intfrac", {})
    cov["cases"] = [{"n": d["n"], "dtype": d["dtype"], "denominator": d["q"], "expected_given_as": d["rep"], "shape": d["shape"],
                     "knees": by[d["id"]]["oracle"]["nk"], "expected": by[d["id"]]["oracle"]["ne"],
                     "fractional_expected_points": by[d["id"]]["oracle"]["fractional_expected_points"],
                     "expected_points": d["emode"], "order": d["order"],
                     "sums_certified_by_tlc": [by[d["id"]]["oracle"]["case"][k]["full"] for k in ("mk", "me")]} for d in descs]
    cov["combinations"] = sorted(set("%s x k/%d x %s" % (d["dtype"], d["q"], d["rep"]) for d in descs))
    cov["violating_cases_by_clause"] = dict(seen)
    cov["calls_per_case"] = ("mae, mse, rmse x 4 strategies + mse / rmse with the default strategy; rmspe (default eps and 0.25) x 4 "
                             "strategies for arrays, for lists only where the knees are the iterated side")
    cov["wall_s"] = round(time.time() - t0, 1)
    for d in descs:
        o = by[d["id"]]["oracle"]
        ctx.count(("intfrac", d["n"], d["dtype"], d["q"], d["rep"], d["shape"], d["emode"], d["nk"], d["ne"], d["seed"]),
                  o["fractional_expected_points"] > 0 and min(o["wants"][k]["mse"] for k in ("knees", "expected")) > 0)
    ctx.traces += 20 * len(descs)
    pick = next((d for d in descs if d["emode"] in ("near", "off") and d["rep"] == "array" and d["n"] <= 60), descs[0])
    o = by[pick["id"]]["oracle"]
    P, K, E, _, _ = _if_build(pick)
    ctx.sample({"binding": "T (intfrac)", "descriptor": pick, "knee_points": P[K].tolist(), "expected": np.asarray(E, dtype=float).tolist(),
                "specified": {k: {f: v[f] for f in ("mae", "mse", "rmse", "rmspe")} for k, v in o["wants"].items()},
                "returned": {s: {f: by[pick["id"]][s][f][1] for f in ("mae", "mse", "rmse", "rmspe")} for s in STRATS}})
    ctx.note("intfrac family: %d error cases on int64 / int32 curves of %d .. %d points with expected points on k/q lattices "
             "(q in %s; float arrays, lists of tuples, lists of lists), up to %d knees / %d expected points, in %.1f s"
             % (len(descs), min(d["n"] for d in descs), max(d["n"] for d in descs), sorted(set(d["q"] for d in descs)),
                max(d["nk"] for d in descs), max(d["ne"] for d in descs), cov["wall_s"]))



def run(ctx):
    ctx.rule = ("TLC enumerates (Evaluation.tla) kind cm: curves x=0..n-1, every knee index subset, every expected x "
                "sequence with |K|+|E| <= n (bounded length), t in {0,1/8,1/4,1/2,1}; kind err: every height vector in "
                "0..2 for n=3 and three shapes for n=5, knee subsets, expected point sequences on and off the curve; each "
                "behaviour is replayed into cm/accuracy/f1score/mcc resp. mae/mse/rmse/rmspe x 4 strategies.  non-trivial: "
                "cm with a possible match and at least one miss or false positive; err with a non-zero error.  "
                "Scale family (T, Trace_EvaluationScale): production-size calls - curves of 4097 .. 10^5 points (integer "
                "ordinates, 5 shapes), 257 .. 70000 knees and expected points with the matched-against side straddling 256 / "
                "1024 / 4096 / 16384 / 32768 / 65536 in both directions (near / off-curve / random / perfect / shuffled / "
                "|E| = |K|) - replayed into mae / mse / rmse / rmspe (default eps and 0.25) x 4 strategies against an exact int64 "
                "nearest-neighbour matching that TLC certifies from sparse window tables, and into cm (t = tn/td, exact ties "
                "included) whose matrix TLC judges by walking the greedy count from a locally certified nearest-knee table.  "
                "Partial-span cases of the same family (same oracle, same TLC certificate, all 4 strategies): non-monotone curves "
                "whose ordinates dwarf the unit x step (slow sine / sawtooth / triangle / decaying waves of amplitude 1500 .. 15000, "
                "period 100 .. 2000), 1025 .. 5000 (thorough: 257 .. 35000) points on the searched side and 3 .. 20 points on the "
                "iterated side inside a narrow / medium / wide x window (few expected points on the curve or at the height the curve "
                "has elsewhere; or few knees against thousands of expected points), so that the Euclidean nearest neighbour is "
                "routinely not the nearest in x and lies outside the x span of the iterated side.  "
                "Intfrac family (T, same oracle and same Trace_EvaluationScale certificate on the lattice q * points): int64 / int32 "
                "curves of 12 .. 10^5 points x 1 .. 1100 (thorough: 4200) expected points with fractional coordinates k/q, q in "
                "{2, 4, 8, 5, 10}, given as float arrays, lists of tuples and lists of lists (plus integer-valued and perfect "
                "controls), replayed into mae / mse / rmse / rmspe x 4 strategies (rmspe on a list only where the knees are iterated)")
    ctx.assumptions += numeric.ASSUMPTIONS + [
        "n-1 is a power of two and t dyadic, so distance/range <= t is decided exactly in binary64",
        "nearest knee / nearest neighbour ties: first index (numpy argmin)",
        "rmspe: the matching comes from TLC, the value sqrt(mean(((p-b)/(p+eps))^2)) with eps = 1e-16 is evaluated by the "
        "harness exactly over fractions.Fraction, sqrt last",
        "accuracy/f1score/mcc are judged on range and perfect detection (what the property states); a value that differs "
        "from the textbook formula but obeys those laws is recorded as DRIFT, not as a violation",
        "MCC is not judged where its denominator is zero",
        "scale family: integer coordinates (x = 0..n-1, y in 1..16000), so squared distances, their comparisons and the sums "
        "of |dx|+|dy| and dx^2+dy^2 are exact in int64 and in binary64 (distinct squared distances below 2^52 have distinct "
        "correctly rounded roots); values are compared within rel 1e-9 + 8*|a|*2^-52 / abs 1e-12; rmspe terms are evaluated "
        "exactly over Fractions, rounded once and summed exactly (fsum); cm tolerances are rationals tn/td with td <= 1000 "
        "and n <= 1.1*10^5, for which distance/range <= t decides in binary64 exactly as over the rationals",
        "intfrac family: all coordinates of a case are k/q; for q in {2, 4, 8} they are exact in binary64 and ties go to the first "
        "index; for q in {5, 10} the expected points are the correctly rounded k/q, expected points involved in an exact tie of "
        "the matching are dropped from the case (distinct squared distances differ by >= 1/q^2, far above rounding noise) and "
        "the values are compared within the same rel 1e-9 tolerance"]
    acts = ("CmClaim", "CmMiss", "CmReturn", "ErrReturn")
    ctx.mc("Evaluation", "MC_Evaluation_reclaim", expect="CmIdentities")
    ctx.mc("Evaluation", "MC_Evaluation_fpraw", expect="CmIdentities")
    ctx.mc("Evaluation", "MC_Evaluation_small" if ctx.quick else "MC_Evaluation", need_actions=acts)
    beh = ctx.gen("Evaluation", "Gen_Evaluation_quick" if ctx.quick else "Gen_Evaluation_thorough", timeout=3000)
    ctx.exhaustive = True
    res = par.pmap(_replay_line, beh)
    seen, drifts = {}, 0
    for b, (bad, drift) in zip(beh, res):
        if b["kind"] == "cm":
            (tp, fp), (fn, tn) = b["cm"]
            ctx.count(("cm", b["n"], b["knees"], b["ex"], b["tnum"], b["tden"]), b["maxmatch"] >= 1 and fp + fn >= 1)
        else:
            ctx.count(("err", b["ys"], b["knees"], b["expected"]), any(b["strat"][s]["mse"][0] > 0 for s in STRATS))
        for clause, detail in bad:
            seen[clause] = seen.get(clause, 0) + 1
            if seen[clause] <= 2:
                ctx.violation(clause, {"kind": "G", "behaviour": b}, detail)
        for d in drift:
            drifts += 1
            if drifts <= 5:
                print("DRIFT property=C19 %s" % d)
                ctx.note("DRIFT: %s" % d)
    ctx.extra["violating_behaviours_by_clause"] = dict(seen)
    ctx.extra["drift_observations"] = drifts
    ctx.traces += len(beh)
    # ---- T: larger confusion-matrix cases judged by GreedyTP
    import copy
    rec = par.pmap(_record_big, [("B%d" % k, ctx.seed * 977 + k) for k in range(300 if ctx.quick else 3000)])
    b1 = copy.deepcopy(STATIC_BIG); b1["cm"] = [[3, 0], [0, 6]]
    b2 = copy.deepcopy(STATIC_BIG); b2["cm"] = [[1, 1], [2, 5]]
    _validate_big(ctx, [c for c, _ in rec], {c["id"]: m for c, m in rec},
                  selftest=[(STATIC_BIG, "ok"), (b1, "cm-identities"), (b2, "cm-greedy-count")])
    for c, _ in rec:
        ctx.count(("big", c["n"], c["K"], c["E"], c["t"]), c["cm"][0][0] >= 1 and c["cm"][1][0] >= 1)
    # ---- long curves: the scores of the matrix that cm() ITSELF returns (its element type included) stay in range
    import kneeliverse.evaluation as ev2
    import random as _rnd
    rngL = _rnd.Random(ctx.seed + 919)
    for n in ((6000, 20000) if ctx.quick else (6000, 20000, 60000, 200000)):
        P = np.column_stack([np.arange(n, dtype=float), 1000.0 / (1.0 + np.arange(n, dtype=float))])
        K = np.array(sorted(rngL.sample(range(1, n - 1), 12)))
        for perfect in (True, False):
            E = P[K] if perfect else P[np.array(sorted(rngL.sample(range(1, n - 1), 9)))]
            case = {"kind": "long", "n": n, "knees": K.tolist(), "expected_idx": [int(v) for v in E[:, 0]], "perfect": perfect}
            try:
                m = ev2.cm(P, K, E, 0.01)
                sc = {"accuracy": float(ev2.accuracy(m)), "f1score": float(ev2.f1score(m)), "mcc": float(ev2.mcc(m))}
            except Exception as ex:
                ctx.violation("returns", case, {"raised": repr(ex)[:200]})
                continue
            ctx.count(("long", n, perfect), True)
            lo = {"accuracy": 0.0, "f1score": 0.0, "mcc": -1.0}
            for name, v in sc.items():
                if not (lo[name] - 1e-12 <= v <= 1.0 + 1e-12):
                    ctx.violation("score-range", case, {"fn": name, "got": v, "cm": np.asarray(m).tolist()})
                elif perfect and abs(v - 1.0) > 1e-12:
                    ctx.violation("one-on-perfect", case, {"fn": name, "got": v, "cm": np.asarray(m).tolist()})
    # ---- scale: production-size calls with sparse TLC-certified tables
    _scale_family(ctx)
    # ---- intfrac: integer-dtype curves x fractional expected points (same oracle / certificate on the lattice q * points)
    _intfrac_family(ctx)
    # ---- growth beyond C19: the R2 neighbourhood searches of evaluation.py (notes only)
    growth.safe(ctx, growth.neighbourhood)
    growth.safe(ctx, growth.accuracy_knee_t)
    for pick in (lambda b: b["kind"] == "cm" and b["n"] == 5 and len(b["ex"]) == 3 and b["cm"][0][0] == 1 and b["maxmatch"] == 2,
                 lambda b: b["kind"] == "err" and b["n"] == 5 and len(b["knees"]) == 3 and len(b["expected"]) == 2
                 and b["strat"]["best"]["mae"] != b["strat"]["worst"]["mae"]):
        s = next((b for b in beh if pick(b)), None)
        if s is not None:
            ctx.sample({"binding": "G", "behaviour": s})


def _validate_big(ctx, cases, meta, selftest=None):
    rej = ctx.trace("Trace_Evaluation", cases, selftest=selftest, chunk=200)
    for cid, vs in rej.items():
        ctx.violation(vs[0][0], {"kind": "Tbig", "big": meta[cid]["big"]}, {"verdict": [str(v)[:200] for v in vs[0]]})


def _replay_long(ctx, c):
    import kneeliverse.evaluation as ev2
    n = c["n"]
    P = np.column_stack([np.arange(n, dtype=float), 1000.0 / (1.0 + np.arange(n, dtype=float))])
    K = np.array(c["knees"])
    E = P[np.array(c["expected_idx"])]
    try:
        m = ev2.cm(P, K, E, 0.01)
        sc = {"accuracy": float(ev2.accuracy(m)), "f1score": float(ev2.f1score(m)), "mcc": float(ev2.mcc(m))}
    except Exception as ex:
        ctx.violation("returns", c, {"raised": repr(ex)[:200]})
        return
    lo = {"accuracy": 0.0, "f1score": 0.0, "mcc": -1.0}
    for name, v in sc.items():
        if not (lo[name] - 1e-12 <= v <= 1.0 + 1e-12):
            ctx.violation("score-range", c, {"fn": name, "got": v})
        elif c["perfect"] and abs(v - 1.0) > 1e-12:
            ctx.violation("one-on-perfect", c, {"fn": name, "got": v})


def replay(ctx, obj):
    if obj["case"].get("kind") == "Tscale":
        _scale_replay(ctx, obj["case"]["desc"])
        return
    if obj["case"].get("kind") == "long":
        _replay_long(ctx, obj["case"])
        return
    if obj["case"].get("kind") == "Tbig":
        c, m = _record_big(tuple(obj["case"]["big"]))
        _validate_big(ctx, [c], {c["id"]: m})
        return
    bad, drift = _replay_line(obj["case"]["behaviour"])
    for clause, detail in bad:
        ctx.violation(clause, obj["case"], detail)
    for d in drift:
        print("DRIFT property=C19 %s" % d)
