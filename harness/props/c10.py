"""C10 - Z-method knees are valid, height-ordered and mutually separated.
M: MC_ZMethod (the round machine of ZMethod.tla on every small call: terminates, round bound, ZOk at the end,
   band-removal invariants) + two negative instances that must violate ZOk (y-band guard dropped, one side of
   the x band dropped).
T: recorded calls of zmethod.knees judged by Trace_ZMethod against the property-level operator ZClause and the
   round bound; floats are reduced to integer x, height ranks and a boolean y-separation table.
DRIFT (notes only): the implementation-shaped machine replayed by TLC on the recorded tables of small calls.
SCALE: production-size curves (n = 257 .. about 10^5, sizes straddling 2^8 .. 2^16, 10^4, 10^5) rebuilt from a compact
   spec inside the worker, replayed into zmethod.knees and judged by the SAME Trace_ZMethod cases: the tables are sparse
   by construction (x, height ranks and y-separation of the RETURNED knees only; w and the y band from the FULL curve).
SEQUENCES: several calls in a row, in ONE process, on the same curve object and on equal copies, with the same dx/dy/dz and
   changing x_max / y_range overrides (both orders; small and production-size curves); EVERY call is its own Trace_ZMethod
   case judged against ITS OWN w and y band (a result carried over from an earlier call is caught by the separation clauses)."""
import dis
import json
import math
import os
import sys

import numpy as np

from harness import curves, monitor, par, scale

PARAMS = (0.01, 0.05, 0.1, 0.3, 0.5, 1)
SLACK = 2            # on top of ceil((3 - z_min)/dz) + n + 2 (float accumulation of `outlier_z -= dz`)
FINE_TOOL = 3        # second sys.monitoring tool: back-edges of the FIRST loop of getPoints only
ACTIONS = ("EarlyReturn", "RoundEmpty", "RoundSingleGroup", "RoundMultiGroup", "Visit", "Stop", "LowerZ", "Sweep")

_fine = {"ready": False, "code": None, "header": None, "count": 0, "hard": None, "on": False}


# ------------------------------------------------------------------ observation
def _fine_cb(code, src, dst):
    st = _fine
    if st["on"] and dst < src and code is st["code"] and dst == st["header"]:
        st["count"] += 1
        if st["hard"] is not None and st["count"] > st["hard"]:
            st["on"] = False
            raise monitor.BudgetExceeded("getPoints main loop")
    return None


def _fine_install(zmethod):
    """The main `while True` loop is the first loop of getPoints: count the back-edges to its header
    (the smallest backward-jump target) separately from the nested for-loops."""
    if _fine["ready"]:
        return
    _fine["ready"] = True
    fn = getattr(zmethod, "getPoints", None)
    code = getattr(fn, "__code__", None)
    if code is None:
        return
    targets = [ins.argval for ins in dis.get_instructions(code) if ins.opname.startswith("JUMP_BACKWARD")]
    if not targets:
        return
    mon = sys.monitoring
    monitor.install()
    try:
        mon.use_tool_id(FINE_TOOL, "knee-verif-c10")
        mon.register_callback(FINE_TOOL, mon.events.JUMP, _fine_cb)
        mon.set_local_events(FINE_TOOL, code, mon.events.JUMP)
    except Exception:            # no fine-grained count: steps stay 0, hangs fall to monitor's overall budget
        return
    _fine["code"] = code
    _fine["header"] = min(targets)


def _ranks(vals):
    """dense ranks by EXACT float comparison (0 = smallest)."""
    order = sorted(set(float(v) for v in vals))
    pos = {v: k for k, v in enumerate(order)}
    return [pos[float(v)] for v in vals]


def _limit(x, y, dz):
    import uts.gradient as grad
    import uts.zscore as uz
    z = uz.zscore_array(x, grad.csd(x, y))
    zmin = float(min(z))
    return int(math.ceil((3 - zmin) / dz)) + len(x) + 2 + SLACK, z


def _record(item, given=None):
    """One call of zmethod.knees -> (case for Trace_ZMethod, replay meta, machine case or None).
    given: the array OBJECT handed to the library (sequence family; default: a fresh copy of the points)."""
    from kneeliverse import zmethod
    cid, P, dx, dy, dz, x_max, y_range, want_machine = item[:8]
    spec = item[8] if len(item) > 8 else None          # scale family: the curve is rebuilt from its spec on replay
    P = np.asarray(P, float)
    n = len(P)
    x = P[:, 0].copy()
    y = P[:, 1].copy()
    kw = {}
    if x_max is not None:
        kw["x_max"] = x_max
    if y_range is not None:
        kw["y_range"] = list(y_range)
    limit, z = _limit(x, y, dz)
    _fine_install(zmethod)
    _fine["count"] = 0
    _fine["hard"] = 4 * limit + 64
    _fine["on"] = True
    try:
        # backstop over ALL back-edges: per round at most one pass over the groups plus, per group, one pass
        # over the knees selected so far (groups + selected <= n)
        outcome, v, counts = monitor.call(zmethod.knees, (P.copy() if given is None else given, dx, dy, dz), kw,
                                          budget=limit * (n * n // 4 + 2 * n + 16) + 20000, wall=60)
    finally:
        _fine["on"] = False
    steps = _fine["count"]
    res = []
    err = None
    if outcome == "returned":
        try:
            arr = np.asarray(v).ravel()
            res = [int(t) for t in arr]
            if any(float(t) != int(t) for t in arr):
                raise ValueError("non-integer index")
        except Exception as ex:      # not an index array: recorded as an outcome, judged by TLC
            outcome, res, err = "raised:BadResult", [], repr(ex)[:200]
    elif outcome.startswith("raised"):
        err = v
    xm = x_max if x_max else n
    if y_range:
        ymax, ymin = y_range
    else:
        ymax, ymin = float(y.max()), float(y.min())
    w = max(1, int(math.floor(xm * dx)))
    h = (ymax - ymin) * dy
    valid = [0 <= r < n for r in res]
    xk = [int(x[r]) if ok else 0 for r, ok in zip(res, valid)]
    hk = _ranks([y[r] if ok else -1.0 for r, ok in zip(res, valid)])
    ysep = [[bool((not va) or (not vb) or abs(y[a] - y[b]) >= h - 1e-12)
             for b, vb in zip(res, valid)] for a, va in zip(res, valid)]
    case = {"id": cid, "n": n, "outcome": outcome, "steps": int(steps), "limit": int(limit),
            "res": res, "xk": xk, "hk": hk, "w": int(w), "ysep": ysep}
    meta = {"points": P.tolist() if spec is None and given is None else None, "spec": spec, "dx": dx, "dy": dy, "dz": dz, "x_max": x_max, "y_range": y_range,
            "error": err, "backedges": counts}
    mach = _machine_case(cid, x, y, z, w, h, dz, ymin) if want_machine else None
    return case, meta, mach


def _machine_case(cid, x, y, z, w, h, dz, ymin):
    """Tables for the implementation-shaped machine, computed with the code's own float expressions
    (used for DRIFT notes only)."""
    n = len(x)
    zmin = min(z)
    oz = 3
    r = 0
    zl = [-1] * n
    while True:
        for k in range(n):
            if zl[k] < 0 and z[k] >= oz:
                zl[k] = r
        if oz <= zmin or r > 400:
            break
        oz -= dz
        r += 1
    if r > 400 or min(zl) < 0:
        return None
    return {"id": cid, "n": n, "x": [int(v) for v in x], "hr": _ranks(y), "w": int(w),
            "ysel": [[bool(abs(y[a] - y[b]) >= h) for b in range(n)] for a in range(n)],
            "ykeep": [[bool((y[p] <= y[b] - h) or (y[p] >= y[b] + h)) for p in range(n)] for b in range(n)],
            "zl": zl, "stop": r, "zkey": _ranks(z), "early": bool(n < 4 or ymin == 1)}


# ------------------------------------------------------------------ inputs
def _xs(rng, n):
    mode = rng.randint(0, 4)
    if mode == 0:
        gaps = [1] * n
    elif mode == 1:
        gaps = [rng.randint(1, 5) for _ in range(n)]
    elif mode == 2:
        gaps = [rng.choice([1, 1, 1, 2, 12]) for _ in range(n)]          # clusters and wide gaps
    elif mode == 3:
        gaps = [rng.randint(1, 3) for _ in range(n)]
    else:
        gaps = [rng.randint(1, 2000) for _ in range(n)]
    start = rng.choice([0, 0, 1, 1, 7, 4096])
    return start + np.cumsum(gaps) - gaps[0]


def own_curve(rng, nmin=4, nmax=200):
    """miss-ratio-like curves (strictly increasing non-negative integer x, y in [0,1]) with plateaus,
    heights on a coarse grid (exact ties with the y band), bumps (work for the final sweep)."""
    u = rng.random()
    n = rng.randint(nmin, min(nmax, 40)) if u < 0.6 else (rng.randint(min(40, nmax), min(nmax, 120)) if u < 0.9
                                                             else rng.randint(min(120, nmax), nmax))
    x = _xs(rng, n)
    kind = rng.randint(0, 7)
    if kind == 0:      # staircase on the 0.05 grid, includes 0 and 1 so that the range is exactly 1
        lv = sorted(rng.sample(range(1, 20), min(19, rng.randint(1, 6))), reverse=True)
        cuts = sorted(rng.sample(range(1, n), min(n - 1, len(lv))))
        y = np.empty(n)
        cur = 20
        j = 0
        for i in range(n):
            if j < len(cuts) and i == cuts[j]:
                cur = lv[j] if j < len(lv) else 0
                j += 1
            y[i] = cur / 20.0
        if rng.random() < 0.5:
            y[-1] = 0.0
    elif kind == 1:    # decreasing, rounded to 1 or 2 decimals: many ties
        y = np.round(np.array(sorted([rng.random() for _ in range(n)], reverse=True)), rng.choice([1, 1, 2]))
    elif kind == 2:    # convex decreasing base with bumps: knees to the right may be higher
        a = rng.uniform(0.02, 0.5)
        y = np.exp(-a * np.arange(n)) * rng.uniform(0.5, 1.0)
        for _ in range(rng.randint(1, 6)):
            c = rng.randrange(n)
            wd = rng.randint(1, 4)
            y[max(0, c - wd):c + wd] += rng.uniform(0.02, 0.4)
        y = np.clip(y, 0, 1)
    elif kind == 3:    # arbitrary heights on the 0.1 grid, not monotone
        y = np.array([rng.randint(0, 10) / 10.0 for _ in range(n)])
    elif kind == 4:    # several sharp knees: piecewise linear, tiny noise
        k = rng.randint(2, 6)
        bx = sorted(rng.sample(range(1, n), min(n - 1, k)))
        lv = sorted([rng.random() for _ in range(len(bx) + 2)], reverse=True)
        y = np.interp(np.arange(n), [0] + bx + [n - 1], lv[:len(bx) + 2])
        y = np.clip(y + np.array([rng.gauss(0, rng.choice([0, 0.001, 0.02])) for _ in range(n)]), 0, 1)
    elif kind == 5:    # flat / two-level curves (zero y range, y_min == 1, zero z-score spread)
        c = rng.choice([1.0, 0.5, 0.0])
        y = np.full(n, c)
        if rng.random() < 0.5:
            y[rng.randrange(n):] = rng.choice([0.0, 0.25, c])
    elif kind == 6:    # noisy hyperbola on the 0.01 grid
        y = np.round(np.clip(1.0 / (1 + rng.uniform(0.05, 1) * np.arange(n)) +
                             np.array([rng.gauss(0, 0.03) for _ in range(n)]), 0, 1), 2)
    else:              # random walk down with occasional jumps up
        y = np.empty(n)
        cur = 1.0
        for i in range(n):
            cur += rng.choice([-0.1, -0.05, -0.05, -0.01, 0, 0, 0.05]) * rng.choice([1, 1, rng.random()])
            cur = min(1.0, max(0.0, cur))
            y[i] = cur
    return curves.mk(x, y)


def inputs(ctx):
    rng = ctx.rng
    total = 3200 if ctx.quick else 30000
    items = []
    nm = 0
    for k in range(total):
        if k % 3 == 0:
            P = curves.mrc_curve(rng, 4, 200 if k % 12 == 0 else 80)
        elif k % 50 == 1:
            P = own_curve(rng, 4, 8)
        else:
            P = own_curve(rng)
        n = len(P)
        dx, dy, dz = rng.choice(PARAMS), rng.choice(PARAMS), rng.choice(PARAMS)
        if n > 80 and dz < 0.05 and rng.random() < 0.7:
            dz = rng.choice(PARAMS[1:])                    # keep the long-running corner a small share
        if n <= 30 and rng.random() < 0.06:
            dz = rng.choice([0.004, 0.005])                # very fine steps of the outlier threshold (many rounds; dz in (0, 1])
        x_max = None
        y_range = None
        if rng.random() < 0.35:
            x_max = rng.choice([int(P[-1, 0]), int(P[-1, 0]) + 1, 2 * n, max(1, n // 2), rng.randint(1, 400)])
        if rng.random() < 0.35:
            ymx, ymn = float(P[:, 1].max()), float(P[:, 1].min())
            y_range = rng.choice([[1.0, 0.0], [ymx, ymn], [min(1.0, ymx + 0.1), max(0.0, ymn - 0.1)], [1.0, ymn]])
        want = n <= 14 and dz >= 0.05 and nm < (260 if ctx.quick else 2500)
        nm += want
        items.append(("z%d" % k, P.tolist(), dx, dy, dz, x_max, y_range, want))
    # a few long curves (size-dependent code paths)
    for j, n in enumerate([1500, 4000] if ctx.quick else [1500, 4000, 4000, 12000]):
        P = curves.mrc_curve(rng, n, n)
        items.append(("zlong%d" % j, P.tolist(), rng.choice([0.05, 0.1]), rng.choice([0.05, 0.1]), rng.choice([0.1, 0.3]), None,
                      None if j % 2 == 0 else [1.0, 0.0], False))
    return items


# ------------------------------------------------------------------ scale family (production-size inputs)
# Every curve is a deterministic function of its spec (rebuilt inside the worker and on --replay, never shipped as a
# point list): strictly increasing non-negative integer x < 2^30, y in [0, 1].
S_DX = {"wide": (0.02, 0.05, 0.1, 0.3), "fine": (0.001, 0.002, 0.005, 0.01), "noisy": (0.01, 0.05, 0.1, 0.3)}
S_DY = {"wide": (0.01, 0.02, 0.05, 0.1), "fine": (0.001, 0.002, 0.005, 0.01), "noisy": (0.01, 0.05, 0.1, 0.3)}
S_DZ = (0.05, 0.05, 0.1, 0.3, 0.5, 1)
S_XMAX = (None, "last", "last+1", "2n", "n/2")
S_YRANGE = (None, "unit", "own", "pad", "top")


def _sc_x(rs, n, xmode):
    """0: 0..n-1; 1: offset + unit gaps; 2: gaps 1..5; 3: clusters and wide gaps; 4: gaps 1..2000; offsets up to 3*10^8."""
    if xmode == 0:
        return np.arange(n, dtype=float)
    if xmode == 1:
        gaps = np.ones(n, dtype=np.int64)
    elif xmode == 2:
        gaps = rs.integers(1, 6, n)
    elif xmode == 3:
        gaps = rs.choice(np.array([1, 1, 1, 2, 12]), n)
    else:
        gaps = rs.integers(1, 2001, n)
    start = int(rs.choice(np.array([0, 1, 7, 4096, 1000000, 300000000])))      # x stays below 2^30 (TLC integers)
    return (start + np.cumsum(gaps) - gaps[0]).astype(float)


def _sc_steps(n, pos, amt):
    """y[i] = sum of amt[j] over the events with pos[j] > i: a sharp drop of amt[j] at index pos[j] (exact plateaus,
    exactly 0 after the last event)."""
    st = np.zeros(n + 1)
    np.add.at(st, np.asarray(pos, dtype=np.int64), np.asarray(amt, dtype=float))
    return np.cumsum(st[::-1])[::-1][1:]


def _sc_cliffs(rs, n, x, K, w, bumps):
    """Gentle convex decay + K sharp working-set drops at random places + 'twin' drops planted at 0.08..0.97 of the
    separation width w after an existing one (two sharp knees closer than the property allows, far apart in absolute
    terms when n is large).  bumps: also upward steps and short humps (knees to the right may be higher: work for
    the final sweep)."""
    i = np.arange(n, dtype=float)
    y = float(rs.choice(np.array([0.0, 0.05, 0.15]))) * np.exp(-i / (0.4 * n))
    m = max(2, n // 50)
    K = max(1, min(K, (n - 2 * m) // 2))
    pos = np.sort(rs.choice(np.arange(m, n - m), size=K, replace=False))
    extra = []
    for p in rs.choice(pos, size=max(2, K // 4)):
        d = max(1, int(rs.uniform(0.08, 0.97) * w))
        q = int(np.searchsorted(x, x[p] + d))
        if p < q < n - 2:
            extra.append(q)
    pos = np.unique(np.concatenate([pos, np.array(extra, dtype=np.int64)]))
    amt = rs.uniform(0.5, 1.5, len(pos))
    amt *= 0.8 / amt.sum()
    y = y + 0.02 + _sc_steps(n, pos, amt)
    if bumps:
        R = max(1, len(pos) // 3)
        rp = rs.choice(np.arange(m, n - m), size=R, replace=False)
        ra = rs.uniform(0.5, 1.5, R)
        ra *= 0.15 / ra.sum()
        y = y - _sc_steps(n, rp, ra) + 0.15
        for _ in range(int(rs.integers(1, 7))):
            c = int(rs.integers(1, n - 1))
            wd = int(rs.integers(1, 5))
            y[max(0, c - wd):c + wd] += rs.uniform(0.02, 0.2)
    return np.clip(y, 0.0, 1.0)


def _sc_y(spec, rs, pr, n, x, w):
    shape = spec["shape"]
    K = int(spec.get("K", 8))
    i = np.arange(n, dtype=float)
    if shape == "cliffs":
        return _sc_cliffs(rs, n, x, K, w, False)
    if shape == "bumps":
        return _sc_cliffs(rs, n, x, K, w, True)
    if shape == "texture":     # hyperbola + a periodic small texture on a coarse grid: exact ties in y and in z (aliasing bait)
        period = int(rs.integers(2, 8))
        pat = rs.integers(-3, 4, period) * float(rs.choice(np.array([1e-4, 1e-3])))
        y = 0.9 / (1.0 + rs.uniform(2, 40) * i / n) + 0.05 + scale.tile(pat, n)
        return np.clip(np.round(y, int(rs.choice(np.array([3, 4])))), 0.0, 1.0)
    if shape == "walk":        # random walk down with jumps up, on the 1e-4 grid
        st = rs.choice(np.array([-0.1, -0.05, -0.05, -0.01, 0, 0, 0.05]), n) * (40.0 / n) * rs.choice(np.array([1.0, 1.0, 0.3]), n)
        return np.clip(np.round(1.0 + np.cumsum(st), 4), 0.0, 1.0)
    if shape == "stairs":      # shared builder: flat plateaus, sharp drops, range exactly [0, 1]
        y = scale.staircase(n, K, rng=pr, grow=bool(spec.get("grow")))[:, 1]
        return np.clip(y / y.max(), 0.0, 1.0)
    if shape == "mrc":         # shared builder: convex decay pieces separated by cliffs
        y = scale.mrc(n, pr, knees=K)[:, 1]
        return np.clip(y / y.max(), 0.0, 1.0)
    if shape == "flat":        # constant / two-level curves (zero y range, y_min == 1)
        c = float(rs.choice(np.array([1.0, 0.5, 0.0])))
        y = np.full(n, c)
        if rs.random() < 0.5:
            y[int(rs.integers(1, n)):] = float(rs.choice(np.array([0.0, 0.25, c])))
        return y
    raise ValueError("unknown scale shape %r" % shape)


def _sc_build(spec):
    """spec -> (points, x_max, y_range) with the symbolic overrides resolved against the curve."""
    import random
    n = int(spec["n"])
    rs = np.random.default_rng([int(spec["seed"]), n])
    pr = random.Random(int(spec["seed"]) * 7919 + n)
    x = _sc_x(rs, n, int(spec.get("xmode", 0)))
    xm = {None: None, "last": int(x[-1]), "last+1": int(x[-1]) + 1, "2n": 2 * n, "n/2": max(1, n // 2)}[spec.get("x_max")]
    w = max(1, int(math.floor((xm if xm else n) * spec["dx"])))
    y = _sc_y(spec, rs, pr, n, x, w)
    if not (len(y) == n and np.all(np.diff(x) > 0) and x[0] >= 0 and x[-1] < 2 ** 30 and y.min() >= 0 and y.max() <= 1):
        raise RuntimeError("scale builder left the property's domain: %r" % (spec,))
    ymx, ymn = float(y.max()), float(y.min())
    yr = {None: None, "unit": [1.0, 0.0], "own": [ymx, ymn], "pad": [min(1.0, ymx + 0.1), max(0.0, ymn - 0.1)],
          "top": [1.0, ymn]}[spec.get("y_range")]
    return np.ascontiguousarray(np.column_stack([x, y])), xm, yr


def _record_scale(item):
    cid, spec, dy, dz = item
    P, xm, yr = _sc_build(spec)
    case, meta, _ = _record((cid, P, spec["dx"], dy, dz, xm, yr, False, spec))
    meta["shape"] = spec["shape"]
    return case, meta, None


def _record_any(item):
    if len(item) == 2:
        return _record_seq(item)
    return _record_scale(item) if len(item) == 4 else _record(item)


def scale_inputs(ctx):
    """Sizes straddling 2^8 .. 2^16, 10^4, 10^5 (harness.scale.sizes) x shapes x parameter flavours:
    wide = a handful of knees (dx, dy of a few percent), fine = hundreds of knees (dx, dy of 0.1 .. 1 percent)."""
    rng = ctx.rng
    ns = scale.sizes(ctx, lo=250, hi=110000, k_quick=12, k_thorough=24)
    reps = 1 if ctx.quick else 3
    items = []
    for n in ns:
        for rep in range(reps):
            plan = [("cliffs", "wide", True), ("cliffs", "fine", True), ("cliffs", rng.choice(["wide", "fine"]), False),
                    ("bumps", "wide", rng.random() < 0.5), ("bumps", "fine", rng.random() < 0.5),
                    (rng.choice(["cliffs", "bumps"]), rng.choice(["wide", "fine"]), rng.random() < 0.6),
                    ("texture", "noisy", False), ("walk", "noisy", False),
                    ("stairs", rng.choice(["wide", "fine"]), False), ("mrc", "wide", False)]
            if rng.random() < 0.34:
                plan.append(("flat", "wide", False))            # see the note on constant curves below
            for j, (shape, fl, defaults) in enumerate(plan):
                dx, dy, dz = rng.choice(S_DX[fl]), rng.choice(S_DY[fl]), rng.choice(S_DZ)
                if fl != "noisy" and rng.random() < 0.1:
                    dz = 0.01                                   # many rounds
                K = rng.randint(8, 40) if fl == "wide" else rng.randint(60, 300)
                spec = {"shape": shape, "n": n, "seed": rng.randrange(1 << 30), "K": min(K, max(1, n // 20)), "dx": dx,
                        "xmode": rng.randint(1, 4) if j in (2, 5) else (0 if j < 5 else rng.randint(0, 4)),
                        "x_max": None if defaults or rng.random() < 0.5 else rng.choice(S_XMAX),
                        "y_range": None if defaults or rng.random() < 0.5 else rng.choice(S_YRANGE)}
                if shape == "flat":
                    # a constant curve has a zero y band: the knees are limited by the x band alone, the code's guard
                    # `all(... for i in outlier_points)` makes the call quadratic in their number, and with wide x gaps
                    # (x range / w of the order of 10^4) the UNCHANGED code needs minutes.  Keep x range / w <= 2 / dx.
                    spec["xmode"] = rng.randint(0, 1)
                if shape == "stairs":
                    spec["grow"] = rng.random() < 0.3
                    if spec["grow"]:
                        spec["K"] = min(spec["K"], 40)
                items.append(("s%d_%d_%d" % (n, rep, j), spec, dy, dz))
    return items, ns


# ------------------------------------------------------------------ sequence family (a SECOND call AND another override)
# A sequence = one curve + a list of calls executed one after the other in ONE process (state the library keeps between calls
# lives there), on the same array object ("same") or on an equal fresh copy ("copy").  Every call is an ordinary
# Trace_ZMethod case judged against the w and the y band of ITS OWN x_max / y_range.
Q_XMAX = (None, "n/2", "last", "last+1", "2n", "4n", "10n")      # a larger x_max: a larger required x separation
Q_YRANGE = (None, "own", "top", "pad", "unit")                    # a wider y range: a larger required y separation
Q_SHAPES = (("cliffs", "wide"), ("bumps", "wide"), ("cliffs", "wide"), ("mrc", "wide"), ("stairs", "wide"),
            ("walk", "noisy"), ("texture", "noisy"))


def _sq_resolve(x, y, xs, ys):
    n = len(x)
    xm = xs
    if isinstance(xs, str):
        xm = {"last": int(x[-1]), "last+1": int(x[-1]) + 1, "n/2": max(1, n // 2), "2n": 2 * n, "4n": 4 * n, "10n": 10 * n}[xs]
    yr = ys
    if isinstance(ys, str):
        ymx, ymn = float(y.max()), float(y.min())
        yr = {"unit": [1.0, 0.0], "own": [ymx, ymn], "pad": [min(1.0, ymx + 0.1), max(0.0, ymn - 0.1)], "top": [1.0, ymn]}[ys]
    return xm, yr


def _record_seq(item):
    """(id, sequence) -> one (case, meta, None) per call of the sequence."""
    cid, sq = item
    if sq.get("spec") is not None:
        P0 = _sc_build(sq["spec"])[0]
    else:
        P0 = np.ascontiguousarray(np.asarray(sq["points"], float))
    x, y = P0[:, 0].copy(), P0[:, 1].copy()
    shared = P0.copy()
    out = []
    prev = None
    for k, c in enumerate(sq["calls"]):
        xm, yr = _sq_resolve(x, y, c.get("x_max"), c.get("y_range"))
        arr = shared if c.get("obj") == "same" else P0.copy()
        case, meta, _ = _record(("%s.%d" % (cid, k), P0, c["dx"], c["dy"], c["dz"], xm, yr, False), given=arr)
        mutated = not np.array_equal(arr, P0)
        if arr is shared and mutated:       # (another property's business) keep the later calls on the SAME curve
            shared = P0.copy()
        # evidence: would the PREVIOUS call's result break this call's separation (is the pair of calls discriminating)?
        stale = False
        if prev is not None and len(prev) >= 2:
            h = ((yr[0] - yr[1]) if yr else float(y.max() - y.min())) * c["dy"]
            px, py = x[prev], y[prev]
            dxm = np.abs(px[:, None] - px[None, :])
            dym = np.abs(py[:, None] - py[None, :])
            off = ~np.eye(len(prev), dtype=bool)
            stale = bool(np.any((dxm < case["w"]) & off) or np.any((dym < h - 1e-9) & off))
        prev = np.array([r for r in case["res"] if 0 <= r < len(x)], dtype=np.int64) if case["outcome"] == "returned" else None
        meta.update(seq=sq, call=k, obj=c.get("obj"), mutated=mutated, stale_would_fail=stale,
                    shape=(sq["spec"]["shape"] if sq.get("spec") else "small"))
        out.append((case, meta, None))
    return out


def _sq_calls(rng, dx, dy, dz, xsyms, short=False):
    """a, b = two different override pairs; the sequence contains a -> b AND b -> a on the same dx/dy/dz, then extras."""
    xa, ya = rng.choice(xsyms), rng.choice(Q_YRANGE)
    u = rng.random()
    xb, yb = xa, ya
    if u < 0.7:
        xb = rng.choice([t for t in xsyms if t != xa])
    if u >= 0.4:
        yb = rng.choice([t for t in Q_YRANGE if t != ya])
    a, b = (xa, ya), (xb, yb)
    if rng.random() < 0.5:
        a, b = b, a
    ov = [a, b, a] if (short or rng.random() < 0.8) else [a, b]
    for _ in range(0 if short else rng.choice([0, 0, 1, 2])):
        ov.append(rng.choice([a, b, ov[-1], (rng.choice(xsyms), rng.choice(Q_YRANGE))]))
    mode = rng.choice(["same", "copy", "mixed", "mixed"])
    calls = []
    for k, (xs, ys) in enumerate(ov):
        calls.append({"dx": dx, "dy": dy, "dz": dz, "x_max": xs, "y_range": ys,
                      "obj": "same" if k == 0 else (mode if mode != "mixed" else rng.choice(["same", "copy"]))})
    if not short and rng.random() < 0.25:       # ... and a call that changes one of the steps on the same overrides
        c = dict(calls[-1])
        f = rng.choice(["dx", "dy", "dz"])
        c[f] = rng.choice([t for t in PARAMS[1:] if t != c[f]])
        calls.append(c)
        calls.append(dict(calls[-2], obj=rng.choice(["same", "copy"])))
    return calls


def seq_inputs(ctx):
    rng = ctx.rng
    items = []
    for k in range(220 if ctx.quick else 2500):
        P = curves.mrc_curve(rng, 4, 200 if k % 4 == 0 else 80) if k % 3 == 0 else own_curve(rng)
        n = len(P)
        dx, dy, dz = rng.choice(PARAMS), rng.choice(PARAMS), rng.choice(PARAMS)
        if n > 80 and dz < 0.05:
            dz = rng.choice(PARAMS[1:])
        xs = Q_XMAX + ((rng.randint(1, 400),) if rng.random() < 0.3 else ())
        items.append(("q%d" % k, {"spec": None, "points": P.tolist(), "calls": _sq_calls(rng, dx, dy, dz, xs)}))
    ns = scale.sizes(ctx, lo=250, hi=110000, k_quick=12, k_thorough=24)
    for n in ns:
        for rep in range(2 if ctx.quick else 3):
            shape, fl = Q_SHAPES[rep] if rep < 2 else rng.choice(Q_SHAPES)
            if ctx.quick and rep == 1 and rng.random() < 0.5:
                shape, fl = rng.choice(Q_SHAPES[3:])
            dx, dy, dz = rng.choice(S_DX[fl]), rng.choice(S_DY[fl]), rng.choice(S_DZ)
            calls = _sq_calls(rng, dx, dy, dz, Q_XMAX, short=n > 40000)
            plant = calls[0]["x_max"] if calls[0]["x_max"] in S_XMAX else None     # the twin drops are planted for this width
            spec = {"shape": shape, "n": n, "seed": rng.randrange(1 << 30), "K": min(rng.randint(8, 40), max(1, n // 20)),
                    "dx": dx, "xmode": rng.choice([0, 0, 1, 2, 3, 4]), "x_max": plant, "y_range": None}
            if shape == "stairs":
                spec["grow"] = rng.random() < 0.3
            items.append(("Q%d_%d" % (n, rep), {"spec": spec, "points": None, "calls": calls}))
    return items, ns


def _seq_evidence(ctx, qrec, sizes):
    pairs = 0
    stricter = 0
    for k in range(1, len(qrec)):
        (c0, m0, _), (c1, m1, _) = qrec[k - 1], qrec[k]
        if m1["call"] == 0 or m0["seq"] is not m1["seq"]:
            continue
        pairs += 1
        stricter += all(m0[f] == m1[f] for f in ("dx", "dy", "dz")) and (m0["x_max"], m0["y_range"]) != (m1["x_max"], m1["y_range"])
    ctx.extra["sequences"] = {
        "sequences": sum(1 for _, m, _ in qrec if m["call"] == 0), "calls": len(qrec),
        "production_size_sequences": sum(1 for _, m, _ in qrec if m["call"] == 0 and m["seq"].get("spec")),
        "sizes": sizes, "longest_sequence": max([m["call"] + 1 for _, m, _ in qrec] or [0]),
        "consecutive_pairs": pairs, "pairs_same_steps_other_overrides": stricter,
        "calls_on_same_object": sum(1 for _, m, _ in qrec if m["call"] > 0 and m["obj"] == "same"),
        "calls_on_equal_copy": sum(1 for _, m, _ in qrec if m["call"] > 0 and m["obj"] == "copy"),
        "calls_the_previous_result_would_fail": sum(1 for _, m, _ in qrec if m["stale_would_fail"]),
        "of_those_production_size": sum(1 for _, m, _ in qrec if m["stale_would_fail"] and m["seq"].get("spec")),
        "calls_with_2plus_knees": sum(1 for c, _, _ in qrec if len(c["res"]) >= 2),
        "input_mutated": sum(1 for _, m, _ in qrec if m["mutated"]),
        "outcomes": {o: sum(1 for c, _, _ in qrec if c["outcome"] == o) for o in sorted(set(c["outcome"] for c, _, _ in qrec))},
        "json_bytes_to_tlc": sum(len(json.dumps(c)) for c, _, _ in qrec)}
    for c, m, _ in qrec:
        if m["stale_would_fail"] and len(c["res"]) >= 2:
            ctx.sample({"binding": "T", "family": "sequence", "case": c, "call_index": m["call"], "n": c["n"],
                        "calls": m["seq"]["calls"][:m["call"] + 1], "curve": m["seq"].get("spec") or "small (points in the replay file)"})
            break


# ------------------------------------------------------------------ static self-test cases (hand-checkable)
def _selftests():
    good = {"n": 10, "outcome": "returned", "steps": 40, "limit": 75, "res": [2, 5, 8], "xk": [3, 9, 20],
            "hk": [2, 1, 0], "w": 3, "ysep": [[True] * 3 for _ in range(3)]}
    nosep = [[True, False, True], [False, True, True], [True, True, True]]
    return [(good, "ok"),
            (dict(good, res=[], xk=[], hk=[], ysep=[]), "ok"),
            (dict(good, hk=[1, 1, 0]), "ok"),                       # equal heights are non-increasing
            (dict(good, outcome="budget"), "terminates"),
            (dict(good, outcome="raised:ValueError"), "returns"),
            (dict(good, res=[2, 5, 10]), "valid-indices"),
            (dict(good, res=[-1, 5, 8]), "valid-indices"),
            (dict(good, res=[2, 5, 5]), "increasing"),
            (dict(good, res=[5, 2, 8]), "increasing"),
            (dict(good, hk=[2, 0, 1]), "heights-monotone"),
            (dict(good, xk=[3, 5, 20]), "x-separation"),
            (dict(good, w=12), "x-separation"),
            (dict(good, ysep=nosep), "y-separation"),
            (dict(good, steps=76), "step-bound")]


# ------------------------------------------------------------------ the check
def model_checks(ctx):
    if ctx.quick:
        ctx.mc("MC_ZMethod", "MC_ZMethod", need_actions=ACTIONS)
    else:
        ctx.mc("MC_ZMethod", "MC_ZMethod_4", need_actions=ACTIONS, timeout=1800)
        ctx.mc("MC_ZMethod", "MC_ZMethod_5", need_actions=ACTIONS, timeout=1800)
        ctx.mc("MC_ZMethod", "MC_ZMethod_6", need_actions=ACTIONS, timeout=3000)
    ctx.mc("MC_ZMethod", "MC_ZMethod_live", need_actions=ACTIONS)
    ctx.mc("MC_ZMethod", "MC_ZMethod_noyguard", expect="ResultOk")
    ctx.mc("MC_ZMethod", "MC_ZMethod_xband", expect="ResultOk")


def _validate(ctx, rec, selftest=None, chunk=4000):
    cases = [c for c, _, _ in rec]
    meta = {c["id"]: m for c, m, _ in rec}
    # one TLC run at a time: harness.tlc names a run's metadir by module, cfg and the millisecond it starts,
    # so chunks started together by ctx.trace's thread pool can collide (seen once as a TLC crash)
    rej = ctx.trace("Trace_ZMethod", cases, selftest=selftest, chunk=chunk, procs=1)
    for cid, vs in rej.items():
        m = meta[cid]
        if m.get("seq") is not None:         # sequence family: the replay file carries the WHOLE sequence (re-run in order)
            c = next(c for c in cases if c["id"] == cid)
            ctx.violation(vs[0][0], {"kind": "Q", "seq": m["seq"], "call": m["call"]},
                          {"verdict": vs[0], "n": c["n"], "call_index": m["call"], "object": m["obj"],
                           "this_call": {k: m[k] for k in ("dx", "dy", "dz", "x_max", "y_range")}, "w": c["w"],
                           "earlier_calls": m["seq"]["calls"][:m["call"]], "knees": c["res"][:40], "xk": c["xk"][:40],
                           "error": m["error"], "backedges": m["backedges"]})
            continue
        if m.get("spec") is not None:        # scale family: the replay file carries the spec, not 10^5 points
            c = next(c for c in cases if c["id"] == cid)
            ctx.violation(vs[0][0], {"kind": "S", "spec": m["spec"], "dy": m["dy"], "dz": m["dz"]},
                          {"verdict": vs[0], "n": c["n"], "dx": m["dx"], "dy": m["dy"], "dz": m["dz"], "x_max": m["x_max"],
                           "y_range": m["y_range"], "knees": len(c["res"]), "error": m["error"], "backedges": m["backedges"]})
            continue
        ctx.violation(vs[0][0], {"kind": "T", "points": m["points"], "dx": m["dx"], "dy": m["dy"], "dz": m["dz"],
                                 "x_max": m["x_max"], "y_range": m["y_range"]},
                      {"verdict": vs[0], "error": m["error"], "backedges": m["backedges"]})
    return cases, meta


def _drift(ctx, rec):
    """Replay the implementation-shaped machine (TLC, Trace_ZMethod DriftSpec) on the recorded tables of
    small calls and compare its prediction(s) with what the code returned.  Notes only (DESIGN 3.3)."""
    ms = [(c, m) for c, _, m in rec if m is not None and c["outcome"] == "returned"]
    if not ms:
        return
    try:
        path = os.path.join(ctx.scratch, "machine_cases.json")
        with open(path, "w") as f:
            json.dump([m for _, m in ms], f)
        out = ctx.gen("Trace_ZMethod", "Trace_ZMethod_drift", env={"CASES_FILE": path}, timeout=600)
    except Exception as ex:          # advisory replay: never turns into a verdict or a failure
        ctx.note("DRIFT replay unavailable: %s" % str(ex)[:300])
        return
    pred = {}
    for o in out:
        pred.setdefault(o["id"], []).append([int(v) for v in o["result"]])
    drift = 0
    unique = 0
    for c, m in ms:
        ps = pred.get(c["id"])
        if not ps:
            ctx.note("DRIFT replay: no prediction for %s" % c["id"])
            continue
        unique += len(ps) == 1
        if c["res"] not in ps:
            drift += 1
            ctx.note("DRIFT: ZMethod.tla round machine predicts %s, zmethod.knees returned %s (n=%d, w=%d, x=%s, zl=%s)"
                     % (ps, c["res"], m["n"], m["w"], m["x"], m["zl"]))
    ctx.extra["drift_replays"] = len(ms)
    ctx.extra["drift_unique_predictions"] = unique
    ctx.extra["drift_mismatches"] = drift


def _scale_evidence(ctx, scases, meta, sizes):
    by = {}
    for c in scases:
        m = meta[c["id"]]
        e = by.setdefault(m["shape"], {"calls": 0, "two_or_more_knees": 0, "max_knees": 0})
        e["calls"] += 1
        e["two_or_more_knees"] += len(c["res"]) >= 2
        e["max_knees"] = max(e["max_knees"], len(c["res"]))
    ctx.extra["scale"] = {
        "calls": len(scases), "sizes": sizes, "by_shape": by,
        "calls_over_10000_points": sum(1 for c in scases if c["n"] > 10000),
        "calls_with_100plus_knees": sum(1 for c in scases if len(c["res"]) >= 100),
        "calls_with_default_x_max_and_y_range": sum(1 for c in scases if meta[c["id"]]["x_max"] is None
                                                    and meta[c["id"]]["y_range"] is None),
        "rightmost_knee_index": max([max(c["res"]) for c in scases if c["res"]] or [0]),
        "outcomes": {o: sum(1 for c in scases if c["outcome"] == o) for o in sorted(set(c["outcome"] for c in scases))},
        "json_bytes_to_tlc": sum(len(json.dumps(c)) for c in scases)}
    big = [c for c in scases if c["n"] > 10000 and len(c["res"]) >= 3]
    for c in big[:1]:
        m = meta[c["id"]]
        ctx.sample({"binding": "T", "family": "scale", "case": c, "spec": m["spec"],
                    "call": {k: m[k] for k in ("dx", "dy", "dz", "x_max", "y_range")}, "n": c["n"]})


def run(ctx):
    from harness import growth
    growth.safe(ctx, growth.knees2)
    ctx.rule = ("T: zmethod.knees on miss-ratio-like curves (harness.curves.mrc_curve and own families with plateaus, "
                "coarse height grids, bumps, clusters of x; n = 4..200) x dx,dy,dz in {0.01,0.05,0.1,0.3,0.5,1} x "
                "optional x_max / y_range overrides. non-trivial: the call returned at least two knees "
                "(there is a pair whose order, heights and separation are judged). "
                "SCALE family: production-size curves (n = 257 .. about 10^5, sizes straddling 2^8..2^16, 10^4 and 10^5; sharp "
                "cliffs with planted twin drops closer than the separation width, bumps, periodic texture, random walks, the "
                "shared staircase / mrc builders, flat curves; unit, clustered and wide x gaps; dx, dy from 0.001 to 0.3, "
                "default and overridden x_max / y_range) replayed into zmethod.knees and judged for every clause by the same "
                "Trace_ZMethod cases, whose tables mention the returned knees only while w and the y band come from the FULL curve. "
                "SEQUENCE family: 2..7 calls in a row in one process on the same curve (the same array object and equal copies; "
                "small curves n = 4..200 and production-size curves straddling 2^8..2^16, 10^4, 10^5) with the same dx/dy/dz and "
                "changing x_max (n/2 .. 10n) / y_range overrides in both orders (a -> b -> a), sometimes a changed step; every "
                "call is its own Trace_ZMethod case judged for every clause against the w and the y band of ITS OWN overrides")
    ctx.assumptions += [
        "x is integral by precondition and passed to TLC as integers < 2^30; heights as exact dense ranks of the "
        "returned knees' y; y-separation as the boolean |y_a-y_b| >= (y_max-y_min)*dy - 1e-12 (slack favours the code)",
        "steps = back-edges to the header of the first loop of zmethod.getPoints (the main `while True`), counted with "
        "a second sys.monitoring tool; limit = ceil((3 - z_min)/dz) + n + 2 + %d with z_min from "
        "uts.zscore.zscore_array(x, uts.gradient.csd(x, y)) (trusted dependency)" % SLACK,
        "a call whose main loop exceeds 4*limit+64 iterations (or limit*(n^2/4+2n+16)+20000 back-edges overall, or 60 s) is "
        "aborted and recorded with outcome budget/watchdog -> clause terminates",
        "MC_ZMethod: gaps range over 1..min(GapMax,w) (a gap > w decides every comparison like a gap = w); the "
        "visiting order of groups whose ZLevel ties is arbitrary (superset of the code's order by exact z)",
        "the machine's final sweep starts from a minimum no height exceeds (y <= 1 on the property's domain)",
        "sequence family: calls of one sequence run consecutively in one worker process (other cases may run before and "
        "after it in that process, never between its calls); the replay file carries the whole sequence and --replay re-runs "
        "and judges all of its calls in order; if a call changes the shared array in place (another property) the later "
        "calls get a fresh equal copy, so that every call of a sequence sees the same curve",
        "scale family: every curve is a deterministic function of its spec (shape, n, seed, K, dx, x gap mode, symbolic x_max / "
        "y_range override; builders in this file and harness.scale), rebuilt inside the worker and on --replay; it is judged by "
        "the same case record and the same budgets as the small calls (over 5 000 calls of the unchanged code the peak was 9 s "
        "of CPU and 5*10^6 back-edges against 60 s and more than 10^13); constant curves keep unit x gaps (their knees are "
        "limited by the x band alone and the code's selection guard is quadratic in the number of knees)"]
    model_checks(ctx)
    items = inputs(ctx)
    sitems, ssizes = scale_inputs(ctx)           # drawn AFTER the small inputs: those stay what they were for a given seed
    qitems, qsizes = seq_inputs(ctx)             # drawn last, for the same reason
    # one worker pool for both families (a second pool would pay the per-worker import of the library again); the long
    # curves are spread evenly over the small ones so that no chunk of the pool's work consists of long curves only
    mixed = list(items)
    stride = max(1, len(items) // max(1, len(sitems)))
    for k, it in enumerate(sitems):
        mixed.insert(min(len(mixed), k * (stride + 1)), it)
    qstride = max(1, len(mixed) // max(1, len(qitems)))
    for k, it in enumerate(qitems):              # a sequence runs inside ONE worker, call after call
        mixed.insert(min(len(mixed), k * (qstride + 1) + 1), it)
    both = par.pmap(_record_any, mixed)
    qrec = [r for rs in both if isinstance(rs, list) for r in rs]
    both = [r for r in both if not isinstance(r, list)]
    rec = [r for r in both if r[1].get("spec") is None]
    srec = [r for r in both if r[1].get("spec") is not None]
    if ctx.quick:                                # one TLC run for both families
        cases, meta = _validate(ctx, rec + srec + qrec, selftest=_selftests(), chunk=6000)      # still ONE TLC run
    else:
        qc, qm = _validate(ctx, qrec, chunk=1500)
        cases, meta = _validate(ctx, rec, selftest=_selftests())
        sc, sm = _validate(ctx, srec, chunk=150)  # a few MB of JSON per TLC run
        cases, meta = cases + sc + qc, dict(meta, **dict(sm, **qm))
    _scale_evidence(ctx, [c for c, _, _ in srec], meta, ssizes)
    _seq_evidence(ctx, qrec, qsizes)
    for c in cases:
        m = meta[c["id"]]
        if m.get("seq") is not None:
            ctx.count((m["seq"].get("spec") or m["seq"]["points"], m["dx"], m["dy"], m["dz"], m["x_max"], m["y_range"]),
                      c["outcome"] == "returned" and len(c["res"]) >= 2)
            continue
        ctx.count((m["points"], m["dx"], m["dy"], m["dz"], m["x_max"], m["y_range"]) if m.get("spec") is None
                  else (m["spec"], m["dy"], m["dz"]), c["outcome"] == "returned" and len(c["res"]) >= 2)
    ctx.extra["calls_with_3plus_knees"] = sum(1 for c in cases if len(c["res"]) >= 3)
    ctx.extra["max_steps_over_limit"] = round(max(c["steps"] / c["limit"] for c in cases), 3)
    _drift(ctx, rec)
    multi = [c for c in cases if len(c["res"]) >= 3]
    for c in (multi[:1] + cases[:1]):
        ctx.sample({"binding": "T", "case": c, "call": {k: meta[c["id"]][k] for k in ("dx", "dy", "dz", "x_max", "y_range")},
                    "n": c["n"]})


def replay(ctx, obj):
    c = obj["case"]
    if c.get("kind") == "Q":                     # the whole sequence, in order, in this process; every call is judged
        _validate(ctx, _record_seq(("replay", c["seq"])))
        return
    if c.get("kind") == "S":
        _validate(ctx, [_record_scale(("replay", c["spec"], c["dy"], c["dz"]))])
        return
    rec = [_record(("replay", c["points"], c["dx"], c["dy"], c["dz"], c.get("x_max"), c.get("y_range"), False))]
    _validate(ctx, rec)
