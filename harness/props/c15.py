"""C15 - global reconstruction cost matches its definition and is cache-transparent.
M: GlobalCost.tla cache machine (CacheSound, CacheDomain, DivisorOk, PerfectFit for all histories of <=3 queries,
   n<=6); negative instances: cache keyed by the left index only; metric switched under a shared cache.
G: every history emitted by TLC (structure of each answer: contributing segments, divisor, normalisation; cache
   domain after each query) replayed with one shared dict and with fresh caches on several curves.
T: random float curves / random longer histories recorded and consumed query by query by Trace_GlobalCost."""
import math
import struct

import numpy as np

from harness import costdef, curves, numeric, par
from harness import enums, monitor, scale

METRICS = ["r2", "rmspe", "rmsle", "rpd", "smape"]


def _key(k):
    """cache key -> [l, r]; anything that is not a pair of ints is kept recognisable (and will not match)."""
    try:
        k = [int(v) for v in k]
    except Exception:
        return [-7, -7]
    return k if len(k) == 2 else (k + [-7, -7])[:2]


def _bits(v):
    return struct.pack("<d", float(v))


def _curves_for(n, seed):
    import random
    rng = random.Random(seed * 7919 + n)
    out = []
    x = np.cumsum([rng.randint(1, 3) for _ in range(n)]).astype(float)
    out.append(np.column_stack([np.arange(n, dtype=float), [float(rng.randint(1, 4)) for _ in range(n)]]))
    out.append(np.column_stack([x, [float(rng.randint(0, 3)) for _ in range(n)]]))
    out.append(np.column_stack([x, sorted([rng.random() * 5 + 0.1 for _ in range(n)], reverse=True)]))
    return out


def _offset_curve(n, seed):
    """heights far from the origin relative to their spread (exactly representable): R2 is translation invariant, so
    the definition is unchanged, but algebraically equal one-pass formulas cancel catastrophically here."""
    import random
    rng = random.Random(seed * 104729 + n)
    return np.column_stack([np.arange(n, dtype=float), [float(2 ** 27 + rng.randint(0, 6)) for _ in range(n)]])


def _query_events(P, metric, queries, exprs=None, rel=1e-9):
    """run a history against one shared dict and against fresh caches; returns one event per query."""
    import kneeliverse.evaluation as ev
    import kneeliverse.metrics as metrics
    M = enums.pick(metrics.Metrics, metric)
    shared = {}
    events = []
    n = len(P)
    for qi, S in enumerate(queries):
        e = {"S": list(S)}
        try:
            v1 = ev.compute_global_cost(P, np.array(S), M, shared)
            v2 = ev.compute_global_cost(P, np.array(S), M)
            e["outcome"] = "returned"
        except Exception as ex:
            e.update(outcome="raised:" + type(ex).__name__, keys=[], tss=False, shared_eq_fresh=True,
                     defcls="equal", nonneg=True, perfect="na", value=None)
            events.append(e)
            continue
        e["keys"] = sorted([_key(k) for k in shared if k != "tss"])
        e["tss"] = "tss" in shared
        e["shared_eq_fresh"] = _bits(v1) == _bits(v2) or (math.isnan(v1) and math.isnan(v2))
        expr = exprs[qi] if exprs is not None else {
            "metric": metric, "segs": [[S[j], S[j + 1]] for j in range(len(S) - 1) if S[j + 1] - S[j] + 1 > 2],
            "total": n + len(S) - 2,
            "norm": "one-minus-rss-over-tss" if metric == "r2" else ("sqrt-of-mean" if metric in ("rmsle", "rmspe") else "mean"),
            "clip0": True}
        d, amb = costdef.eval_expr(P, expr)
        if amb or not (math.isfinite(d) and math.isfinite(v1)):
            e["defcls"] = "ambiguous"
        else:
            e["defcls"] = "equal" if numeric.close(v1, d, rel=rel, ab=1e-12 if rel <= 1e-9 else 1e-8) else "differs"
        e["nonneg"] = bool(v1 >= 0) or math.isnan(v1)
        e["perfect"] = "na"
        if len(S) == n:
            e["perfect"] = "ok" if v1 == (1.0 if metric == "r2" else 0.0) else "bad"
        e["value"] = float(v1)
        e["expected"] = d
        events.append(e)
    return events


def _rmse_mip(P, S, rel=1e-9):
    """global RMSE / MIP observables for one breakpoint set: list of (clause, detail) mismatches."""
    import kneeliverse.evaluation as ev
    bad = []
    try:
        c = {}
        r1 = ev.compute_global_rmse(P, np.array(S), c)
        r2 = ev.compute_global_rmse(P, np.array(S))
        r3 = ev.compute_global_rmse(P, np.array(S), c)
        d = costdef.global_rmse_def(P, S)
        if not (_bits(r1) == _bits(r2) == _bits(r3)):
            bad.append(("cache-transparent", {"fn": "compute_global_rmse", "S": S, "values": [r1, r2, r3]}))
        ab = 1e-12 if rel <= 1e-9 else 1e-7
        if not numeric.close(r1, d, rel=rel, ab=ab):
            bad.append(("rmse-is-interpolation-rmse", {"S": S, "got": float(r1), "expected": d}))
        if len(S) >= 3:
            m, mad = ev.mip(P, np.array(S))
            dm, dmad = costdef.mip_def(P, S)
            if not (numeric.close(m, dm, rel=rel, ab=ab) and numeric.close(mad, dmad, rel=rel, ab=ab)):
                bad.append(("mip-definition", {"S": S, "got": [float(m), float(mad)], "expected": [dm, dmad]}))
    except Exception as ex:
        bad.append(("returns", {"fn": "compute_global_rmse/mip", "S": S, "raised": repr(ex)[:200]}))
    return bad


def _first_bad(events, metric):
    for e in events:
        if e["outcome"] != "returned":
            return "returns", e
        if not e["shared_eq_fresh"]:
            return "cache-transparent", e
        if e["defcls"] == "differs":
            return "equals-definition(%s)" % metric, e
        if not e["nonneg"]:
            return "non-negative", e
        if e["perfect"] == "bad":
            return "perfect-fit-value", e
    return None


def _replay_history(item):
    """G: one TLC history on several curves -> list of (clause, detail, curve)"""
    b, seed = item
    n, metric = b["n"], b["metric"]
    queries = [q["S"] for q in b["log"]]
    exprs = [q["expr"] for q in b["log"]]
    out = []
    todo = [(P, 1e-9) for P in _curves_for(n, seed)]
    if metric == "r2":
        todo.append((_offset_curve(n, seed), 1e-6))
    for P, rel in todo:
        evs = _query_events(P, metric, queries, exprs, rel)
        for e, q in zip(evs, b["log"]):
            if e["outcome"] == "returned":
                exp_keys = sorted([list(k) for k in q["keys"]])
                if e["keys"] != exp_keys or e["tss"] != q["tss"]:
                    out.append(("DRIFT:cache-keys", {"S": e["S"], "got": e["keys"], "expected": exp_keys, "tss": e["tss"]}, P.tolist()))
                    break
        fb = _first_bad(evs, metric)
        if fb:
            out.append((fb[0], {k: fb[1].get(k) for k in ("S", "value", "expected", "outcome")}, P.tolist()))
        if metric == "r2":            # RMSE / MIP ride along once per history
            for S in queries[:1]:
                for clause, detail in _rmse_mip(P, S, rel):
                    out.append((clause, detail, P.tolist()))
    return out


def _np_def(P, S, metric):
    """independent float evaluation of the definition for long curves (interpolate, accumulate, normalise)."""
    n = len(P)
    x, y = P[:, 0], P[:, 1]
    h = np.interp(x, x[S], y[S])
    mask = np.ones(n, bool)
    for a, b in zip(S[:-1], S[1:]):
        if b - a + 1 <= 2:
            mask[a:b + 1] = False
    # every interior breakpoint belongs to two segments; its own error is 0, so one pass over the points is enough
    yy, hh = y[mask], h[mask]
    eps = 1e-16
    tot = n + len(S) - 2
    if metric == "r2":
        rss = math.fsum((yy - hh) ** 2)
        tss = math.fsum((y - y.mean()) ** 2)
        v = 1.0 - rss if tss == 0 else 1.0 - rss / tss
    elif metric == "rmsle":
        v = math.sqrt(math.fsum((np.log(yy + 1) - np.log(hh + 1)) ** 2) / tot)
    elif metric == "rmspe":
        v = math.sqrt(math.fsum(((yy - hh) / (yy + eps)) ** 2) / tot)
    elif metric == "rpd":
        v = math.fsum(np.abs((yy - hh) / (np.maximum(yy, hh) + eps))) / tot
    else:
        v = math.fsum(2.0 * np.abs(hh - yy) / (np.abs(yy) + np.abs(hh) + eps)) / tot
    return max(v, 0.0)


def _record_big(item):
    """T: one long curve (more points than fit 16-bit packing tricks), histories whose segments share a right end."""
    import random
    import kneeliverse.evaluation as ev
    import kneeliverse.metrics as metrics
    cid, seed, n = item
    rng = random.Random(seed)
    x = np.arange(1, n + 1, dtype=float)
    P = np.column_stack([x, 1.0 / (1.0 + x / 4.0) + 0.001 * np.sin(x / 50.0) + 0.01])
    metric = rng.choice(METRICS)
    r = rng.randint(n - 5000, n - 3)
    queries = [[0, r, n - 1], [0, 1, r, n - 1], [0, 2, r, n - 1], [0, r, n - 1], [0, 1, 2, r, n - 1]]
    rng.shuffle(queries)
    M = enums.pick(metrics.Metrics, metric)
    shared = {}
    events = []
    for S in queries:
        v1 = ev.compute_global_cost(P, np.array(S), M, shared)
        v2 = ev.compute_global_cost(P, np.array(S), M)
        d = _np_def(P, S, metric)
        events.append({"S": S, "outcome": "returned", "keys": sorted([_key(k) for k in shared if k != "tss"]), "tss": "tss" in shared,
                       "shared_eq_fresh": _bits(v1) == _bits(v2),
                       "defcls": "equal" if numeric.close(v1, d, rel=1e-6, ab=1e-9) else "differs",
                       "nonneg": bool(v1 >= 0), "perfect": "na", "value": float(v1), "expected": d})
    case = {"id": cid, "n": n, "metric": metric,
            "events": [{k: e[k] for k in ("S", "outcome", "keys", "tss", "shared_eq_fresh", "defcls", "nonneg", "perfect")} for e in events]}
    return case, {"big": [cid, seed, n], "metric": metric, "queries": queries, "values": [(e["value"], e["expected"]) for e in events]}, []


def _record_random(item):
    """T: random float curve, random history of up to 8 queries."""
    import random
    cid, seed = item
    rng = random.Random(seed)
    P = curves.random_curve(rng, 3, 60)
    if rng.random() < 0.3:
        P[:, 1] += 0.5
    n = len(P)
    metric = rng.choice(METRICS)
    rel = 1e-9
    if metric == "r2" and rng.random() < 0.3:       # heights far from the origin (R2 is translation invariant)
        P[:, 1] = np.round(P[:, 1] * 8) / 8 + float(2 ** 26)
        rel = 1e-6
    if rel == 1e-9 and rng.random() < 0.2:
        # heights in tiny units (2^-30, exact): R2 and the relative metrics are scale invariant in y, RMSE-like ones scale -
        # the definition is evaluated on the scaled values either way; an ABSOLUTE epsilon added to a sum of squares is not
        P[:, 1] = P[:, 1] * 2.0 ** -30
    elif rel == 1e-9 and rng.random() < 0.25:      # (never together with the height offset: two offsets compound the rounding)
        # abscissae far from the origin relative to their spacing (exactly representable): the definition interpolates
        # between breakpoints, so it is translation invariant in x; a relative comparison of segment end abscissae is not
        xs = np.round(P[:, 0])
        if np.all(np.diff(xs) > 0):
            P[:, 0] = xs + float(2 ** 20)
            rel = 1e-6
    queries = []
    for _ in range(rng.randint(1, 8)):
        k = rng.randint(0, n - 2)
        queries.append(sorted(set([0, n - 1] + rng.sample(range(n), k))))
    if rng.random() < 0.3:
        queries.append(list(range(n)))
    evs = _query_events(P, metric, queries, None, rel)
    extra = []
    for S in queries[:2]:
        extra += _rmse_mip(P, S, rel)
    case = {"id": cid, "n": n, "metric": metric,
            "events": [{k: e[k] for k in ("S", "outcome", "keys", "tss", "shared_eq_fresh", "defcls", "nonneg", "perfect")} for e in evs]}
    return case, {"points": P.tolist(), "metric": metric, "queries": queries, "values": [(e.get("value"), e.get("expected")) for e in evs]}, extra


# ---------------------------------------------------------------- scale family: MIP / global RMSE on thousands of breakpoints
# evaluation.mip is quadratic in the number of breakpoints (one global RMSE per deleted interior breakpoint), so it is the
# place where a "sample the references above a size" shortcut hides: invisible on the reductions of a few dozen points the
# families above use.  Reductions of 258 .. 10^4 breakpoints (counts just above 2^8, 2^10, 2 * 2^10, 2^12, 2 * 2^12, 10^4) of
# curves of 10^4 .. 10^5 points are replayed into evaluation.mip / compute_global_rmse (under a quadratic back-edge budget) and
# judged, like the small inputs, against an independent evaluation of the definition.
S_SHAPES = ("decay-noise", "mrc", "walk", "zigzag-grow")
S_LAYOUTS = ("random", "even-jitter", "dense-block", "left-heavy")
S_XMODES = ("unit", "uneven")
_LD = np.longdouble
_EPS = 2.0 ** -52


def _s_curve(shape, n, seed, xmode):
    """strictly increasing integer abscissae (unit or uneven spacing), ordinates > 0 on a 2^-20 grid."""
    import random
    g = np.random.default_rng([seed, n, S_SHAPES.index(shape)])
    i = np.arange(n, dtype=float)
    if shape == "decay-noise":       # miss-ratio like: decreasing convex, a few cliffs, noise
        y = 1.0 / np.sqrt(1.0 + i) + 0.2 * np.exp(-5.0 * i / n) + 0.05 * (np.sin(40.0 * i / n) > 0.3) * np.exp(-2.0 * i / n)
        y = np.abs(y + g.normal(0.0, 5e-3, n)) + 0.05
    elif shape == "mrc":             # scale.mrc (ordinates up to 1000, cliffs) with a dyadic texture of amplitude 2
        y = scale.mrc(n, random.Random(seed * 31 + n), knees=8)[:, 1] + 1.0 + g.integers(0, 65, n) / 32.0
    elif shape == "walk":            # random walk: deletions of very different weight
        y = np.cumsum(g.integers(-3, 4, n)) / 8.0
        y = y - y.min() + 1.0
    else:                            # zigzag whose amplitude grows to the right
        y = scale.zigzag(n, growth=1.0 / 512)[:, 1] + 1.0
    y = np.round(y * 2.0 ** 20) / 2.0 ** 20
    x = i + 1.0 if xmode == "unit" else np.cumsum(g.integers(1, 4, n)).astype(float)
    return np.ascontiguousarray(np.column_stack([x, y]))


def _s_breakpoints(layout, n, k, seed):
    """k ascending indices containing both ends."""
    g = np.random.default_rng([seed, n, k, S_LAYOUTS.index(layout)])
    inner = np.arange(1, n - 1)
    if layout == "random":
        pick = g.choice(inner, size=k - 2, replace=False)
    elif layout == "even-jitter":
        w = (n - 2) / float(k - 2)
        pick = (1 + np.floor(np.arange(k - 2) * w) + g.integers(0, max(1, int(w)), k - 2)).astype(int)
    elif layout == "dense-block":    # a run of adjacent breakpoints (segments of 2 points) and a sparse remainder
        m = (k - 2) // 3
        a = int(g.integers(1, n - 2 - m))
        rest = np.setdiff1d(inner, np.arange(a, a + m))
        pick = np.concatenate([np.arange(a, a + m), g.choice(rest, size=k - 2 - m, replace=False)])
    else:                            # left-heavy: two thirds of the breakpoints in the first tenth of the curve
        m = min(2 * (k - 2) // 3, n // 10 - 2)
        pick = np.concatenate([g.choice(np.arange(1, n // 10), size=m, replace=False),
                               g.choice(np.arange(n // 10, n - 1), size=k - 2 - m, replace=False)])
    S = np.unique(np.concatenate([[0], pick, [n - 1]]))
    if len(S) < k:                   # (jitter collisions) top up
        rest = np.setdiff1d(inner, S)
        S = np.unique(np.concatenate([S, g.choice(rest, size=k - len(S), replace=False)]))
    return S.astype(np.int64)


def _s_median(v):
    v = np.sort(v)
    m = len(v)
    return v[m // 2] if m % 2 else (v[m // 2 - 1] + v[m // 2]) / 2


def _s_oracle(P, S):
    """The definition, independently: squared residuals against the two-point form of the interpolant through S in extended
    precision; deleting breakpoint i only changes the interpolant between its neighbours, so the sum of squares after the
    deletion is prefix + re-evaluated window + suffix (no subtraction).  Returns rmse, mip, mad, the improvements, and U: a
    bound (in units of eps) on the root-mean-square of the rounding errors of the ordinates b + m * x a binary64
    evaluation in slope-intercept form fits on any of the reconstructions involved (per point: |m| * x + |y|)."""
    n = len(P)
    x, y = P[:, 0].astype(_LD), P[:, 1].astype(_LD)
    k = len(S)
    seg = np.clip(np.searchsorted(S, np.arange(n), side="right") - 1, 0, k - 2)
    a, b = S[seg], S[seg + 1]
    h = y[a] + (y[b] - y[a]) * (x - x[a]) / (x[b] - x[a])
    r0 = (y - h) ** 2
    pre = np.concatenate([[_LD(0)], np.cumsum(r0)])
    suf = np.concatenate([np.cumsum(r0[::-1])[::-1], [_LD(0)]])
    base = np.sqrt(pre[n] / n)
    ip = np.empty(k - 2, dtype=_LD)
    xs, ys = P[S, 0], np.abs(P[S, 1])
    u = np.abs(np.diff(P[S, 1]) / np.diff(xs)) * np.abs(xs[1:]) + np.maximum(ys[1:], ys[:-1])
    q0 = float(np.sum((np.diff(S) + 1) * u * u))
    qx = 0.0
    for i in range(1, k - 1):
        l, r = int(S[i - 1]), int(S[i + 1])
        m = (y[r] - y[l]) / (x[r] - x[l])
        hh = y[l] + m * (x[l:r + 1] - x[l])
        sse = pre[l] + np.sum((y[l:r + 1] - hh) ** 2) + suf[r + 1]
        ip[i - 1] = np.sqrt(sse / n) - base
        um = abs(float(m)) * abs(float(x[r])) + max(abs(float(y[l])), abs(float(y[r])))
        qx = max(qx, (r - l + 1) * um * um)
    med = _s_median(ip)
    mad = _s_median(np.abs(ip - med))
    return float(base), float(med), float(mad), ip, math.sqrt((q0 + qx) / n)


def _s_plain_ip(P, S, i):
    """the definition as it reads (binary64, np.interp over the whole curve): improvement of interior breakpoint i."""
    x, y = P[:, 0], P[:, 1]

    def rmse(T):
        return math.sqrt(math.fsum((y - np.interp(x, x[T], y[T])) ** 2) / len(P))
    return rmse(np.delete(S, i)) - rmse(S)


def _s_item(item):
    """one scale case (a recipe): returns (recipe, info, [(clause, detail)], oracle_problem or None)"""
    if item is None:
        return None
    import kneeliverse.evaluation as ev
    shape, layout, xmode, n, k, seed = item
    P = _s_curve(shape, n, seed, xmode)
    S = _s_breakpoints(layout, n, k, seed)
    assert len(S) == k and S[0] == 0 and S[-1] == n - 1 and np.all(np.diff(S) > 0) and np.all(np.diff(P[:, 0]) > 0)
    base, med, mad, ip, U = _s_oracle(P, S)
    # rounding model (binary64 library side; the oracle's own is far below): a fitted ordinate b + m * x carries an error of a
    # few eps * (|m| * x + |y|); the norm of the residual vector is 1-Lipschitz, so a global RMSE moves by at most the
    # root-mean-square of those errors (8 * eps * U), plus n * eps relative for the long sums; an improvement is a
    # difference of two RMSEs; median and MAD are 1- and 2-Lipschitz in the improvements
    worst = base + max(0.0, float(np.max(ip)))
    delta = 4.0 * (8.0 * _EPS * U + n * _EPS * worst)
    # the oracle is not trusted blindly: the plain reading of the definition on a sample of the deletions
    problem = None
    g = np.random.default_rng([seed, k, 77])
    for i in sorted(set([1, k - 2] + [int(v) for v in g.integers(1, k - 1, 10)])):
        pv = _s_plain_ip(P, S, i)
        if abs(pv - float(ip[i - 1])) > delta:
            problem = "incremental oracle %r vs plain definition %r at breakpoint %d (delta %g)" % (float(ip[i - 1]), pv, i, delta)
    bad = []
    info = {"n": n, "k": k, "rmse": base, "mip": med, "mad": mad, "delta": delta,
            "distinct_improvements": int(len(np.unique(ip.astype(float))))}
    # ---- global RMSE: value, cache transparency (fresh / shared / repeated)
    c = {}
    calls = [monitor.call(ev.compute_global_rmse, (P, S.copy()) + extra, budget=monitor.quad(k, 8), wall=600) for extra in ((c,), (), (c,))]
    if any(o != "returned" for o, _, _ in calls):
        bad.append(("returns", {"fn": "compute_global_rmse", "outcome": [o for o, _, _ in calls], "value": str([v for _, v, _ in calls])[:200]}))
    else:
        r1, r2, r3 = [v for _, v, _ in calls]
        if not (_bits(r1) == _bits(r2) == _bits(r3)):
            bad.append(("cache-transparent", {"fn": "compute_global_rmse", "values": [float(r1), float(r2), float(r3)]}))
        if not numeric.close(r1, base, rel=1e-9, ab=max(1e-12, delta)):
            bad.append(("rmse-is-interpolation-rmse", {"got": float(r1), "expected": base, "tolerance": max(1e-12, delta, 1e-9 * base)}))
    # ---- MIP and its MAD
    out, v, counts = monitor.call(ev.mip, (P, S.copy()), budget=monitor.quad(k, 8), wall=3600)
    info["back_edges"] = int(sum(counts.values()))
    if out != "returned":
        bad.append(("returns", {"fn": "mip", "outcome": out, "value": str(v)[:200]}))
    else:
        try:
            m, d = float(v[0]), float(v[1])
        except Exception:
            m = d = float("nan")
            bad.append(("returns", {"fn": "mip", "outcome": "returned", "value": str(v)[:200]}))
        if not bad or bad[-1][0] != "returns":
            if not (numeric.close(m, med, rel=1e-9, ab=max(1e-12, delta)) and numeric.close(d, mad, rel=1e-9, ab=max(1e-12, 2 * delta))):
                bad.append(("mip-definition", {"got": [m, d], "expected": [med, mad], "interior_breakpoints": k - 2,
                                               "tolerance": [max(1e-12, delta, 1e-9 * abs(med)), max(1e-12, 2 * delta, 1e-9 * abs(mad))]}))
    return list(item), info, bad, problem


def _s_plan(ctx):
    """counts of breakpoints just above the thresholds a shortcut would use (T + 2 ends, 2T + 2 for a stride) with a ragged
    remainder; shapes / layouts / spacings / curve lengths drawn per case."""
    r = ctx.rng.randrange
    ks = [258 + r(0, 30), 1026 + r(0, 60), 1500 + r(0, 200), 2050 + r(0, 40), 2600 + r(0, 300), 4098 + r(0, 60)]
    if not ctx.quick:
        ks += [514 + r(0, 30), 2050 + r(40, 400), 3074 + r(0, 100), 5000 + r(0, 300), 6200 + r(0, 300), 8194 + r(0, 100), 10002 + r(0, 100)]
    lens = [10001 + r(1, 2000), 16385 + r(1, 4000), 30000, 32769 + r(1, 8000), 65537 + r(1, 9000), 100001 + r(1, 9000)]
    items = []
    for j, k in enumerate(sorted(ks, reverse=True)):          # the long ones first: they decide the wall time
        cand = [n for n in lens if n >= 3 * k]
        n = 30000 if (j % 3 == 0 and 30000 in cand) else cand[(2 * j + ctx.seed + r(0, 2)) % len(cand)]
        layout = S_LAYOUTS[(j + ctx.seed) % len(S_LAYOUTS)]
        if layout == "left-heavy" and n // 10 < k:
            layout = "random"
        items.append((S_SHAPES[(j + r(0, 4)) % len(S_SHAPES)], layout, ctx.rng.choice(S_XMODES), n, k, ctx.seed * 1009 + j))
    return items


def _s_run(ctx, items, replay_case=None):
    # par.pmap runs batches of fewer than 32 items serially: pad with no-op items, one item per task
    res = par.pmap(_s_item, list(items) + [None] * max(0, 32 - len(items)), chunksize=1)[:len(items)]
    for rec, info, bad, problem in res:
        if problem:
            from harness.main import Machinery
            raise Machinery("C15 scale family: %s on %s" % (problem, rec))
        case = replay_case or {"kind": "Smip", "recipe": rec}
        for clause, detail in bad:
            ctx.violation(clause, case, dict(detail, recipe=rec, **{q: info[q] for q in ("n", "k")}))
    return res


# ---------------------------------------------------------------- integer-dtype family (dtype x magnitude x long segments)
# Curves as they are stored in practice: miss COUNTS against cache sizes in bytes (int64, x up to ~10^12 / 2^41, y ~5*10^8)
# or in entries (int32, x ~10^5 .. 2^20, y ~2*10^5), evaluated on SPARSE breakpoint sets (2 .. a few dozen breakpoints:
# the first gRDP iterations), so that |dx| * |dy| of a segment exceeds the range of the curve's own dtype: any step
# of the cost that stays in the curve's dtype wraps there.  Each integer curve has a float64 twin (same values, exactly).
# Histories share one cache and are consumed by Trace_GlobalCost exactly like the 'big' cases of T; the definition is
# evaluated on the exact values (two-point form, extended precision).
I_DTYPES = ("int64", "int32")
I_SHAPES = ("exp", "power", "cliffs", "linear-noise", "rising")
I_XMODES = ("even", "uneven", "translated")


def _i_curve(dtype, shape, xmode, n, seed):
    """strictly increasing integer abscissae, integer ordinates >= 1, everything (and every difference) inside dtype."""
    g = np.random.default_rng([seed, n, I_SHAPES.index(shape), I_XMODES.index(xmode), I_DTYPES.index(dtype)])
    big = dtype == "int64"
    A = (5.0e8 if big else 2.0e5) * g.uniform(0.5, 1.2)
    floor = A * g.uniform(1e-3, 2e-2) + 1.0
    k = np.arange(n, dtype=float)
    t = k / n
    if shape == "exp":
        y = floor + A * np.exp(-t * g.uniform(4.0, 10.0))
    elif shape == "power":
        y = floor + A / (1.0 + k / g.uniform(1.0, 50.0)) ** g.uniform(0.4, 0.9)
    elif shape == "cliffs":
        y = floor + 0.2 * A * (1.0 - t)
        for c in g.uniform(0.02, 0.95, 8):
            y = y + (0.1 * A) * (t < c)
        y = y + g.integers(0, max(2, int(A * 1e-3)), n)
    elif shape == "linear-noise":
        y = floor + A * (1.0 - 0.9 * t) + g.integers(0, max(2, int(A * 1e-3)), n)
    else:
        y = floor + A * (1.0 - np.exp(-5.0 * t)) + g.integers(0, max(2, int(A * 1e-4)), n)
    y = np.floor(y).astype(np.int64)
    xmax = 2 ** 40 if big else 10 ** 5
    step = max(1, xmax // n)
    if xmode == "even":
        x = (np.arange(n, dtype=np.int64) + 1) * step
    elif xmode == "uneven":
        x = np.cumsum(g.integers(1, 2 * step + 1, n).astype(np.int64))
    else:
        x = (2 ** 40 if big else 2 ** 20) + np.arange(n, dtype=np.int64) * step
    ii = np.iinfo(dtype)
    assert np.all(np.diff(x) > 0) and y.min() >= 1 and int(x[-1]) < ii.max // 2 and int(y.max()) < ii.max // 2
    return np.ascontiguousarray(np.column_stack([x, y]).astype(dtype))


def _i_queries(n, g):
    """sparse breakpoint sets (long segments), two of them sharing a segment (cache hit); short curves also get a
    stride-7 set and the every-point set (last: only one event then carries the long key list)."""
    r = int(g.integers(n // 2, n - 2))
    qs = [[0, n - 1], [0, n // 8, n - 1], [0, n // 10, n // 4, n // 2, n - 1], [0, r, n - 1], [0, 1, r, n - 1],
          sorted(set([0, n - 1] + [int(v) for v in g.integers(1, n - 1, int(g.integers(2, 9)))])),
          sorted(set([0, n - 1] + [min(n - 1, 2 ** j) for j in range(0, 18)])),
          sorted(set([0, n - 1] + [int(v) for v in np.linspace(0, n - 1, int(g.integers(12, 40)))]))]
    qs = [qs[j] for j in g.permutation(len(qs))][:6]
    if n <= 4200:
        qs.append(sorted(set(list(range(0, n, 7)) + [n - 1])))
    if n <= 1100:
        qs.append(list(range(n)))
    return qs


def _i_def(P, S, metric):
    """(d, bound): the definition on the exact values (the integers are exact in extended precision; two-point form of the
    interpolant, breakpoints reproduced exactly), and a bound on what binary64 rounding of a fitted ordinate
    b + m * x (a few eps * (|m| * |x| + |y|)) may move the metric by; inf when a fitted ordinate is not well
    separated from 0 (relative terms unconditioned)."""
    n, k = len(P), len(S)
    S = np.asarray(S, dtype=np.int64)
    x, y = P[:, 0].astype(_LD), P[:, 1].astype(_LD)
    seg = np.clip(np.searchsorted(S, np.arange(n), side="right") - 1, 0, k - 2)
    a, b = S[seg], S[seg + 1]
    h = y[a] + (y[b] - y[a]) * (x - x[a]) / (x[b] - x[a])
    h[S] = y[S]
    eps = _LD(1e-16)
    tot = n + k - 2
    xs, ys = np.abs(x[S]).astype(float), np.abs(y[S]).astype(float)
    m = np.abs(np.diff(y[S]).astype(float) / np.diff(x[S]).astype(float))
    E = (8.0 * _EPS * (m * np.maximum(xs[1:], xs[:-1]) + np.maximum(ys[1:], ys[:-1])))[seg]
    lo = np.minimum(y, h).astype(float)
    if metric == "r2":
        rss = float(np.sum((y - h) ** 2))
        tss = float(np.sum((y - np.mean(y)) ** 2))
        if tss == 0:
            return max(1.0 - rss, 0.0), float("inf")
        d = 1.0 - rss / tss
        e2 = float(np.sum(E * E))
        bound = (2.0 * math.sqrt(rss * e2) + e2) / tss + n * _EPS * (1.0 + rss / tss)
        return max(d, 0.0), bound
    if np.any(E >= 0.25 * lo):
        bound = float("inf")
        t = np.zeros(n)
    else:
        t = E / lo
        bound = None
    if metric == "rmsle":
        d = math.sqrt(float(np.sum((np.log(y + 1) - np.log(h + 1)) ** 2)) / tot)
    elif metric == "rmspe":
        d = math.sqrt(float(np.sum(((y - h) / (y + eps)) ** 2)) / tot)
    elif metric == "rpd":
        d = float(np.sum(np.abs((y - h) / (np.maximum(y, h) + eps)))) / tot
    else:
        d = float(np.sum(2 * np.abs(h - y) / (np.abs(y) + np.abs(h) + eps))) / tot
    if bound is None:
        if metric in ("rmsle", "rmspe"):
            bound = math.sqrt(float(np.sum((2.0 * t) ** 2)) / tot)
        else:
            bound = float(np.sum(4.0 * t)) / tot
        bound += n * _EPS * abs(d)
    return max(d, 0.0), bound


def _i_record(item):
    """T: one integer-dtype curve (or its float64 twin), one metric, one history against a shared cache."""
    if item is None:
        return None
    import kneeliverse.evaluation as ev
    import kneeliverse.metrics as metrics
    cid, dtype, shape, xmode, n, metric, seed, twin = item
    P = _i_curve(dtype, shape, xmode, n, seed)
    imax = float(np.iinfo(dtype).max)
    if twin:
        P = P.astype(np.float64)        # exact: every value is below 2^53
    g = np.random.default_rng([seed, n, 5])
    queries = _i_queries(n, g)
    M = enums.pick(metrics.Metrics, metric)
    shared = {}
    events = []
    wraps = amb = 0
    X, Y = P[:, 0].astype(float), P[:, 1].astype(float)
    for S in queries:
        Sa = np.array(S)
        e = {"S": S}
        o1, v1, _ = monitor.call(ev.compute_global_cost, (P, Sa.copy(), M, shared), budget=monitor.quad(len(S), 8), wall=300)
        o2, v2, _ = monitor.call(ev.compute_global_cost, (P, Sa.copy(), M), budget=monitor.quad(len(S), 8), wall=300)
        ok = o1 == o2 == "returned"
        try:
            v1, v2 = (float(v1), float(v2)) if ok else (None, None)
        except Exception:
            ok, o1 = False, "returned-non-number"
        if not ok:
            e.update(outcome=o1 if o1 != "returned" else o2, keys=[], tss=False, shared_eq_fresh=True, defcls="equal",
                     nonneg=True, perfect="na", value=None, expected=None)
            events.append(e)
            continue
        d, bound = _i_def(P, S, metric)
        e.update(outcome="returned", keys=sorted([_key(k) for k in shared if k != "tss"]), tss="tss" in shared,
                 shared_eq_fresh=_bits(v1) == _bits(v2) or (math.isnan(v1) and math.isnan(v2)))
        if not (bound <= 1e-7 and math.isfinite(d)):
            e["defcls"] = "ambiguous"
            amb += 1
        else:
            e["defcls"] = "equal" if numeric.close(v1, d, rel=1e-6, ab=1e-9 + 4.0 * bound) else "differs"
            dd = np.abs(np.diff(X[Sa])) * np.abs(np.diff(Y[Sa]))
            wraps += bool(np.any(dd[np.diff(Sa) >= 2] > imax)) if len(dd) else 0
        e["nonneg"] = bool(v1 >= 0) or math.isnan(v1)
        e["perfect"] = "na" if len(S) != n else ("ok" if v1 == (1.0 if metric == "r2" else 0.0) else "bad")
        e["value"], e["expected"], e["bound"] = v1, d, bound
        events.append(e)
    case = {"id": cid, "n": n, "metric": metric,
            "events": [{k: e[k] for k in ("S", "outcome", "keys", "tss", "shared_eq_fresh", "defcls", "nonneg", "perfect")} for e in events]}
    meta = {"int": list(item), "metric": metric, "queries": [q if len(q) <= 40 else q[:3] + ["...", len(q)] for q in queries],
            "values": [(e.get("value"), e.get("expected")) for e in events], "wraps": wraps, "ambiguous": amb,
            "dtype": str(P.dtype), "xmax": float(X.max()), "ymax": float(Y.max())}
    return case, meta, []


def _i_plan(ctx):
    """curve lengths straddling 2^8, 2^10, 2^12, 10^4, 2^14, 2^15, 2^16, 10^5; every length x both integer dtypes x 5 metrics
    (shape / spacing rotate), each next to its float64 twin."""
    r = ctx.rng.randrange
    items = []
    for rnd in range(1 if ctx.quick else 3):
        lens = [257 + r(0, 40), 1025 + r(0, 60), 4097 + r(0, 100), 10001 + r(0, 500), 16385 + r(0, 500), 32769 + r(0, 1000),
                65537 + r(0, 2000), 100001 + r(0, 9000)]
        if rnd == 2:
            lens = [n - 2 - r(0, 20) for n in (256, 1024, 4096, 10 ** 4, 16384, 32768, 65536, 10 ** 5)]
        for a, n in enumerate(lens):
            for b, dtype in enumerate(I_DTYPES):
                for c, metric in enumerate(METRICS):
                    j = len(items) // 2
                    shape = I_SHAPES[(a + b + c + rnd + ctx.seed) % len(I_SHAPES)]
                    xmode = I_XMODES[(a + 2 * b + c + rnd + r(0, 3)) % len(I_XMODES)]
                    seed = ctx.seed * 2003 + j
                    items.append(("int%d" % j, dtype, shape, xmode, n, metric, seed, False))
                    items.append(("int%df" % j, dtype, shape, xmode, n, metric, seed, True))
    return items


STATIC = {"id": "static", "n": 5, "metric": "r2", "events": [
    {"S": [0, 2, 4], "outcome": "returned", "keys": [[0, 2], [2, 4]], "tss": True, "shared_eq_fresh": True, "defcls": "equal", "nonneg": True, "perfect": "na"},
    {"S": [0, 1, 2, 3, 4], "outcome": "returned", "keys": [[0, 1], [0, 2], [1, 2], [2, 3], [2, 4], [3, 4]], "tss": True, "shared_eq_fresh": True, "defcls": "equal", "nonneg": True, "perfect": "ok"}]}


def _selftests():
    import copy
    out = [(STATIC, "ok")]
    c = copy.deepcopy(STATIC); c["events"][1]["keys"] = c["events"][1]["keys"][:-1]; out.append((c, "DRIFT:cache-keys"))
    c = copy.deepcopy(STATIC); c["events"][0]["keys"] = [[0, 4]]; out.append((c, "DRIFT:cache-keys"))
    c = copy.deepcopy(STATIC); c["events"][1]["shared_eq_fresh"] = False; out.append((c, "cache-transparent"))
    c = copy.deepcopy(STATIC); c["events"][0]["defcls"] = "differs"; out.append((c, "equals-definition"))
    c = copy.deepcopy(STATIC); c["events"][1]["perfect"] = "bad"; out.append((c, "perfect-fit-value"))
    c = copy.deepcopy(STATIC); c["events"][0]["tss"] = False; out.append((c, "DRIFT:cache-keys"))
    return out


def run(ctx):
    ctx.rule = ("G: every query history of <=3 (quick, n<=5) breakpoint sets x 5 metrics emitted by TLC, replayed on 3 curves "
                "each (integer y in 1..4, integer y in 0..3 uneven x, decreasing float) with shared and fresh caches; "
                "T: random float curves (n<=60) x random histories of <=8 queries.  non-trivial: a history with a cache hit "
                "(a segment shared by two queries) or a query with a contributing segment.  "
                "Scale family: evaluation.mip / compute_global_rmse on reductions of 258 .. 4160 (thorough: .. 10^4) breakpoints - "
                "counts just above 2^8, 2^10, 2*2^10, 2^12 (2*2^12, 10^4) - of curves of 10^4 .. 1.1*10^5 points (4 shapes x 4 "
                "breakpoint layouts x unit / uneven spacing) under quadratic back-edge budgets, judged against an independent "
                "extended-precision evaluation of the definition (every interior breakpoint deleted in turn; tolerance = the "
                "check's 1e-9 / 1e-12 widened by the rounding model eps * (|slope| * |x| + |y|) + n * eps * rmse).  "
                "Integer-dtype family: compute_global_cost (5 metrics, shared and fresh cache) on int64 (x to ~2^41, y ~5*10^8) and "
                "int32 (x ~10^5 .. 2^20, y ~2*10^5) count curves of 257 .. 1.1*10^5 points (5 shapes x 3 spacings) and their float64 "
                "twins, on histories of sparse breakpoint sets (2 .. ~40 breakpoints, so |dx|*|dy| of a segment exceeds the dtype; "
                "stride-7 and every-point sets on the short curves), consumed by Trace_GlobalCost against the definition "
                "evaluated on the exact integers")
    ctx.assumptions += numeric.ASSUMPTIONS + [
        "real arithmetic of a CostExpr is evaluated by harness/costdef.py over exact fractions (eps=1e-16 exactly), logs/sqrt in binary64",
        "0/eps situations (exact numerator 0 over a denominator that is only the eps guard) are classed 'ambiguous' and not compared",
        "bit-identity is compared on the IEEE-754 encoding of the returned floats"]
    ctx.mc("GlobalCost", "MC_GlobalCost", need_actions=("Next", "Close"))
    ctx.mc("GlobalCost", "MC_GlobalCost_keyleft", expect="CacheSound")
    ctx.mc("GlobalCost", "MC_GlobalCost_switch", expect="CacheSound")
    beh = ctx.gen("GlobalCost", "Gen_GlobalCost_quick" if ctx.quick else "Gen_GlobalCost_thorough", timeout=1800)
    ctx.exhaustive = True
    res = par.pmap(_replay_history, [(b, ctx.seed) for b in beh])
    seen = {}
    for b, bad in zip(beh, res):
        qs = [tuple(q["S"]) for q in b["log"]]
        pairs = [set(zip(q[:-1], q[1:])) for q in qs]
        hit = any(pairs[i] & pairs[j] for i in range(len(pairs)) for j in range(i))
        ctx.count(("G", b["n"], b["metric"], qs), hit or any(q["expr"]["segs"] for q in b["log"]))
        for clause, detail, P in bad:
            if clause.startswith("DRIFT:"):
                ctx.note("%s G history n=%d %s: dict keys %s, machine DOMAIN %s" % (clause, b["n"], b["metric"], detail["got"], detail["expected"]))
                continue
            seen[clause] = seen.get(clause, 0) + 1
            if seen[clause] <= 3:
                ctx.violation(clause, {"kind": "G", "behaviour": b, "seed": ctx.seed}, dict(detail, points=P))
    ctx.traces += len(beh) * 3
    ctx.sample({"binding": "G", "history": beh[len(beh) // 2]})
    # ---- T
    nT = 600 if ctx.quick else 6000
    rec = par.pmap(_record_random, [("h%d" % k, ctx.seed * 100003 + k) for k in range(nT)])
    rec += par.pmap(_record_big, [("big%d" % k, ctx.seed * 7 + k, nn) for k, nn in enumerate([70000, 140000] if ctx.quick else [70000, 140000, 300000, 66000])])
    import time
    ti = time.time()
    irec = par.pmap(_i_record, _i_plan(ctx), chunksize=2)
    ti = time.time() - ti
    rec += irec
    cases = [c for c, _, _ in rec]
    meta = {c["id"]: m for c, m, _ in rec}
    rej = ctx.trace("Trace_GlobalCost", cases, selftest=_selftests(), chunk=300)
    for c, m, extra in rec:
        ctx.count(("T", m.get("points", m.get("big", m.get("int"))), m["metric"], m["queries"]), m["wraps"] > 0 if "int" in m else True)
        for clause, detail in extra:
            ctx.violation(clause, {"kind": "Tx", "seed_item": [c["id"], 0], "points": m["points"], "S": detail.get("S")}, detail)
    for cid, vs in rej.items():
        m = meta[cid]
        vs = [v for v in vs if not v[0].startswith("DRIFT:")] or None
        if vs is None:
            ctx.note("DRIFT:cache-keys in recorded history %s" % cid)
            continue
        if "int" in m:
            ctx.violation(vs[0][0] if vs[0][0] != "equals-definition" else "equals-definition(%s)" % m["metric"],
                          {"kind": "Tint", "recipe": m["int"]},
                          {"verdict": vs[0], "values": m["values"], "metric": m["metric"], "dtype": m["dtype"], "queries": m["queries"]})
            continue
        if "big" in m:
            ctx.violation(vs[0][0], {"kind": "Tbig", "big": m["big"]}, {"verdict": vs[0], "values": m["values"], "metric": m["metric"]})
            continue
        ctx.violation(vs[0][0] if vs[0][0] != "equals-definition" else "equals-definition(%s)" % m["metric"],
                      {"kind": "T", "points": m["points"], "metric": m["metric"], "queries": m["queries"]},
                      {"verdict": vs[0], "values": m["values"]})
    ctx.sample({"binding": "T", "case": cases[0]})
    # ---- integer-dtype family (recorded above, validated by Trace_GlobalCost together with the other histories)
    im = [m for _, m, _ in irec]
    ints = [m for m in im if not m["int"][7]]
    ctx.traces += len(im)
    ctx.extra["integer_dtype_family"] = {
        "cases": len(im), "record_wall_s": round(ti, 1), "queries": sum(len(m["queries"]) for m in im),
        "curve_points": sorted(set(m["int"][4] for m in im)), "dtypes": sorted(set(m["dtype"] for m in im)),
        "shapes": sorted(set(m["int"][2] for m in im)), "spacings": sorted(set(m["int"][3] for m in im)),
        "metrics": sorted(set(m["metric"] for m in im)),
        "max_x": {d: max(m["xmax"] for m in ints if m["dtype"] == d) for d in sorted(set(m["dtype"] for m in ints))},
        "max_y": {d: max(m["ymax"] for m in ints if m["dtype"] == d) for d in sorted(set(m["dtype"] for m in ints))},
        "integer_cases_with_a_segment_whose_dx_times_dy_exceeds_the_dtype": sum(1 for m in ints if m["wraps"] > 0),
        "queries_judged_with_such_a_segment": sum(m["wraps"] for m in ints),
        "queries_skipped_as_ill_conditioned": sum(m["ambiguous"] for m in im),
        "judged": "Trace_GlobalCost (returns, cache-transparent, equals-definition, non-negative, perfect-fit-value; cache keys as "
                  "DRIFT), definition on the exact integers in extended precision, tolerance rel 1e-6 / abs 1e-9 widened by the "
                  "rounding model 8 * eps * (|slope| * |x| + |y|) per fitted ordinate; a query whose model exceeds 1e-7 is skipped",
        "not_judged": "unsigned dtypes (the difference x[0] - x[-1] of the two-point fit is outside the dtype: not a curve the "
                      "library's arithmetic is defined on), compute_global_rmse / mip on integer curves"}
    if ints and sum(1 for m in ints if m["wraps"] > 0) < len(ints) // 2:
        ctx.note("VACUOUS-INTEGER-FAMILY: fewer than half of the integer curves had a judged segment with |dx|*|dy| beyond the dtype")
    ctx.sample({"binding": "T-int", "recipe": im[0]["int"], "values": im[0]["values"]})
    # ---- scale family (MIP / global RMSE on thousands of breakpoints)
    t0 = time.time()
    sres = _s_run(ctx, _s_plan(ctx))
    for rec, info, bad, _ in sres:
        ctx.count(("S", rec), info["distinct_improvements"] > 2)
    ctx.traces += len(sres)
    big = [info for _, info, _, _ in sres if info["k"] - 2 >= 2048]
    ctx.extra["scale_family"] = {
        "cases": len(sres), "wall_s": round(time.time() - t0, 1), "breakpoints": sorted(info["k"] for _, info, _, _ in sres),
        "curve_points": sorted(set(info["n"] for _, info, _, _ in sres)),
        "shapes": sorted(set(rec[0] for rec, _, _, _ in sres)), "layouts": sorted(set(rec[1] for rec, _, _, _ in sres)),
        "max_back_edges_over_budget": max(info.get("back_edges", 0) / float(monitor.quad(info["k"], 8)) for _, info, _, _ in sres),
        "judged": "harness, against the extended-precision definition (as the small inputs: floats never enter TLC); "
                  "clauses returns, cache-transparent (compute_global_rmse), rmse-is-interpolation-rmse, mip-definition (median and MAD)",
        "not_judged_at_scale": "compute_global_cost on thousands of breakpoints (its long-curve histories are the 'big' cases of T)"}
    if not big or all(info["distinct_improvements"] <= 2 for info in big):
        ctx.note("VACUOUS-SCALE-FAMILY: no reduction with 2048+ interior breakpoints of distinct weight was evaluated")
    rec, info, _, _ = sres[0]
    ctx.sample({"binding": "scale", "recipe": rec, "info": info})


def replay(ctx, obj):
    c = obj["case"]
    if c["kind"] == "G":
        for clause, detail, P in _replay_history((c["behaviour"], c.get("seed", 0))):
            ctx.violation(clause, c, dict(detail, points=P))
    elif c["kind"] == "Tbig":
        case, m, _ = _record_big(tuple(c["big"]))
        rej = ctx.trace("Trace_GlobalCost", [case])
        for cid, vs in rej.items():
            if not vs[0][0].startswith("DRIFT:"):
                ctx.violation(vs[0][0], c, {"verdict": vs[0], "values": m["values"]})
    elif c["kind"] == "Tint":
        case, m, _ = _i_record(tuple(c["recipe"]))
        rej = ctx.trace("Trace_GlobalCost", [case])
        for cid, vs in rej.items():
            if not vs[0][0].startswith("DRIFT:"):
                ctx.violation(vs[0][0] if vs[0][0] != "equals-definition" else "equals-definition(%s)" % m["metric"], c,
                              {"verdict": vs[0], "values": m["values"], "dtype": m["dtype"], "queries": m["queries"]})
    elif c["kind"] == "Smip":
        _s_run(ctx, [tuple(c["recipe"])], replay_case=c)
    elif c["kind"] == "Tx":
        for clause, detail in _rmse_mip(np.array(c["points"], float), c["S"]):
            ctx.violation(clause, c, detail)
    else:
        P = np.array(c["points"], float)
        evs = _query_events(P, c["metric"], c["queries"])
        case = {"id": "replay", "n": len(P), "metric": c["metric"],
                "events": [{k: e[k] for k in ("S", "outcome", "keys", "tss", "shared_eq_fresh", "defcls", "nonneg", "perfect")} for e in evs]}
        rej = ctx.trace("Trace_GlobalCost", [case])
        for cid, vs in rej.items():
            if not vs[0][0].startswith("DRIFT:"):
                ctx.violation(vs[0][0], c, {"verdict": vs[0]})
