"""C15 - global reconstruction cost matches its definition and is cache-transparent.
M: GlobalCost.tla cache machine (CacheSound, CacheDomain, DivisorOk, PerfectFit for all histories of <=3 queries,
   n<=6); negative instances: cache keyed by the left index only; metric switched under a shared cache.
G: every history emitted by TLC (structure of each answer: contributing segments, divisor, normalisation; cache
   domain after each query) replayed with one shared dict and with fresh caches on several curves.
T: random float curves / random longer histories recorded and consumed query by query by Trace_GlobalCost."""
import math
import struct

import numpy as np

from harness import costdef, curves, numeric, par
from harness import enums

METRICS = ["r2", "rmspe", "rmsle", "rpd", "smape"]


def _key(k):
    """cache key -> [l, r]; anything that is not a pair of ints is kept recognisable (and will not match)."""
    try:
        k = [int(v) for v in k]
    except Exception:
        return [-7, -7]
    return k if len(k) == 2 else (k + [-7, -7])[:2]


def _bits(v):
    return struct.pack("<d", float(v))


def _curves_for(n, seed):
    import random
    rng = random.Random(seed * 7919 + n)
    out = []
    x = np.cumsum([rng.randint(1, 3) for _ in range(n)]).astype(float)
    out.append(np.column_stack([np.arange(n, dtype=float), [float(rng.randint(1, 4)) for _ in range(n)]]))
    out.append(np.column_stack([x, [float(rng.randint(0, 3)) for _ in range(n)]]))
    out.append(np.column_stack([x, sorted([rng.random() * 5 + 0.1 for _ in range(n)], reverse=True)]))
    return out


def _offset_curve(n, seed):
    """heights far from the origin relative to their spread (exactly representable): R2 is translation invariant, so
    the definition is unchanged, but algebraically equal one-pass formulas cancel catastrophically here."""
    import random
    rng = random.Random(seed * 104729 + n)
    return np.column_stack([np.arange(n, dtype=float), [float(2 ** 27 + rng.randint(0, 6)) for _ in range(n)]])


def _query_events(P, metric, queries, exprs=None, rel=1e-9):
    """run a history against one shared dict and against fresh caches; returns one event per query."""
    import kneeliverse.evaluation as ev
    import kneeliverse.metrics as metrics
    M = enums.pick(metrics.Metrics, metric)
    shared = {}
    events = []
    n = len(P)
    for qi, S in enumerate(queries):
        e = {"S": list(S)}
        try:
            v1 = ev.compute_global_cost(P, np.array(S), M, shared)
            v2 = ev.compute_global_cost(P, np.array(S), M)
            e["outcome"] = "returned"
        except Exception as ex:
            e.update(outcome="raised:" + type(ex).__name__, keys=[], tss=False, shared_eq_fresh=True,
                     defcls="equal", nonneg=True, perfect="na", value=None)
            events.append(e)
            continue
        e["keys"] = sorted([_key(k) for k in shared if k != "tss"])
        e["tss"] = "tss" in shared
        e["shared_eq_fresh"] = _bits(v1) == _bits(v2) or (math.isnan(v1) and math.isnan(v2))
        expr = exprs[qi] if exprs is not None else {
            "metric": metric, "segs": [[S[j], S[j + 1]] for j in range(len(S) - 1) if S[j + 1] - S[j] + 1 > 2],
            "total": n + len(S) - 2,
            "norm": "one-minus-rss-over-tss" if metric == "r2" else ("sqrt-of-mean" if metric in ("rmsle", "rmspe") else "mean"),
            "clip0": True}
        d, amb = costdef.eval_expr(P, expr)
        if amb or not (math.isfinite(d) and math.isfinite(v1)):
            e["defcls"] = "ambiguous"
        else:
            e["defcls"] = "equal" if numeric.close(v1, d, rel=rel, ab=1e-12 if rel <= 1e-9 else 1e-8) else "differs"
        e["nonneg"] = bool(v1 >= 0) or math.isnan(v1)
        e["perfect"] = "na"
        if len(S) == n:
            e["perfect"] = "ok" if v1 == (1.0 if metric == "r2" else 0.0) else "bad"
        e["value"] = float(v1)
        e["expected"] = d
        events.append(e)
    return events


def _rmse_mip(P, S, rel=1e-9):
    """global RMSE / MIP observables for one breakpoint set: list of (clause, detail) mismatches."""
    import kneeliverse.evaluation as ev
    bad = []
    try:
        c = {}
        r1 = ev.compute_global_rmse(P, np.array(S), c)
        r2 = ev.compute_global_rmse(P, np.array(S))
        r3 = ev.compute_global_rmse(P, np.array(S), c)
        d = costdef.global_rmse_def(P, S)
        if not (_bits(r1) == _bits(r2) == _bits(r3)):
            bad.append(("cache-transparent", {"fn": "compute_global_rmse", "S": S, "values": [r1, r2, r3]}))
        ab = 1e-12 if rel <= 1e-9 else 1e-7
        if not numeric.close(r1, d, rel=rel, ab=ab):
            bad.append(("rmse-is-interpolation-rmse", {"S": S, "got": float(r1), "expected": d}))
        if len(S) >= 3:
            m, mad = ev.mip(P, np.array(S))
            dm, dmad = costdef.mip_def(P, S)
            if not (numeric.close(m, dm, rel=rel, ab=ab) and numeric.close(mad, dmad, rel=rel, ab=ab)):
                bad.append(("mip-definition", {"S": S, "got": [float(m), float(mad)], "expected": [dm, dmad]}))
    except Exception as ex:
        bad.append(("returns", {"fn": "compute_global_rmse/mip", "S": S, "raised": repr(ex)[:200]}))
    return bad


def _first_bad(events, metric):
    for e in events:
        if e["outcome"] != "returned":
            return "returns", e
        if not e["shared_eq_fresh"]:
            return "cache-transparent", e
        if e["defcls"] == "differs":
            return "equals-definition(%s)" % metric, e
        if not e["nonneg"]:
            return "non-negative", e
        if e["perfect"] == "bad":
            return "perfect-fit-value", e
    return None


def _replay_history(item):
    """G: one TLC history on several curves -> list of (clause, detail, curve)"""
    b, seed = item
    n, metric = b["n"], b["metric"]
    queries = [q["S"] for q in b["log"]]
    exprs = [q["expr"] for q in b["log"]]
    out = []
    todo = [(P, 1e-9) for P in _curves_for(n, seed)]
    if metric == "r2":
        todo.append((_offset_curve(n, seed), 1e-6))
    for P, rel in todo:
        evs = _query_events(P, metric, queries, exprs, rel)
        for e, q in zip(evs, b["log"]):
            if e["outcome"] == "returned":
                exp_keys = sorted([list(k) for k in q["keys"]])
                if e["keys"] != exp_keys or e["tss"] != q["tss"]:
                    out.append(("DRIFT:cache-keys", {"S": e["S"], "got": e["keys"], "expected": exp_keys, "tss": e["tss"]}, P.tolist()))
                    break
        fb = _first_bad(evs, metric)
        if fb:
            out.append((fb[0], {k: fb[1].get(k) for k in ("S", "value", "expected", "outcome")}, P.tolist()))
        if metric == "r2":            # RMSE / MIP ride along once per history
            for S in queries[:1]:
                for clause, detail in _rmse_mip(P, S, rel):
                    out.append((clause, detail, P.tolist()))
    return out


def _np_def(P, S, metric):
    """independent float evaluation of the definition for long curves (interpolate, accumulate, normalise)."""
    n = len(P)
    x, y = P[:, 0], P[:, 1]
    h = np.interp(x, x[S], y[S])
    mask = np.ones(n, bool)
    for a, b in zip(S[:-1], S[1:]):
        if b - a + 1 <= 2:
            mask[a:b + 1] = False
    # every interior breakpoint belongs to two segments; its own error is 0, so one pass over the points is enough
    yy, hh = y[mask], h[mask]
    eps = 1e-16
    tot = n + len(S) - 2
    if metric == "r2":
        rss = math.fsum((yy - hh) ** 2)
        tss = math.fsum((y - y.mean()) ** 2)
        v = 1.0 - rss if tss == 0 else 1.0 - rss / tss
    elif metric == "rmsle":
        v = math.sqrt(math.fsum((np.log(yy + 1) - np.log(hh + 1)) ** 2) / tot)
    elif metric == "rmspe":
        v = math.sqrt(math.fsum(((yy - hh) / (yy + eps)) ** 2) / tot)
    elif metric == "rpd":
        v = math.fsum(np.abs((yy - hh) / (np.maximum(yy, hh) + eps))) / tot
    else:
        v = math.fsum(2.0 * np.abs(hh - yy) / (np.abs(yy) + np.abs(hh) + eps)) / tot
    return max(v, 0.0)


def _record_big(item):
    """T: one long curve (more points than fit 16-bit packing tricks), histories whose segments share a right end."""
    import random
    import kneeliverse.evaluation as ev
    import kneeliverse.metrics as metrics
    cid, seed, n = item
    rng = random.Random(seed)
    x = np.arange(1, n + 1, dtype=float)
    P = np.column_stack([x, 1.0 / (1.0 + x / 4.0) + 0.001 * np.sin(x / 50.0) + 0.01])
    metric = rng.choice(METRICS)
    r = rng.randint(n - 5000, n - 3)
    queries = [[0, r, n - 1], [0, 1, r, n - 1], [0, 2, r, n - 1], [0, r, n - 1], [0, 1, 2, r, n - 1]]
    rng.shuffle(queries)
    M = enums.pick(metrics.Metrics, metric)
    shared = {}
    events = []
    for S in queries:
        v1 = ev.compute_global_cost(P, np.array(S), M, shared)
        v2 = ev.compute_global_cost(P, np.array(S), M)
        d = _np_def(P, S, metric)
        events.append({"S": S, "outcome": "returned", "keys": sorted([_key(k) for k in shared if k != "tss"]), "tss": "tss" in shared,
                       "shared_eq_fresh": _bits(v1) == _bits(v2),
                       "defcls": "equal" if numeric.close(v1, d, rel=1e-6, ab=1e-9) else "differs",
                       "nonneg": bool(v1 >= 0), "perfect": "na", "value": float(v1), "expected": d})
    case = {"id": cid, "n": n, "metric": metric,
            "events": [{k: e[k] for k in ("S", "outcome", "keys", "tss", "shared_eq_fresh", "defcls", "nonneg", "perfect")} for e in events]}
    return case, {"big": [cid, seed, n], "metric": metric, "queries": queries, "values": [(e["value"], e["expected"]) for e in events]}, []


def _record_random(item):
    """T: random float curve, random history of up to 8 queries."""
    import random
    cid, seed = item
    rng = random.Random(seed)
    P = curves.random_curve(rng, 3, 60)
    if rng.random() < 0.3:
        P[:, 1] += 0.5
    n = len(P)
    metric = rng.choice(METRICS)
    rel = 1e-9
    if metric == "r2" and rng.random() < 0.3:       # heights far from the origin (R2 is translation invariant)
        P[:, 1] = np.round(P[:, 1] * 8) / 8 + float(2 ** 26)
        rel = 1e-6
    if rel == 1e-9 and rng.random() < 0.2:
        # heights in tiny units (2^-30, exact): R2 and the relative metrics are scale invariant in y, RMSE-like ones scale -
        # the definition is evaluated on the scaled values either way; an ABSOLUTE epsilon added to a sum of squares is not
        P[:, 1] = P[:, 1] * 2.0 ** -30
    elif rel == 1e-9 and rng.random() < 0.25:      # (never together with the height offset: two offsets compound the rounding)
        # abscissae far from the origin relative to their spacing (exactly representable): the definition interpolates
        # between breakpoints, so it is translation invariant in x; a relative comparison of segment end abscissae is not
        xs = np.round(P[:, 0])
        if np.all(np.diff(xs) > 0):
            P[:, 0] = xs + float(2 ** 20)
            rel = 1e-6
    queries = []
    for _ in range(rng.randint(1, 8)):
        k = rng.randint(0, n - 2)
        queries.append(sorted(set([0, n - 1] + rng.sample(range(n), k))))
    if rng.random() < 0.3:
        queries.append(list(range(n)))
    evs = _query_events(P, metric, queries, None, rel)
    extra = []
    for S in queries[:2]:
        extra += _rmse_mip(P, S, rel)
    case = {"id": cid, "n": n, "metric": metric,
            "events": [{k: e[k] for k in ("S", "outcome", "keys", "tss", "shared_eq_fresh", "defcls", "nonneg", "perfect")} for e in evs]}
    return case, {"points": P.tolist(), "metric": metric, "queries": queries, "values": [(e.get("value"), e.get("expected")) for e in evs]}, extra


STATIC = {"id": "static", "n": 5, "metric": "r2", "events": [
    {"S": [0, 2, 4], "outcome": "returned", "keys": [[0, 2], [2, 4]], "tss": True, "shared_eq_fresh": True, "defcls": "equal", "nonneg": True, "perfect": "na"},
    {"S": [0, 1, 2, 3, 4], "outcome": "returned", "keys": [[0, 1], [0, 2], [1, 2], [2, 3], [2, 4], [3, 4]], "tss": True, "shared_eq_fresh": True, "defcls": "equal", "nonneg": True, "perfect": "ok"}]}


def _selftests():
    import copy
    out = [(STATIC, "ok")]
    c = copy.deepcopy(STATIC); c["events"][1]["keys"] = c["events"][1]["keys"][:-1]; out.append((c, "DRIFT:cache-keys"))
    c = copy.deepcopy(STATIC); c["events"][0]["keys"] = [[0, 4]]; out.append((c, "DRIFT:cache-keys"))
    c = copy.deepcopy(STATIC); c["events"][1]["shared_eq_fresh"] = False; out.append((c, "cache-transparent"))
    c = copy.deepcopy(STATIC); c["events"][0]["defcls"] = "differs"; out.append((c, "equals-definition"))
    c = copy.deepcopy(STATIC); c["events"][1]["perfect"] = "bad"; out.append((c, "perfect-fit-value"))
    c = copy.deepcopy(STATIC); c["events"][0]["tss"] = False; out.append((c, "DRIFT:cache-keys"))
    return out


def run(ctx):
    ctx.rule = ("G: every query history of <=3 (quick, n<=5) breakpoint sets x 5 metrics emitted by TLC, replayed on 3 curves "
                "each (integer y in 1..4, integer y in 0..3 uneven x, decreasing float) with shared and fresh caches; "
                "T: random float curves (n<=60) x random histories of <=8 queries.  non-trivial: a history with a cache hit "
                "(a segment shared by two queries) or a query with a contributing segment")
    ctx.assumptions += numeric.ASSUMPTIONS + [
        "real arithmetic of a CostExpr is evaluated by harness/costdef.py over exact fractions (eps=1e-16 exactly), logs/sqrt in binary64",
        "0/eps situations (exact numerator 0 over a denominator that is only the eps guard) are classed 'ambiguous' and not compared",
        "bit-identity is compared on the IEEE-754 encoding of the returned floats"]
    ctx.mc("GlobalCost", "MC_GlobalCost", need_actions=("Next", "Close"))
    ctx.mc("GlobalCost", "MC_GlobalCost_keyleft", expect="CacheSound")
    ctx.mc("GlobalCost", "MC_GlobalCost_switch", expect="CacheSound")
    beh = ctx.gen("GlobalCost", "Gen_GlobalCost_quick" if ctx.quick else "Gen_GlobalCost_thorough", timeout=1800)
    ctx.exhaustive = True
    res = par.pmap(_replay_history, [(b, ctx.seed) for b in beh])
    seen = {}
    for b, bad in zip(beh, res):
        qs = [tuple(q["S"]) for q in b["log"]]
        pairs = [set(zip(q[:-1], q[1:])) for q in qs]
        hit = any(pairs[i] & pairs[j] for i in range(len(pairs)) for j in range(i))
        ctx.count(("G", b["n"], b["metric"], qs), hit or any(q["expr"]["segs"] for q in b["log"]))
        for clause, detail, P in bad:
            if clause.startswith("DRIFT:"):
                ctx.note("%s G history n=%d %s: dict keys %s, machine DOMAIN %s" % (clause, b["n"], b["metric"], detail["got"], detail["expected"]))
                continue
            seen[clause] = seen.get(clause, 0) + 1
            if seen[clause] <= 3:
                ctx.violation(clause, {"kind": "G", "behaviour": b, "seed": ctx.seed}, dict(detail, points=P))
    ctx.traces += len(beh) * 3
    ctx.sample({"binding": "G", "history": beh[len(beh) // 2]})
    # ---- T
    nT = 600 if ctx.quick else 6000
    rec = par.pmap(_record_random, [("h%d" % k, ctx.seed * 100003 + k) for k in range(nT)])
    rec += par.pmap(_record_big, [("big%d" % k, ctx.seed * 7 + k, nn) for k, nn in enumerate([70000, 140000] if ctx.quick else [70000, 140000, 300000, 66000])])
    cases = [c for c, _, _ in rec]
    meta = {c["id"]: m for c, m, _ in rec}
    rej = ctx.trace("Trace_GlobalCost", cases, selftest=_selftests(), chunk=300)
    for c, m, extra in rec:
        ctx.count(("T", m.get("points", m.get("big")), m["metric"], m["queries"]), True)
        for clause, detail in extra:
            ctx.violation(clause, {"kind": "Tx", "seed_item": [c["id"], 0], "points": m["points"], "S": detail.get("S")}, detail)
    for cid, vs in rej.items():
        m = meta[cid]
        vs = [v for v in vs if not v[0].startswith("DRIFT:")] or None
        if vs is None:
            ctx.note("DRIFT:cache-keys in recorded history %s" % cid)
            continue
        if "big" in m:
            ctx.violation(vs[0][0], {"kind": "Tbig", "big": m["big"]}, {"verdict": vs[0], "values": m["values"], "metric": m["metric"]})
            continue
        ctx.violation(vs[0][0] if vs[0][0] != "equals-definition" else "equals-definition(%s)" % m["metric"],
                      {"kind": "T", "points": m["points"], "metric": m["metric"], "queries": m["queries"]},
                      {"verdict": vs[0], "values": m["values"]})
    ctx.sample({"binding": "T", "case": cases[0]})


def replay(ctx, obj):
    c = obj["case"]
    if c["kind"] == "G":
        for clause, detail, P in _replay_history((c["behaviour"], c.get("seed", 0))):
            ctx.violation(clause, c, dict(detail, points=P))
    elif c["kind"] == "Tbig":
        case, m, _ = _record_big(tuple(c["big"]))
        rej = ctx.trace("Trace_GlobalCost", [case])
        for cid, vs in rej.items():
            if not vs[0][0].startswith("DRIFT:"):
                ctx.violation(vs[0][0], c, {"verdict": vs[0], "values": m["values"]})
    elif c["kind"] == "Tx":
        for clause, detail in _rmse_mip(np.array(c["points"], float), c["S"]):
            ctx.violation(clause, c, detail)
    else:
        P = np.array(c["points"], float)
        evs = _query_events(P, c["metric"], c["queries"])
        case = {"id": "replay", "n": len(P), "metric": c["metric"],
                "events": [{k: e[k] for k in ("S", "outcome", "keys", "tss", "shared_eq_fresh", "defcls", "nonneg", "perfect")} for e in evs]}
        rej = ctx.trace("Trace_GlobalCost", [case])
        for cid, vs in rej.items():
            if not vs[0][0].startswith("DRIFT:"):
                ctx.violation(vs[0][0], c, {"verdict": vs[0]})
