"""C08 - the end-to-end pipeline yields valid, ordered knees of the original curve.
M: Pipeline.tla - the pipeline invariants follow from the stage guarantees (C01, C02, C13, C12, C07) for every choice the
   stages are allowed to make (n<=6); negative instance: a reduction with a duplicate index breaks strict increase.
T: the demo composition (demos/*.py without argparse/plotting/evaluation) run stage by stage over simplifier x detector x
   linkage x ranking-mode configurations; Trace_Pipeline consumes the history event by event."""
import itertools

import numpy as np

from harness import curves, growth, monitor, numeric, par, scale, simpl
from harness import enums

SIMPLIFIERS = ["rdp", "grdp", "rdp_fixed", "mp_grdp", "min_point_rdp"]
DETECTORS = ["curvature", "dfdt", "menger", "lmethod", "kneedle"]
LINKAGES = ["single_linkage", "complete_linkage", "centroid_linkage", "average_linkage"]
MODES = ["left", "linear", "right", "hull"]


def _exact_ranks(v):
    u = sorted(set(float(x) for x in v))
    pos = {x: i for i, x in enumerate(u)}
    return [pos[float(x)] for x in v]


def _ints(a):
    return [int(v) for v in np.asarray(a).tolist()]


def _stages(P, PR, reduced, removed, cf, meta, events, B, wall):
    """detect -> worst -> corner -> cluster -> map on the reduced curve PR; one event per public call, appended to events"""
    import importlib
    import kneeliverse.postprocessing as pp
    import kneeliverse.clustering as clustering
    import kneeliverse.knee_ranking as kr
    import kneeliverse.rdp as rdp
    n = len(P)

    def stage(name, fn, args):
        o, val, cnt = monitor.call(fn, args, budget=B, wall=wall)
        ev = {"stage": name, "outcome": o, "out": [], "same": []}
        if o != "returned":
            meta["error"] = "%s: %s" % (name, val)
        meta["used"] = max(meta.get("used", 0), sum(cnt.values()))
        events.append(ev)
        return o == "returned", val, ev

    det = importlib.import_module("kneeliverse." + cf["detector"])
    ok, knees, ev = stage("detect", det.multi_knee, (PR, cf["t1"], cf["t2"]))
    if not ok:
        return
    ev["out"] = _ints(knees)
    ok, k1, ev = stage("worst", pp.filter_worst_knees, (PR, knees))
    if not ok:
        return
    ev["out"] = _ints(k1)
    ok, k2, ev = stage("corner", pp.filter_corner_knees, (PR, k1, cf["c"]))
    if not ok:
        return
    ev["out"] = _ints(k2)
    ok, k3, ev = stage("cluster", pp.filter_clusters, (PR, k2, getattr(clustering, cf["linkage"]), cf["t"], enums.pick(kr.ClusterRanking, cf["mode"])))
    if not ok:
        return
    ev["out"] = _ints(k3)
    ok, k4, ev = stage("map", rdp.mapping, (k3, reduced, removed))
    if not ok:
        return
    ev["out"] = _ints(k4)
    k3i = _ints(k3)
    ev["same"] = [bool(0 <= orig < n and 0 <= k3i[j] < len(PR) and P[orig].tobytes() == PR[k3i[j]].tobytes())
                  for j, orig in enumerate(ev["out"])]


def _record(item):
    """one simplification, then the rest of the pipeline TWICE on the same (reduced, removed) objects with two filter
    configurations - a configuration sweep that re-uses a simplification is part of the property's quantifier."""
    cid, P, cfg = item
    P = np.asarray(P, float)
    n = len(P)
    B = 4000 * n + 40000
    out = []
    sp = dict(cfg["simplifier"])
    ev0 = simpl.call(P, sp, wall=60)
    simp_event = {"stage": "simplify", "outcome": ev0["outcome"], "out": ev0.get("reduced", []), "same": []}
    cfgs = [cfg, dict(cfg, linkage=cfg["linkage2"], mode=cfg["mode2"], c=cfg["c2"])]
    good = ev0["outcome"] == "returned" and ev0.get("removed") is not None
    if good:
        reduced = np.array(ev0["reduced"])
        removed = np.array(ev0["removed"])
        S = ev0["reduced"]
        good = len(S) >= 2 and S[0] == 0 and S[-1] == n - 1 and all(S[j] < S[j + 1] for j in range(len(S) - 1))
    for ki, cf in enumerate(cfgs):
        events = [dict(simp_event)]
        case = {"id": "%s.%d" % (cid, ki), "n": n, "reduced": [0, n - 1], "hred": [0, 0], "horig": _exact_ranks(P[:, 1]), "events": events,
                "order": ["simplify", "detect", "worst", "corner", "cluster", "map"], "detmax": 0}
        meta = {"points": P.tolist(), "cfg": cfg, "which": ki}
        out.append((case, meta))
        if not good:
            if ev0["outcome"] != "returned":
                meta["error"] = "simplify: %s" % ev0.get("error")
            continue
        PR = P[reduced]
        case["reduced"] = S
        case["hred"] = _exact_ranks(PR[:, 1])
        case["detmax"] = len(S) - 2
        _stages(P, PR, reduced, removed, cf, meta, events, B, 60)
    return out


def _simplifier_cfg(rng, f, n):
    if f == "rdp":
        return {"f": "rdp", "t": rng.choice([0.001, 0.005, 0.01, 0.05]), "distance": rng.choice(simpl.DISTANCES), "cost": rng.choice(simpl.COSTS if rng.random() < 0.5 else ["smape", "rpd"])}
    if f == "grdp":
        return {"f": "grdp", "t": rng.choice([0.0005, 0.002, 0.01]), "distance": rng.choice(simpl.DISTANCES), "cost": rng.choice(["smape", "rpd", "rmspe"]), "order": rng.choice(simpl.ORDERS)}
    if f == "rdp_fixed":
        return {"f": "rdp_fixed", "length": rng.randint(6, max(6, min(n, 40))), "distance": rng.choice(simpl.DISTANCES), "order": rng.choice(simpl.ORDERS)}
    if f == "mp_grdp":
        return {"f": "mp_grdp", "t": rng.choice([0.002, 0.01, 0.05]), "min_points": rng.randint(5, max(5, min(n, 30))), "distance": rng.choice(simpl.DISTANCES), "cost": rng.choice(["smape", "rpd"]), "order": rng.choice(simpl.ORDERS)}
    return {"f": "min_point_rdp", "ts": rng.choice([[0.01, 0.001, 0.0001], [0.05, 0.005]]), "min_points": rng.randint(5, max(5, min(n, 30)))}


def _knee_curves(rng, count, nmin=30, nmax=160):
    out = []
    for _ in range(count):
        n = rng.randint(nmin, nmax)
        x = np.cumsum([rng.randint(1, 3) for _ in range(n)]).astype(float)
        kind = rng.randint(0, 2)
        if kind == 0:      # multi-knee staircase
            y, cur = [], 1.0
            drops = sorted(rng.sample(range(2, n - 2), rng.randint(1, 5)))
            for i in range(n):
                if i in drops:
                    cur *= rng.choice([0.4, 0.6, 0.8])
                cur -= 0.0005 * rng.random()
                y.append(max(cur, 0.0))
            y = np.array(y)
        elif kind == 1:    # MRC-like decay with noise
            y = 1.0 / (1.0 + 0.05 * np.arange(n) * rng.uniform(0.5, 3)) + np.array([rng.gauss(0, 0.003) for _ in range(n)])
            y = np.clip(y, 0, None)
        else:              # sum of exponentials
            y = 0.6 * np.exp(-np.arange(n) / rng.uniform(3, 15)) + 0.4 * np.exp(-np.arange(n) / rng.uniform(30, 90))
        out.append(curves.mk(x, y))
    return out


def inputs(ctx):
    rng = ctx.rng
    cs = _knee_curves(rng, 14 if ctx.quick else 60)
    try:
        cs.append(curves.bundled("web0_reduced.csv"))
    except Exception:
        pass
    cs += curves.trace_windows(rng, 4 if ctx.quick else 30, 60, 300, names=("usr0.csv", "web2.csv"))
    cs += [curves.random_curve(rng, 12, 40) for _ in range(10 if ctx.quick else 60)]
    pairs1 = list(itertools.product(SIMPLIFIERS, DETECTORS))
    pairs2 = list(itertools.product(LINKAGES, MODES))
    items = []
    k = 0
    for ci, P in enumerate(cs):
        n = len(P)
        if ctx.quick:
            combos = []
            rng.shuffle(pairs1)
            for j, (s, d) in enumerate(pairs1[:8]):
                l, m = pairs2[(ci * 8 + j) % len(pairs2)]
                combos.append((s, d, l, m))
        else:
            combos = [(s, d) + rng.choice(pairs2) for s, d in pairs1] + [rng.choice(pairs1) + lm for lm in pairs2]
        for s, d, l, m in combos:
            cfg = {"simplifier": _simplifier_cfg(rng, s, n), "detector": d,
                   "t1": rng.choice([0.001, 0.01, 0.0]), "t2": rng.choice([4, 5]) if d in ("menger", "lmethod") else rng.choice([3, 4]),
                   "c": rng.choice([0.33, 0.1, 0.5]), "linkage": l, "t": rng.choice([0.01, 0.05, 0.1]), "mode": m,
                   "linkage2": rng.choice(LINKAGES), "mode2": rng.choice(MODES), "c2": rng.choice([0.33, 0.2])}
            items.append(("p%d" % k, P.tolist(), cfg))
            k += 1
    # noisy decays clustered coarsely in hull mode: clusters whose span holds lower-hull points none of which is a knee
    for _ in range(8 if ctx.quick else 60):
        n = rng.randint(50, 80)
        x = np.arange(n, dtype=float)
        y = np.exp(-3.0 * x / n) + np.array([0.05 * rng.random() for _ in range(n)])
        P = curves.mk(x, y)
        for d in rng.sample(DETECTORS, 2):
            cfg = {"simplifier": {"f": "rdp", "t": 0.01, "distance": "shortest", "cost": "smape"}, "detector": d, "t1": 0.001,
                   "t2": rng.choice([4, 5]) if d in ("menger", "lmethod") else rng.choice([3, 4]),
                   "c": 0.33, "linkage": rng.choice(LINKAGES), "t": 0.2, "mode": "hull",
                   "linkage2": rng.choice(LINKAGES), "mode2": "hull", "c2": 0.33}
            items.append(("p%d" % k, P.tolist(), cfg))
            k += 1
    # step-like curves with EXACT plateaus (working sets), simplified almost not at all, clustered coarsely: clusters whose
    # slice of the reduced curve is a run of equal heights (a degenerate fit for the ranking helpers)
    for _ in range(6 if ctx.quick else 40):
        levels = sorted(set(round(rng.uniform(0.02, 1.0), 2) for _ in range(rng.randint(3, 5))), reverse=True)
        y = []
        for lv in levels:
            y += [lv] * rng.randint(3, 7)
            if rng.random() < 0.6:
                y.append(round(lv * rng.uniform(0.6, 0.9), 3))
        y = sorted(y, reverse=True)
        P = curves.mk(np.arange(1, len(y) + 1) * 64.0, np.array(y))
        n = len(P)
        for s, d in rng.sample(list(itertools.product(["mp_grdp", "min_point_rdp"], DETECTORS)), 4):
            l, m = rng.choice(pairs2)
            sc = ({"f": "mp_grdp", "t": 0.01, "min_points": max(5, n - 4), "distance": "shortest", "cost": "smape", "order": "segment"}
                  if s == "mp_grdp" else {"f": "min_point_rdp", "ts": [0.01, 0.001, 0.0001], "min_points": max(5, n - 4)})
            cfg = {"simplifier": sc, "detector": d, "t1": 0.0, "t2": rng.choice([4, 5]) if d in ("menger", "lmethod") else rng.choice([3, 4]),
                   "c": 0.33, "linkage": l, "t": rng.choice([0.2, 0.3]), "mode": m,
                   "linkage2": rng.choice(LINKAGES), "mode2": rng.choice(MODES), "c2": 0.33}
            items.append(("p%d" % k, P.tolist(), cfg))
            k += 1
    return items


# ------------------------------------------------------------------------------------------------- scale family
# Production-size curves (DESIGN 11: seed round 15).  One case = the same composition as above on a curve of 257 .. 1.4*10^5
# points, judged by Trace_PipelineScale (same clauses; the height table of the ORIGINAL curve is sparse: only the indices the
# mapping stage returned).  A curve travels as a DESCRIPTOR (builder name + arguments), never as a list of points: the worker
# and the replay rebuild it, so the replay files stay small.
# largest reduced curve handed to the super-linear detectors: lmethod.multi_knee is about cubic in the length r of the reduced
# curve (2 s at r = 1100, 30 s at 4200), menger about quadratic (15 s at r = 17000); on RAGGED curves (a knee at every other
# point) kneedle and menger pay one Python pass per knee (35 s / 13 s at r = 4100).  Above its cap a detector is replaced
# (SCALE_FALLBACK, repeatedly); curvature and dfdt take every length.
SCALE_CAPS = {"lmethod": 1200, "menger": 6000}
SCALE_CAPS_THOROUGH = {"lmethod": 1200, "menger": 20000}
SCALE_CAPS_RAGGED = {"lmethod": 1200, "menger": 1500, "kneedle": 1500}
SCALE_RMAX = 40000                                   # a reduced curve beyond this is not run further (nothing returns in time)
SCALE_FALLBACK = {"lmethod": "kneedle", "menger": "curvature", "kneedle": "dfdt"}


def _scale_curve(d):
    """descriptor -> (n, 2) float64 array, strictly increasing x, finite y >= 0 (deterministic)"""
    import random
    k, n = d["kind"], int(d.get("n", 0))
    if k == "exp3":        # smooth miss-ratio curve with three working sets (x = 1..n), the shape the demos are run on
        x = np.arange(1, n + 1, dtype=float)
        a, b, c = d.get("w", [130.0, 13.0, 1.3])
        y = 0.5 * np.exp(-x / (n / a)) + 0.3 * np.exp(-x / (n / b)) + 0.2 * np.exp(-x / (n / c))
        return curves.mk(x, y)
    if k == "mrc":         # convex decay pieces separated by cliffs, dyadic ordinates
        return scale.mrc(n, random.Random(d["seed"]), knees=d.get("knees", 6))
    if k == "stair":
        return scale.staircase(n, d["steps"], random.Random(d["seed"]), grow=bool(d.get("grow", False)))
    if k == "noisy":       # hyperbolic decay with a bounded relative texture: many retained points for a small threshold
        i = np.arange(n, dtype=float)
        u = np.random.RandomState(d["seed"]).random_sample(n)
        y = (1.0 / (1.0 + d.get("rate", 40.0) * i / n)) * (1.0 + d.get("amp", 0.002) * u)
        return curves.mk(i + 1.0, y)
    if k == "convex":
        return scale.convex_pl(n, d["corners"])
    if k == "zigzag":
        return scale.zigzag(n)
    if k == "spikes":
        return scale.spikes(n, d.get("period", 4))
    if k == "trace":       # a window of a bundled trace (the whole trace when len is None)
        T = curves.bundled(d["name"])
        s = int(d.get("start", 0))
        W = T[s:] if d.get("len") is None else T[s:s + int(d["len"])]
        return np.ascontiguousarray(np.array(W, float))
    raise ValueError(k)


def _in_domain(P):
    return bool(P.ndim == 2 and P.shape[1] == 2 and len(P) >= 3 and np.all(np.isfinite(P)) and np.all(np.diff(P[:, 0]) > 0)
                and np.all(P[:, 1] >= 0))


def _record_scale(item):
    """as _record, for a curve given by its descriptor; tables: reduced / hred dense (length r), horig sparse"""
    cid, desc, cfg = item
    P = _scale_curve(desc)
    n = len(P)
    if not _in_domain(P):                                           # outside the property's quantifier: nothing is run
        return [(None, {"scale": desc, "cfg": cfg, "outside": True})]
    out = []
    ev0 = simpl.call(P, dict(cfg["simplifier"]), wall=60)          # budget: monitor.quad(n, 16), per-loop 8n+64
    cfgs = [cfg, dict(cfg, linkage=cfg["linkage2"], mode=cfg["mode2"], c=cfg["c2"])]
    ok0 = ev0["outcome"] == "returned" and ev0.get("removed") is not None
    S = ev0.get("reduced", []) if ok0 else []
    good = ok0 and len(S) >= 2 and S[0] == 0 and S[-1] == n - 1 and bool(np.all(np.diff(np.asarray(S)) > 0))
    r = len(S)
    for ki, cf in enumerate(cfgs):
        events = [{"stage": "simplify", "outcome": ev0["outcome"] if (ok0 or ev0["outcome"] != "returned") else "returned-malformed",
                   "out": [], "same": []}]
        case = {"id": "%s.%d" % (cid, ki), "n": n, "reduced": S if ok0 else [0, n - 1], "hred": [0, 0], "horig": [], "events": events,
                "order": ["simplify", "detect", "worst", "corner", "cluster", "map"], "detmax": 0}
        meta = {"scale": desc, "cfg": cfg, "which": ki, "n": n, "r": r, "head": P[:3].tolist(),
                "simplify_used": sum(ev0["counts"].values()) / float(monitor.quad(n, 16))}
        out.append((case, meta))
        if not good:
            if ev0["outcome"] != "returned":
                meta["error"] = "simplify: %s" % ev0.get("error")
            continue
        if r > cfg.get("rmax", SCALE_RMAX):
            meta["skipped"] = "reduced curve of %d points: not run further" % r
            continue
        reduced = np.array(S)
        removed = np.array(ev0["removed"])
        PR = P[reduced]
        case["hred"] = _exact_ranks(PR[:, 1])
        case["detmax"] = r - 2
        cf = dict(cf)
        caps = cfg.get("caps", SCALE_CAPS)
        while caps.get(cf["detector"]) is not None and r > caps[cf["detector"]]:       # see SCALE_CAPS
            cf["detector"] = SCALE_FALLBACK[cf["detector"]]
        meta["detector"] = cf["detector"]
        # hang protection: every stage is at most quadratic in r with small constants (measured: < 1e-3 of this budget)
        B = monitor.quad(r, 64) + 4000 * n
        _stages(P, PR, reduced, removed, cf, meta, events, B, 1800)
        meta["stage_used"] = meta.get("used", 0) / float(B)
        if events[-1]["stage"] == "map" and events[-1]["outcome"] == "returned":
            idx = sorted(set(v for v in events[-1]["out"] if 0 <= v < n))
            rk = _exact_ranks(P[idx, 1]) if idx else []
            case["horig"] = [[int(a), int(b)] for a, b in zip(idx, rk)]
    return out


def _record_any(item):
    return _record_scale(item) if isinstance(item[1], dict) else _record(item)


def _scale_simplifier(rng, f, n, big=None):
    """simplifier configurations for a long curve; big = a retained-point count to aim at (a LONG reduced curve)"""
    if f == "rdp":
        cost = rng.choice(simpl.COSTS if rng.random() < 0.4 else ["smape", "rpd", "smape"])
        t = rng.choice([0.9, 0.99, 0.999]) if cost == "r2" else rng.choice([0.01, 0.01, 0.001, 0.005, 0.05])
        return {"f": "rdp", "t": t, "distance": rng.choice(simpl.DISTANCES), "cost": cost}
    # grdp / mp_grdp pay one pass over the curve per retained point: bounded costs (smape, rpd) and thresholds that stop them
    # after at most a few thousand points on the shapes they are given (see _SLOW_SHAPES)
    gts = [0.002, 0.01, 0.005] if n > 20000 else [0.0005, 0.002, 0.01]
    if f == "grdp":
        return {"f": "grdp", "t": rng.choice(gts), "distance": rng.choice(simpl.DISTANCES), "cost": rng.choice(["smape", "rpd"]), "order": rng.choice(simpl.ORDERS)}
    if f == "rdp_fixed":
        return {"f": "rdp_fixed", "length": big or min(n // 2, rng.choice([40, 130, 300, 1030 + rng.randint(0, 60)])), "distance": rng.choice(simpl.DISTANCES), "order": rng.choice(simpl.ORDERS)}
    if f == "mp_grdp":
        return {"f": "mp_grdp", "t": rng.choice(gts + [0.05]), "min_points": big or min(n // 2, rng.choice([30, 260, 1030 + rng.randint(0, 60)])), "distance": rng.choice(simpl.DISTANCES), "cost": rng.choice(["smape", "rpd"]), "order": rng.choice(simpl.ORDERS)}
    # (min_point_rdp is grdp with each threshold in turn)
    return {"f": "min_point_rdp", "ts": rng.choice([[0.01, 0.002], [0.05, 0.005]] if n > 20000 else [[0.01, 0.001, 0.0001], [0.05, 0.005]]),
            "min_points": min(n // 2, rng.choice([30, 260]))}


_SLOW_SHAPES = ("noisy", "zigzag", "spikes")     # threshold-driven global simplifiers retain nearly every point of these


def _scale_others(d):
    """the simplifiers other than rdp.rdp a curve is given to"""
    if d["kind"] in _SLOW_SHAPES and d["n"] > 2000:
        return ["rdp_fixed"]
    return SIMPLIFIERS[1:]


def _scale_cfg(rng, sc, d, pairs2, k):
    l, m = pairs2[k % len(pairs2)]
    return {"simplifier": sc, "detector": d, "t1": rng.choice([0.001, 0.01, 0.0]),
            "t2": rng.choice([4, 5]) if d in ("menger", "lmethod") else rng.choice([3, 4]),
            "c": rng.choice([0.33, 0.1, 0.5]), "linkage": l, "t": rng.choice([0.01, 0.02, 0.05, 0.1]), "mode": m,
            "linkage2": rng.choice(LINKAGES), "mode2": rng.choice(MODES), "c2": rng.choice([0.33, 0.2])}


def scale_inputs(ctx):
    """sizes straddling 256 / 1024 / 4096 / 10^4 / 16384 / 32768 / 65536 / 10^5 x shapes x simplifiers (rdp.rdp, the one every
    demo uses, in at least half of the cases) x detectors x linkage x ranking mode; plus the whole bundled traces and a few
    LONG reduced curves (more than 1024 / 4096 / 16384 retained points, hundreds of knees)."""
    rng = ctx.rng
    quick = ctx.quick
    caps = SCALE_CAPS if quick else SCALE_CAPS_THOROUGH
    sizes = set(scale.sizes(ctx, lo=257, hi=140000, k_quick=5, k_thorough=9))
    sizes |= {16385 + rng.randrange(1, 4000), 65537 + rng.randrange(1, 9000)}          # always: both sides of a 2^14 / 2^16 seam
    if not quick:
        sizes |= {4097 + rng.randrange(1, 900), 32769 + rng.randrange(1, 9000)}
    sizes = sorted(sizes)
    pairs2 = list(itertools.product(LINKAGES, MODES))
    rng.shuffle(pairs2)
    curves_ = []                                   # descriptors
    shapes = ["exp3", "mrc", "stair", "noisy", "trace", "convex", "ragged"]
    for si, n in enumerate(sizes):
        pick = shapes if not quick else [shapes[(si + j) % len(shapes)] for j in (0, 3)] + (["exp3"] if n > 16384 and si % 2 else [])
        for sh in dict.fromkeys(pick):
            if sh == "exp3":
                curves_.append({"kind": "exp3", "n": n, "w": [rng.choice([130.0, 60.0, 300.0]), rng.choice([13.0, 9.0, 25.0]), rng.choice([1.3, 2.0, 0.9])]})
            elif sh == "mrc":
                curves_.append({"kind": "mrc", "n": n, "seed": rng.randrange(10 ** 6), "knees": rng.choice([4, 6, 12, 40])})
            elif sh == "stair":
                curves_.append({"kind": "stair", "n": n, "steps": rng.choice([8, 40, 200]), "seed": rng.randrange(10 ** 6), "grow": rng.random() < 0.3})
            elif sh == "noisy":
                curves_.append({"kind": "noisy", "n": n, "seed": rng.randrange(10 ** 6), "rate": rng.choice([10.0, 40.0, 200.0]), "amp": rng.choice([0.0005, 0.002, 0.005])})
            elif sh == "convex":
                curves_.append({"kind": "convex", "n": n, "corners": rng.choice([5, 30, 120])})
            elif sh == "trace":
                nm = "web2.csv" if n > 8000 or rng.random() < 0.5 else "usr0.csv"
                try:
                    L = len(curves.bundled(nm))
                except Exception:
                    continue
                if L < n:
                    continue
                curves_.append({"kind": "trace", "name": nm, "start": rng.randint(0, L - n), "len": n, "n": n})
            elif sh == "ragged" and n <= 5000:     # every point is retained: work stacks as deep as the curve is long
                curves_.append({"kind": rng.choice(["zigzag", "spikes"]), "n": n, "period": rng.choice([3, 4, 7])})
    for n in ([rng.choice([1025, 4097]) + rng.randrange(1, 400)] if quick else [1025 + rng.randrange(1, 400), 4097 + rng.randrange(1, 400)]):
        curves_.append({"kind": rng.choice(["zigzag", "spikes"]), "n": n, "period": rng.choice([3, 4, 7])})      # always: a ragged one
    for nm in ("web2.csv", "usr0.csv"):            # the bundled traces as a whole, always
        try:
            curves_.append({"kind": "trace", "name": nm, "start": 0, "len": None, "n": len(curves.bundled(nm))})
        except Exception:
            pass
    items = []
    k = 0
    dets = list(DETECTORS)
    for ci, d in enumerate(curves_):
        n = d["n"]
        whole = d["kind"] == "trace" and d["len"] is None
        others = _scale_others(d)
        fs = ["rdp", "rdp"] + [rng.choice(others)] if quick else ["rdp", "rdp", "rdp"] + rng.sample(others, min(3, len(others)))
        if whole:
            fs = ["rdp", "rdp", "rdp"] + (others if not quick else rng.sample(others, 2))
        for j, f in enumerate(fs):
            sc = _scale_simplifier(rng, f, n)
            if whole and j == 0:                   # the demos' defaults (-r 0.01 -c 0.33 -t 0.05 -k hull, average linkage)
                sc = {"f": "rdp", "t": 0.01, "distance": "shortest", "cost": "smape"}
            cfg = _scale_cfg(rng, sc, dets[k % len(dets)], pairs2, k)
            if whole and j == 0:
                cfg.update(t1=0.001, t2=4 if cfg["detector"] in ("menger", "lmethod") else 3, c=0.33, linkage="average_linkage", t=0.05, mode="hull")
            cfg["caps"] = SCALE_CAPS_RAGGED if d["kind"] in ("zigzag", "spikes") else caps
            items.append(("s%d" % k, d, cfg))
            k += 1
    # LONG reduced curves: a fixed number of retained points just above 1024 / 4096 (thorough: 16384) on curves at least four
    # times longer - hundreds to thousands of knees enter the filters, the mapping walks a long removed table
    targets = [1025 + rng.randrange(1, 200), 4097 + rng.randrange(1, 300)] + ([] if quick else [2049 + rng.randrange(1, 300), 8193 + rng.randrange(1, 300), 16385 + rng.randrange(1, 600)])
    for big in targets:
        n = max(4 * big + rng.randrange(1, 999), rng.choice(sizes[-3:]))
        d = rng.choice([{"kind": "mrc", "n": n, "seed": rng.randrange(10 ** 6), "knees": 40},
                        {"kind": "noisy", "n": n, "seed": rng.randrange(10 ** 6), "rate": 40.0, "amp": 0.002}])
        for f in (["rdp_fixed"] if quick else ["rdp_fixed", "mp_grdp"]):
            sc = _scale_simplifier(rng, f, n, big=big)
            if f == "mp_grdp":
                sc["t"] = 0.05                      # the threshold stops the first phase early: min_points decides
            cfg = _scale_cfg(rng, sc, dets[k % len(dets)], pairs2, k)
            cfg["caps"] = caps
            items.append(("s%d" % k, d, cfg))
            k += 1
    return items


def _scale_static():
    return {"id": "static", "order": ["simplify", "detect", "worst", "corner", "cluster", "map"], "detmax": 4, "n": 100000,
            "reduced": [0, 20000, 30000, 50000, 80000, 99999], "hred": [5, 4, 3, 2, 1, 0], "horig": [[20000, 1], [80000, 0]],
            "events": [{"stage": "simplify", "outcome": "returned", "out": [], "same": []},
                       {"stage": "detect", "outcome": "returned", "out": [1, 2, 3, 4], "same": []},
                       {"stage": "worst", "outcome": "returned", "out": [1, 2, 3, 4], "same": []},
                       {"stage": "corner", "outcome": "returned", "out": [1, 3, 4], "same": []},
                       {"stage": "cluster", "outcome": "returned", "out": [1, 4], "same": []},
                       {"stage": "map", "outcome": "returned", "out": [20000, 80000], "same": [True, True]}]}


def _scale_selftests():
    import copy
    S = _scale_static()
    out = [(S, "ok")]
    c = copy.deepcopy(S); c["events"][3]["out"] = [1, 5]; out.append((c, "filter-subsequence"))
    c = copy.deepcopy(S); c["events"][4]["out"] = [4, 1]; out.append((c, "filter-subsequence"))
    c = copy.deepcopy(S); c["events"][4]["out"] = [1, 1, 4]; out.append((c, "filter-subsequence"))
    c = copy.deepcopy(S); c["hred"] = [5, 1, 3, 2, 4, 0]; out.append((c, "heights-monotone"))
    c = copy.deepcopy(S); c["horig"] = [[20000, 0], [80000, 1]]; out.append((c, "heights-monotone"))
    c = copy.deepcopy(S); c["events"][5]["out"] = [19999, 80000]; c["horig"] = [[19999, 1], [80000, 0]]; out.append((c, "mapped-is-retained-point"))   # off by one seam
    c = copy.deepcopy(S); c["events"][5]["out"] = [20000, 14464]; c["horig"] = [[14464, 1], [20000, 0]]; out.append((c, "mapped-increasing"))          # 80000 wrapped at 2^16
    c = copy.deepcopy(S); c["events"][5]["out"] = [20000]; out.append((c, "mapped-is-retained-point"))
    c = copy.deepcopy(S); c["events"][5]["same"] = [True, False]; out.append((c, "mapped-same-coordinates"))
    c = copy.deepcopy(S); c["reduced"] = [0, 20000, 30000, 30000, 80000, 99999]; out.append((c, "stage-completes"))
    c = copy.deepcopy(S); c["reduced"] = [0, 20000, 30000, 50000, 80000, 99998]; out.append((c, "stage-completes"))
    c = copy.deepcopy(S); c["events"][4]["outcome"] = "budget"; c["events"] = c["events"][:5]; out.append((c, "stage-completes"))
    c = copy.deepcopy(S); c["events"][1]["out"] = [1, 2, 5]; out.append((c, "stage-completes"))
    return out


def _scale_nontrivial(c):
    evs = {e["stage"]: e for e in c["events"]}
    return "map" in evs and (len(evs["map"]["out"]) >= 2 or len(evs["detect"]["out"]) > len(evs["map"]["out"]))


def run_scale(ctx, rec):
    """judge the recorded scale cases (Trace_PipelineScale) and account for them"""
    outside = [m for c, m in rec if c is None]
    rec = [cm for cm in rec if cm[0] is not None]
    if outside:
        ctx.note("scale: %d curves fell outside the domain (strictly increasing x, finite y >= 0) and were not run: %s" % (len(outside), outside[0]["scale"]))
    cases = [c for c, _ in rec]
    meta = {c["id"]: m for c, m in rec}
    rej = ctx.trace("Trace_PipelineScale", cases, selftest=_scale_selftests(), chunk=60 if ctx.quick else 100)
    cov = {"pipelines": len(cases), "reaching_map": 0, "sizes": sorted(set(c["n"] for c in cases)), "shapes": {}, "simplifiers": {}, "detectors": {},
           "longest_reduced_curve": 0, "most_knees_detected": 0, "most_knees_mapped": 0, "mapped_knees_beyond": {}, "detector_replaced": 0,
           "not_run_further": 0, "largest_budget_fraction": 0.0}
    for c in cases:
        m = meta[c["id"]]
        evs = {e["stage"]: e for e in c["events"]}
        ctx.count((m["scale"], m["cfg"], m["which"]), _scale_nontrivial(c))
        d = m["scale"]
        sh = d["kind"] + (":" + d["name"] if d["kind"] == "trace" else "")
        cov["shapes"][sh] = cov["shapes"].get(sh, 0) + 1
        f = m["cfg"]["simplifier"]["f"]
        cov["simplifiers"][f] = cov["simplifiers"].get(f, 0) + 1
        cov["largest_budget_fraction"] = max(cov["largest_budget_fraction"], m.get("simplify_used", 0.0), m.get("stage_used", 0.0))
        if "skipped" in m:
            cov["not_run_further"] += 1
        if "detector" in m:
            cov["detectors"][m["detector"]] = cov["detectors"].get(m["detector"], 0) + 1
            cov["detector_replaced"] += m["detector"] != m["cfg"]["detector"]
        if "detect" in evs:
            cov["longest_reduced_curve"] = max(cov["longest_reduced_curve"], m["r"])
            cov["most_knees_detected"] = max(cov["most_knees_detected"], len(evs["detect"]["out"]))
        if "map" in evs and evs["map"]["outcome"] == "returned":
            cov["reaching_map"] += 1
            cov["most_knees_mapped"] = max(cov["most_knees_mapped"], len(evs["map"]["out"]))
            for th in (4096, 16384, 32768, 65536, 100000):
                if any(v > th for v in evs["map"]["out"]):
                    cov["mapped_knees_beyond"][str(th)] = cov["mapped_knees_beyond"].get(str(th), 0) + 1
    cov["largest_budget_fraction"] = round(cov["largest_budget_fraction"], 6)
    ctx.extra["scale"] = cov
    if cov["not_run_further"]:
        ctx.note("scale: %d pipelines stopped after the simplification (reduced curve longer than %d points)" % (cov["not_run_further"], SCALE_RMAX))
    if cov["detector_replaced"]:
        ctx.note("scale: lmethod / menger (on ragged curves also kneedle) multi_knee are super-linear in the length of the reduced curve; on "
                 "reduced curves longer than their caps %d pipelines ran kneedle / curvature / dfdt instead" % cov["detector_replaced"])
    for cid, vs in rej.items():
        m = meta[cid]
        if vs[0][0] == "sparse-table-incomplete":
            from harness.main import Machinery
            raise Machinery("Trace_PipelineScale: the recorder produced an incomplete sparse height table for %s" % (m["scale"],))
        ctx.violation(vs[0][0], {"scale": m["scale"], "cfg": m["cfg"]},
                      {"verdict": vs[0], "error": m.get("error"), "pass": m["which"], "n": m["n"], "retained": m["r"], "family": "scale"},
                      match="%s:%s:%s" % (vs[0][0], m["cfg"]["detector"], m["cfg"]["mode"]))
    good = [c for c in cases if c["events"][-1]["stage"] == "map" and any(v > 16384 for v in c["events"][-1]["out"])]
    if not rej and not good:
        agg = cov
        ctx.note("VACUOUS-SCALE-FAMILY (what the family was built to reach did not occur in this run; a note, not a failure: see DESIGN 11.8): %s" % (agg,)); ctx.extra.setdefault("scale_vacuous", True)
    if good:
        sm = min(good, key=lambda c: len(c["reduced"]))
        m = meta[sm["id"]]
        ctx.sample({"binding": "T", "family": "scale", "curve": m["scale"], "cfg": m["cfg"], "n": sm["n"], "retained": len(sm["reduced"]),
                    "events": sm["events"], "horig_sparse": sm["horig"]})


STATIC = {"id": "static", "order": ["simplify", "detect", "worst", "corner", "cluster", "map"], "detmax": 4, "n": 10, "reduced": [0, 2, 3, 5, 8, 9], "hred": [5, 4, 3, 2, 1, 0], "horig": [9, 8, 7, 6, 5, 4, 3, 2, 1, 0],
          "events": [{"stage": "simplify", "outcome": "returned", "out": [0, 2, 3, 5, 8, 9], "same": []},
                     {"stage": "detect", "outcome": "returned", "out": [1, 2, 3, 4], "same": []},
                     {"stage": "worst", "outcome": "returned", "out": [1, 2, 3, 4], "same": []},
                     {"stage": "corner", "outcome": "returned", "out": [1, 3, 4], "same": []},
                     {"stage": "cluster", "outcome": "returned", "out": [1, 4], "same": []},
                     {"stage": "map", "outcome": "returned", "out": [2, 8], "same": [True, True]}]}


def _selftests():
    import copy
    out = [(STATIC, "ok")]
    c = copy.deepcopy(STATIC); c["events"][3]["out"] = [1, 5]; out.append((c, "filter-subsequence"))
    c = copy.deepcopy(STATIC); c["events"][4]["out"] = [4, 1]; out.append((c, "filter-subsequence"))
    c = copy.deepcopy(STATIC); c["hred"] = [5, 1, 3, 2, 4, 0]; out.append((c, "heights-monotone"))
    c = copy.deepcopy(STATIC); c["events"][5]["out"] = [3, 8]; out.append((c, "mapped-is-retained-point"))
    c = copy.deepcopy(STATIC); c["events"][5]["same"] = [True, False]; out.append((c, "mapped-same-coordinates"))
    c = copy.deepcopy(STATIC); c["events"][4]["outcome"] = "raised:NameError"; c["events"] = c["events"][:5]; out.append((c, "stage-completes"))
    c = copy.deepcopy(STATIC); c["events"][1]["out"] = [1, 1, 2]; out.append((c, "stage-completes"))
    return out


def run(ctx):
    ctx.rule = ("one case = one run of simplify -> multi_knee(reduced curve) -> filter_worst_knees -> filter_corner_knees -> "
                "filter_clusters -> mapping; quick: every simplifier x detector pair and every linkage x mode pair appear "
                "(covering sample); thorough: all 25 simplifier x detector pairs per curve plus all 16 linkage x mode pairs.  "
                "non-trivial: at least two knees reach the mapping stage or a filter removes a knee.  "
                "scale family: the same composition on production-size curves (257 .. 1.4*10^5 points straddling 2^8 .. 2^16, 10^4, 10^5: "
                "smooth and cliffed miss-ratio shapes, staircases, textured decays, convex piecewise-linear, zigzag / spikes, windows of "
                "and the whole bundled web2.csv / usr0.csv; rdp.rdp in at least half of the cases, every other simplifier, every detector, "
                "linkage and ranking mode; reduced curves of more than 1024 / 4096 (thorough: 16384) retained points), validated by "
                "Trace_PipelineScale with a sparse height table of the original curve")
    ctx.assumptions += ["heights are compared exactly (ranks of the binary64 values), as filter_worst_knees compares them",
                        "coordinate identity is bit-equality of points[mapped index] and points_reduced[knee position]",
                        "the demo scripts themselves are not executed (argparse, matplotlib, evaluation tail); the harness composes "
                        "the same public calls",
                        "scale family: height ranks of the original curve are taken among the indices the mapping stage returned (the "
                        "clause only compares heights); lmethod / menger multi_knee run on reduced curves up to a cap only"]
    ctx.mc("Pipeline", "MC_Pipeline", need_actions=("Detect", "FilterWorst", "FilterCorner", "FilterCluster", "Map"))
    ctx.mc("Pipeline", "MC_Pipeline_dup", expect="MappedOk")
    items = inputs(ctx)
    st = ctx.rng.getstate()             # the small families and the growth modules see the same random stream as before
    sitems = scale_inputs(ctx)
    ctx.rng.setstate(st)
    rec = [cm for lst in par.pmap(_record_any, sitems + items, chunksize=2) for cm in lst]
    srec = [cm for cm in rec if "scale" in cm[1]]
    rec = [cm for cm in rec if "scale" not in cm[1]]
    cases = [c for c, _ in rec]
    meta = {c["id"]: m for c, m in rec}
    rej = ctx.trace("Trace_Pipeline", cases, selftest=_selftests(), chunk=200)
    for c in cases:
        evs = {e["stage"]: e for e in c["events"]}
        nt = "map" in evs and (len(evs["map"]["out"]) >= 2 or len(evs["detect"]["out"]) > len(evs["map"]["out"]))
        m = meta[c["id"]]
        ctx.count((m["points"][:3], len(m["points"]), m["cfg"]), nt)
    ctx.extra["pipelines_reaching_map"] = sum(1 for c in cases if c["events"] and c["events"][-1]["stage"] == "map")
    for cid, vs in rej.items():
        m = meta[cid]
        ctx.violation(vs[0][0], {"points": m["points"], "cfg": m["cfg"]}, {"verdict": vs[0], "error": m.get("error"), "pass": m["which"]},
                      match="%s:%s:%s" % (vs[0][0], m["cfg"]["detector"], m["cfg"]["mode"]))
    run_scale(ctx, srec)
    growth.safe(ctx, growth.pipeline_variants)
    sm = max(cases, key=lambda c: len(c["events"][-1]["out"]) if c["events"][-1]["stage"] == "map" and c["n"] < 80 else -1)
    ctx.sample({"binding": "T", "cfg": meta[sm["id"]]["cfg"], "n": sm["n"], "events": sm["events"]})


def replay(ctx, obj):
    c = obj["case"]
    if "scale" in c:                    # scale family: the curve is rebuilt from its descriptor
        lst = [cm for cm in _record_scale(("replay", c["scale"], c["cfg"])) if cm[0] is not None]
        rej = ctx.trace("Trace_PipelineScale", [case for case, _ in lst])
        for cid, vs in rej.items():
            ctx.violation(vs[0][0], c, {"verdict": vs[0], "family": "scale"})
        return
    lst = _record(("replay", c["points"], c["cfg"]))
    rej = ctx.trace("Trace_Pipeline", [case for case, _ in lst])
    for cid, vs in rej.items():
        ctx.violation(vs[0][0], c, {"verdict": vs[0]})
