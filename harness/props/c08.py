"""C08 - the end-to-end pipeline yields valid, ordered knees of the original curve.
M: Pipeline.tla - the pipeline invariants follow from the stage guarantees (C01, C02, C13, C12, C07) for every choice the
   stages are allowed to make (n<=6); negative instance: a reduction with a duplicate index breaks strict increase.
T: the demo composition (demos/*.py without argparse/plotting/evaluation) run stage by stage over simplifier x detector x
   linkage x ranking-mode configurations; Trace_Pipeline consumes the history event by event."""
import itertools

import numpy as np

from harness import curves, growth, monitor, numeric, par, simpl
from harness import enums

SIMPLIFIERS = ["rdp", "grdp", "rdp_fixed", "mp_grdp", "min_point_rdp"]
DETECTORS = ["curvature", "dfdt", "menger", "lmethod", "kneedle"]
LINKAGES = ["single_linkage", "complete_linkage", "centroid_linkage", "average_linkage"]
MODES = ["left", "linear", "right", "hull"]


def _exact_ranks(v):
    u = sorted(set(float(x) for x in v))
    pos = {x: i for i, x in enumerate(u)}
    return [pos[float(x)] for x in v]


def _ints(a):
    return [int(v) for v in np.asarray(a).tolist()]


def _record(item):
    """one simplification, then the rest of the pipeline TWICE on the same (reduced, removed) objects with two filter
    configurations - a configuration sweep that re-uses a simplification is part of the property's quantifier."""
    import importlib
    import kneeliverse.postprocessing as pp
    import kneeliverse.clustering as clustering
    import kneeliverse.knee_ranking as kr
    import kneeliverse.rdp as rdp
    cid, P, cfg = item
    P = np.asarray(P, float)
    n = len(P)
    B = 4000 * n + 40000
    out = []
    sp = dict(cfg["simplifier"])
    ev0 = simpl.call(P, sp, wall=60)
    simp_event = {"stage": "simplify", "outcome": ev0["outcome"], "out": ev0.get("reduced", []), "same": []}
    cfgs = [cfg, dict(cfg, linkage=cfg["linkage2"], mode=cfg["mode2"], c=cfg["c2"])]
    good = ev0["outcome"] == "returned" and ev0.get("removed") is not None
    if good:
        reduced = np.array(ev0["reduced"])
        removed = np.array(ev0["removed"])
        S = ev0["reduced"]
        good = len(S) >= 2 and S[0] == 0 and S[-1] == n - 1 and all(S[j] < S[j + 1] for j in range(len(S) - 1))
    for ki, cf in enumerate(cfgs):
        events = [dict(simp_event)]
        case = {"id": "%s.%d" % (cid, ki), "n": n, "reduced": [0, n - 1], "hred": [0, 0], "horig": _exact_ranks(P[:, 1]), "events": events,
                "order": ["simplify", "detect", "worst", "corner", "cluster", "map"], "detmax": 0}
        meta = {"points": P.tolist(), "cfg": cfg, "which": ki}
        out.append((case, meta))
        if not good:
            if ev0["outcome"] != "returned":
                meta["error"] = "simplify: %s" % ev0.get("error")
            continue
        PR = P[reduced]
        case["reduced"] = S
        case["hred"] = _exact_ranks(PR[:, 1])
        case["detmax"] = len(S) - 2

        def stage(name, fn, args):
            o, val, _ = monitor.call(fn, args, budget=B, wall=60)
            ev = {"stage": name, "outcome": o, "out": [], "same": []}
            if o != "returned":
                meta["error"] = "%s: %s" % (name, val)
            events.append(ev)
            return o == "returned", val, ev

        det = importlib.import_module("kneeliverse." + cf["detector"])
        ok, knees, ev = stage("detect", det.multi_knee, (PR, cf["t1"], cf["t2"]))
        if not ok:
            continue
        ev["out"] = _ints(knees)
        ok, k1, ev = stage("worst", pp.filter_worst_knees, (PR, knees))
        if not ok:
            continue
        ev["out"] = _ints(k1)
        ok, k2, ev = stage("corner", pp.filter_corner_knees, (PR, k1, cf["c"]))
        if not ok:
            continue
        ev["out"] = _ints(k2)
        ok, k3, ev = stage("cluster", pp.filter_clusters, (PR, k2, getattr(clustering, cf["linkage"]), cf["t"], enums.pick(kr.ClusterRanking, cf["mode"])))
        if not ok:
            continue
        ev["out"] = _ints(k3)
        ok, k4, ev = stage("map", rdp.mapping, (k3, reduced, removed))
        if not ok:
            continue
        ev["out"] = _ints(k4)
        k3i = _ints(k3)
        ev["same"] = [bool(0 <= orig < n and 0 <= k3i[j] < len(PR) and P[orig].tobytes() == PR[k3i[j]].tobytes())
                      for j, orig in enumerate(ev["out"])]
    return out


def _simplifier_cfg(rng, f, n):
    if f == "rdp":
        return {"f": "rdp", "t": rng.choice([0.001, 0.005, 0.01, 0.05]), "distance": rng.choice(simpl.DISTANCES), "cost": rng.choice(simpl.COSTS if rng.random() < 0.5 else ["smape", "rpd"])}
    if f == "grdp":
        return {"f": "grdp", "t": rng.choice([0.0005, 0.002, 0.01]), "distance": rng.choice(simpl.DISTANCES), "cost": rng.choice(["smape", "rpd", "rmspe"]), "order": rng.choice(simpl.ORDERS)}
    if f == "rdp_fixed":
        return {"f": "rdp_fixed", "length": rng.randint(6, max(6, min(n, 40))), "distance": rng.choice(simpl.DISTANCES), "order": rng.choice(simpl.ORDERS)}
    if f == "mp_grdp":
        return {"f": "mp_grdp", "t": rng.choice([0.002, 0.01, 0.05]), "min_points": rng.randint(5, max(5, min(n, 30))), "distance": rng.choice(simpl.DISTANCES), "cost": rng.choice(["smape", "rpd"]), "order": rng.choice(simpl.ORDERS)}
    return {"f": "min_point_rdp", "ts": rng.choice([[0.01, 0.001, 0.0001], [0.05, 0.005]]), "min_points": rng.randint(5, max(5, min(n, 30)))}


def _knee_curves(rng, count, nmin=30, nmax=160):
    out = []
    for _ in range(count):
        n = rng.randint(nmin, nmax)
        x = np.cumsum([rng.randint(1, 3) for _ in range(n)]).astype(float)
        kind = rng.randint(0, 2)
        if kind == 0:      # multi-knee staircase
            y, cur = [], 1.0
            drops = sorted(rng.sample(range(2, n - 2), rng.randint(1, 5)))
            for i in range(n):
                if i in drops:
                    cur *= rng.choice([0.4, 0.6, 0.8])
                cur -= 0.0005 * rng.random()
                y.append(max(cur, 0.0))
            y = np.array(y)
        elif kind == 1:    # MRC-like decay with noise
            y = 1.0 / (1.0 + 0.05 * np.arange(n) * rng.uniform(0.5, 3)) + np.array([rng.gauss(0, 0.003) for _ in range(n)])
            y = np.clip(y, 0, None)
        else:              # sum of exponentials
            y = 0.6 * np.exp(-np.arange(n) / rng.uniform(3, 15)) + 0.4 * np.exp(-np.arange(n) / rng.uniform(30, 90))
        out.append(curves.mk(x, y))
    return out


def inputs(ctx):
    rng = ctx.rng
    cs = _knee_curves(rng, 14 if ctx.quick else 60)
    try:
        cs.append(curves.bundled("web0_reduced.csv"))
    except Exception:
        pass
    cs += curves.trace_windows(rng, 4 if ctx.quick else 30, 60, 300, names=("usr0.csv", "web2.csv"))
    cs += [curves.random_curve(rng, 12, 40) for _ in range(10 if ctx.quick else 60)]
    pairs1 = list(itertools.product(SIMPLIFIERS, DETECTORS))
    pairs2 = list(itertools.product(LINKAGES, MODES))
    items = []
    k = 0
    for ci, P in enumerate(cs):
        n = len(P)
        if ctx.quick:
            combos = []
            rng.shuffle(pairs1)
            for j, (s, d) in enumerate(pairs1[:8]):
                l, m = pairs2[(ci * 8 + j) % len(pairs2)]
                combos.append((s, d, l, m))
        else:
            combos = [(s, d) + rng.choice(pairs2) for s, d in pairs1] + [rng.choice(pairs1) + lm for lm in pairs2]
        for s, d, l, m in combos:
            cfg = {"simplifier": _simplifier_cfg(rng, s, n), "detector": d,
                   "t1": rng.choice([0.001, 0.01, 0.0]), "t2": rng.choice([4, 5]) if d in ("menger", "lmethod") else rng.choice([3, 4]),
                   "c": rng.choice([0.33, 0.1, 0.5]), "linkage": l, "t": rng.choice([0.01, 0.05, 0.1]), "mode": m,
                   "linkage2": rng.choice(LINKAGES), "mode2": rng.choice(MODES), "c2": rng.choice([0.33, 0.2])}
            items.append(("p%d" % k, P.tolist(), cfg))
            k += 1
    # noisy decays clustered coarsely in hull mode: clusters whose span holds lower-hull points none of which is a knee
    for _ in range(8 if ctx.quick else 60):
        n = rng.randint(50, 80)
        x = np.arange(n, dtype=float)
        y = np.exp(-3.0 * x / n) + np.array([0.05 * rng.random() for _ in range(n)])
        P = curves.mk(x, y)
        for d in rng.sample(DETECTORS, 2):
            cfg = {"simplifier": {"f": "rdp", "t": 0.01, "distance": "shortest", "cost": "smape"}, "detector": d, "t1": 0.001,
                   "t2": rng.choice([4, 5]) if d in ("menger", "lmethod") else rng.choice([3, 4]),
                   "c": 0.33, "linkage": rng.choice(LINKAGES), "t": 0.2, "mode": "hull",
                   "linkage2": rng.choice(LINKAGES), "mode2": "hull", "c2": 0.33}
            items.append(("p%d" % k, P.tolist(), cfg))
            k += 1
    # step-like curves with EXACT plateaus (working sets), simplified almost not at all, clustered coarsely: clusters whose
    # slice of the reduced curve is a run of equal heights (a degenerate fit for the ranking helpers)
    for _ in range(6 if ctx.quick else 40):
        levels = sorted(set(round(rng.uniform(0.02, 1.0), 2) for _ in range(rng.randint(3, 5))), reverse=True)
        y = []
        for lv in levels:
            y += [lv] * rng.randint(3, 7)
            if rng.random() < 0.6:
                y.append(round(lv * rng.uniform(0.6, 0.9), 3))
        y = sorted(y, reverse=True)
        P = curves.mk(np.arange(1, len(y) + 1) * 64.0, np.array(y))
        n = len(P)
        for s, d in rng.sample(list(itertools.product(["mp_grdp", "min_point_rdp"], DETECTORS)), 4):
            l, m = rng.choice(pairs2)
            sc = ({"f": "mp_grdp", "t": 0.01, "min_points": max(5, n - 4), "distance": "shortest", "cost": "smape", "order": "segment"}
                  if s == "mp_grdp" else {"f": "min_point_rdp", "ts": [0.01, 0.001, 0.0001], "min_points": max(5, n - 4)})
            cfg = {"simplifier": sc, "detector": d, "t1": 0.0, "t2": rng.choice([4, 5]) if d in ("menger", "lmethod") else rng.choice([3, 4]),
                   "c": 0.33, "linkage": l, "t": rng.choice([0.2, 0.3]), "mode": m,
                   "linkage2": rng.choice(LINKAGES), "mode2": rng.choice(MODES), "c2": 0.33}
            items.append(("p%d" % k, P.tolist(), cfg))
            k += 1
    return items


STATIC = {"id": "static", "order": ["simplify", "detect", "worst", "corner", "cluster", "map"], "detmax": 4, "n": 10, "reduced": [0, 2, 3, 5, 8, 9], "hred": [5, 4, 3, 2, 1, 0], "horig": [9, 8, 7, 6, 5, 4, 3, 2, 1, 0],
          "events": [{"stage": "simplify", "outcome": "returned", "out": [0, 2, 3, 5, 8, 9], "same": []},
                     {"stage": "detect", "outcome": "returned", "out": [1, 2, 3, 4], "same": []},
                     {"stage": "worst", "outcome": "returned", "out": [1, 2, 3, 4], "same": []},
                     {"stage": "corner", "outcome": "returned", "out": [1, 3, 4], "same": []},
                     {"stage": "cluster", "outcome": "returned", "out": [1, 4], "same": []},
                     {"stage": "map", "outcome": "returned", "out": [2, 8], "same": [True, True]}]}


def _selftests():
    import copy
    out = [(STATIC, "ok")]
    c = copy.deepcopy(STATIC); c["events"][3]["out"] = [1, 5]; out.append((c, "filter-subsequence"))
    c = copy.deepcopy(STATIC); c["events"][4]["out"] = [4, 1]; out.append((c, "filter-subsequence"))
    c = copy.deepcopy(STATIC); c["hred"] = [5, 1, 3, 2, 4, 0]; out.append((c, "heights-monotone"))
    c = copy.deepcopy(STATIC); c["events"][5]["out"] = [3, 8]; out.append((c, "mapped-is-retained-point"))
    c = copy.deepcopy(STATIC); c["events"][5]["same"] = [True, False]; out.append((c, "mapped-same-coordinates"))
    c = copy.deepcopy(STATIC); c["events"][4]["outcome"] = "raised:NameError"; c["events"] = c["events"][:5]; out.append((c, "stage-completes"))
    c = copy.deepcopy(STATIC); c["events"][1]["out"] = [1, 1, 2]; out.append((c, "stage-completes"))
    return out


def run(ctx):
    ctx.rule = ("one case = one run of simplify -> multi_knee(reduced curve) -> filter_worst_knees -> filter_corner_knees -> "
                "filter_clusters -> mapping; quick: every simplifier x detector pair and every linkage x mode pair appear "
                "(covering sample); thorough: all 25 simplifier x detector pairs per curve plus all 16 linkage x mode pairs.  "
                "non-trivial: at least two knees reach the mapping stage or a filter removes a knee")
    ctx.assumptions += ["heights are compared exactly (ranks of the binary64 values), as filter_worst_knees compares them",
                        "coordinate identity is bit-equality of points[mapped index] and points_reduced[knee position]",
                        "the demo scripts themselves are not executed (argparse, matplotlib, evaluation tail); the harness composes "
                        "the same public calls"]
    ctx.mc("Pipeline", "MC_Pipeline", need_actions=("Detect", "FilterWorst", "FilterCorner", "FilterCluster", "Map"))
    ctx.mc("Pipeline", "MC_Pipeline_dup", expect="MappedOk")
    items = inputs(ctx)
    rec = [cm for lst in par.pmap(_record, items, chunksize=2) for cm in lst]
    cases = [c for c, _ in rec]
    meta = {c["id"]: m for c, m in rec}
    rej = ctx.trace("Trace_Pipeline", cases, selftest=_selftests(), chunk=200)
    for c in cases:
        evs = {e["stage"]: e for e in c["events"]}
        nt = "map" in evs and (len(evs["map"]["out"]) >= 2 or len(evs["detect"]["out"]) > len(evs["map"]["out"]))
        m = meta[c["id"]]
        ctx.count((m["points"][:3], len(m["points"]), m["cfg"]), nt)
    ctx.extra["pipelines_reaching_map"] = sum(1 for c in cases if c["events"] and c["events"][-1]["stage"] == "map")
    for cid, vs in rej.items():
        m = meta[cid]
        ctx.violation(vs[0][0], {"points": m["points"], "cfg": m["cfg"]}, {"verdict": vs[0], "error": m.get("error"), "pass": m["which"]},
                      match="%s:%s:%s" % (vs[0][0], m["cfg"]["detector"], m["cfg"]["mode"]))
    growth.safe(ctx, growth.pipeline_variants)
    sm = max(cases, key=lambda c: len(c["events"][-1]["out"]) if c["events"][-1]["stage"] == "map" and c["n"] < 80 else -1)
    ctx.sample({"binding": "T", "cfg": meta[sm["id"]]["cfg"], "n": sm["n"], "events": sm["events"]})


def replay(ctx, obj):
    c = obj["case"]
    lst = _record(("replay", c["points"], c["cfg"]))
    rej = ctx.trace("Trace_Pipeline", [case for case, _ in lst])
    for cid, vs in rej.items():
        ctx.violation(vs[0][0], c, {"verdict": vs[0]})
