"""C02 - recursive multi-knee detection terminates, is well-formed and self-similar.
M: MultiKnee.tla for every detector/gate oracle (n<=9): termination, pop bound, ordering, range, interiority,
   result = MKSet(0,n); negative instance: a detector that may answer the last index.
G: every recursion tree (n<=7) replayed through the PUBLIC wrapper multi_knee.multi_knee with a synthetic detector
   that answers from the behaviour's table (reaches answers 0, len-2, None that real detectors seldom give).
T: the five bundled detectors on real curves with K/C tables from their own single-knee entry points.
   scale: the same on production-size curves (257 .. 10^5 points, thousands of knees, thousands of ranges pending at once),
   sparse tables with position hints judged by Trace_MultiKneeScale."""
import numpy as np

from harness import curves, monitor, numeric, par

DETECTORS = {"curvature": 3, "dfdt": 3, "menger": 4, "lmethod": 4, "kneedle": 3}   # name -> minimum t2 (defaults)


def _mod(name):
    import importlib
    return importlib.import_module("kneeliverse." + name)


# ------------------------------------------------------------------ G
def _replay_line(b):
    import kneeliverse.multi_knee as mk
    n, t2 = b["n"], b["t2"]
    table = {(c[0], c[1]): c[2] for c in b["calls"]}
    x = np.arange(n, dtype=float)
    P = np.column_stack([x, 100.0 / (x + 1.0)])
    asked = []

    def det(pt):
        l = int(round(pt[0][0]))
        r = l + len(pt)
        asked.append((l, r))
        a = table.get((l, r), "unexpected")
        if a == "unexpected":
            return None
        return None if a == -1 else a

    bad = []
    out, val, counts = monitor.call(mk.multi_knee, (det, P, 0.0, t2), budget=monitor.quad(n), wall=30, per={"multi_knee": 8 * n + 64})
    if out != "returned":
        return [("terminates" if out in ("budget", "watchdog") else "returns", {"outcome": out, "error": val})]
    got = [int(v) for v in np.asarray(val).tolist()]
    if got != list(b["result"]):
        bad.append(("decomposition", {"got": got, "expected": b["result"]}))
    if sorted(asked) != sorted(table.keys()) and not bad:
        # which slices the detector is consulted on is not pinned by the property when the result is right
        bad.append(("DRIFT:calls", {"asked": sorted(asked), "expected_slices": sorted(table.keys())}))
    # straight carrier: nothing is curved for t1 > 0, the result must be empty and the detector never asked
    Q = np.column_stack([x, 3.0 * x + 1.0])
    asked2 = []
    out, val, _ = monitor.call(mk.multi_knee, (lambda pt: asked2.append(1) or 1, Q, 0.001, t2), budget=monitor.quad(n), wall=30, per={"multi_knee": 8 * n + 64})
    if out != "returned" or len(np.asarray(val)) != 0 or asked2:
        bad.append(("empty-gate", {"outcome": out, "result": str(val), "asked": len(asked2)}))
    return bad


# ------------------------------------------------------------------ T
def _record(item):
    import kneeliverse.linear_fit as lf
    cid, P, det, t1, t2 = item
    P = np.asarray(P, float)
    n = len(P)
    mod = _mod(det)
    out, val, counts = monitor.call(mod.multi_knee, (P, t1, t2), budget=monitor.quad(n, 200), wall=60, per={"multi_knee": 8 * n + 64})
    case = {"id": cid, "n": n, "t2": t2, "outcome": out, "pops": counts.get("multi_knee", 0),
            "exempt_interior": det == "menger", "result": []}
    if out == "returned":
        case["result"] = [int(v) for v in np.asarray(val).tolist()]
    K = [[-2] * (n + 1) for _ in range(n + 1)]
    C = [[False] * (n + 1) for _ in range(n + 1)]
    for l in range(0, n):
        for r in range(l + 1, n + 1):
            if r - l <= t2:
                continue
            pt = P[l:r]
            try:
                coef = lf.linear_fit_points(pt)
                C[l][r] = bool(lf.smape_points(pt, coef) >= t1)
            except Exception:
                C[l][r] = False
            o2, v2, _ = monitor.call(mod.knee, (pt,), budget=monitor.quad(n, 200), wall=60)
            if o2 == "returned":
                K[l][r] = -1 if v2 is None else int(v2)
    case["K"] = K
    case["C"] = C
    case["sparse"] = False
    case["tab"] = []
    return case, {"points": P.tolist(), "detector": det, "t1": t1, "t2": t2, "error": val if out != "returned" else None}


def _smape_gate(pt, t1, wide=False):
    """endpoint-line SMAPE of the slice, computed independently (math.fsum); None when within noise of t1.
    wide: abscissae far from the origin - the line is evaluated as y0 + m (x - x0) (stable), and the library's own
    rounding of `m x + b` grows with the offset, hence the wider noise band around t1."""
    import math
    x, y = pt[:, 0], pt[:, 1]
    m = (y[0] - y[-1]) / (x[0] - x[-1])
    h = (x - x[0]) * m + y[0] if wide else x * m + (y[0] - m * x[0])
    v = math.fsum(2.0 * np.abs(h - y) / (np.abs(y) + np.abs(h) + 1e-16)) / len(pt)
    if numeric.close(v, t1, rel=1e-3, ab=1e-9) if wide else numeric.close(v, t1, rel=1e-9, ab=1e-15):
        return None
    return bool(v >= t1)


def _record_long(item):
    """long curves: sparse tables over the slices the decomposition visits; the gate is the SMAPE definition."""
    cid, seed, n, det, t1, t2 = item[:6]
    xoff = float(item[6]) if len(item) > 6 else 0.0
    import random
    rng = random.Random(seed)
    x = np.arange(1, n + 1, dtype=float)
    kind = seed % 3
    if kind == 0:      # a straight line with a two-point spike near the end: SMAPE just below / above t1 matters
        y = 1000.0 - 0.2 * x
        y[-3] += 30.0 * rng.random(); y[-2] -= 20.0 * rng.random()
    elif kind == 1:
        y = 1000.0 / np.sqrt(x)
    else:
        y = 50.0 + 40.0 * np.exp(-x / (n / 6.0)) + np.array([0.01 * rng.random() for _ in range(n)])
    P = np.column_stack([x + xoff, y])        # xoff: the same curve far to the right (abscissae stay exactly representable)
    mod = _mod(det)
    out, val, counts = monitor.call(mod.multi_knee, (P, t1, t2), budget=monitor.quad(n, 200), wall=600, per={"multi_knee": 8 * n + 64})
    case = {"id": cid, "n": n, "t2": t2, "outcome": out, "pops": counts.get("multi_knee", 0), "exempt_interior": det == "menger",
            "result": [int(v) for v in np.asarray(val).tolist()] if out == "returned" else [], "K": [], "C": [], "sparse": True, "tab": []}
    todo = [(0, n)]
    tab = []
    while todo and len(tab) < 400:
        l, r = todo.pop()
        if r - l <= t2:
            continue
        g = _smape_gate(P[l:r], t1, wide=xoff != 0.0)
        if g is None:
            tab.append([l, r, -2, True])
            continue
        if not g:
            tab.append([l, r, -1, False])
            continue
        o2, v2, _ = monitor.call(mod.knee, (P[l:r],), budget=monitor.quad(n, 200), wall=600)
        k = -2 if o2 != "returned" else (-1 if v2 is None else int(v2))
        tab.append([l, r, k, True])
        if k >= 0:
            todo += [(l, l + k + 1), (l + k + 1, r)]
    case["tab"] = tab
    return case, {"long": [cid, seed, n, det, t1, t2] + ([xoff] if xoff else []), "detector": det, "t1": t1, "t2": t2, "error": val if out != "returned" else None}


# ------------------------------------------------------------------ T at production size ("scale" family)
SC_FAST = ("curvature", "dfdt")           # vectorised single-knee detectors: linear numpy work per slice
SC_TRANSFORMS = ("", "rev", "neg", "revneg")


SC_PATTERNS = ((1,), (4, 1), (9, 3, 1), (8, 1, 2, 1))


def _sc_cpl(n, corners, pat):
    """convex increasing piecewise-linear curve, x = 0..n-1, y >= 1: `corners` corners at equal distances whose slope increments
    repeat SC_PATTERNS[pat] / 16.  The curvature of equally sharp corners fades to the right, so a curvature-like detector
    picks the sharpest class from left to right - one pending range per pick - and every pending range still holds the
    blunter corners of the pattern (pattern 0: all corners alike, the pending ranges are straight)."""
    corners = max(1, min(corners, n // 3))
    w = n // (corners + 1)
    inc = np.zeros(n)
    p = SC_PATTERNS[pat]
    for c in range(1, corners + 1):
        inc[c * w] = p[(c - 1) % len(p)] / 16.0
    slope = 1.0 / 64 + np.cumsum(inc)                 # slope of the unit interval that ENDS at i (dyadic, exact)
    return 1.0 + np.concatenate([[0.0], np.cumsum(slope[:-1])])


def _sc_curve(spec):
    """spec = [shape, n, a, b, transform, pattern] -> C-contiguous float64 (n, 2) array, x = 0..n-1, y >= 0 (deterministic).
    shapes: cpl  _sc_cpl(n, a, pattern): thousands of knees, one pending range per knee of the sharpest class;
            tail a straight prefix followed by _sc_cpl(b, a, pattern) (deep pending stack and knee indices far beyond 2^15 / 2^16
                 at the cost of the tail only);
            rcpl convex piecewise linear with `a` corners of random sharpness and small slopes (balanced recursion tree);
            stair / mrc / zig / spk: harness.scale staircase(n, a, Random(b)) / mrc(n, Random(b), a) / zigzag / spikes(n, a).
    transform: rev = ordinates reversed (x stays increasing), neg = max - y (concave), revneg = both."""
    import random
    from harness import scale
    kind, n, a, b, tr, pat = spec
    if kind == "cpl":
        y = _sc_cpl(n, a, pat)
    elif kind == "tail":
        m = min(b, n - 8)
        y = np.concatenate([1.0 + np.arange(n - m, dtype=float) / 128.0, (n - m) / 128.0 + _sc_cpl(m, a, pat)])
    elif kind == "rcpl":
        rng = random.Random(b)
        corners = max(1, min(a, n // 3))
        pos = sorted(rng.sample(range(1, n - 1), corners))
        inc = np.zeros(n)
        for p in pos:
            inc[p] = rng.randrange(1, 4096) / 2.0 ** 22      # dyadic slope increments, the slope stays below 1/64 + 2^-10 corners
        slope = 1.0 / 64 + np.cumsum(inc)
        y = 1.0 + np.concatenate([[0.0], np.cumsum(slope[:-1])])
    elif kind == "stair":
        y = scale.staircase(n, a, random.Random(b))[:, 1]
    elif kind == "mrc":
        y = scale.mrc(n, random.Random(b), a)[:, 1]
    elif kind == "zig":
        y = scale.zigzag(n)[:, 1]
    elif kind == "spk":
        y = scale.spikes(n, a)[:, 1]
    else:
        raise ValueError(kind)
    y = np.array(y, dtype=float)
    if "rev" in tr:
        y = y[::-1].copy()
    if "neg" in tr:
        y = y.max() - y
    return np.ascontiguousarray(np.column_stack([np.arange(n, dtype=float), y]))


def _sc_smape(pt):
    """endpoint-line SMAPE of a slice (the definition; fsum for short slices, pairwise numpy sum for long ones)."""
    import math
    x, y = pt[:, 0], pt[:, 1]
    m = (y[0] - y[-1]) / (x[0] - x[-1])
    h = x * m + (y[0] - m * x[0])
    t = 2.0 * np.abs(h - y) / (np.abs(y) + np.abs(h) + 1e-16)
    return (math.fsum(t) if len(pt) <= 2048 else float(np.sum(t))) / len(pt)


def _sc_gate(pt, t1):
    """True / False / None (within rounding noise of t1: pins nothing).  The noise band of the small inputs (rel 1e-9) is widened
    by 4 n eps for the long sums; t1 <= 0 is never undercut by a mean of non-negative terms."""
    if t1 <= 0.0:
        return True
    v = _sc_smape(pt)
    if not np.isfinite(v) or numeric.close(v, t1, rel=1e-9 + 4.0 * len(pt) * 2.3e-16, ab=1e-15):
        return None
    return bool(v >= t1)


def _sc_t1(P, mod, t1spec):
    """t1spec: a float, or ["tie", level, sign]: the SMAPE of the whole curve (level 0) or of the right / left part after the
    detector's first knee (level 1 / 2), moved by 2^-20 relative (a thousand noise bands) below (sign -1: that slice is just
    curved) or above (+1: just straight) - a gate evaluated on a sample / in blocks / in float32 on a LONG slice decides
    differently there."""
    if not isinstance(t1spec, (list, tuple)):
        return float(t1spec)
    _, level, sign = t1spec
    pt = P
    if level:
        o, k, _ = monitor.call(mod.knee, (P,), budget=monitor.quad(len(P), 400), wall=900)
        if o == "returned" and k is not None and 0 <= int(k) <= len(P) - 2:
            k = int(k)
            pt = P[k + 1:] if level == 1 else P[:k + 1]
    if len(pt) < 3:
        pt = P
    v = _sc_smape(pt)
    if not np.isfinite(v) or v <= 0.0:
        return 0.001
    return float(v * (1.0 + sign * 2.0 ** -20))


def _sc_cost(det, length):
    """estimated microseconds of one single-knee call on `length` points (vectorised / python loop per point / L-method)"""
    if det in SC_FAST:
        return 20.0 + 0.1 * length
    if det == "lmethod":
        return 1.3 * length * (20.0 + 0.01 * length)
    return 30.0 + 3.0 * length


def _sc_table(P, mod, det, t1, t2, cap, work):
    """the oracle: the slices the property's decomposition visits, each with the gate (definition of SMAPE) and the detector's
    own single-knee answer, plus the positions of the two child entries.  Returns None when the table would need more than
    `cap` entries or more than `work` estimated microseconds of single-knee calls (the caller then raises t1)."""
    n = len(P)
    tab = []
    todo = [(0, n, 0, 0, 1)]
    pending = unknown = depth = 0
    spent = 0.0
    while todo:
        pending = max(pending, len(todo))
        l, r, pj, side, lev = todo.pop()
        if r - l <= t2:
            continue
        if len(tab) >= cap or spent > work:
            return None
        tab.append([l, r, -2, True, 0, 0, pj])
        depth = max(depth, lev)
        j = len(tab)
        if pj:
            tab[pj - 1][4 + side] = j
        g = _sc_gate(P[l:r], t1)
        if g is None:                # within noise of t1: pins nothing, the decomposition is Unknown (not judged) below
            unknown += 1
            continue
        if not g:
            tab[-1][2:4] = [-1, False]
            continue
        spent += _sc_cost(det, r - l)
        o2, v2, _ = monitor.call(mod.knee, (P[l:r],), budget=monitor.quad(r - l, 400), wall=1800)
        if o2 != "returned":
            unknown += 1
            continue
        if v2 is None:
            tab[-1][2] = -1
            continue
        k = int(v2)
        if not 0 <= k <= r - l - 2:  # the detector left its own range on a sub-slice: nothing is pinned below it
            unknown += 1
            continue
        tab[-1][2] = k
        todo += [(l, l + k + 1, j, 0, lev + 1), (l + k + 1, r, j, 1, lev + 1)]
    return tab, pending, unknown, depth


def _record_scale(item):
    """One production-size call, its sparse oracle table with position hints (Trace_MultiKneeScale) and what was covered.
    The oracle runs first: its work predicts the work of the call (the same single-knee calls), so an input whose recursion
    turns out too expensive for the tier is replaced by the same curve with a thirty times larger t1 (deterministically)."""
    cid, spec, det, t1spec, t2, cap, work = item
    P = _sc_curve(spec)
    n = len(P)
    mod = _mod(det)
    t1 = _sc_t1(P, mod, t1spec)
    raised = 0
    while True:
        t = _sc_table(P, mod, det, t1, t2, cap, work)
        if t is not None or raised >= 8:
            break
        t1 = max(30.0 * t1, 1e-6)
        raised += 1
    tab, pending, unknown, depth = t if t is not None else ([], 0, 1, 0)
    out, val, counts = monitor.call(mod.multi_knee, (P, t1, t2), budget=monitor.quad(n, 400), wall=1800, per={"multi_knee": 8 * n + 64})
    case = {"id": cid, "n": n, "t2": t2, "outcome": out, "pops": counts.get("multi_knee", 0), "exempt_interior": det == "menger",
            "result": [int(v) for v in np.asarray(val).tolist()] if out == "returned" else [],
            # an Unknown entry leaves the decomposition unjudged: no table is sent then (the other clauses are still judged);
            # cross: shallow trees are ALSO judged by the recursive operators of the specification (quadratic in the depth)
            "tab": tab if unknown == 0 else [], "cross": bool(depth <= 250 and len(tab) <= 3000)}
    exp = sorted(e[0] + e[2] for e in tab if e[3] and e[2] >= 0)
    meta = {"scale": list(item), "detector": det, "t1": t1, "t1_raised": raised, "t2": t2, "n": n, "shape": spec[0] + ("-" + spec[4] if spec[4] else ""),
            "entries": len(tab), "pending": pending, "depth": depth, "cross": case["cross"], "judged": unknown == 0 and out == "returned", "knees": len(case["result"]),
            "error": val if out != "returned" else None}
    if unknown == 0 and out == "returned" and case["result"] != exp:
        got = set(case["result"])
        meta["diff"] = {"returned": len(got), "expected": len(exp), "missing": [v for v in exp if v not in got][:8],
                        "extra": sorted(got - set(exp))[:8]}
    return case, meta


def _sc_corners(rng, det, n, work, cap, balanced):
    """how many corners a shape gets: a chain shape (knees picked from one end) costs about corners x cost(n / 2), a balanced one
    log2(corners) x cost(n); aim at half of the work the tier allows for one call."""
    import math
    if balanced:
        levels = 0.5 * work / _sc_cost(det, n)
        c = 2.0 ** min(levels, 20.0)
    else:
        c = 0.5 * work / _sc_cost(det, n / 2.0)
    c = int(max(3, min(c, n // 3, cap // 3)))
    return rng.randrange(max(3, (3 * c) // 4), c + 1)


def _sc_items(ctx):
    from harness import scale
    rng = ctx.rng
    q = ctx.quick
    cap = 8000 if q else 40000                    # table entries per case (JSON of a case: about 36 bytes per entry)
    work = 1.5e6 if q else 1.2e7                  # estimated microseconds of single-knee calls per case
    items = []

    def add(spec, det, t1spec, t2, w=work):
        items.append(("S%d-%s-%s%d" % (len(items), det, spec[0], spec[1]), spec, det, t1spec, t2, cap, w))

    # anchors (every seed): thousands of ranges pending at once that still hold knees, knee indices beyond 2^15 / 2^16,
    # thousands of knees
    add(["cpl", 12005 + rng.randrange(0, 40), rng.randrange(3000, 3600), 0, "", 1], "curvature", rng.choice([0.001, 1e-5]), 3, 5e6)
    add(["tail", 70001 + rng.randrange(0, 999), 3000, 9000 + rng.randrange(0, 9), "", 1], "curvature", rng.choice([1e-6, 1e-5]), 3, 5e6)
    add(["stair", 4099 + rng.randrange(0, 40), 200, rng.randrange(1 << 20), "", 0], "dfdt", 0.001, 3, 5e6)
    add(["cpl", 1290 + rng.randrange(0, 40), 330, 0, "", 1], "menger", 1e-5, 4, 5e6)
    add(["zig", 4097 + rng.randrange(0, 40), 0, 0, "", 0], "curvature", 0.001, 3, 5e6)
    if not q:
        add(["cpl", 65537 + rng.randrange(0, 99), 13000, 0, "", 1], "curvature", 1e-6, 3, 8e7)
        add(["tail", 100001, 13000, 40000, "", 2], "curvature", 0.0, 3, 8e7)
        add(["cpl", 6007, 1900, 0, "", 1], "menger", 1e-5, 4, 8e7)
        add(["stair", 32771, 1500, 7, "", 0], "dfdt", 0.001, 3, 8e7)
    # the general family: detector x size (just above a typical threshold) x shape x transform x t1 x t2
    for det, t2min in DETECTORS.items():
        if det in SC_FAST:
            ns = scale.sizes(ctx, lo=257, hi=110000, k_quick=6, k_thorough=12)
        elif det == "lmethod":
            ns = scale.sizes(ctx, lo=257, hi=1300 if q else 2200, k_quick=4, k_thorough=5)
        else:
            ns = scale.sizes(ctx, lo=257, hi=70000 if q else 110000, k_quick=6, k_thorough=10)
        for n in ns:
            for rep in range(2 if det in SC_FAST or not q else 1):
                kind = rng.choice(["cpl", "cpl", "rcpl", "rcpl", "stair", "mrc", "tail", "zig", "spk"])
                if kind in ("zig", "spk") and _sc_cost(det, n / 2.0) * n / 2.0 > work:      # a knee at every other point
                    kind = rng.choice(["cpl", "rcpl"])
                bal = kind in ("rcpl", "mrc", "stair")
                c = _sc_corners(rng, det, n, work, cap, bal)
                if kind == "mrc":
                    c = min(c, 40)
                spec = [kind, n, c, rng.randrange(1 << 20), rng.choice(SC_TRANSFORMS), rng.randrange(len(SC_PATTERNS))]
                if kind == "tail":
                    spec[3] = max(16, min(n - 8, 4 * c + rng.randrange(8, 64)))
                    spec[2] = _sc_corners(rng, det, spec[3], work, cap, False)
                if kind == "spk":
                    spec[2] = rng.choice([4, 5, 8])
                t1spec = rng.choice([0.0, 1e-5, 1e-5, 0.001, 0.001, 0.01, 0.05])
                if rng.random() < 0.3:
                    t1spec = ["tie", rng.randrange(3), rng.choice([-1, 1])]
                if kind == "mrc" and n > 4000 and not isinstance(t1spec, list):
                    t1spec = rng.choice([0.01, 0.05])      # the quantised texture of a long miss-ratio curve is one tiny step per point
                t2 = rng.choice([t2min, t2min, t2min, rng.randint(t2min, 6), 17, 130])
                add(spec, det, t1spec, t2)
    return items


def _sc_static(cross=True):
    """a 7-point case for the binding self-test: knee 3 on the whole curve, then knee 1 on [4,7) (t2 = 2)."""
    return {"id": "static", "n": 7, "t2": 2, "outcome": "returned", "pops": 5, "exempt_interior": False, "result": [3, 5], "cross": cross,
            "tab": [[0, 7, 3, True, 2, 3, 0], [0, 4, -1, False, 0, 0, 1], [4, 7, 1, True, 0, 0, 1]]}


def _sc_selftests():
    out = [(_sc_static(), "ok"), (_sc_static(False), "ok")]
    for cross in (True, False):              # the recursive operators and the flat tree form
        c = _sc_static(cross); c["result"] = [3]; out.append((c, "decomposition"))         # a knee of a pending range is missing
        c = _sc_static(cross); c["result"] = [3, 4, 5]; out.append((c, "decomposition"))
        c = _sc_static(cross); c["tab"][0][2:4] = [-1, False]; out.append((c, "empty-gate"))
        c = _sc_static(cross); c["tab"][0][5] = 2; c["result"] = [3]; out.append((c, "ok"))    # wrong hint: Unknown, never a wrong verdict
        c = _sc_static(cross); c["tab"][2][2] = -2; c["result"] = [3]; out.append((c, "ok"))   # unknown answer: not judged
        c = _sc_static(cross); c["tab"][2][6] = 2; c["result"] = [3]; out.append((c, "decomposition"))   # wrong parent: not a Tree, judged by MKHint
        c = _sc_static(cross); c["tab"] = []; c["result"] = [2]; out.append((c, "ok"))         # no table: not judged
    c = _sc_static(); c["result"] = [5, 3]; out.append((c, "increasing"))
    c = _sc_static(); c["result"] = [3, 6]; out.append((c, "range"))
    c = _sc_static(); c["tab"] = [[0, 7, 0, True, 0, 0, 0]]; c["result"] = [0]; c["exempt_interior"] = True; out.append((c, "ok"))   # the entry of [1,7) is missing: not judged
    c = _sc_static(); c["t2"] = 5; c["tab"] = [[0, 7, 0, True, 0, 2, 0], [1, 7, -1, False, 0, 0, 1]]; c["result"] = [0]; out.append((c, "interior"))
    c = _sc_static(); c["outcome"] = "budget"; out.append((c, "terminates"))
    c = _sc_static(); c["outcome"] = "raised:IndexError"; out.append((c, "returns"))
    c = _sc_static(); c["pops"] = 40; out.append((c, "step-bound"))
    return out


def _run_scale(ctx):
    import time
    t0 = time.time()
    items = _sc_items(ctx)
    rec = par.pmap(_record_scale, items, chunksize=1)
    t_rec = time.time() - t0
    order = sorted(range(len(rec)), key=lambda k: -rec[k][1]["entries"])
    lanes = 6
    per = -(-(len(rec) + len(_sc_selftests())) // lanes)
    cases = []
    for lane in range(lanes):                      # balance the table sizes over the parallel TLC runs
        cases += [rec[k][0] for k in order[lane::lanes]]
    meta = {c["id"]: m for c, m in rec}
    rej = ctx.trace("Trace_MultiKneeScale", cases, selftest=_sc_selftests(), chunk=max(1, per))
    cov = {"cases": len(rec), "judged_against_decomposition": 0, "sizes": sorted({m["n"] for _, m in rec}), "by_detector": {},
           "shapes": sorted({m["shape"] for _, m in rec}), "max_knees": 0, "max_pending_ranges": 0, "max_table_entries": 0,
           "t1": sorted({("tie" if isinstance(m["scale"][3], list) else str(m["scale"][3])) for _, m in rec}), "t2": sorted({m["t2"] for _, m in rec})}
    for c, m in rec:
        ctx.count(("S", m["scale"][1:5]), len(c["result"]) >= 2 and m["judged"])
        cov["judged_against_decomposition"] += bool(m["judged"])
        d = cov["by_detector"].setdefault(m["detector"], {"cases": 0, "max_n": 0, "max_knees": 0, "max_pending": 0})
        d["cases"] += 1
        d["max_n"] = max(d["max_n"], m["n"]); d["max_knees"] = max(d["max_knees"], m["knees"]); d["max_pending"] = max(d["max_pending"], m["pending"])
        cov["max_knees"] = max(cov["max_knees"], m["knees"])
        cov["max_pending_ranges"] = max(cov["max_pending_ranges"], m["pending"])
        cov["max_table_entries"] = max(cov["max_table_entries"], m["entries"])
    cov["wall_s"] = {"replay_and_oracle": round(t_rec, 1), "tlc": round(time.time() - t0 - t_rec, 1)}
    ctx.extra["scale"] = cov
    if cov["judged_against_decomposition"] * 10 < 8 * len(rec):
        from harness import tlc
        raise tlc.TLCFailure("scale family: only %d of %d cases could be judged against the decomposition" % (cov["judged_against_decomposition"], len(rec)))
    ctx.note("scale family: %d calls, n %d..%d, up to %d knees / %d ranges pending at once / %d table entries; %d judged against the "
             "decomposition (the rest: a gate within noise of t1 or a table beyond the cap; their ordering / range / termination clauses are judged)"
             % (len(rec), cov["sizes"][0], cov["sizes"][-1], cov["max_knees"], cov["max_pending_ranges"], cov["max_table_entries"], cov["judged_against_decomposition"]))
    for cid, vs in rej.items():
        m = meta[cid]
        if vs[0][0].startswith("MACHINERY"):
            from harness import tlc
            raise tlc.TLCFailure("Trace_MultiKneeScale: the recursive and the flat form of the decomposition disagree on %s: %s" % (m["scale"], vs[0]))
        ctx.violation(vs[0][0], {"kind": "Tscale", "scale": m["scale"]},
                      {"verdict": [str(v)[:200] for v in vs[0]], "detector": m["detector"], "n": m["n"], "t1": m["t1"], "t2": m["t2"],
                       "diff": m.get("diff"), "error": m["error"]}, match="%s:%s" % (vs[0][0], m["detector"]))
    big = max(rec, key=lambda cm: cm[1]["pending"])
    ctx.sample({"binding": "T-scale", "call": {k: big[1][k] for k in ("scale", "t1", "n", "knees", "pending", "entries")}, "result": big[0]["result"]})


def _harvest_t1(P, rng):
    import kneeliverse.linear_fit as lf
    n = len(P)
    a = rng.randint(0, max(0, n - 4))
    b = rng.randint(a + 3, n - 1) if a + 3 <= n - 1 else n - 1
    pt = P[a:b + 1]
    try:
        v = float(lf.smape_points(pt, lf.linear_fit_points(pt)))
        return v if np.isfinite(v) and v > 0 else 0.01
    except Exception:
        return 0.01


def inputs(ctx):
    rng = ctx.rng
    cs = [P for P in curves.adversarial() if 5 <= len(P) <= 16]
    cs += [curves.random_curve(rng, 5, 16) for _ in range(90 if ctx.quick else 900)]
    cs += [c for c in curves.grid_curves(6, 2, spacings=(1, 2)) if rng.random() < (0.03 if ctx.quick else 0.3)]
    items = []
    for ci, P in enumerate(cs):
        for det, t2min in DETECTORS.items():
            t1 = rng.choice([0.0, 0.001, 0.05, _harvest_t1(P, rng)])
            t2 = rng.randint(t2min, 6)
            items.append(("c%d-%s" % (ci, det), P.tolist(), det, t1, t2))
    # tiny-alphabet family (seed round 18): EVERY 5-point curve with ordinates in {0..5} (non-monotone ones included) through Kneedle -
    # exact ties in the difference curve, also between the two end points, which random curves hit about once in 24000
    import itertools
    x5 = np.arange(5, dtype=float)
    for yi, y in enumerate(itertools.product(range(6), repeat=5)):
        if len(set(y)) < 2:
            continue
        items.append(("a%d-kneedle" % yi, np.column_stack([x5, np.array(y, float)]).tolist(), "kneedle", 0.0, 3))
    return items


STATIC = {"id": "static", "n": 6, "t2": 3, "outcome": "returned", "pops": 3, "exempt_interior": False,
          "result": [2],
          "K": [[-2] * 7 for _ in range(7)], "C": [[False] * 7 for _ in range(7)]}
STATIC["sparse"] = False; STATIC["tab"] = []
STATIC["K"][0][6] = 2; STATIC["C"][0][6] = True       # whole curve: knee at 2 -> children [0,3) (too small) and [3,6) (too small)


def _selftests():
    import copy
    out = [(STATIC, "ok")]
    c = copy.deepcopy(STATIC); c["result"] = [3]; out.append((c, "decomposition"))
    c = copy.deepcopy(STATIC); c["result"] = [2, 2]; out.append((c, "increasing"))
    c = copy.deepcopy(STATIC); c["C"][0][6] = False; out.append((c, "empty-gate"))
    c = copy.deepcopy(STATIC); c["outcome"] = "budget"; out.append((c, "terminates"))
    c = copy.deepcopy(STATIC); c["K"][0][6] = 0; c["result"] = [0]; out.append((c, "interior"))
    c = copy.deepcopy(STATIC); c["t2"] = 2; c["K"][3][6] = 1; c["C"][3][6] = True; c["K"][0][3] = -1; c["C"][0][3] = True
    out.append((c, "decomposition"))       # the right child [3,6) is now long enough and curved: 4 is missing
    return out


def run(ctx):
    from harness import growth
    growth.safe(ctx, growth.mk_steps)
    ctx.rule = ("G: every recursion tree of the wrapper for n<=7 (quick) x t2 in 2..4 with detector answers in "
                "0..len-2 or None, replayed with a synthetic detector; T: 5 bundled detectors x curves (5<=n<=16) x "
                "t1 in {0, 1e-3, 0.05, harvested tie} x t2 in minimum..6 with K/C tables over all slices; tiny-alphabet family: all 7770 non-constant "
                "5-point curves with ordinates in {0..5} through Kneedle (t1 = 0, t2 = 3; exact ties of the difference curve).  "
                "non-trivial: the recursion goes at least two levels deep (>= 2 knees or a child slice examined).  "
                "scale: the 5 bundled detectors on production-size curves (n from 257 to 10^5 just above 2^8..2^16, 10^4, 10^5; convex "
                "piecewise-linear chains with thousands of knees and thousands of ranges pending at once, straight prefix + convex tail, "
                "random-corner convex curves, staircases, miss-ratio-like curves, zigzags, spikes; reversed / negated; t1 in {0, 1e-5, 1e-3, "
                "0.01, 0.05, a tie 2^-20 beside the SMAPE of the whole curve or of a first-level part}; t2 in minimum..6, 17, 130) judged by "
                "Trace_MultiKneeScale against the same decomposition over a sparse table of the visited slices (gate = SMAPE definition, "
                "answers = the detector's own single-knee entry point) plus ordering, range, interiority, step bound and termination")
    ctx.assumptions += numeric.ASSUMPTIONS + [
        "gate table C[l][r] = bit-exact comparison of lf.smape_points on the identical slice with t1",
        "K[l][r] = <detector>.knee(points[l:r]) with default options; a slice on which the detector raises is 'unknown' "
        "and a decomposition that needs it is not judged",
        "Menger is exempt from strict interiority, as the property says",
        "scale family: the gate of a slice is the SMAPE definition evaluated by the harness (fsum up to 2048 points, pairwise sum above); "
        "a value within rel (1e-9 + 4 n eps) of t1 pins nothing and the decomposition below it is not judged; an input whose recursion "
        "would cost more than the tier's work allowance is replayed with t1 raised thirtyfold (recorded as t1_raised)"]
    ctx.mc("MultiKnee", "MC_MultiKnee", need_actions=("PopSmall", "PopStraight", "PopDetect", "Finish"))
    if not ctx.quick:
        ctx.mc("MultiKnee", "MC_MultiKnee_12", timeout=3000)
        ctx.mc("Rdp", "MC_Rdp_11", timeout=3000)
    ctx.mc("MultiKnee", "MC_MultiKnee_last", expect="PopBound")
    # the machine refines the abstraction whose pop bound is proved for EVERY n (TLAPS, MultiKneeProof_proofs.tla);
    # a detector that may return the last index is not a step of that abstraction (negative instance)
    ctx.mc("MultiKneeRefines", "MC_MultiKneeRefines", need_actions=("PopSmall", "PopStraight", "PopDetect", "Finish"))
    ctx.mc("MultiKneeRefines", "MC_MultiKneeRefines_neg", expect="AbsInv")
    if not ctx.quick:
        from harness import proofs
        proofs.recheck(ctx, ["MultiKneeProof_proofs"])
    beh = ctx.gen("MultiKnee", "Gen_MultiKnee_quick" if ctx.quick else "Gen_MultiKnee_thorough")
    ctx.exhaustive = True
    res = par.pmap(_replay_line, beh)
    for b, bad in zip(beh, res):
        ctx.count(("G", b["n"], b["t2"], b["calls"]), len(b["calls"]) >= 2)
        for clause, detail in bad:
            if clause.startswith("DRIFT:"):
                ctx.note("%s %s" % (clause, detail))
                continue
            ctx.violation(clause, {"kind": "G", "behaviour": b}, detail)
    ctx.traces += len(beh)
    ctx.sample({"binding": "G", "behaviour": max(beh, key=lambda b: len(b["calls"]) if b["n"] <= 6 else 0)})
    items = inputs(ctx)
    rec = par.pmap(_record, items)
    longs = []
    for k, n in enumerate([2051, 2049, 4100] if ctx.quick else [2051, 2049, 4100, 3000, 9001, 5000]):
        for det in ("curvature", "dfdt", "menger", "kneedle"):
            longs.append(("L%d-%s" % (k, det), ctx.seed * 31 + k, n, det, ctx.rng.choice([0.001, 0.0005, 0.01]), 6))
    # the same families translated by 2^40 in x (spans far below 1e-9 of the abscissae): every quantity of the property is
    # built from x differences, so nothing changes; a relative comparison of abscissae sees "vertical" ranges
    for k, n in enumerate([300, 700] if ctx.quick else [300, 700, 1500, 2500]):
        for det in ("curvature", "menger", "dfdt"):
            longs.append(("X%d-%s" % (k, det), ctx.seed * 37 + k, n, det, ctx.rng.choice([0.001, 0.01, 0.05]), 6, 2.0 ** 40))
    rec += par.pmap(_record_long, longs, chunksize=1)
    cases = [c for c, _ in rec]
    meta = {c["id"]: m for c, m in rec}
    rej = ctx.trace("Trace_MultiKnee", cases, selftest=_selftests(), chunk=250)
    for c in cases:
        ctx.count(("T", meta[c["id"]].get("points", meta[c["id"]].get("long")), meta[c["id"]]["detector"], meta[c["id"]]["t1"], c["t2"]), len(c["result"]) >= 2)
    for cid, vs in rej.items():
        m = meta[cid]
        if "long" in m:
            ctx.violation(vs[0][0], {"kind": "Tlong", "long": m["long"]}, {"verdict": [str(v)[:300] for v in vs[0]], "error": m["error"]},
                          match="%s:%s" % (vs[0][0], m["detector"]))
            continue
        ctx.violation(vs[0][0], {"kind": "T", "points": m["points"], "detector": m["detector"], "t1": m["t1"], "t2": m["t2"]},
                      {"verdict": vs[0], "error": m["error"]}, match="%s:%s" % (vs[0][0], m["detector"]))
    sm = next(c for c in cases if len(c["result"]) >= 2 and c["n"] <= 8)
    ctx.sample({"binding": "T", "call": meta[sm["id"]], "result": sm["result"]})
    _run_scale(ctx)


def replay(ctx, obj):
    c = obj["case"]
    if c["kind"] == "G":
        for clause, detail in _replay_line(c["behaviour"]):
            if not clause.startswith("DRIFT:"):
                ctx.violation(clause, c, detail)
    elif c["kind"] == "Tscale":
        case, m = _record_scale(tuple(c["scale"]))
        rej = ctx.trace("Trace_MultiKneeScale", [case])
        for cid, vs in rej.items():
            ctx.violation(vs[0][0], c, {"verdict": [str(v)[:200] for v in vs[0]], "diff": m.get("diff"), "error": m["error"]})
    elif c["kind"] == "Tlong":
        case, m = _record_long(tuple(c["long"]))
        rej = ctx.trace("Trace_MultiKnee", [case])
        for cid, vs in rej.items():
            ctx.violation(vs[0][0], c, {"verdict": [str(v)[:300] for v in vs[0]]})
    else:
        case, m = _record(("replay", c["points"], c["detector"], c["t1"], c["t2"]))
        rej = ctx.trace("Trace_MultiKnee", [case])
        for cid, vs in rej.items():
            ctx.violation(vs[0][0], c, {"verdict": vs[0], "error": m["error"]})
