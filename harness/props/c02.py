"""C02 - recursive multi-knee detection terminates, is well-formed and self-similar.
M: MultiKnee.tla for every detector/gate oracle (n<=9): termination, pop bound, ordering, range, interiority,
   result = MKSet(0,n); negative instance: a detector that may answer the last index.
G: every recursion tree (n<=7) replayed through the PUBLIC wrapper multi_knee.multi_knee with a synthetic detector
   that answers from the behaviour's table (reaches answers 0, len-2, None that real detectors seldom give).
T: the five bundled detectors on real curves with K/C tables from their own single-knee entry points."""
import numpy as np

from harness import curves, monitor, numeric, par

DETECTORS = {"curvature": 3, "dfdt": 3, "menger": 4, "lmethod": 4, "kneedle": 3}   # name -> minimum t2 (defaults)


def _mod(name):
    import importlib
    return importlib.import_module("kneeliverse." + name)


# ------------------------------------------------------------------ G
def _replay_line(b):
    import kneeliverse.multi_knee as mk
    n, t2 = b["n"], b["t2"]
    table = {(c[0], c[1]): c[2] for c in b["calls"]}
    x = np.arange(n, dtype=float)
    P = np.column_stack([x, 100.0 / (x + 1.0)])
    asked = []

    def det(pt):
        l = int(round(pt[0][0]))
        r = l + len(pt)
        asked.append((l, r))
        a = table.get((l, r), "unexpected")
        if a == "unexpected":
            return None
        return None if a == -1 else a

    bad = []
    out, val, counts = monitor.call(mk.multi_knee, (det, P, 0.0, t2), budget=monitor.quad(n), wall=30, per={"multi_knee": 8 * n + 64})
    if out != "returned":
        return [("terminates" if out in ("budget", "watchdog") else "returns", {"outcome": out, "error": val})]
    got = [int(v) for v in np.asarray(val).tolist()]
    if got != list(b["result"]):
        bad.append(("decomposition", {"got": got, "expected": b["result"]}))
    if sorted(asked) != sorted(table.keys()) and not bad:
        # which slices the detector is consulted on is not pinned by the property when the result is right
        bad.append(("DRIFT:calls", {"asked": sorted(asked), "expected_slices": sorted(table.keys())}))
    # straight carrier: nothing is curved for t1 > 0, the result must be empty and the detector never asked
    Q = np.column_stack([x, 3.0 * x + 1.0])
    asked2 = []
    out, val, _ = monitor.call(mk.multi_knee, (lambda pt: asked2.append(1) or 1, Q, 0.001, t2), budget=monitor.quad(n), wall=30, per={"multi_knee": 8 * n + 64})
    if out != "returned" or len(np.asarray(val)) != 0 or asked2:
        bad.append(("empty-gate", {"outcome": out, "result": str(val), "asked": len(asked2)}))
    return bad


# ------------------------------------------------------------------ T
def _record(item):
    import kneeliverse.linear_fit as lf
    cid, P, det, t1, t2 = item
    P = np.asarray(P, float)
    n = len(P)
    mod = _mod(det)
    out, val, counts = monitor.call(mod.multi_knee, (P, t1, t2), budget=monitor.quad(n, 200), wall=60, per={"multi_knee": 8 * n + 64})
    case = {"id": cid, "n": n, "t2": t2, "outcome": out, "pops": counts.get("multi_knee", 0),
            "exempt_interior": det == "menger", "result": []}
    if out == "returned":
        case["result"] = [int(v) for v in np.asarray(val).tolist()]
    K = [[-2] * (n + 1) for _ in range(n + 1)]
    C = [[False] * (n + 1) for _ in range(n + 1)]
    for l in range(0, n):
        for r in range(l + 1, n + 1):
            if r - l <= t2:
                continue
            pt = P[l:r]
            try:
                coef = lf.linear_fit_points(pt)
                C[l][r] = bool(lf.smape_points(pt, coef) >= t1)
            except Exception:
                C[l][r] = False
            o2, v2, _ = monitor.call(mod.knee, (pt,), budget=monitor.quad(n, 200), wall=60)
            if o2 == "returned":
                K[l][r] = -1 if v2 is None else int(v2)
    case["K"] = K
    case["C"] = C
    case["sparse"] = False
    case["tab"] = []
    return case, {"points": P.tolist(), "detector": det, "t1": t1, "t2": t2, "error": val if out != "returned" else None}


def _smape_gate(pt, t1, wide=False):
    """endpoint-line SMAPE of the slice, computed independently (math.fsum); None when within noise of t1.
    wide: abscissae far from the origin - the line is evaluated as y0 + m (x - x0) (stable), and the library's own
    rounding of `m x + b` grows with the offset, hence the wider noise band around t1."""
    import math
    x, y = pt[:, 0], pt[:, 1]
    m = (y[0] - y[-1]) / (x[0] - x[-1])
    h = (x - x[0]) * m + y[0] if wide else x * m + (y[0] - m * x[0])
    v = math.fsum(2.0 * np.abs(h - y) / (np.abs(y) + np.abs(h) + 1e-16)) / len(pt)
    if numeric.close(v, t1, rel=1e-3, ab=1e-9) if wide else numeric.close(v, t1, rel=1e-9, ab=1e-15):
        return None
    return bool(v >= t1)


def _record_long(item):
    """long curves: sparse tables over the slices the decomposition visits; the gate is the SMAPE definition."""
    cid, seed, n, det, t1, t2 = item[:6]
    xoff = float(item[6]) if len(item) > 6 else 0.0
    import random
    rng = random.Random(seed)
    x = np.arange(1, n + 1, dtype=float)
    kind = seed % 3
    if kind == 0:      # a straight line with a two-point spike near the end: SMAPE just below / above t1 matters
        y = 1000.0 - 0.2 * x
        y[-3] += 30.0 * rng.random(); y[-2] -= 20.0 * rng.random()
    elif kind == 1:
        y = 1000.0 / np.sqrt(x)
    else:
        y = 50.0 + 40.0 * np.exp(-x / (n / 6.0)) + np.array([0.01 * rng.random() for _ in range(n)])
    P = np.column_stack([x + xoff, y])        # xoff: the same curve far to the right (abscissae stay exactly representable)
    mod = _mod(det)
    out, val, counts = monitor.call(mod.multi_knee, (P, t1, t2), budget=monitor.quad(n, 200), wall=600, per={"multi_knee": 8 * n + 64})
    case = {"id": cid, "n": n, "t2": t2, "outcome": out, "pops": counts.get("multi_knee", 0), "exempt_interior": det == "menger",
            "result": [int(v) for v in np.asarray(val).tolist()] if out == "returned" else [], "K": [], "C": [], "sparse": True, "tab": []}
    todo = [(0, n)]
    tab = []
    while todo and len(tab) < 400:
        l, r = todo.pop()
        if r - l <= t2:
            continue
        g = _smape_gate(P[l:r], t1, wide=xoff != 0.0)
        if g is None:
            tab.append([l, r, -2, True])
            continue
        if not g:
            tab.append([l, r, -1, False])
            continue
        o2, v2, _ = monitor.call(mod.knee, (P[l:r],), budget=monitor.quad(n, 200), wall=600)
        k = -2 if o2 != "returned" else (-1 if v2 is None else int(v2))
        tab.append([l, r, k, True])
        if k >= 0:
            todo += [(l, l + k + 1), (l + k + 1, r)]
    case["tab"] = tab
    return case, {"long": [cid, seed, n, det, t1, t2] + ([xoff] if xoff else []), "detector": det, "t1": t1, "t2": t2, "error": val if out != "returned" else None}


def _harvest_t1(P, rng):
    import kneeliverse.linear_fit as lf
    n = len(P)
    a = rng.randint(0, max(0, n - 4))
    b = rng.randint(a + 3, n - 1) if a + 3 <= n - 1 else n - 1
    pt = P[a:b + 1]
    try:
        v = float(lf.smape_points(pt, lf.linear_fit_points(pt)))
        return v if np.isfinite(v) and v > 0 else 0.01
    except Exception:
        return 0.01


def inputs(ctx):
    rng = ctx.rng
    cs = [P for P in curves.adversarial() if 5 <= len(P) <= 16]
    cs += [curves.random_curve(rng, 5, 16) for _ in range(90 if ctx.quick else 900)]
    cs += [c for c in curves.grid_curves(6, 2, spacings=(1, 2)) if rng.random() < (0.03 if ctx.quick else 0.3)]
    items = []
    for ci, P in enumerate(cs):
        for det, t2min in DETECTORS.items():
            t1 = rng.choice([0.0, 0.001, 0.05, _harvest_t1(P, rng)])
            t2 = rng.randint(t2min, 6)
            items.append(("c%d-%s" % (ci, det), P.tolist(), det, t1, t2))
    return items


STATIC = {"id": "static", "n": 6, "t2": 3, "outcome": "returned", "pops": 3, "exempt_interior": False,
          "result": [2],
          "K": [[-2] * 7 for _ in range(7)], "C": [[False] * 7 for _ in range(7)]}
STATIC["sparse"] = False; STATIC["tab"] = []
STATIC["K"][0][6] = 2; STATIC["C"][0][6] = True       # whole curve: knee at 2 -> children [0,3) (too small) and [3,6) (too small)


def _selftests():
    import copy
    out = [(STATIC, "ok")]
    c = copy.deepcopy(STATIC); c["result"] = [3]; out.append((c, "decomposition"))
    c = copy.deepcopy(STATIC); c["result"] = [2, 2]; out.append((c, "increasing"))
    c = copy.deepcopy(STATIC); c["C"][0][6] = False; out.append((c, "empty-gate"))
    c = copy.deepcopy(STATIC); c["outcome"] = "budget"; out.append((c, "terminates"))
    c = copy.deepcopy(STATIC); c["K"][0][6] = 0; c["result"] = [0]; out.append((c, "interior"))
    c = copy.deepcopy(STATIC); c["t2"] = 2; c["K"][3][6] = 1; c["C"][3][6] = True; c["K"][0][3] = -1; c["C"][0][3] = True
    out.append((c, "decomposition"))       # the right child [3,6) is now long enough and curved: 4 is missing
    return out


def run(ctx):
    from harness import growth
    growth.safe(ctx, growth.mk_steps)
    ctx.rule = ("G: every recursion tree of the wrapper for n<=7 (quick) x t2 in 2..4 with detector answers in "
                "0..len-2 or None, replayed with a synthetic detector; T: 5 bundled detectors x curves (5<=n<=16) x "
                "t1 in {0, 1e-3, 0.05, harvested tie} x t2 in minimum..6 with K/C tables over all slices.  "
                "non-trivial: the recursion goes at least two levels deep (>= 2 knees or a child slice examined)")
    ctx.assumptions += numeric.ASSUMPTIONS + [
        "gate table C[l][r] = bit-exact comparison of lf.smape_points on the identical slice with t1",
        "K[l][r] = <detector>.knee(points[l:r]) with default options; a slice on which the detector raises is 'unknown' "
        "and a decomposition that needs it is not judged",
        "Menger is exempt from strict interiority, as the property says"]
    ctx.mc("MultiKnee", "MC_MultiKnee", need_actions=("PopSmall", "PopStraight", "PopDetect", "Finish"))
    if not ctx.quick:
        ctx.mc("MultiKnee", "MC_MultiKnee_12", timeout=3000)
        ctx.mc("Rdp", "MC_Rdp_11", timeout=3000)
    ctx.mc("MultiKnee", "MC_MultiKnee_last", expect="PopBound")
    # the machine refines the abstraction whose pop bound is proved for EVERY n (TLAPS, MultiKneeProof_proofs.tla);
    # a detector that may return the last index is not a step of that abstraction (negative instance)
    ctx.mc("MultiKneeRefines", "MC_MultiKneeRefines", need_actions=("PopSmall", "PopStraight", "PopDetect", "Finish"))
    ctx.mc("MultiKneeRefines", "MC_MultiKneeRefines_neg", expect="AbsInv")
    if not ctx.quick:
        from harness import proofs
        proofs.recheck(ctx, ["MultiKneeProof_proofs"])
    beh = ctx.gen("MultiKnee", "Gen_MultiKnee_quick" if ctx.quick else "Gen_MultiKnee_thorough")
    ctx.exhaustive = True
    res = par.pmap(_replay_line, beh)
    for b, bad in zip(beh, res):
        ctx.count(("G", b["n"], b["t2"], b["calls"]), len(b["calls"]) >= 2)
        for clause, detail in bad:
            if clause.startswith("DRIFT:"):
                ctx.note("%s %s" % (clause, detail))
                continue
            ctx.violation(clause, {"kind": "G", "behaviour": b}, detail)
    ctx.traces += len(beh)
    ctx.sample({"binding": "G", "behaviour": max(beh, key=lambda b: len(b["calls"]) if b["n"] <= 6 else 0)})
    items = inputs(ctx)
    rec = par.pmap(_record, items)
    longs = []
    for k, n in enumerate([2051, 2049, 4100] if ctx.quick else [2051, 2049, 4100, 3000, 9001, 5000]):
        for det in ("curvature", "dfdt", "menger", "kneedle"):
            longs.append(("L%d-%s" % (k, det), ctx.seed * 31 + k, n, det, ctx.rng.choice([0.001, 0.0005, 0.01]), 6))
    # the same families translated by 2^40 in x (spans far below 1e-9 of the abscissae): every quantity of the property is
    # built from x differences, so nothing changes; a relative comparison of abscissae sees "vertical" ranges
    for k, n in enumerate([300, 700] if ctx.quick else [300, 700, 1500, 2500]):
        for det in ("curvature", "menger", "dfdt"):
            longs.append(("X%d-%s" % (k, det), ctx.seed * 37 + k, n, det, ctx.rng.choice([0.001, 0.01, 0.05]), 6, 2.0 ** 40))
    rec += par.pmap(_record_long, longs, chunksize=1)
    cases = [c for c, _ in rec]
    meta = {c["id"]: m for c, m in rec}
    rej = ctx.trace("Trace_MultiKnee", cases, selftest=_selftests(), chunk=250)
    for c in cases:
        ctx.count(("T", meta[c["id"]].get("points", meta[c["id"]].get("long")), meta[c["id"]]["detector"], meta[c["id"]]["t1"], c["t2"]), len(c["result"]) >= 2)
    for cid, vs in rej.items():
        m = meta[cid]
        if "long" in m:
            ctx.violation(vs[0][0], {"kind": "Tlong", "long": m["long"]}, {"verdict": [str(v)[:300] for v in vs[0]], "error": m["error"]},
                          match="%s:%s" % (vs[0][0], m["detector"]))
            continue
        ctx.violation(vs[0][0], {"kind": "T", "points": m["points"], "detector": m["detector"], "t1": m["t1"], "t2": m["t2"]},
                      {"verdict": vs[0], "error": m["error"]}, match="%s:%s" % (vs[0][0], m["detector"]))
    sm = next(c for c in cases if len(c["result"]) >= 2 and c["n"] <= 8)
    ctx.sample({"binding": "T", "call": meta[sm["id"]], "result": sm["result"]})


def replay(ctx, obj):
    c = obj["case"]
    if c["kind"] == "G":
        for clause, detail in _replay_line(c["behaviour"]):
            if not clause.startswith("DRIFT:"):
                ctx.violation(clause, c, detail)
    elif c["kind"] == "Tlong":
        case, m = _record_long(tuple(c["long"]))
        rej = ctx.trace("Trace_MultiKnee", [case])
        for cid, vs in rej.items():
            ctx.violation(vs[0][0], c, {"verdict": [str(v)[:300] for v in vs[0]]})
    else:
        case, m = _record(("replay", c["points"], c["detector"], c["t1"], c["t2"]))
        rej = ctx.trace("Trace_MultiKnee", [case])
        for cid, vs in rej.items():
            ctx.violation(vs[0][0], c, {"verdict": vs[0], "error": m["error"]})
