"""C13 - worst-knee and corner filters implement exactly their selection rules.
M: Gen_Filters.tla - the WorstFilter machine equals the declarative RunMin on every grid curve x knee list;
   RunMin / corner filter / corner selector laws (idempotent, partition, ends kept, order preserved), also for
   every class table; negative instances `h < h_min` and `h_min never updated` must break MachineIsRunMin.
G: the same module with Emit=TRUE prints every (curve, knee list) with the expected outputs of the three
   functions for the fixed thresholds plus every IoU value of the curve (exact ties); replayed into
   postprocessing.filter_worst_knees / filter_corner_knees / select_corner_knees, each applied twice.
T: random real-valued curves: exact height ranks + per-knee IoU classes from knee_ranking.rect_overlap
   (bit-exact comparison with t, thresholds harvested from observed IoU values) judged by Trace_Filters."""
import numpy as np

from harness import curves, numeric, par, tlc

FW, FC, SC = "filter_worst_knees", "filter_corner_knees", "select_corner_knees"


def _ints(a):
    return [int(v) for v in np.asarray(a).tolist()]


def _karr(k):
    return np.array(list(k), dtype=int)


def _twice(fn, P, knees, *a):
    """f(x), f(f(x)) as int lists."""
    r1 = _ints(fn(P, _karr(knees), *a))
    r2 = _ints(fn(P, _karr(r1), *a))
    return r1, r2


def _subseq(a, k):
    it = iter(k)
    return all(any(x == y for y in it) for x in a)


# --------------------------------------------------------------------------- G
def _replay_line(b):
    bad = _replay_variant(b, "float64")
    if not bad and (sum(b["knees"]) + len(b["pts"])) % 3 == 0:       # a third of the (integral) grid cases also as int64, and
        bad = _replay_variant(b, "int64")                            # scaled down (IoU and height order are scale invariant)
        if not bad:
            bad = _replay_variant(b, "scaled")
    return bad


def _replay_variant(b, variant):
    import kneeliverse.postprocessing as pp
    bad = []
    P = np.array(b["pts"], float)
    if variant == "int64":
        P = P.astype(np.int64)
    elif variant == "scaled":
        P = P * 2.0 ** -18 + 2.0 ** -10
    n = len(P)
    knees = list(b["knees"])
    try:
        w1, w2 = _twice(pp.filter_worst_knees, P, knees)
        exp = list(b["worst"])
        if w1 != exp:
            lost = (set(exp) - set(w1)) & set(b["ties"])
            bad.append(("tie-kept" if lost else "running-minimum", {"f": FW, "got": w1, "expected": exp, "variant": variant}))
        if w2 != w1:
            bad.append(("idempotent(%s)" % FW, {"once": w1, "twice": w2}))
    except Exception as ex:
        bad.append(("completes", {"f": FW, "raised": repr(ex)[:200]}))
    both = list(b["both"])
    ends = [k for k in knees if k not in both]
    for j, (p, q) in enumerate(b["ts"]):
        t = p / q
        try:
            f1, f2 = _twice(pp.filter_corner_knees, P, knees, t)
            s1, s2 = _twice(pp.select_corner_knees, P, knees, t)
        except Exception as ex:
            bad.append(("completes", {"f": "corner", "t": [p, q], "raised": repr(ex)[:200]}))
            continue
        ef, es = list(b["filt"][j]), list(b["sel"][j])
        d = {"t": [p, q], "filter": f1, "select": s1, "expected_filter": ef, "expected_select": es, "variant": variant}
        if any(k not in f1 for k in ends):
            bad.append(("ends-kept", d))
        if not _subseq(f1, knees) or not _subseq(s1, knees):
            bad.append(("order-preserved", d))
        inner = [k for k in f1 if k in both]
        if sorted(inner + s1) != both:
            bad.append(("partition", d))
        if f1 != ef:
            bad.append(("corner-split(%s)" % FC, d))
        if s1 != es:
            bad.append(("corner-split(%s)" % SC, d))
        if f2 != f1:
            bad.append(("idempotent(%s)" % FC, {"t": [p, q], "once": f1, "twice": f2}))
        if s2 != s1:
            bad.append(("idempotent(%s)" % SC, {"t": [p, q], "once": s1, "twice": s2}))
    return bad


# --------------------------------------------------------------------------- T
def _iou(P, k):
    """The property's rectangles, evaluated with the library's own primitives."""
    import kneeliverse.knee_ranking as kr
    p0, p1, p2 = P[k - 1], P[k], P[k + 1]
    amin, amax = kr.rect(np.array([p0[0], p2[1]]), p1)
    bmin, bmax = kr.rect(p0, p2)
    return float(kr.rect_overlap(amin, amax, bmin, bmax))


def _record(item):
    import kneeliverse.postprocessing as pp
    cid, pts, knees, t = item
    P = np.asarray(pts, float)
    n = len(P)
    c = {"id": cid, "kind": "c13", "n": n, "knees": list(knees), "raised": "",
         "hr": numeric.ranks(P[:, 1], rel=0.0, ab=0.0),
         "cls": ["-" if not (k - 1 >= 0 and k + 1 < n) else ("below" if _iou(P, k) < t else "atleast") for k in knees],
         "worst": [], "worst2": [], "filt": [], "filt2": [], "sel": [], "sel2": []}
    for key, fn, a in (("worst", pp.filter_worst_knees, ()), ("filt", pp.filter_corner_knees, (t,)),
                       ("sel", pp.select_corner_knees, (t,))):
        try:
            c[key], c[key + "2"] = _twice(fn, P, knees, *a)
        except Exception as ex:
            c["raised"] = "%s: %s" % (fn.__name__, type(ex).__name__)
            break
    return c


def _inputs(ctx):
    rng = ctx.rng
    cs = [curves.random_curve(rng, 3, 40) for _ in range(300 if ctx.quick else 3000)]
    cs += [curves.mrc_curve(rng, 4, 40) for _ in range(100 if ctx.quick else 1000)]
    cs += curves.trace_windows(rng, 10 if ctx.quick else 100, 10, 60, names=("web0_reduced.csv", "usr0.csv"))
    items = []
    for ci, P in enumerate(cs):
        n = len(P)
        for ki in range(2):
            size = rng.randint(0, min(n, 9))
            knees = sorted(rng.sample(range(n), size))
            if ki == 1 and n >= 2:           # always exercise both curve ends
                knees = sorted(set(knees) | {0, n - 1})
            obs = [_iou(P, k) for k in knees if 0 < k < n - 1]
            ts = [0.33, 0.0, 1.0, 0.5] + sorted(set(obs))
            pick = [0.33] + rng.sample(ts[1:], min(len(ts) - 1, 3))
            for ti, t in enumerate(pick):
                items.append(("c%d-%d-%d" % (ci, ki, ti), P.tolist(), knees, float(t)))
    return items


STATIC = {"kind": "c13", "n": 5, "knees": [0, 1, 2, 3, 4], "raised": "", "hr": [3, 1, 2, 1, 0],
          "cls": ["-", "below", "atleast", "atleast", "-"],
          "worst": [0, 1, 3, 4], "worst2": [0, 1, 3, 4], "filt": [0, 1, 4], "filt2": [0, 1, 4],
          "sel": [2, 3], "sel2": [2, 3]}


def _selftests():
    c = STATIC
    return [(c, "ok"),
            (dict(c, worst=[0, 1, 4], worst2=[0, 1, 4]), "tie-kept"),
            (dict(c, worst=[0, 1, 2, 3, 4], worst2=[0, 1, 2, 3, 4]), "running-minimum"),
            (dict(c, worst2=[0, 1, 4]), "idempotent(%s)" % FW),
            (dict(c, filt=[1, 4], filt2=[1, 4]), "ends-kept"),
            (dict(c, filt=[0, 1, 2, 4], filt2=[0, 1, 2, 4]), "partition"),
            (dict(c, filt=[0, 4], filt2=[0, 4], sel=[1, 2, 3], sel2=[1, 2, 3]), "corner-split(%s)" % FC),
            (dict(c, sel=[3, 2], sel2=[3, 2]), "order-preserved"),
            (dict(c, sel2=[3]), "idempotent(%s)" % SC),
            (dict(c, raised="filter_corner_knees: ValueError"), "completes")]


def _report(ctx, seen, clause, case, detail, limit=2):
    key = "%s/%s" % (case["kind"], clause)
    seen[key] = seen.get(key, 0) + 1
    if seen[key] <= limit:
        ctx.violation(clause, case, detail)


def run(ctx):
    ctx.rule = ("G: every curve x = 0..n-1 (thorough: also uneven integer spacings), n <= NMax, y in 0..3, every ascending "
                "knee list (n <= 5; small/full/alternating lists for n = 6), thresholds {0,1/4,1/3,1/2,1} plus every IoU value of "
                "the curve; each function applied twice.  T: random / MRC-like / bundled-trace curves with random knee lists, "
                "thresholds 0.33 + harvested IoU values.  non-trivial: >= 2 knees and (a knee is dropped by the height filter, "
                "or a knee with both neighbours is classified)")
    ctx.assumptions += [
        "G domain: small integer coordinates; t = float(p/q) - one correctly rounded division decides like the rational",
        "T: heights are compared exactly (dense ranks without noise merging); IoU classes are bit-exact comparisons of "
        "knee_ranking.rect_overlap(rect((x0,y2),p1), rect(p0,p2)) with t (the primitives themselves are C17's business)",
        "knee lists are ascending and duplicate-free; the empty list is included"]
    ctx.mc("Gen_Filters", "MC_Filters_strict", expect="MachineIsRunMin")
    ctx.mc("Gen_Filters", "MC_Filters_stale", expect="MachineIsRunMin")
    ctx.mc("Gen_Filters", "MC_Filters", need_actions=("WorstKeep", "WorstDrop", "Return"))
    beh = ctx.gen("Gen_Filters", "Gen_Filters_quick" if ctx.quick else "Gen_Filters_thorough", workers=16, timeout=3000)
    beh.sort(key=lambda b: (len(b["pts"]), b["pts"], b["knees"]))
    # 16 workers print concurrently: every terminal state must have produced one parsable line
    # (states of a behaviour: initial + one per loop iteration + done)
    want = sum(2 + max(0, len(b["knees"]) - 1) for b in beh)
    if want != ctx.tlc_runs[-1]["distinct_states"]:
        raise tlc.TLCFailure("generator output incomplete: %d behaviours account for %d states, TLC found %d"
                             % (len(beh), want, ctx.tlc_runs[-1]["distinct_states"]))
    ctx.exhaustive = True
    res = par.pmap(_replay_line, beh)
    seen = {}
    for b, bad in zip(beh, res):
        nt = len(b["knees"]) >= 2 and (len(b["worst"]) < len(b["knees"]) or len(b["both"]) > 0)
        ctx.count(("G", b["pts"], b["knees"]), nt)
        for clause, detail in bad:
            _report(ctx, seen, clause, {"kind": "G", "behaviour": b}, detail)
    ctx.traces += len(beh)
    ctx.sample({"binding": "G", "behaviour": next(b for b in beh if len(b["pts"]) == 5 and len(b["knees"]) == 5
                                                   and b["ties"] and len(b["worst"]) < 5 and len(b["ts"]) > 6)})
    # ---- T
    items = _inputs(ctx)
    cases = par.pmap(_record, items)
    meta = {it[0]: it for it in items}
    rej = ctx.trace("Trace_Filters", cases, selftest=_selftests(), chunk=1500)
    for c in cases:
        nt = len(c["knees"]) >= 2 and (len(c["worst"]) < len(c["knees"]) or any(x != "-" for x in c["cls"]))
        ctx.count(("T", meta[c["id"]][1:]), nt)
    for cid, vs in rej.items():
        _, pts, knees, t = meta[cid]
        for v in vs:
            _report(ctx, seen, v[0], {"kind": "T", "points": pts, "knees": knees, "t": t}, {"verdict": v})
    ctx.extra["violating_cases_by_clause"] = dict(seen)
    big = max(cases, key=lambda c: (len(set(c["cls"])), len(c["knees"]) - len(c["worst"])) if c["n"] <= 12 else (0, 0))
    ctx.sample({"binding": "T", "call": {"points": meta[big["id"]][1], "knees": big["knees"], "t": meta[big["id"]][3]},
                "case": big})


def replay(ctx, obj):
    case = obj["case"]
    if case["kind"] == "G":
        for clause, detail in _replay_line(case["behaviour"]):
            ctx.violation(clause, case, detail)
    else:
        c = _record(("replay", case["points"], case["knees"], case["t"]))
        rej = ctx.trace("Trace_Filters", [c])
        for cid, vs in rej.items():
            for v in vs:
                ctx.violation(v[0], case, {"verdict": v})
