"""C13 - worst-knee and corner filters implement exactly their selection rules.
M: Gen_Filters.tla - the WorstFilter machine equals the declarative RunMin on every grid curve x knee list;
   RunMin / corner filter / corner selector laws (idempotent, partition, ends kept, order preserved), also for
   every class table; negative instances `h < h_min` and `h_min never updated` must break MachineIsRunMin.
G: the same module with Emit=TRUE prints every (curve, knee list) with the expected outputs of the three
   functions for the fixed thresholds plus every IoU value of the curve (exact ties); replayed into
   postprocessing.filter_worst_knees / filter_corner_knees / select_corner_knees, each applied twice.
T: random real-valued curves: exact height ranks + per-knee IoU classes from the check's OWN exact-rational IoU of the two
   documented rectangles (integer arithmetic on the float values; only a knee whose exact IoU is within 1e-12 relative of t -
   the harvested ties - is classed by a bit-exact comparison of knee_ranking.rect_overlap with t) judged by Trace_Filters.
S: the "scale" family - production-size calls (257 .. 7*10^4 knees on curves of 257 .. 1.1*10^5 points, several shapes and
   knee layouts, thresholds 0.33 / 0 / 1 / 0.5 / harvested ties, float64 and int64 data) under the loop-budget monitor,
   judged by Trace_FiltersScale (the same property-level operators, SPARSE tables: height ranks and IoU classes of the
   knees only; nothing is indexed by the points of the curve).  The IoU classes come from the exact-rational oracle above,
   independent of the library's rect / rect_overlap; a "dense" class (4*10^3 .. 1.1*10^5 points sampled so finely that the
   coordinate steps are 10^-5 .. 10^-9 of the coordinates, 800 .. 5*10^4 knees, t = 0.33 / quantiles / knife-edge thresholds
   placed inside the tightest gap between two observed IoU values) makes reduced-precision geometry visible.
I: the "translated int64" family - int64 curves whose x and / or y coordinates sit 2^53 .. 2^62 away from the origin (built from
   Python ints: nanosecond timestamps, walks, staircases, tied heights; steps of 1 .. 10^3, so that neighbouring coordinates
   share one float64): small curves (3 .. 40 points) judged by Trace_Filters next to T with exact integer height ranks and the
   exact Python-int IoU, and production-size ones (257 .. 7*10^4 knees) judged by Trace_FiltersScale inside S."""
import random

import numpy as np

from harness import curves, monitor, numeric, par, scale, tlc

FW, FC, SC = "filter_worst_knees", "filter_corner_knees", "select_corner_knees"


def _ints(a):
    return [int(v) for v in np.asarray(a).tolist()]


def _karr(k):
    return np.array(list(k), dtype=int)


def _twice(fn, P, knees, *a):
    """f(x), f(f(x)) as int lists."""
    r1 = _ints(fn(P, _karr(knees), *a))
    r2 = _ints(fn(P, _karr(r1), *a))
    return r1, r2


def _subseq(a, k):
    it = iter(k)
    return all(any(x == y for y in it) for x in a)


# --------------------------------------------------------------------------- G
def _replay_line(b):
    bad = _replay_variant(b, "float64")
    if not bad and (sum(b["knees"]) + len(b["pts"])) % 3 == 0:       # a third of the (integral) grid cases also as int64, and
        bad = _replay_variant(b, "int64")                            # scaled down (IoU and height order are scale invariant)
        if not bad:
            bad = _replay_variant(b, "scaled")
    return bad


def _replay_variant(b, variant):
    import kneeliverse.postprocessing as pp
    bad = []
    P = np.array(b["pts"], float)
    if variant == "int64":
        P = P.astype(np.int64)
    elif variant == "scaled":
        P = P * 2.0 ** -18 + 2.0 ** -10
    n = len(P)
    knees = list(b["knees"])
    try:
        w1, w2 = _twice(pp.filter_worst_knees, P, knees)
        exp = list(b["worst"])
        if w1 != exp:
            lost = (set(exp) - set(w1)) & set(b["ties"])
            bad.append(("tie-kept" if lost else "running-minimum", {"f": FW, "got": w1, "expected": exp, "variant": variant}))
        if w2 != w1:
            bad.append(("idempotent(%s)" % FW, {"once": w1, "twice": w2}))
    except Exception as ex:
        bad.append(("completes", {"f": FW, "raised": repr(ex)[:200]}))
    both = list(b["both"])
    ends = [k for k in knees if k not in both]
    for j, (p, q) in enumerate(b["ts"]):
        t = p / q
        try:
            f1, f2 = _twice(pp.filter_corner_knees, P, knees, t)
            s1, s2 = _twice(pp.select_corner_knees, P, knees, t)
        except Exception as ex:
            bad.append(("completes", {"f": "corner", "t": [p, q], "raised": repr(ex)[:200]}))
            continue
        ef, es = list(b["filt"][j]), list(b["sel"][j])
        d = {"t": [p, q], "filter": f1, "select": s1, "expected_filter": ef, "expected_select": es, "variant": variant}
        if any(k not in f1 for k in ends):
            bad.append(("ends-kept", d))
        if not _subseq(f1, knees) or not _subseq(s1, knees):
            bad.append(("order-preserved", d))
        inner = [k for k in f1 if k in both]
        if sorted(inner + s1) != both:
            bad.append(("partition", d))
        if f1 != ef:
            bad.append(("corner-split(%s)" % FC, d))
        if s1 != es:
            bad.append(("corner-split(%s)" % SC, d))
        if f2 != f1:
            bad.append(("idempotent(%s)" % FC, {"t": [p, q], "once": f1, "twice": f2}))
        if s2 != s1:
            bad.append(("idempotent(%s)" % SC, {"t": [p, q], "once": s1, "twice": s2}))
    return bad


# --------------------------------------------------------------------------- T
def _iou(P, k):
    """The property's rectangles, evaluated with the library's own primitives."""
    import kneeliverse.knee_ranking as kr
    p0, p1, p2 = P[k - 1], P[k], P[k + 1]
    amin, amax = kr.rect(np.array([p0[0], p2[1]]), p1)
    bmin, bmax = kr.rect(p0, p2)
    return float(kr.rect_overlap(amin, amax, bmin, bmax))


NEAR_IOU = 10 ** 12              # |IoU - t| <= max(IoU, t) / NEAR_IOU: within rounding noise of a tie, the definition pins nothing


def _xiou(P, k):
    """The property's IoU from its documented definition - corner rectangle (x0, y2)-(x1, y1), neighbour rectangle
    (x0, y0)-(x2, y2), 0 when the intersection has no area - as an EXACT rational (num, den), den > 0, of the float / integer
    coordinates themselves (integers over their common power-of-two denominator): nothing of the library is involved."""
    r = [v.as_integer_ratio() for row in P[k - 1:k + 2].tolist() for v in row]
    D = max(q for _, q in r)
    x0, y0, x1, y1, x2, y2 = (p * (D // q) for p, q in r)               # denominators are powers of two
    ax0, ax1, ay0, ay1 = min(x0, x1), max(x0, x1), min(y2, y1), max(y2, y1)
    bx0, bx1, by0, by1 = min(x0, x2), max(x0, x2), min(y0, y2), max(y0, y2)
    dx = max(0, min(ax1, bx1) - max(ax0, bx0))
    dy = max(0, min(ay1, by1) - max(ay0, by0))
    inter = dx * dy
    if inter <= 0:
        return 0, 1
    return inter, (ax1 - ax0) * (ay1 - ay0) + (bx1 - bx0) * (by1 - by0) - inter


def _xside(iou, tq):
    """-1: IoU < t, +1: IoU >= t, 0: NEAR (within 1e-12 relative of t, exact ties included); tq = float(t).as_integer_ratio()."""
    a, b = iou[0] * tq[1], tq[0] * iou[1]
    if NEAR_IOU * abs(a - b) <= max(a, b):
        return 0
    return -1 if a < b else 1


def _xclass(P, k, xi, t, tq):
    """1: IoU < t, 2: IoU >= t.  Decided by the exact oracle; a NEAR knee (this is where the thresholds harvested from the
    library's own values land) is classed as before by the bit-exact comparison of the library's primitive with t."""
    s = _xside(xi, tq)
    if s == 0:
        return 1 if _iou(P, k) < t else 2
    return 1 if s < 0 else 2


def _record(item):
    import kneeliverse.postprocessing as pp
    cid, pts, knees, t = item
    tq = float(t).as_integer_ratio()
    P = np.asarray(pts, float)
    n = len(P)
    c = {"id": cid, "kind": "c13", "n": n, "knees": list(knees), "raised": "",
         "hr": numeric.ranks(P[:, 1], rel=0.0, ab=0.0),
         "cls": ["-" if not (k - 1 >= 0 and k + 1 < n) else ("below", "atleast")[_xclass(P, k, _xiou(P, k), t, tq) - 1]
                 for k in knees],
         "worst": [], "worst2": [], "filt": [], "filt2": [], "sel": [], "sel2": []}
    for key, fn, a in (("worst", pp.filter_worst_knees, ()), ("filt", pp.filter_corner_knees, (t,)),
                       ("sel", pp.select_corner_knees, (t,))):
        try:
            c[key], c[key + "2"] = _twice(fn, P, knees, *a)
        except Exception as ex:
            c["raised"] = "%s: %s" % (fn.__name__, type(ex).__name__)
            break
    return c


def _inputs(ctx):
    rng = ctx.rng
    cs = [curves.random_curve(rng, 3, 40) for _ in range(300 if ctx.quick else 3000)]
    cs += [curves.mrc_curve(rng, 4, 40) for _ in range(100 if ctx.quick else 1000)]
    cs += curves.trace_windows(rng, 10 if ctx.quick else 100, 10, 60, names=("web0_reduced.csv", "usr0.csv"))
    items = []
    for ci, P in enumerate(cs):
        n = len(P)
        for ki in range(2):
            size = rng.randint(0, min(n, 9))
            knees = sorted(rng.sample(range(n), size))
            if ki == 1 and n >= 2:           # always exercise both curve ends
                knees = sorted(set(knees) | {0, n - 1})
            obs = [_iou(P, k) for k in knees if 0 < k < n - 1]
            ts = [0.33, 0.0, 1.0, 0.5] + sorted(set(obs))
            pick = [0.33] + rng.sample(ts[1:], min(len(ts) - 1, 3))
            for ti, t in enumerate(pick):
                items.append(("c%d-%d-%d" % (ci, ki, ti), P.tolist(), knees, float(t)))
    return items


# --------------------------------------------------------------------------- I (int64 curves translated far from the origin)
# The combination "integer dtype AND a large translation": int64 holds coordinates of 2^53 .. 2^63 exactly, float64 does not
# (spacing 2 .. 1024), so any geometry that leaves the integers before taking differences loses the small extents.  Curves are
# built from Python ints (no float on the way), the oracle is the exact rational _xiou on those ints, the height ranks are exact.
I_SHAPES = ("timestamps", "walk", "heights", "stairs", "fine")
I_MODES = ("x", "xy", "y", "x", "xy")
T0_NS = 1700000000000000000            # nanoseconds since the epoch: 2^60.56


def _i_offset(r):
    """A translation of magnitude 2^53 .. 1.5 * 2^62, mostly positive."""
    e = r.randint(53, 62)
    off = r.randrange(1 << e, (1 << (e + 1)) if e < 62 else (1 << 62) + (1 << 61))
    if r.random() < 0.25:
        off = T0_NS + r.randrange(10 ** 15)
    return -off if r.random() < 0.2 else off


def _i_curve(r, shape, mode, n):
    """n points [x, y] of Python ints, x strictly increasing, every |coordinate| < 2^63 - 2^20."""
    xs, ys, x, y = [], [], 0, 0
    for _ in range(n):
        xs.append(x)
        ys.append(y)
        if shape == "timestamps":       # irregular sampling intervals of 20 .. 800 ns, non-increasing counts
            x, y = x + r.randint(20, 800), y - r.choice((0, r.randint(1, 5000), r.randint(1, 50)))
        elif shape == "walk":           # non-monotone walk with ties
            x, y = x + r.randint(1, 4), y + r.randint(-3, 3)
        elif shape == "heights":        # unit abscissae, heights that differ by 0 / 1 / 2: ties and near ties of the height filter
            x, y = x + 1, y + r.choice((-2, -1, -1, 0, 0, 1, 1))
        elif shape == "stairs":         # plateaus and sharp drops, uneven widths
            x, y = x + r.choice((1, 2, 7, 90, 400, 1000)), y - r.choice((0, 0, 1, 10, 1000))
        else:                           # "fine": steps of 1 .. 3 in both coordinates, decreasing
            x, y = x + r.randint(1, 3), y - r.randint(0, 3)
    ox = _i_offset(r) if "x" in mode else r.choice((0, 0, 1000))
    oy = _i_offset(r) if "y" in mode else r.choice((0, 1000, 900000)) - min(ys)
    return [[ox + a, oy + b] for a, b in zip(xs, ys)]


def _iranks(v):
    """Exact dense ranks (0 = smallest) of Python ints."""
    u = {h: j for j, h in enumerate(sorted(set(v)))}
    return [u[h] for h in v]


def _i_array(pts):
    P = np.array(pts, dtype=np.int64)
    if P.dtype != np.int64 or P.tolist() != [list(q) for q in pts]:
        raise ValueError("the int64 array does not hold the curve exactly")
    return P


def _i_record(item):
    """As _record, on an int64 array: exact integer height ranks, IoU classes from the exact oracle on the Python ints."""
    import kneeliverse.postprocessing as pp
    cid, pts, knees, t = item
    tq = float(t).as_integer_ratio()
    P = _i_array(pts)
    n = len(P)
    c = {"id": cid, "kind": "c13", "n": n, "knees": list(knees), "raised": "", "hr": _iranks([q[1] for q in pts]),
         "cls": ["-" if not (k - 1 >= 0 and k + 1 < n) else ("below", "atleast")[_xclass(P, k, _xiou(P, k), t, tq) - 1]
                 for k in knees],
         "worst": [], "worst2": [], "filt": [], "filt2": [], "sel": [], "sel2": []}
    for key, fn, a in (("worst", pp.filter_worst_knees, ()), ("filt", pp.filter_corner_knees, (t,)),
                       ("sel", pp.select_corner_knees, (t,))):
        try:
            c[key], c[key + "2"] = _twice(fn, P, knees, *a)
        except Exception as ex:
            c["raised"] = "%s: %s" % (fn.__name__, type(ex).__name__)
            break
    return c


def _i_inputs(ctx):
    """Small translated int64 curves x knee lists x thresholds (0.33 + specials + harvested ties), as _inputs does for T.  An
    rng of its own: the streams of the older families stay what they were."""
    r = random.Random(ctx.seed * 7919 + 1317)
    items, stats = [], {"curves": 0, "by_shape": {}, "by_mode": {}, "negative_offsets": 0, "decisions": 0, "near": 0}
    for ci in range(160 if ctx.quick else 1600):
        shape, mode = I_SHAPES[ci % len(I_SHAPES)], I_MODES[(ci // len(I_SHAPES)) % len(I_MODES)]
        if shape == "heights":
            mode = ("y", "xy")[ci % 2]
        n = r.randint(3, 40) if ci % 8 else r.randint(3, 6)
        pts = _i_curve(r, shape, mode, n)
        P = _i_array(pts)
        stats["curves"] += 1
        stats["by_shape"][shape] = stats["by_shape"].get(shape, 0) + 1
        stats["by_mode"][mode] = stats["by_mode"].get(mode, 0) + 1
        stats["negative_offsets"] += pts[0][0] < -(1 << 52) or pts[0][1] < -(1 << 52)
        for ki in range(2):
            knees = sorted(r.sample(range(n), r.randint(0, min(n, 12))))
            if ki == 1:
                knees = list(range(n)) if ci % 3 == 0 else sorted(set(knees) | {0, n - 1})
            obs = [_iou(P, k) for k in knees if 0 < k < n - 1]
            ts = [0.33, 0.0, 1.0, 0.5, 0.1, 0.25] + sorted(set(obs))
            pick = [0.33] + r.sample(ts[1:], min(len(ts) - 1, 3))
            for ti, t in enumerate(pick):
                tq = float(t).as_integer_ratio()
                side = [_xside(_xiou(P, k), tq) for k in knees if 0 < k < n - 1]
                stats["decisions"] += sum(1 for sd in side if sd)
                stats["near"] += sum(1 for sd in side if sd == 0)
                items.append(("i%d-%d-%d" % (ci, ki, ti), pts, knees, float(t)))
    return items, stats


# production-size translated int64 calls, appended to the plan of S: (knee-count threshold straddled, combos, thresholds)
I_SCALE_QUICK = ((256, 2, 2), (1024, 2, 2), (4096, 1, 1), (10000, 1, 1))
I_SCALE_THOROUGH = ((256, 4, 3), (1024, 4, 2), (4096, 3, 2), (10000, 2, 2), (16384, 2, 1), (32768, 1, 1), (65536, 1, 1))
I_SCALE_SHAPES = ("ns-counts", "walk", "staircase", "droughts", "ns-counts", "convex")


def _i_plan(ctx, first):
    import types
    r = random.Random(ctx.seed * 104729 + 4242)
    ns = scale.sizes(types.SimpleNamespace(rng=r, quick=ctx.quick), lo=257, hi=110000, k_quick=8, k_thorough=16)
    out = []
    o1, o2, o3 = r.randrange(len(I_SCALE_SHAPES)), r.randrange(len(S_LAYOUTS)), r.randrange(len(S_TSPECS))
    for thr, cnt, nts in (I_SCALE_QUICK if ctx.quick else I_SCALE_THOROUGH):
        for j in range(cnt):
            k = len(out)
            m = thr + 1 + r.randrange(0, max(2, thr // (16 if j % 2 == 0 else 2)))
            layout = S_LAYOUTS[(k + o2) % len(S_LAYOUTS)]
            if layout == "all" and m > 20000:
                layout = "random+ends"
            fit = [n for n in ns if n >= m + 2]
            n = m if layout == "all" else r.choice(fit or [m + 2 + r.randrange(0, 5000)])
            mode = I_MODES[(k + o1) % len(I_MODES)]
            off = [_i_offset(r) if "x" in mode else 0, _i_offset(r) if "y" in mode else 0]
            ts = [0.33] + [S_TSPECS[(o3 + 3 * k + q) % len(S_TSPECS)] for q in range(nts - 1)]
            out.append({"id": "s%d" % (first + k), "shape": I_SCALE_SHAPES[(k + o1) % len(I_SCALE_SHAPES)], "n": n,
                        "cs": r.randrange(1 << 30), "layout": layout, "m": m, "ks": r.randrange(1 << 30), "variant": "int64",
                        "off": off, "ts": ts})
    return out


STATIC = {"kind": "c13", "n": 5, "knees": [0, 1, 2, 3, 4], "raised": "", "hr": [3, 1, 2, 1, 0],
          "cls": ["-", "below", "atleast", "atleast", "-"],
          "worst": [0, 1, 3, 4], "worst2": [0, 1, 3, 4], "filt": [0, 1, 4], "filt2": [0, 1, 4],
          "sel": [2, 3], "sel2": [2, 3]}


def _selftests():
    c = STATIC
    return [(c, "ok"),
            (dict(c, worst=[0, 1, 4], worst2=[0, 1, 4]), "tie-kept"),
            (dict(c, worst=[0, 1, 2, 3, 4], worst2=[0, 1, 2, 3, 4]), "running-minimum"),
            (dict(c, worst2=[0, 1, 4]), "idempotent(%s)" % FW),
            (dict(c, filt=[1, 4], filt2=[1, 4]), "ends-kept"),
            (dict(c, filt=[0, 1, 2, 4], filt2=[0, 1, 2, 4]), "partition"),
            (dict(c, filt=[0, 4], filt2=[0, 4], sel=[1, 2, 3], sel2=[1, 2, 3]), "corner-split(%s)" % FC),
            (dict(c, sel=[3, 2], sel2=[3, 2]), "order-preserved"),
            (dict(c, sel2=[3]), "idempotent(%s)" % SC),
            (dict(c, raised="filter_corner_knees: ValueError"), "completes")]


def _report(ctx, seen, clause, case, detail, limit=2):
    key = "%s/%s" % (case["kind"], clause)
    seen[key] = seen.get(key, 0) + 1
    if seen[key] <= limit:
        ctx.violation(clause, case, detail)


# --------------------------------------------------------------------------- S (scale)
# A case is a RECIPE (shape, n, curve seed, layout, m, knee seed, variant, thresholds): curve and knee list are deterministic
# functions of it, so a replay file stays a few hundred bytes however long the call is.
S_SHAPES = ("plateau-stairs", "walk", "staircase", "droughts", "noisy-descent", "mrc", "spikes", "convex")
S_INTEGRAL = ("walk", "staircase", "droughts", "convex")          # integral coordinates: also replayed as int64 data
S_LAYOUTS = ("random+ends", "mixed", "random", "run", "all")
# (knee-count threshold straddled, span of m as a multiple of it, combos, thresholds t per combo); 0 thresholds: the height
# filter alone on a dense knee list of a non-monotone curve (long stretches of dropped knees between the kept ones)
S_CLASSES_QUICK = ((256, 3.0, 20, 3), (1024, 2.0, 8, 2), (4096, 1.2, 3, 2), (16384, 1.04, 1, 1), (4096, 3.0, 4, 0))
S_CLASSES_THOROUGH = ((256, 4.0, 30, 3), (1024, 3.0, 20, 3), (4096, 2.0, 8, 2), (10000, 1.2, 4, 2), (16384, 1.2, 4, 2),
                      (32768, 1.1, 2, 1), (65536, 1.05, 1, 1), (4096, 4.0, 6, 0), (32768, 2.0, 2, 0))
S_DENSE = (("droughts", "all"), ("walk", "run"), ("droughts", "run"), ("noisy-descent", "all"))
S_TSPECS = (["q", 0.5], 0.5, ["q", 0.9], 0.0, ["q", 0.1], 1.0, ["q", 0.7], 0.25)
S_WORST = ("running-minimum", "tie-kept", "idempotent(%s)" % FW)
# the "dense" class: long finely sampled curves (coordinate steps of 10^-5 .. 10^-9 of the coordinates) with many knees, so that
# some IoU lies within ~10^-3 of t = 0.33 and - for the ["gap", j] thresholds, the midpoint of the j-th tightest gap (>= 4e-9
# relative) between two adjacent observed IoU values - within ~10^-9: a knee moves to the other side under any geometry that is
# less exact than double precision, while double rounding (~10^-15) stays 6 orders of magnitude inside the margin.
# (curve-length threshold straddled, knees as a fraction of n, combos, thresholds per combo)
S_DENSE_SHAPES = ("dense-decay", "dense-smooth", "dense-offset")
S_DENSE_LAYOUTS = ("stride", "random+ends", "run", "random")
S_DENSE_QUICK = ((100000, 0.2, 1, ([0.33],)), (65536, 0.1, 1, ([["gap", 0]],)), (100000, 0.15, 1, ([["gap", 1]],)),
                 (16384, 0.2, 1, ([0.33, ["gap", 0]],)), (4096, 0.2, 2, ([0.33, ["gap", 0]], [["q", 0.5], ["gap", 2]])))
S_DENSE_THOROUGH = ((100000, 0.2, 3, ([0.33, ["gap", 0]],)), (100000, 0.5, 1, ([0.33],)), (65536, 0.2, 3, ([0.33, ["gap", 0]], [["q", 0.5], ["gap", 1]])),
                    (32768, 0.2, 3, ([0.33, ["gap", 0]], [["q", 0.3], ["gap", 2]])), (16384, 0.3, 3, ([0.33, ["gap", 0], 0.25],)),
                    (10000, 0.3, 3, ([0.33, ["gap", 0], ["q", 0.7]],)), (4096, 0.3, 6, ([0.33, ["gap", 0], ["gap", 3]], [["q", 0.5], ["gap", 1], 0.25])))


class _Stop(Exception):
    pass


def _s_curve(shape, n, cs):
    """One production-size curve: float64 (n, 2), x strictly increasing, y >= 0."""
    g = np.random.default_rng(cs)
    i = np.arange(n, dtype=float)
    if shape == "plateau-stairs":     # non-increasing, every second step flat (equal heights: zero-overlap knees) mixed with
        drop = g.exponential(1.0, n) * (g.random(n) < 0.5)            # drops of all sizes (corners); normalised real heights
        y = np.cumsum(drop[::-1])[::-1]
        return np.ascontiguousarray(np.column_stack([i, y / max(y[0], 1.0)]))
    if shape == "staircase":          # integer plateaus of width 4..8 separated by sharp drops
        return scale.staircase(n, max(2, n // int(g.integers(4, 9))), rng=random.Random(cs))
    if shape == "mrc":                # convex decay pieces + cliffs, flat tail
        return scale.mrc(n, random.Random(cs), knees=8)
    if shape == "spikes":             # zero line (all ties) with growing spikes
        return scale.spikes(n, period=int(g.integers(3, 7)))
    if shape == "convex":             # increasing: only the first knee survives the height filter
        return scale.convex_pl(n, max(1, n // 16))
    if shape == "walk":               # non-monotone integer walk with ties, uneven integer spacing
        x = np.cumsum(g.integers(1, 5, n)).astype(float)
        y = np.cumsum(g.integers(-3, 4, n)).astype(float)
        return np.ascontiguousarray(np.column_stack([x, y - y.min()]))
    if shape == "droughts":           # short descents to new record lows (in tied pairs) separated by stretches - a few to n/3
        y, lo, a = np.empty(n), 0.0, 0                                  # points long - that stay above the lowest so far
        while a < n:
            L = min(n - a, int(g.integers(8, max(9, n // 3)) if g.random() < 0.3 else g.integers(8, 200)))
            d = min(L, max(2, L // 8))
            y[a:a + d] = lo - np.floor(np.arange(1, d + 1) / 2.0)
            lo = y[a + d - 1]
            y[a + d:a + L] = lo + 1.0 + np.floor(g.random(L - d) * 50.0)
            a += L
        return np.ascontiguousarray(np.column_stack([i, y - y.min()]))
    if shape == "noisy-descent":      # slow real-valued descent under noise: record lows scattered over the whole list
        x = np.cumsum(g.uniform(0.5, 1.5, n))
        y = 40.0 * (1.0 - i / n) + g.random(n)
        return np.ascontiguousarray(np.column_stack([x, y]))
    if shape == "dense-decay":        # strictly decreasing in (0, 1) by random steps of about 1/n: IoU values all over [0, 1/4]
        st = g.uniform(0.05, 1.0, n)                                    # and steps of ~10^-5 of the heights for n = 10^5
        return np.ascontiguousarray(np.column_stack([i, 1.0 - np.cumsum(st) / (st.sum() * 1.000001)]))
    if shape == "dense-smooth":       # a smooth convex decay sampled at uneven real abscissae + texture far below the steps
        x = np.cumsum(g.uniform(0.5, 1.5, n)) / 16.0
        y = 1000.0 * np.exp(-4.0 * x / x[-1]) + 50.0 / (1.0 + x) + 1e-4 * g.random(n)
        return np.ascontiguousarray(np.column_stack([x, y]))
    if shape == "dense-offset":       # millisecond-like abscissae far from the origin, heights that vary in the 6th..9th digit
        x = 86400.0 + np.cumsum(g.uniform(2e-4, 2e-3, n))
        y = 1000.0 + np.cumsum(g.normal(-0.2, 1.0, n)) * 1e-5
        return np.ascontiguousarray(np.column_stack([x, y - min(0.0, y.min())]))
    if shape == "ns-counts":          # integral: sampling intervals of 20 .. 800 (nanoseconds), non-increasing counts with plateaus
        x = np.cumsum(g.integers(20, 801, n)).astype(float)
        y = np.cumsum((g.integers(0, 5000, n) * (g.random(n) < 0.7))[::-1])[::-1].astype(float)
        return np.ascontiguousarray(np.column_stack([x, y]))
    raise ValueError(shape)


def _s_points(rc):
    """The array that is passed to the library: float64, or int64 (optionally translated by Python-int offsets)."""
    P = _s_curve(rc["shape"], rc["n"], rc["cs"])
    if rc["variant"] == "int64":
        P = np.ascontiguousarray(P.astype(np.int64))
        if rc.get("off"):
            if int(np.abs(P).max()) >= 1 << 60:
                raise ValueError("base curve too large to translate")
            P = np.ascontiguousarray(P + np.array([int(v) for v in rc["off"]], dtype=np.int64))
            if P.dtype != np.int64 or not bool(np.all(np.diff(P[:, 0]) > 0)):
                raise ValueError("translated int64 curve is not valid")
    return P


def _s_knees(layout, P, m, ks):
    """An ascending duplicate-free knee list of (about) m knees."""
    n = len(P)
    r = random.Random(ks)
    m = min(m, n)
    if layout == "all" or m == n:
        return list(range(n))
    if layout == "stride":            # every (n // m)-th point from a random offset (a knee every few points)
        step = max(1, n // m)
        return list(range(r.randrange(step), n, step))
    if layout == "run":               # one contiguous block, at the left end / at the right end / somewhere
        a = r.choice([0, n - m, r.randrange(0, n - m + 1)])
        return list(range(a, a + m))
    if layout == "mixed":             # half of the knees where the height changes (corners), the rest anywhere
        y = P[:, 1]
        ch = np.flatnonzero((y[1:-1] != y[2:]) | (y[1:-1] != y[:-2])) + 1
        pick = set(r.sample([int(v) for v in ch], min(len(ch), m // 2)))
        rest = [k for k in r.sample(range(n), min(n, m + len(pick))) if k not in pick]
        return sorted(pick | set(rest[:m - len(pick)]))
    ks_ = set(r.sample(range(n), m))
    if layout == "random+ends":
        ks_ |= {0, n - 1}
    return sorted(ks_)


def _s_call(fn, P, knees, *a):
    """One library call under the back-edge budget (quadratic in the input length: a hang detector only) and the CPU watchdog."""
    out, val, _ = monitor.call(fn, (P, _karr(knees)) + a, budget=monitor.quad(len(P) + len(knees) + 64, 8),
                               wall=120 + len(knees) // 50)
    if out != "returned":
        raise _Stop("%s: %s" % (fn.__name__, out.split(":")[-1]))
    return _ints(val)


def _s_twice(fn, P, knees, *a):
    r1 = _s_call(fn, P, knees, *a)
    return r1, _s_call(fn, P, r1, *a)


def _s_record(rc):
    """recipe -> (sparse TLC case, resolved thresholds, statistics)."""
    import kneeliverse.postprocessing as pp
    P = _s_curve(rc["shape"], rc["n"], rc["cs"])
    knees = _s_knees(rc["layout"], P, rc["m"], rc["ks"])
    P = _s_points(rc)
    n, m = len(P), len(knees)
    iou = [(_iou(P, k) if 0 < k < n - 1 else None) for k in knees]      # the library's primitive: tie harvesting and NEAR knees only
    xi = [(_xiou(P, k) if 0 < k < n - 1 else None) for k in knees]      # the exact oracle
    obs = sorted(set(v for v in iou if v is not None and v > 0.0))
    xf = None
    ts = []
    for spec in rc["ts"]:             # ["q", f]: the f-quantile of the distinct positive IoU values of these knees (an exact tie)
        if isinstance(spec, (list, tuple)) and spec[0] == "gap":      # midpoint of the j-th tightest gap of >= 4e-9 relative between
            if xf is None:                                             # adjacent exact IoU values: a knife edge, yet no NEAR knee
                xf = sorted(set(v[0] / v[1] for v in xi if v is not None and v[0] > 0))
                xf = sorted((b - a, a, b) for a, b in zip(xf, xf[1:]) if b - a >= 4e-9 * b)
            gap, lo_, _ = xf[min(int(spec[1]), len(xf) - 1)] if xf else (0.0, 0.25, 0.25)
            ts.append(min(1.0, lo_ + gap / 2.0))
        elif isinstance(spec, (list, tuple)):
            ts.append(obs[min(len(obs) - 1, int(spec[1] * len(obs)))] if obs else 0.25)
        else:
            ts.append(float(spec))
    c = {"id": rc["id"], "kind": "c13s", "n": n, "knees": knees, "raised": "", "worst": [], "worst2": [], "ts": [],
         "kh": (_iranks(P[knees, 1].tolist()) if rc.get("off") else            # translated int64: exact integer ranks
                numeric.ranks(np.asarray(P[knees, 1], float), rel=0.0, ab=0.0))}
    st = {"n": n, "m": m, "nt": [], "ties": 0, "zero": sum(1 for v in iou if v == 0.0), "kept": 0, "exact": 0, "near": 0,
          "margin": None}
    try:                              # a call that does not complete is a verdict of its own part only
        c["worst"], c["worst2"] = _s_twice(pp.filter_worst_knees, P, knees)
        st["kept"] = len(c["worst"])
    except _Stop as ex:
        c["raised"] = str(ex)
    for t in ts:
        tq = float(t).as_integer_ratio()
        side = [None if v is None else _xside(v, tq) for v in xi]
        r = {"t": repr(float(t)), "raised": "", "filt": [], "filt2": [], "sel": [], "sel2": [],
             "cls": [0 if sd is None else ((1 if v < t else 2) if sd == 0 else (1 if sd < 0 else 2)) for sd, v in zip(side, iou)]}
        st["near"] += sum(1 for sd in side if sd == 0)
        st["exact"] += sum(1 for sd in side if sd)
        mg = min((abs(v[0] / v[1] - t) for sd, v in zip(side, xi) if sd), default=None)
        if mg is not None and (st["margin"] is None or mg < st["margin"]):
            st["margin"] = mg
        try:
            r["filt"], r["filt2"] = _s_twice(pp.filter_corner_knees, P, knees, t)
            r["sel"], r["sel2"] = _s_twice(pp.select_corner_knees, P, knees, t)
        except _Stop as ex:
            r["raised"] = str(ex)
        c["ts"].append(r)
        st["ties"] += sum(1 for v in iou if v == t)
        st["nt"].append(m >= 2 and (len(c["worst"]) < m or any(v is not None for v in iou)))
    return c, [float(t) for t in ts], st


def _s_plan(ctx):
    """The recipes of one run: knee counts straddling 256 / 1024 / 4096 / 10^4 / 16384 / 32768 / 65536, curve lengths from
    scale.sizes (just above 256 .. 10^5), shapes and layouts in rotation, thresholds 0.33 + a rotation of specials and ties."""
    rng = ctx.rng
    ns = scale.sizes(ctx, lo=257, hi=110000, k_quick=8, k_thorough=16)
    out = []
    o1, o2, o3 = rng.randrange(len(S_SHAPES)), rng.randrange(len(S_LAYOUTS)), rng.randrange(len(S_TSPECS))
    for thr, span, cnt, nts in (S_CLASSES_QUICK if ctx.quick else S_CLASSES_THOROUGH):
        for j in range(cnt):
            k = len(out)
            m = thr + 1 + (rng.randrange(0, max(2, thr // 16)) if j % 2 == 0 else rng.randrange(0, max(2, int(thr * (span - 1)))))
            shape = S_SHAPES[(k + o1) % len(S_SHAPES)]
            layout = S_LAYOUTS[(k // 2 + k + o2) % len(S_LAYOUTS)]
            if nts == 0:
                shape, layout = S_DENSE[(j + o1) % len(S_DENSE)]
            if layout == "all" and m > 20000:
                layout = "run" if nts == 0 else "random+ends"
            fit = [n for n in ns if n >= m + 2]
            n = m if layout == "all" else rng.choice(fit or [m + 2 + rng.randrange(0, 5000)])
            variant = "int64" if shape in S_INTEGRAL and rng.random() < 0.5 else "float64"
            ts = [0.33][:nts] + [S_TSPECS[(o3 + 3 * k + q) % len(S_TSPECS)] for q in range(nts - 1)]
            out.append({"id": "s%d" % k, "shape": shape, "n": n, "cs": rng.randrange(1 << 30), "layout": layout, "m": m,
                        "ks": rng.randrange(1 << 30), "variant": variant, "ts": ts})
    o4, o5 = rng.randrange(len(S_DENSE_SHAPES)), rng.randrange(len(S_DENSE_LAYOUTS))
    for thr, frac, cnt, tss in (S_DENSE_QUICK if ctx.quick else S_DENSE_THOROUGH):       # the dense class (see S_DENSE_SHAPES)
        for j in range(cnt):
            k = len(out)
            n = thr + 1 + rng.randrange(0, max(2, thr // 10))
            first = 0.33 in tss[j % len(tss)] and j == 0             # t = 0.33 needs IoU values spread around it: dense-decay
            out.append({"id": "s%d" % k, "shape": "dense-decay" if first else S_DENSE_SHAPES[(k + o4) % len(S_DENSE_SHAPES)], "n": n,
                        "cs": rng.randrange(1 << 30), "layout": S_DENSE_LAYOUTS[(k + o5) % len(S_DENSE_LAYOUTS)],
                        "m": max(3, int(n * frac)), "ks": rng.randrange(1 << 30), "variant": "float64", "ts": list(tss[j % len(tss)])})
    return out


def _s_static():
    """binding self-tests of Trace_FiltersScale: the static small case (declarative RunMin path) and a 1300-knee staircase of
    pairwise ties (scan path), each with corruptions that must be rejected under the right clause."""
    c = {"kind": "c13s", "n": 5, "knees": [0, 1, 2, 3, 4], "raised": "", "kh": [3, 1, 2, 1, 0],
         "worst": [0, 1, 3, 4], "worst2": [0, 1, 3, 4],
         "ts": [{"t": "0.33", "raised": "", "cls": [0, 1, 2, 2, 0], "filt": [0, 1, 4], "filt2": [0, 1, 4], "sel": [2, 3], "sel2": [2, 3]}]}

    def T(**kw):
        return dict(c, ts=[dict(c["ts"][0], **kw)])
    m = 1300
    K = list(range(10, 10 + 3 * m, 3))
    drop = [k for k in K if k != K[1002]]                                # position 1002 ties with 1001, position 701 does not
    big = {"kind": "c13s", "n": 5000, "knees": K, "raised": "", "kh": [(m - p) // 2 for p in range(m)], "worst": K, "worst2": K,
           "ts": [{"t": "0.5", "raised": "", "cls": [1 + (p % 3 == 0) for p in range(m)], "filt": [k for p, k in enumerate(K) if p % 3],
                   "filt2": [k for p, k in enumerate(K) if p % 3], "sel": K[::3], "sel2": K[::3]}]}
    return [(c, "ok"), (big, "ok"),
            (dict(c, worst=[0, 1, 4], worst2=[0, 1, 4]), "tie-kept"),
            (dict(c, worst=[0, 1, 2, 3, 4], worst2=[0, 1, 2, 3, 4]), "running-minimum"),
            (dict(c, worst2=[0, 1, 4]), "idempotent(%s)" % FW),
            (T(filt=[1, 4], filt2=[1, 4]), "ends-kept"),
            (T(filt=[0, 1, 2, 4], filt2=[0, 1, 2, 4]), "partition"),
            (T(filt=[0, 4], filt2=[0, 4], sel=[1, 2, 3], sel2=[1, 2, 3]), "corner-split(%s)" % FC),
            (T(sel=[3, 2], sel2=[3, 2]), "order-preserved"),
            (T(sel2=[3]), "idempotent(%s)" % SC),
            (dict(c, raised="filter_worst_knees: budget"), "completes"),
            (T(raised="filter_corner_knees: OverflowError"), "completes"),
            (dict(c, worst=[0, 1, 4], worst2=[0, 1, 4], ts=T(raised="select_corner_knees: watchdog")["ts"]), "tie-kept"),
            (dict(big, worst=drop, worst2=drop), "tie-kept"),
            (dict(big, worst=K[:701] + K[702:], worst2=K[:701] + K[702:]), "running-minimum"),
            (dict(big, ts=[dict(big["ts"][0], sel=K[3::3], sel2=K[3::3])]), "corner-split(%s)" % SC)]


def _s_verdicts(ctx, rej, recipes, seen):
    for cid, vs in rej.items():
        rc = recipes[cid]
        for v in vs:
            if v[0] == "spec-scan":
                raise tlc.TLCFailure("Trace_FiltersScale: the linear scan and the declarative RunMin disagree on %s" % cid)
            ts = [] if v[0] in S_WORST or v[0] == "completes" and len(v) == 2 else [float(v[1])]
            case = {"kind": "S", "recipe": dict(rc, ts=ts)}
            _report(ctx, seen, v[0], case, _s_detail(v, rc))


def _s_pack(cases, nself, limit=1200000, maxruns=8):
    """Order the cases so that ctx.trace's contiguous chunks (the self-tests are prepended to the first one) become TLC runs of
    about equal JSON size, each at most ~`limit` bytes where the case sizes allow it: returns (ordered cases, chunk length,
    bytes of the largest run)."""
    import json
    size = {c["id"]: len(json.dumps(c)) for c in cases}
    k = max(1, min(maxruns, len(cases), -(-sum(size.values()) // limit)))
    g = -(-(len(cases) + nself) // k)
    while k > 1 and (g <= nself or (k - 1) * g >= len(cases) + nself):     # every run must get at least one recorded case
        k -= 1
        g = -(-(len(cases) + nself) // k)
    cap = [g - nself if j == 0 else g for j in range(k)]
    cap[-1] = len(cases) - sum(cap[:-1])
    bins, load = [[] for _ in range(k)], [0] * k
    for c in sorted(cases, key=lambda c: -size[c["id"]]):                  # longest first into the lightest run with room
        j = min((j for j in range(k) if len(bins[j]) < cap[j]), key=lambda j: load[j])
        bins[j].append(c)
        load[j] += size[c["id"]]
    return [c for b_ in bins for c in b_], g, max(load)


def _s_detail(v, rc):
    d = {"n": rc["n"], "knees": rc["m"], "shape": rc["shape"], "layout": rc["layout"], "variant": rc["variant"], "verdict": v}
    if rc.get("off"):
        d["translated_by"] = list(rc["off"])
    body = v[1:]
    if v[0] not in S_WORST and not (v[0] == "completes" and len(v) == 2):
        d["t"], body = body[0], body[1:]
    if len(body) == 5:            # Brief(a, b): lengths and the first position (1-based) where the two lists differ
        a, b = ("once", "twice") if v[0].startswith("idempotent") else ("returned", "expected")
        d.update({a + "_length": body[0], b + "_length": body[1],
                  "first_difference": {"position": body[2], a: body[3], b: body[4]}})
        ks = [int(x) for x in body[3:5] if int(x) >= 0]
        if v[0].startswith("corner-split") and ks and 0 < min(ks) < rc["n"] - 1:       # the knee on the wrong side of t
            num, den = _xiou(_s_points(rc), min(ks))
            d["first_difference"].update({"knee": min(ks), "iou_exact": num / den, "iou_minus_t": num / den - float(d["t"])})
    return d


def _scale(ctx, seen):
    plan = _s_plan(ctx)
    plan += _i_plan(ctx, len(plan))                                    # translated int64 calls (family I at production size)
    plan.sort(key=lambda rc: -rc["m"] * (0.2 + len(rc["ts"])))                 # longest first: the pool stays busy
    res = par.pmap(_s_record, plan, chunksize=1)
    recipes = {}
    for rc, (c, ts, st) in zip(plan, res):
        recipes[rc["id"]] = dict(rc, ts=ts)                            # thresholds resolved: the recipe is self-contained
    cases = [c for c, _, _ in res]
    stc = _s_static()
    ordered, chunk, biggest = _s_pack(cases, len(stc))
    rej = ctx.trace("Trace_FiltersScale", ordered, selftest=stc, chunk=chunk, procs=8)
    for rc, (c, ts, st) in zip(plan, res):
        for t, nt in zip(ts, st["nt"]):
            ctx.count(("S", rc["id"], rc["shape"], rc["layout"], rc["n"], rc["m"], t), nt)
    _s_verdicts(ctx, rej, recipes, seen)
    ms = sorted(st["m"] for _, _, st in res)
    by = lambda key: {v: sum(1 for rc in plan if rc[key] == v) for v in sorted(set(rc[key] for rc in plan))}
    ctx.extra["scale"] = {
        "calls_recorded": len(plan), "thresholds_judged": sum(len(ts) for _, ts, _ in res),
        "knees_per_call": {"min": ms[0], "median": ms[len(ms) // 2], "max": ms[-1],
                           "above": {str(t): sum(1 for v in ms if v > t) for t in (256, 1024, 4096, 10000, 16384, 32768, 65536)}},
        "points_per_curve": sorted(set(st["n"] for _, _, st in res)),
        "shapes": by("shape"), "layouts": by("layout"), "variants": by("variant"),
        "zero_overlap_knees": sum(st["zero"] for _, _, st in res), "exact_iou_ties": sum(st["ties"] for _, _, st in res),
        "iou_oracle": {"knee_x_threshold_decisions_by_exact_rational_iou": sum(st["exact"] for _, _, st in res),
                       "near_ties_classed_by_library_primitive": sum(st["near"] for _, _, st in res),
                       "smallest_decisive_margin_abs": min((st["margin"] for _, _, st in res if st["margin"] is not None), default=None),
                       "dense_calls": sum(1 for rc in plan if rc["shape"] in S_DENSE_SHAPES),
                       "dense_knees_max": max([st["m"] for rc, (_, _, st) in zip(plan, res) if rc["shape"] in S_DENSE_SHAPES] or [0])},
        "knees_dropped_by_height_filter": sum(st["m"] - st["kept"] for _, _, st in res),
        "did_not_complete": sum(bool(c["raised"]) + sum(1 for r in c["ts"] if r["raised"]) for c in cases),
        "largest_tlc_input_bytes": biggest, "tlc_runs": -(-(len(cases) + len(stc)) // chunk)}
    tr = [(rc, st) for rc, (_, _, st) in zip(plan, res) if rc.get("off")]
    ctx.extra["int64_translated"]["scale"] = {
        "calls_recorded": len(tr), "knees_per_call": sorted(st["m"] for _, st in tr), "points_per_curve": sorted(st["n"] for _, st in tr),
        "shapes": sorted(set(rc["shape"] for rc, _ in tr)), "layouts": sorted(set(rc["layout"] for rc, _ in tr)),
        "offset_bits": sorted(set(abs(int(v)).bit_length() for rc, _ in tr for v in rc["off"] if v)),
        "exact_decisions": sum(st["exact"] for _, st in tr), "near": sum(st["near"] for _, st in tr)}
    big = max(zip(plan, res), key=lambda z: z[1][2]["m"])
    ctx.sample({"binding": "S", "recipe": recipes[big[0]["id"]], "n": big[1][2]["n"], "knees": big[1][2]["m"],
                "kept_by_height_filter": big[1][2]["kept"], "zero_overlap_knees": big[1][2]["zero"],
                "corner_outputs": [{"t": r["t"], "filter": len(r["filt"]), "select": len(r["sel"])} for r in big[1][0]["ts"]]})
    ctx.note("scale family: every clause of the property is judged (the rule, partition, ends, order, idempotence of the three "
             "functions); nothing was left out.  Height ranks are exact (no noise merging).  IoU classes come from an oracle that "
             "is independent of the library: the IoU of the two documented rectangles as an exact rational of the float / int64 "
             "coordinates, compared exactly with t; only a knee within 1e-12 relative of t (the harvested ties and t = 0 / 1 on "
             "degenerate rectangles) is classed by the bit-exact comparison of the library's own rect / rect_overlap with t, as "
             "before.  Each decision concerns one knee (three points), so no tolerance grows with n.")


def run(ctx):
    ctx.rule = ("G: every curve x = 0..n-1 (thorough: also uneven integer spacings), n <= NMax, y in 0..3, every ascending "
                "knee list (n <= 5; small/full/alternating lists for n = 6), thresholds {0,1/4,1/3,1/2,1} plus every IoU value of "
                "the curve; each function applied twice.  T: random / MRC-like / bundled-trace curves with random knee lists, "
                "thresholds 0.33 + harvested IoU values.  non-trivial: >= 2 knees and (a knee is dropped by the height filter, "
                "or a knee with both neighbours is classified).  S (scale): production-size calls - 257 .. 17 500 knees (thorough: "
                ".. 70 000; counts straddling 256 / 1024 / 4096 / 10^4 / 16384 / 32768 / 65536) on curves of 257 .. 1.1*10^5 points "
                "(plateau staircases with zero-overlap knees mixed with corners, integer walks, record lows after long droughts, noisy "
                "descents, MRC-like, spikes, "
                "convex; random / with both ends / contiguous / corner-rich / every-point knee lists; float64 and int64; t = 0.33 "
                "plus 0, 1, 1/2, 1/4 and harvested exact ties), each function applied twice under the loop-budget monitor and "
                "judged for every clause by Trace_FiltersScale with tables over the knees only.  The IoU classes of S and T are "
                "computed by the check itself in exact rational arithmetic from the documented rectangles (not through the library's "
                "rect / rect_overlap), and S includes a dense class - finely sampled curves of 4*10^3 .. 1.1*10^5 points (random "
                "strictly decreasing steps, a smooth decay at uneven abscissae, small steps on large offsets) with n/10 .. n/2 knees "
                "(every k-th point / random / contiguous), t = 0.33, quantile ties and knife-edge thresholds inside the tightest "
                ">= 4e-9 gap between two observed IoU values.  I (translated int64): int64 curves built from Python ints whose x and / or "
                "y coordinates are 2^53 .. 1.5*2^62 (either sign) away from the origin with steps of 1 .. 10^3 (nanosecond timestamps with "
                "non-increasing counts, walks, heights differing by 0 / 1 / 2, staircases, fine descents) - 3 .. 40 points with random / "
                "with-both-ends / every-point knee lists, t = 0.33 + {0, 1, 1/2, 1/10, 1/4, harvested ties}, judged by Trace_Filters with "
                "exact integer height ranks and the exact Python-int IoU, and production-size calls of the same kind (257 .. 1.5*10^4 "
                "knees, thorough .. 7*10^4) judged by Trace_FiltersScale inside S")
    ctx.assumptions += [
        "G domain: small integer coordinates; t = float(p/q) - one correctly rounded division decides like the rational",
        "T: heights are compared exactly (dense ranks without noise merging); the IoU of rect((x0,y2),p1) and rect(p0,p2) (0 when "
        "the intersection has no area) is an exact rational of the coordinates and is compared exactly with t; NEAR policy: when "
        "|IoU - t| <= 1e-12 * max(IoU, t) the class is the bit-exact comparison of knee_ranking.rect_overlap(...) with t (a tie "
        "within rounding noise pins nothing beyond the library's own primitive, which is C17's business)",
        "knee lists are ascending and duplicate-free; the empty list is included",
        "I: same policy as T on int64 data - heights are compared as integers, the IoU is the exact rational of the integer "
        "coordinates (every extent and product of the curves used stays far below 2^53, so the int64 / double evaluation is exact "
        "up to the final division); decisions within the NEAR band (1e-12 relative) are classed by the library's own primitive",
        "S: same policy as T at production size - exact height ranks of the knees, exact-rational IoU classes (NEAR knees: the "
        "library's own primitives on the array that is passed to the call); double-precision evaluation of the IoU is accurate to "
        "~1e-15 relative (differences of neighbouring coordinates, two products, a + b - overlap >= max(a, b)), the knife-edge "
        "thresholds keep every knee >= 2e-9 relative away; the linear prefix-minimum scan used above 1200 knees is ASSUMEd "
        "equal to the declarative RunMin on all height tables over 0..2 of length <= 6 and re-compared on every case below"]
    ctx.mc("Gen_Filters", "MC_Filters_strict", expect="MachineIsRunMin")
    ctx.mc("Gen_Filters", "MC_Filters_stale", expect="MachineIsRunMin")
    ctx.mc("Gen_Filters", "MC_Filters", need_actions=("WorstKeep", "WorstDrop", "Return"))
    beh = ctx.gen("Gen_Filters", "Gen_Filters_quick" if ctx.quick else "Gen_Filters_thorough", workers=16, timeout=3000)
    beh.sort(key=lambda b: (len(b["pts"]), b["pts"], b["knees"]))
    # 16 workers print concurrently: every terminal state must have produced one parsable line
    # (states of a behaviour: initial + one per loop iteration + done)
    want = sum(2 + max(0, len(b["knees"]) - 1) for b in beh)
    if want != ctx.tlc_runs[-1]["distinct_states"]:
        raise tlc.TLCFailure("generator output incomplete: %d behaviours account for %d states, TLC found %d"
                             % (len(beh), want, ctx.tlc_runs[-1]["distinct_states"]))
    ctx.exhaustive = True
    res = par.pmap(_replay_line, beh)
    seen = {}
    for b, bad in zip(beh, res):
        nt = len(b["knees"]) >= 2 and (len(b["worst"]) < len(b["knees"]) or len(b["both"]) > 0)
        ctx.count(("G", b["pts"], b["knees"]), nt)
        for clause, detail in bad:
            _report(ctx, seen, clause, {"kind": "G", "behaviour": b}, detail)
    ctx.traces += len(beh)
    ctx.sample({"binding": "G", "behaviour": next(b for b in beh if len(b["pts"]) == 5 and len(b["knees"]) == 5
                                                   and b["ties"] and len(b["worst"]) < 5 and len(b["ts"]) > 6)})
    # ---- T
    items = _inputs(ctx)
    cases = par.pmap(_record, items)
    meta = {it[0]: it for it in items}
    iitems, istats = _i_inputs(ctx)                                    # family I (small): judged by the same validator, same batch
    icases = par.pmap(_i_record, iitems)
    imeta = {it[0]: it for it in iitems}
    rej = ctx.trace("Trace_Filters", cases + icases, selftest=_selftests(), chunk=1500)
    for c in icases:
        nt = len(c["knees"]) >= 2 and (len(c["worst"]) < len(c["knees"]) or any(x != "-" for x in c["cls"]))
        ctx.count(("I", imeta[c["id"]][1:]), nt)
    for c in cases:
        nt = len(c["knees"]) >= 2 and (len(c["worst"]) < len(c["knees"]) or any(x != "-" for x in c["cls"]))
        ctx.count(("T", meta[c["id"]][1:]), nt)
    for cid, vs in rej.items():
        _, pts, knees, t = imeta[cid] if cid in imeta else meta[cid]
        for v in vs:
            if cid in imeta:
                _report(ctx, seen, v[0], {"kind": "I", "points": pts, "knees": knees, "t": t},
                        {"verdict": v, "dtype": "int64", "first_point": pts[0]})
            else:
                _report(ctx, seen, v[0], {"kind": "T", "points": pts, "knees": knees, "t": t}, {"verdict": v})
    big = max(cases, key=lambda c: (len(set(c["cls"])), len(c["knees"]) - len(c["worst"])) if c["n"] <= 12 else (0, 0))
    ctx.sample({"binding": "T", "call": {"points": meta[big["id"]][1], "knees": big["knees"], "t": meta[big["id"]][3]},
                "case": big})
    ibig = max(icases, key=lambda c: (len(set(c["cls"])), len(c["knees"]) - len(c["worst"])) if c["n"] <= 8 else (0, 0))
    ctx.sample({"binding": "I", "call": {"points_int64": imeta[ibig["id"]][1], "knees": ibig["knees"], "t": imeta[ibig["id"]][3]},
                "case": ibig}, limit=5)
    ctx.extra["int64_translated"] = dict(istats, calls_recorded=len(icases), did_not_complete=sum(bool(c["raised"]) for c in icases),
                                         knees_dropped_by_height_filter=sum(len(c["knees"]) - len(c["worst"]) for c in icases
                                                                            if not c["raised"]))
    # ---- S
    _scale(ctx, seen)
    ctx.extra["violating_cases_by_clause"] = dict(seen)


def replay(ctx, obj):
    case = obj["case"]
    if case["kind"] == "G":
        for clause, detail in _replay_line(case["behaviour"]):
            ctx.violation(clause, case, detail)
    elif case["kind"] == "S":
        rc = dict(case["recipe"], id="replay")
        c, ts, _ = _s_record(rc)
        _s_verdicts(ctx, ctx.trace("Trace_FiltersScale", [c]), {"replay": dict(rc, ts=ts)}, {})
    elif case["kind"] == "I":
        c = _i_record(("replay", [[int(a), int(b)] for a, b in case["points"]], case["knees"], case["t"]))
        for cid, vs in ctx.trace("Trace_Filters", [c]).items():
            for v in vs:
                ctx.violation(v[0], case, {"verdict": v, "dtype": "int64"})
    else:
        c = _record(("replay", case["points"], case["knees"], case["t"]))
        rej = ctx.trace("Trace_Filters", [c])
        for cid, vs in rej.items():
            for v in vs:
                ctx.violation(v[0], case, {"verdict": v})
