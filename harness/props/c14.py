"""C14 - even-point insertion returns the documented candidates, height-filtered.
M: Gen_EvenPoints.tla - laws of the EvenPoints definition of Filters.tla on dyadic grids (valid, strictly increasing,
   only candidates, RunMin-idempotent tail, inserted points inside their segment, operators agree).
G: the same module with Emit=TRUE prints every (curve, reduction, knee positions) / (curve, knee markers) case with the
   expected index arrays for all 9 (tx, ty) pairs x both `extremes` settings; replayed into
   postprocessing.add_points_even(points, reduced, knees, removed, tx, ty, extremes) with
   removed = rdp.compute_removed_points(points, reduced) and add_points_even_knees(points, knees, tx, ty, extremes).
T: random real-valued curves: per-gap classes (wide, high) and counts m computed over exact rationals of the float
   inputs, exact height ranks; Trace_Filters rebuilds the documented set and compares with the returned array.
   Calls whose decisions are within rounding noise of a threshold / an integer are flagged ambiguous (not judged)."""
import math
from fractions import Fraction

import numpy as np

from harness import curves, numeric, par, tlc


def _ints(a):
    return [int(v) for v in np.asarray(a).tolist()]


def _call(kind, P, case, tx, ty, extremes):
    """One call of the function under test -> int list (raises what the function raises)."""
    import kneeliverse.postprocessing as pp
    import kneeliverse.rdp as rdp
    if kind == "reduced":
        reduced = np.array(case["reduced"], dtype=int)
        removed = rdp.compute_removed_points(P, reduced)
        knees = np.array(case["kpos"], dtype=int)
        out = pp.add_points_even(P, reduced, knees, removed, tx, ty, extremes)
    else:
        out = pp.add_points_even_knees(P, np.array(case["knees"], dtype=int), tx, ty, extremes)
    arr = np.asarray(out)
    if arr.size and not np.all(arr == np.floor(arr)):
        raise AssertionError("non-integral indices %r" % arr.tolist())
    return _ints(arr)


def _judge(got, exp, union, n, extremes):
    """clause name for got != exp (labels only; the verdict is the inequality with TLC's expected array)."""
    if any(k < 0 or k >= n for k in got) or any(got[j] >= got[j + 1] for j in range(len(got) - 1)):
        return "valid-indices"
    if extremes and ({0, n - 1} & set(exp)) - set(got):
        return "extremes-included"
    if set(got) <= set(union) and set(exp) <= set(got):
        return "height-filtered"
    return "equals-documented-set"


def _fn(kind):
    return "add_points_even" if kind == "reduced" else "add_points_even_knees"


def _check_combo(case, combo):
    kind = case["kind"]
    P = np.array(case["pts"], float)
    tx = combo["tx"][0] / combo["tx"][1]
    ty = combo["ty"][0] / combo["ty"][1]
    ext = bool(combo["extremes"])
    exp = list(combo["exp"])
    # the grid curves are integral: they are also passed as an int64 array (every 4th combination, to bound the cost)
    variants = [("float64", P)]
    if (len(exp) + combo["tx"][1] + combo["ty"][1] + int(ext)) % 4 == 0 and np.all(P == np.floor(P)):
        variants.append(("int64", P.astype(np.int64)))
    for dname, Q in variants:
        try:
            got = _call(kind, Q, case, tx, ty, ext)
        except Exception as ex:
            return ("completes", {"f": _fn(kind), "tx": tx, "ty": ty, "extremes": ext, "dtype": dname, "raised": repr(ex)[:200]})
        if got != exp:
            return (_judge(got, exp, combo["union"], len(P), ext),
                    {"f": _fn(kind), "tx": tx, "ty": ty, "extremes": ext, "dtype": dname, "got": got, "expected": exp,
                     "candidate_segments": combo["segs"]})
    return None


def _replay_line(b):
    out = []
    for j, combo in enumerate(b["combos"]):
        r = _check_combo(b["case"], combo)
        if r is not None:
            out.append((j, r[0], r[1]))
    return out


# --------------------------------------------------------------------------- T
def _exact_tables(P, markers, tx, ty):
    """gaps = [a, b, wide, high, m] over exact rationals of the float inputs; ambiguous if any decision is within
    rounding noise of its threshold (the code evaluates the same expressions in binary64)."""
    X = [Fraction(float(v)) for v in P[:, 0]]
    Y = [Fraction(float(v)) for v in P[:, 1]]
    dx, dy = max(X) - min(X), max(Y) - min(Y)
    ftx, fty = Fraction(float(tx)), Fraction(float(ty))
    gaps, amb = [], False
    for a, b in zip(markers[:-1], markers[1:]):
        W = abs(X[b] - X[a]) / dx
        Hh = abs(Y[b] - Y[a]) / dy
        if abs(float(W) - 2.0 * tx) <= 1e-12 or abs(float(Hh) - ty) <= 1e-12:
            amb = True
        wide, high = W > 2 * ftx, Hh > fty
        m = 0
        if wide:
            r = W / (2 * ftx)
            m = int(math.ceil(r))
            if abs(float(r) - round(float(r))) <= 1e-9:
                amb = True
        gaps.append([int(a), int(b), bool(wide), bool(high), int(m)])
    return gaps, amb


def _record(item):
    cid, kind, pts, case, tx, ty, ext = item
    P = np.asarray(pts, float)
    n = len(P)
    if kind == "reduced":
        markers = list(case["reduced"])
        kmap = [markers[p] for p in case["kpos"]]
    else:
        markers = [0] + list(case["knees"]) + [n - 1]
        kmap = list(case["knees"])
    gaps, amb = _exact_tables(P, markers, tx, ty)
    c = {"id": cid, "kind": "c14", "n": n, "gaps": gaps, "kmap": kmap, "extremes": bool(ext),
         "hr": numeric.ranks(P[:, 1], rel=0.0, ab=0.0), "raised": "", "out": [], "ambiguous": amb}
    try:
        c["out"] = _call(kind, P, case, tx, ty, ext)
    except Exception as ex:
        c["raised"] = "%s: %s" % (_fn(kind), type(ex).__name__)
    return c


def _t_inputs(ctx):
    rng = ctx.rng
    cs = [curves.random_curve(rng, 4, 40) for _ in range(250 if ctx.quick else 2500)]
    cs += [curves.mrc_curve(rng, 4, 40) for _ in range(80 if ctx.quick else 800)]
    cs += curves.trace_windows(rng, 10 if ctx.quick else 100, 10, 60, names=("web0_reduced.csv", "usr0.csv"))
    items = []
    for ci, P in enumerate(cs):
        n = len(P)
        if not (np.ptp(P[:, 0]) > 0 and np.ptp(P[:, 1]) > 0):
            continue                                        # the property's domain: non-constant x and y
        for v in range(2):
            tx = rng.choice([0.05, 0.02, 0.1, 0.2, 1.0 / 16])
            ty = rng.choice([0.05, 0.01, 0.1, 0.25])
            ext = rng.random() < 0.5
            inner = sorted(rng.sample(range(1, n - 1), rng.randint(0, min(n - 2, 6))))
            red = [0] + inner + [n - 1]
            kpos = sorted(rng.sample(range(len(red)), rng.randint(0, len(red))))
            items.append(("r%d-%d" % (ci, v), "reduced", P.tolist(), {"reduced": red, "kpos": kpos}, tx, ty, ext))
            knees = sorted(rng.sample(range(n), rng.randint(1, min(n, 6))))
            items.append(("m%d-%d" % (ci, v), "markers", P.tolist(), {"knees": knees}, tx, ty, ext))
    return items


STATIC = {"kind": "c14", "n": 9, "raised": "", "extremes": True, "kmap": [2],
          "hr": [4, 3, 3, 2, 2, 1, 3, 0, 1],
          # markers 0-2-8: gap (0,2) not a candidate, gap (2,8) wide and high with m = 3 -> inc 2 -> 4, 6, 8
          "gaps": [[0, 2, True, False, 1], [2, 8, True, True, 3]],
          # union {0,2,4,6,8}; heights 4,3,2,3,1 -> index 6 (rank 3 > 2) is dropped
          "out": [0, 2, 4, 8]}


def _selftests():
    c = STATIC
    return [(c, "ok"),
            (dict(c, out=[0, 2, 4, 6, 8]), "height-filtered"),
            (dict(c, out=[0, 2, 8]), "equals-documented-set"),
            (dict(c, out=[0, 1, 2, 4, 8]), "equals-documented-set"),
            (dict(c, out=[2, 4, 8]), "extremes-included"),
            (dict(c, out=[0, 2, 4, 9]), "valid-indices"),
            (dict(c, out=[0, 4, 2, 8]), "valid-indices"),
            (dict(c, raised="add_points_even_knees: IndexError"), "completes")]


def _report(ctx, seen, key, clause, case, detail, limit=2):
    seen[key] = seen.get(key, 0) + 1
    if seen[key] <= limit:
        ctx.violation(clause, case, detail)


def run(ctx):
    ctx.rule = ("G: unit-spaced curves with n-1 = 8, heights 0..4 (12 fixed profiles: staircases, plateaus, tent, zigzag, "
                "noisy, increasing), every reduction with <= 5 retained points x every subset of knee positions "
                "(add_points_even) and every knee set of 1..4 original indices (add_points_even_knees), "
                "tx in {1/16,1/8,1/4} x ty in {1/8,1/4,1/2} x extremes in {False, True}%s; the enumerated space is exhaustive "
                "relative to the listed height profiles.  T: random / MRC-like / bundled-trace curves, random reductions, "
                "knees and thresholds.  non-trivial: at least one candidate segment, or the height filter drops an index"
                % ("" if ctx.quick else "; thorough adds n-1 = 16 (6 profiles, <= 4 retained points, <= 3 marker knees) and all "
                                        "140 monotone unit staircases on the 8-grid (<= 3 retained points, <= 2 marker knees)"))
    ctx.assumptions += [
        "G domain: dyadic grids - |dx|/range, 2*tx and their quotient are exact in binary64; |dy|/range is one correctly "
        "rounded division of small integers compared with a dyadic ty, which decides like the rational",
        "removed = rdp.compute_removed_points(points, reduced); knees of add_points_even are positions in the reduced curve",
        "add_points_even_knees is driven with non-empty ascending knee lists (the code reads knees[0] and knees[-1])",
        "T: widths/heights/ceil arguments are computed over exact rationals of the float inputs; a call is flagged ambiguous "
        "(not judged) when W is within 1e-12 of 2*tx, H within 1e-12 of ty, or W/(2*tx) within 1e-9 of an integer; "
        "heights are compared exactly (dense ranks without noise merging)"]
    ctx.mc("Gen_EvenPoints", "MC_EvenPoints", need_actions=("Compute", "EmitCase"))
    beh = ctx.gen("Gen_EvenPoints", "Gen_EvenPoints_quick" if ctx.quick else "Gen_EvenPoints_thorough",
                  workers=16, timeout=3000)
    beh.sort(key=lambda b: (b["case"]["kind"], b["case"]["pts"], b["case"].get("reduced", b["case"].get("knees")),
                            b["case"].get("kpos", [])))
    if 3 * len(beh) != ctx.tlc_runs[-1]["distinct_states"]:      # 16 workers print concurrently: nothing may be lost
        raise tlc.TLCFailure("generator output incomplete: %d cases parsed, TLC found %d states"
                             % (len(beh), ctx.tlc_runs[-1]["distinct_states"]))
    ctx.exhaustive = True
    res = par.pmap(_replay_line, beh)
    seen = {}
    for b, bad in zip(beh, res):
        case = b["case"]
        badj = {j: (cl, d) for j, cl, d in bad}
        for j, combo in enumerate(b["combos"]):
            nt = len(combo["segs"]) > 0 or len(combo["exp"]) < len(combo["union"])
            ctx.count(("G", case, combo["tx"], combo["ty"], combo["extremes"]), nt)
            if j in badj:
                cl, d = badj[j]
                _report(ctx, seen, "G/%s/%s/%s" % (cl, case["kind"], combo["extremes"]), cl,
                        {"kind": "G", "case": case, "combo": combo}, d)
    ctx.traces += sum(len(b["combos"]) for b in beh)
    want = lambda c: len(c["segs"]) > 1 and len(c["exp"]) < len(c["union"])
    s = next((b for b in beh if b["case"]["kind"] == "reduced" and len(b["case"]["reduced"]) == 4 and b["case"]["kpos"]
              and any(want(c) for c in b["combos"])), None)
    if s is not None:
        ctx.sample({"binding": "G", "case": s["case"], "combo": next(c for c in s["combos"] if want(c))})
    # ---- T
    items = _t_inputs(ctx)
    cases = par.pmap(_record, items)
    meta = {it[0]: it for it in items}
    judged = [c for c in cases if not c["ambiguous"]]
    ctx.extra["ambiguous_calls_not_judged"] = len(cases) - len(judged)
    rej = ctx.trace("Trace_Filters", judged, selftest=_selftests(), chunk=1500)
    for c in cases:
        nt = (not c["ambiguous"]) and any(g[2] and g[3] for g in c["gaps"])
        ctx.count(("T", meta[c["id"]][1:]), nt)
    for cid, vs in rej.items():
        _, kind, pts, case, tx, ty, ext = meta[cid]
        for v in vs:
            _report(ctx, seen, "T/%s/%s/%s" % (v[0], kind, ext), v[0],
                    {"kind": "T", "fn": kind, "points": pts, "args": case, "tx": tx, "ty": ty, "extremes": ext},
                    {"f": _fn(kind), "verdict": v})
    ctx.extra["violating_cases_by_clause"] = dict(seen)
    big = max(judged, key=lambda c: sum(1 for g in c["gaps"] if g[2] and g[3]) if c["n"] <= 14 else -1)
    m = meta[big["id"]]
    ctx.sample({"binding": "T", "call": {"fn": _fn(m[1]), "points": m[2], "args": m[3], "tx": m[4], "ty": m[5],
                                         "extremes": m[6]}, "case": big})


def replay(ctx, obj):
    case = obj["case"]
    if case["kind"] == "G":
        r = _check_combo(case["case"], case["combo"])
        if r is not None:
            ctx.violation(r[0], case, r[1])
    else:
        c = _record(("replay", case["fn"], case["points"], case["args"], case["tx"], case["ty"], case["extremes"]))
        if c["ambiguous"]:
            print("replay: call is within rounding noise of a threshold (ambiguous, not judged)")
            return
        rej = ctx.trace("Trace_Filters", [c])
        for cid, vs in rej.items():
            for v in vs:
                ctx.violation(v[0], case, {"f": _fn(case["fn"]), "verdict": v})
