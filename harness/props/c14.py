"""C14 - even-point insertion returns the documented candidates, height-filtered.
M: Gen_EvenPoints.tla - laws of the EvenPoints definition of Filters.tla on dyadic grids (valid, strictly increasing,
   only candidates, RunMin-idempotent tail, inserted points inside their segment, operators agree).
G: the same module with Emit=TRUE prints every (curve, reduction, knee positions) / (curve, knee markers) case with the
   expected index arrays for all 9 (tx, ty) pairs x both `extremes` settings; replayed into
   postprocessing.add_points_even(points, reduced, knees, removed, tx, ty, extremes) with
   removed = rdp.compute_removed_points(points, reduced) and add_points_even_knees(points, knees, tx, ty, extremes).
T: random real-valued curves: per-gap classes (wide, high) and counts m computed over exact rationals of the float
   inputs, exact height ranks; Trace_Filters rebuilds the documented set and compares with the returned array.
   Calls whose decisions are within rounding noise of a threshold / an integer are flagged ambiguous (not judged).
S: the scale family - production-size curves (2^8 .. 10^5 points, sizes straddling 2^8, 2^10, 2^12, 10^4, 2^14, 2^15, 2^16,
   10^5) rebuilt from small recipes, replayed under loop budgets, judged by Trace_EvenScale with SPARSE tables (gap classes
   and counts of the marker pairs, exact height ranks of the mentioned indices only).  Its `runs` family lays out 129 ..
   several thousand knees / retained points with dense runs (64 .. 1024+ consecutive markers inside an x-span below 2*tx)
   each followed at once by a gap wider than 2*tx and taller than ty, run ends on and off the multiples of 64 .. 1024.
N: the narrow-dtype family - small curves STORED in float32 / float16 with rounded-decimal abscissae / ordinates and markers on
   decimal multiples of 2*tx (heights on decimal multiples of ty), both functions, both `extremes`; oracle = the exact rational
   rule on the stored values with the exact values of the Python floats tx, ty; judged by Trace_Filters like T."""
import json
import math
import random
from fractions import Fraction

import numpy as np

from harness import curves, monitor, numeric, par, scale, tlc


def _ints(a):
    return [int(v) for v in np.asarray(a).tolist()]


def _call(kind, P, case, tx, ty, extremes):
    """One call of the function under test -> int list (raises what the function raises)."""
    import kneeliverse.postprocessing as pp
    import kneeliverse.rdp as rdp
    if kind == "reduced":
        reduced = np.array(case["reduced"], dtype=int)
        removed = rdp.compute_removed_points(P, reduced)
        knees = np.array(case["kpos"], dtype=int)
        out = pp.add_points_even(P, reduced, knees, removed, tx, ty, extremes)
    else:
        out = pp.add_points_even_knees(P, np.array(case["knees"], dtype=int), tx, ty, extremes)
    arr = np.asarray(out)
    if arr.size and not np.all(arr == np.floor(arr)):
        raise AssertionError("non-integral indices %r" % arr.tolist())
    return _ints(arr)


def _judge(got, exp, union, n, extremes):
    """clause name for got != exp (labels only; the verdict is the inequality with TLC's expected array)."""
    if any(k < 0 or k >= n for k in got) or any(got[j] >= got[j + 1] for j in range(len(got) - 1)):
        return "valid-indices"
    if extremes and ({0, n - 1} & set(exp)) - set(got):
        return "extremes-included"
    if set(got) <= set(union) and set(exp) <= set(got):
        return "height-filtered"
    return "equals-documented-set"


def _fn(kind):
    return "add_points_even" if kind == "reduced" else "add_points_even_knees"


def _check_combo(case, combo):
    kind = case["kind"]
    P = np.array(case["pts"], float)
    tx = combo["tx"][0] / combo["tx"][1]
    ty = combo["ty"][0] / combo["ty"][1]
    ext = bool(combo["extremes"])
    exp = list(combo["exp"])
    # the grid curves are integral: they are also passed as an int64 array (every 4th combination, to bound the cost)
    variants = [("float64", P)]
    if (len(exp) + combo["tx"][1] + combo["ty"][1] + int(ext)) % 4 == 0 and np.all(P == np.floor(P)):
        variants.append(("int64", P.astype(np.int64)))
    for dname, Q in variants:
        try:
            got = _call(kind, Q, case, tx, ty, ext)
        except Exception as ex:
            return ("completes", {"f": _fn(kind), "tx": tx, "ty": ty, "extremes": ext, "dtype": dname, "raised": repr(ex)[:200]})
        if got != exp:
            return (_judge(got, exp, combo["union"], len(P), ext),
                    {"f": _fn(kind), "tx": tx, "ty": ty, "extremes": ext, "dtype": dname, "got": got, "expected": exp,
                     "candidate_segments": combo["segs"]})
    return None


def _replay_line(b):
    out = []
    for j, combo in enumerate(b["combos"]):
        r = _check_combo(b["case"], combo)
        if r is not None:
            out.append((j, r[0], r[1]))
    return out


# --------------------------------------------------------------------------- T
def _exact_tables(P, markers, tx, ty):
    """gaps = [a, b, wide, high, m] over exact rationals of the float inputs; ambiguous if any decision is within
    rounding noise of its threshold (the code evaluates the same expressions in binary64)."""
    X = [Fraction(float(v)) for v in P[:, 0]]
    Y = [Fraction(float(v)) for v in P[:, 1]]
    dx, dy = max(X) - min(X), max(Y) - min(Y)
    ftx, fty = Fraction(float(tx)), Fraction(float(ty))
    gaps, amb = [], False
    for a, b in zip(markers[:-1], markers[1:]):
        W = abs(X[b] - X[a]) / dx
        Hh = abs(Y[b] - Y[a]) / dy
        if abs(float(W) - 2.0 * tx) <= 1e-12 or abs(float(Hh) - ty) <= 1e-12:
            amb = True
        wide, high = W > 2 * ftx, Hh > fty
        m = 0
        if wide:
            r = W / (2 * ftx)
            m = int(math.ceil(r))
            if abs(float(r) - round(float(r))) <= 1e-9:
                amb = True
        gaps.append([int(a), int(b), bool(wide), bool(high), int(m)])
    return gaps, amb


def _record(item):
    cid, kind, pts, case, tx, ty, ext = item
    P = np.asarray(pts, float)
    n = len(P)
    if kind == "reduced":
        markers = list(case["reduced"])
        kmap = [markers[p] for p in case["kpos"]]
    else:
        markers = [0] + list(case["knees"]) + [n - 1]
        kmap = list(case["knees"])
    gaps, amb = _exact_tables(P, markers, tx, ty)
    c = {"id": cid, "kind": "c14", "n": n, "gaps": gaps, "kmap": kmap, "extremes": bool(ext),
         "hr": numeric.ranks(P[:, 1], rel=0.0, ab=0.0), "raised": "", "out": [], "ambiguous": amb}
    try:
        c["out"] = _call(kind, P, case, tx, ty, ext)
    except Exception as ex:
        c["raised"] = "%s: %s" % (_fn(kind), type(ex).__name__)
    return c


def _t_inputs(ctx):
    rng = ctx.rng
    cs = [curves.random_curve(rng, 4, 40) for _ in range(250 if ctx.quick else 2500)]
    cs += [curves.mrc_curve(rng, 4, 40) for _ in range(80 if ctx.quick else 800)]
    cs += curves.trace_windows(rng, 10 if ctx.quick else 100, 10, 60, names=("web0_reduced.csv", "usr0.csv"))
    items = []
    for ci, P in enumerate(cs):
        n = len(P)
        if not (np.ptp(P[:, 0]) > 0 and np.ptp(P[:, 1]) > 0):
            continue                                        # the property's domain: non-constant x and y
        for v in range(2):
            tx = rng.choice([0.05, 0.02, 0.1, 0.2, 1.0 / 16])
            ty = rng.choice([0.05, 0.01, 0.1, 0.25])
            ext = rng.random() < 0.5
            inner = sorted(rng.sample(range(1, n - 1), rng.randint(0, min(n - 2, 6))))
            red = [0] + inner + [n - 1]
            kpos = sorted(rng.sample(range(len(red)), rng.randint(0, len(red))))
            items.append(("r%d-%d" % (ci, v), "reduced", P.tolist(), {"reduced": red, "kpos": kpos}, tx, ty, ext))
            knees = sorted(rng.sample(range(n), rng.randint(1, min(n, 6))))
            items.append(("m%d-%d" % (ci, v), "markers", P.tolist(), {"knees": knees}, tx, ty, ext))
    return items


STATIC = {"kind": "c14", "n": 9, "raised": "", "extremes": True, "kmap": [2],
          "hr": [4, 3, 3, 2, 2, 1, 3, 0, 1],
          # markers 0-2-8: gap (0,2) not a candidate, gap (2,8) wide and high with m = 3 -> inc 2 -> 4, 6, 8
          "gaps": [[0, 2, True, False, 1], [2, 8, True, True, 3]],
          # union {0,2,4,6,8}; heights 4,3,2,3,1 -> index 6 (rank 3 > 2) is dropped
          "out": [0, 2, 4, 8]}


def _selftests():
    c = STATIC
    return [(c, "ok"),
            (dict(c, out=[0, 2, 4, 6, 8]), "height-filtered"),
            (dict(c, out=[0, 2, 8]), "equals-documented-set"),
            (dict(c, out=[0, 1, 2, 4, 8]), "equals-documented-set"),
            (dict(c, out=[2, 4, 8]), "extremes-included"),
            (dict(c, out=[0, 2, 4, 9]), "valid-indices"),
            (dict(c, out=[0, 4, 2, 8]), "valid-indices"),
            (dict(c, raised="add_points_even_knees: IndexError"), "completes")]


def _report(ctx, seen, key, clause, case, detail, limit=2):
    seen[key] = seen.get(key, 0) + 1
    if seen[key] <= limit:
        ctx.violation(clause, case, detail)


# --------------------------------------------------------------------------- N (narrow float dtypes AND near-tie widths / heights)
# Curves STORED in float32 / float16 whose abscissae / ordinates are rounded decimals (x = off + i*0.025, y = k*0.05, ...), with
# markers on abscissae that are decimal multiples of 2*tx: the normalised width of such a gap is within one unit in the last
# place OF THE NARROW TYPE of a multiple of 2*tx (float32(0.1) = 0.1000000015 > 0.1, float32(0.3)/0.1 = 3.00000012 -> 4 points),
# far outside binary64 rounding noise.  The oracle is the exact rational rule on the ACTUAL narrow values (converted exactly),
# tx and ty being the exact values of the Python floats passed.  A case is a small recipe; judged by Trace_Filters like T.
N_DTYPES = {"float32": np.float32, "float16": np.float16}
N_SX = [0.025, 0.025, 0.05, 0.01, 0.02, 0.1, 0.0125]
N_TX = [0.05, 0.05, 0.05, 0.025, 0.1, 0.15, 0.2, 0.01]
N_TY = [0.05, 0.05, 0.1, 0.01, 0.2, 0.25, 0.15]
N_U = [0.05, 0.05, 0.1, 0.01, 0.025, 0.2]
N_SHAPES = ["knee", "knee", "levels", "levels", "bumpy", "rise"]


def _n_build(rec):
    """recipe -> (P in the narrow dtype (n, 2), call arguments); None when the rounded abscissae are not strictly increasing
    or an axis is constant (outside the property's domain)."""
    rng = random.Random(rec["seed"])
    dt = N_DTYPES[rec["dtype"]]
    n, sx, off, u, K = rec["n"], rec["sx"], rec["xoff"], rec["u"], rec["K"]
    x = np.array([round(off + i * sx, 6) for i in range(n)])
    q = max(1, int(round(2.0 * rec["tx"] / sx)))
    aligned = [k for k in range(1, n - 1) if k % q == 0] if abs(q * sx - 2.0 * rec["tx"]) < 1e-9 else []
    aligned = aligned or list(range(1, n - 1))
    inner = sorted({rng.choice(aligned) if rng.random() < 0.7 else rng.randrange(1, n - 1)
                    for _ in range(rng.randint(1, min(6, n - 2)))})
    shape = rec["shape"]
    if shape == "knee":                      # linear drop to the knee (a marker), almost flat tail
        k = rng.choice(inner)
        xr = (x - x[0]) / (x[-1] - x[0])
        xk = xr[k]
        top, low = K * u, rng.choice([0.02, 0.05, 0.1, 0.3]) * K * u
        y = np.where(xr <= xk, top - (top - low) * xr / xk, low * (1.0 - xr) / (1.0 - xk))
    else:
        if shape == "rise":
            lv = sorted(rng.randint(0, K) for _ in range(n - 2))
            lv = [0] + lv + [K]
        else:
            lv = sorted((rng.randint(0, K) for _ in range(n - 2)), reverse=True)
            lv = [K] + lv + [0]
        if shape == "bumpy":
            lv = [min(K, max(0, v + (rng.randint(-3, 3) if 0 < i < n - 1 and rng.random() < 0.3 else 0))) for i, v in enumerate(lv)]
        y = np.array([round(v * u + rec["yoff"], 6) for v in lv])
    P = np.ascontiguousarray(np.column_stack([x, y]).astype(dt))
    X64 = P[:, 0].astype(float)
    if not (np.all(np.isfinite(P.astype(float))) and np.all(np.diff(X64) > 0) and np.ptp(P[:, 1].astype(float)) > 0):
        return None
    if rec["fn"] == "reduced":
        red = [0] + inner + [n - 1]
        kpos = sorted(rng.sample(range(len(red)), rng.randint(0, len(red))))
        return P, {"reduced": red, "kpos": kpos}
    knees = set(inner)
    if rng.random() < 0.1:
        knees.add(rng.choice([0, n - 1]))
    return P, {"knees": sorted(knees)}


def _n_tables(P, markers, tx, ty):
    """_exact_tables for a curve stored in a narrow float type.  The unchanged code subtracts two stored values IN THAT TYPE
    (then continues in binary64): where that subtraction (and the range's) is exact the binary64 noise rule of T applies,
    elsewhere the noise is the narrow type's (2 eps relative).  Also returns whether evaluating the documented rule in the
    narrow type itself would change a gap's class or count (the combination this family is for)."""
    dt = P.dtype.type
    eps = float(np.finfo(dt).eps)
    tiny = float(np.finfo(dt).tiny)
    X = [Fraction(float(v)) for v in P[:, 0]]
    Y = [Fraction(float(v)) for v in P[:, 1]]
    dx, dy = max(X) - min(X), max(Y) - min(Y)
    mx, mn = P.max(axis=0), P.min(axis=0)
    ndx, ndy = mx[0] - mn[0], mx[1] - mn[1]                   # the ranges as the narrow type subtracts them
    ex_dx, ex_dy = Fraction(float(ndx)) == dx, Fraction(float(ndy)) == dy
    ftx, fty = Fraction(float(tx)), Fraction(float(ty))
    gaps, amb, sens = [], False, False
    for a, b in zip(markers[:-1], markers[1:]):
        W = abs(X[b] - X[a]) / dx
        Hh = abs(Y[b] - Y[a]) / dy
        dw, dh = P[b, 0] - P[a, 0], P[b, 1] - P[a, 1]
        ew = ex_dx and Fraction(float(dw)) == X[b] - X[a]
        eh = ex_dy and Fraction(float(dh)) == Y[b] - Y[a]
        rw = 0.0 if ew else 2.0 * eps
        rh = 0.0 if eh else 2.0 * eps
        if (not ew and 0 < abs(float(dw)) < tiny / eps) or (not eh and 0 < abs(float(dh)) < tiny / eps):
            amb = True                                       # subnormal difference: no relative bound
        if abs(float(W) - 2.0 * tx) <= 1e-12 + rw * 2.0 * tx or abs(float(Hh) - ty) <= 1e-12 + rh * ty:
            amb = True
        wide, high = W > 2 * ftx, Hh > fty
        m = 0
        if wide:
            r = W / (2 * ftx)
            m = int(math.ceil(r))
            if abs(float(r) - round(float(r))) <= 1e-9 + rw * float(r):
                amb = True
        # the rule evaluated in the narrow type
        with np.errstate(all="ignore"):
            nw, nh = dt(abs(float(dw))) / ndx, dt(abs(float(dh))) / ndy
            n_wide, n_high = bool(nw > dt(2.0 * tx)), bool(nh > dt(ty))
            n_m = int(math.ceil(float(nw / dt(2.0 * tx)))) if n_wide else 0
        if (n_wide and n_high) != (wide and high) or (wide and high and n_m != m):
            sens = True
        gaps.append([int(a), int(b), bool(wide), bool(high), int(m)])
    return gaps, amb, sens


def _n_record(rec):
    """recipe -> case for Trace_Filters (None: outside the property's domain)"""
    built = _n_build(rec)
    if built is None:
        return None
    P, args = built
    n, kind, tx, ty, ext = len(P), rec["fn"], rec["tx"], rec["ty"], bool(rec["extremes"])
    if kind == "reduced":
        markers = list(args["reduced"])
        kmap = [markers[p] for p in args["kpos"]]
    else:
        markers = [0] + list(args["knees"]) + [n - 1]
        kmap = list(args["knees"])
    gaps, amb, sens = _n_tables(P, markers, tx, ty)
    c = {"id": rec["id"], "kind": "c14", "n": n, "gaps": gaps, "kmap": kmap, "extremes": ext,
         "hr": numeric.ranks(P[:, 1].astype(float), rel=0.0, ab=0.0), "raised": "", "out": [], "ambiguous": amb,
         "sensitive": sens}
    outcome, val, _ = monitor.call(_call, (kind, P, args, tx, ty, ext), budget=monitor.quad(n, 8), wall=60)
    if outcome == "returned":
        c["out"] = val
    else:
        c["raised"] = "%s: %s" % (_fn(kind), outcome.split(":", 1)[-1])
    return c


def _n_recipes(ctx):
    rng = ctx.rng
    recs = []
    for _ in range(700 if ctx.quick else 7000):
        sx = rng.choice(N_SX)
        rx = rng.choice([1.0, 1.0, 1.0, 2.0, 0.5, 4.0])
        n = int(round(rx / sx)) + 1
        if n < 5 or n > 161:
            continue
        u = rng.choice(N_U)
        ry = rng.choice([1.0, 1.0, 1.0, 2.0, 0.5])
        base = {"fam": "narrow", "dtype": rng.choice(["float32", "float32", "float16"]), "n": n, "sx": sx,
                "xoff": rng.choice([0.0, 0.0, 0.0, 1.0, 2.0, -1.0, 0.5]), "shape": rng.choice(N_SHAPES), "u": u,
                "K": max(2, int(round(ry / u))), "yoff": rng.choice([0.0, 0.0, 0.0, 1.0, 0.5]),
                "fn": rng.choice(["reduced", "markers"]), "tx": rng.choice(N_TX), "ty": rng.choice(N_TY),
                "seed": rng.randrange(1 << 30)}
        for ext in (False, True):
            recs.append(dict(base, id="n%d" % len(recs), extremes=ext))
    return recs


def _narrow_family(ctx, seen):
    recs = _n_recipes(ctx)
    res = par.pmap(_n_record, recs)
    meta = {r["id"]: r for r in recs}
    cases = [c for c in res if c is not None]
    judged = [{k: v for k, v in c.items() if k != "sensitive"} for c in cases if not c["ambiguous"]]
    rej = ctx.trace("Trace_Filters", judged, chunk=1500)
    by = {}
    for c in cases:
        r = meta[c["id"]]
        cand = any(g[2] and g[3] for g in c["gaps"])
        ctx.count(("N", r), (not c["ambiguous"]) and cand)
        k = by.setdefault("%s/%s" % (r["dtype"], _fn(r["fn"])), {"calls": 0, "ambiguous_not_judged": 0, "with_candidates": 0,
                                                                 "narrow_arithmetic_would_differ": 0})
        k["calls"] += 1
        k["ambiguous_not_judged"] += int(c["ambiguous"])
        k["with_candidates"] += int(cand and not c["ambiguous"])
        k["narrow_arithmetic_would_differ"] += int(c["sensitive"] and not c["ambiguous"])
    for cid, vs in rej.items():
        r = meta[cid]
        for v in vs:
            _report(ctx, seen, "N/%s/%s/%s/%s" % (v[0], r["fn"], r["extremes"], r["dtype"]), v[0], {"kind": "N", "recipe": r},
                    {"f": _fn(r["fn"]), "n": r["n"], "dtype": r["dtype"], "tx": r["tx"], "ty": r["ty"], "extremes": r["extremes"],
                     "verdict": v})
    ctx.extra["narrow_dtype"] = {"recipes": len(recs), "outside_domain_dropped": len(recs) - len(cases), "by_dtype_and_function": by}
    sens = sum(k["narrow_arithmetic_would_differ"] for k in by.values())
    ctx.note("narrow-dtype family: %d judged calls on float32 / float16 curves with decimal abscissae / ordinates and markers on "
             "decimal multiples of 2*tx (Trace_Filters, exact rationals of the stored values); in %d of them evaluating the rule "
             "in the curve's own type would change a gap's class or count" % (len(judged), sens))
    if not sens:
        ctx.note("narrow-dtype family: no judged call in this run is sensitive to the arithmetic's type")
    pick = next((c for c in cases if c["sensitive"] and not c["ambiguous"] and c["n"] <= 41), None)
    if pick is not None:
        ctx.sample({"binding": "N", "recipe": meta[pick["id"]], "case": pick})


# --------------------------------------------------------------------------- S (scale)
# A case is a small RECIPE (family, shape, n, integer seed, function, thresholds, extremes); the curve, the markers and
# the knees are rebuilt from it deterministically, so replay files stay small although the call is long.
S_TX = [0.05, 0.02, 0.1, 1.0 / 16, 0.004, 0.001, 0.0003]
S_TY = [0.05, 0.01, 0.1, 0.25, 0.0005, 0.002]
S_SHAPES = ["mrc", "stair", "zigzag", "spikes", "valley", "convex", "decay", "noisy"]
S_XMODES = ["unit", "unit", "steps", "milli", "jit"]


def _seams(n):
    """indices next to the sizes at which blocked / narrowed / sampled code changes its path"""
    return sorted({k for t in scale.THRESHOLDS for k in (t - 2, t - 1, t, t + 1) if 1 <= k < n - 1})


def _s_shape(shape, n, rng, g):
    i = np.arange(n, dtype=float)
    if shape == "mrc":
        return scale.mrc(n, rng, knees=6)[:, 1]
    if shape == "stair":
        return scale.staircase(n, rng.choice([8, 64, 300]), rng=rng, jitter=rng.choice([0, 0, 3]))[:, 1]
    if shape == "zigzag":
        return scale.zigzag(n)[:, 1]
    if shape == "spikes":
        return scale.spikes(n, rng.choice([4, 7, 50]))[:, 1]
    if shape == "valley":
        return scale.valley(n, rng)[:, 1]
    if shape == "convex":
        return scale.convex_pl(n, rng.choice([3, 20]))[:, 1]
    if shape == "decay":
        return 1.0 / (1.0 + 8.0 * i / n) + 0.2 * np.exp(-40.0 * i / n)
    if shape == "noisy":
        return 1000.0 * np.exp(-3.0 * i / n) + g.normal(0.0, 5.0, n)
    raise ValueError(shape)


def _s_x(mode, n, g):
    i = np.arange(n, dtype=float)
    if mode == "unit":
        return i
    if mode == "steps":
        return np.concatenate([[0.0], np.cumsum(g.choice([0.5, 1.0, 1.5, 3.0], n - 1))])
    if mode == "milli":
        return 7.25 + i * 1e-3
    if mode == "jit":
        return i + g.uniform(-0.3, 0.3, n)
    raise ValueError(mode)


def _pick_pos(n, rng, avoid=()):
    """an interior index: next to a seam half of the time, odd otherwise (not on an even stride)"""
    for _ in range(64):
        sm = _seams(n)
        k = rng.choice(sm) if (sm and rng.random() < 0.5) else (rng.randrange(1, n - 1) | 1)
        if 1 <= k < n - 1 and k not in avoid:
            return k
    return next(k for k in range(1, n - 1) if k not in avoid)


def _s_markers(rec, n, rng, pool=None):
    """(kind-specific call arguments) markers among `pool` (all indices when None)"""
    sm = [k for k in _seams(n) if rng.random() < 0.5]
    if rec["fn"] == "reduced":
        r = min(rng.choice([3, 8, 40, 200, 1000]), max(3, n // 4))
        if pool is None:
            inner = set(rng.sample(range(1, n - 1), r - 2)) | set(sm)
        else:
            p = rng.choice([0.2, 0.5, 1.0])
            inner = {k for k in pool if 0 < k < n - 1 and rng.random() < p}
        red = [0] + sorted(inner) + [n - 1]
        kpos = sorted(rng.sample(range(len(red)), rng.randint(0, min(len(red), 60))))
        if rng.random() < 0.5:
            kpos = sorted(set(kpos) | {len(red) - 1 - rng.randrange(0, min(3, len(red)))})
        return {"reduced": red, "kpos": kpos}
    if pool is None:
        k = min(rng.choice([1, 3, 12, 80, 300]), n // 4)
        knees = set(rng.sample(range(n), k)) | set(rng.sample(sm, min(len(sm), 3)))
    else:
        p = rng.choice([0.1, 0.4, 1.0])
        knees = {k for k in pool if rng.random() < p} or {pool[len(pool) // 2]}
    return {"knees": sorted(knees)}


def _s_runs(rec, n, rng, x, y):
    """Layout of the `runs` family.  The recipe lists units {L, s, f, B, off, pad, fs}: c filler markers (index stride fs)
    bring the array of markers the function walks (the knees of add_points_even_knees, the retained points of
    add_points_even) to the ordinal at which a RUN of L markers (index stride s) starts, such that the first marker AFTER the
    run has an ordinal = off (mod B); the run spans less than 2*tx on the x axis and the gap that follows it at once is
    f * 2*tx wide (so it receives ceil(f) .. points) and, for most draws of ty, taller than ty.  The layout is made in index
    units of D (the index distance that 2*tx stands for); tx and ty are then derived from the actual abscissae / ordinates
    of the runs and gaps, so that the runs ARE narrow and the gaps ARE wide whatever the abscissa layout.  Units that do not
    fit into n are simplified (filler stride, padding blocks, run stride, number of units, then B and L halved)."""
    units = [dict(u) for u in rec["units"]]
    first = 1 if rec["fn"] == "reduced" else 0           # ordinal of the first free slot (retained point 0 is index 0)
    room = n - 4

    def fixed(us):
        cnt, tot = first, 0
        for u in us:
            u["c"] = (u["off"] - cnt - u["L"]) % u["B"] + u["B"] * u["pad"]
            tot += u["c"] * u["fs"] + (u["L"] - 1) * u["s"]
            cnt += u["c"] + u["L"]
        return tot

    def dmin(us):
        return max((u["L"] - 1) * u["s"] for u in us) / 0.8 + 2.0

    def need(us, D):
        return fixed(us) + sum(int(math.ceil(u["f"] * D)) + 1 for u in us) + 2

    while need(units, dmin(units)) > room:
        if any(u["fs"] > 1 for u in units):
            for u in units:
                u["fs"] = 1
        elif any(u["pad"] > 0 for u in units):
            for u in units:
                u["pad"] = 0
        elif any(u["s"] > 1 for u in units):
            for u in units:
                u["s"] = 1
        elif len(units) > 1:
            units.pop()
        elif units[0]["B"] > units[0]["L"]:
            units[0]["B"] //= 2
            units[0]["off"] %= units[0]["B"]
        elif units[0]["L"] > 4:
            units[0]["L"] //= 2
        else:
            raise AssertionError("runs layout does not fit into %d points" % n)
    d0 = dmin(units)
    fx = fixed(units)
    d1 = max(d0, (room - fx - 2 - len(units)) / (sum(u["f"] for u in units) + 0.05 * len(units) + rec["lead"]))
    D = d0 * (d1 / d0) ** (rng.random() ** 2)
    while need(units, D) + int(rec["lead"] * D) > room and D > d0:
        D = max(d0, D * 0.97)
    lead = 1 + (int(rec["lead"] * D) if need(units, D) + int(rec["lead"] * D) <= room else 0)
    marks, probes, pos = [], [], lead
    for j, u in enumerate(units):
        marks += [pos + k * u["fs"] for k in range(u["c"])]
        pos += u["c"] * u["fs"]
        run = [pos + k * u["s"] for k in range(u["L"])]
        marks += run
        nxt = run[-1] + int(math.ceil(u["f"] * D)) + 1
        if j == len(units) - 1 and rec["tail"]:
            nxt = n - 1                                  # the last run is followed by the curve's end point
        assert nxt <= n - 1
        probes.append({"run": [run[0], run[-1]], "gap": [run[-1], nxt], "L": u["L"], "end_ordinal": first + len(marks)})
        pos = nxt
    if pos < n - 1:
        marks.append(pos)                                # the marker that closes the last gap, then a few sparse ones
        for _ in range(rec["sparse"]):
            pos += 1 + int(rng.uniform(0.3, 3.0) * D)
            if pos >= n - 1:
                break
            marks.append(pos)
    assert all(0 < k < n - 1 for k in marks) and all(a < b for a, b in zip(marks[:-1], marks[1:]))
    # thresholds from the actual coordinates: every run narrower than 2*tx, every gap after a run wider (if possible)
    dxr, dyr = float(x.max() - x.min()), float(y.max() - y.min())
    lo = max((x[p["run"][1]] - x[p["run"][0]]) / dxr for p in probes)
    hi = min((x[p["gap"][1]] - x[p["gap"][0]]) / dxr for p in probes)
    two = D / (n - 1.0)
    if not (lo * 1.01 < two < hi * 0.99):
        two = 0.5 * (lo + hi) if lo * 1.01 < hi * 0.99 else hi * 0.97
    hs = sorted(h for h in (abs(float(y[p["gap"][1]] - y[p["gap"][0]])) / dyr for p in probes) if h > 0)
    if not hs:
        ty = 0.0005
    else:
        ty = min(hs[0] * rec["tyf"], hs[-1] * 0.9)       # tyf > 1: the least tall of these gaps are not candidates
    if rec["fn"] == "reduced":
        red = [0] + marks + [n - 1]
        args = {"reduced": red, "kpos": sorted(rng.sample(range(len(red)), rng.choice([0, 5, 60, len(red) // 3])))}
    else:
        args = {"knees": marks}
    args.update({"_tx": float(two) / 2.0, "_ty": float(ty), "_probes": probes, "_units": units})
    return args


def _s_build(rec):
    """recipe -> (P float64 (n, 2), call arguments, exact: all decisions are exact in binary64)"""
    n, fam = rec["n"], rec["fam"]
    rng = random.Random(rec["seed"])
    g = np.random.default_rng(rec["seed"])
    if fam == "float":
        y = np.array(_s_shape(rec["shape"], n, rng, g), dtype=float)
        x = _s_x(rec["xmode"], n, g)
        if rec["iso"]:                       # both y extremes are single isolated points
            lo, hi = float(y.min()), float(y.max())
            p = _pick_pos(n, rng)
            q = _pick_pos(n, rng, avoid=(p,))
            y[p] = hi + (hi - lo) * rng.choice([0.25, 1.0])
            y[q] = lo - (hi - lo) * rng.choice([0.25, 1.0])
        args = _s_markers(rec, n, rng)
        exact = False
    elif fam == "dyadic":
        # integer x with range 2^K, 65 forced abscissae at the multiples of 2^(K-6); integer y with range 2^L, multiples of
        # 2^(L-6) at the forced points; markers on forced points and dyadic thresholds: widths, heights and the ceil
        # argument are dyadic rationals with few bits - binary64 evaluates them exactly, ties included
        K = max(8, (n - 2).bit_length()) + rng.choice([0, 0, 1])
        step = 1 << (K - 6)
        forced = np.arange(0, (1 << K) + 1, step)
        others = np.setdiff1d(np.arange((1 << K) + 1), forced)
        x = np.sort(np.concatenate([forced, g.choice(others, n - len(forced), replace=False)])).astype(float)
        fpos = [int(v) for v in np.searchsorted(x, forced)]
        L = rng.choice([6, 8, 10])
        unit = 1 << (L - 6)
        top = 1 << L
        y = np.floor((1.0 - x / (1 << K)) * top)
        if L >= 8:
            y = y + g.integers(-2, 3, n)
        y = np.clip(y, 1, top - 1)
        for j, k in enumerate(fpos):
            y[k] = min(max((64 - j + rng.choice([-1, 0, 0, 1])) * unit, unit), top - unit)
        fset = set(fpos)
        imax = 0 if rng.random() < 0.5 else _pick_pos(n, rng, avoid=fset)
        imin = n - 1 if rng.random() < 0.5 else _pick_pos(n, rng, avoid=fset | {imax})
        y[imax], y[imin] = top, 0
        args = _s_markers(rec, n, rng, pool=fpos)
        exact = True
    elif fam == "runs":                      # many knees: dense runs, each followed immediately by a wide, tall gap
        y = np.array(_s_shape(rec["shape"], n, rng, g), dtype=float)
        x = _s_x(rec["xmode"], n, g)
        args = _s_runs(rec, n, rng, x, y)
        exact = False
    else:                                    # dense: thousands of markers / knees / inserted points
        y = np.array(_s_shape(rec["shape"], n, rng, g), dtype=float)
        x = _s_x(rec["xmode"], n, g)
        big = rec["big"]
        if rec["mode"] == "markers":         # many retained points or many marker knees
            inner = sorted(rng.sample(range(1, n - 1), big))
            if rec["fn"] == "reduced":
                red = [0] + inner + [n - 1]
                args = {"reduced": red, "kpos": sorted(rng.sample(range(len(red)), rng.choice([5, len(red) // 3])))}
            else:
                args = {"knees": inner}
        else:                                # one long gap receiving `big` (about) inserted points
            cut = sorted(rng.sample(range(1, n - 1), 2))
            if rec["fn"] == "reduced":
                args = {"reduced": [0] + cut + [n - 1], "kpos": [0, 2]}
            else:
                args = {"knees": cut}
        exact = False
    assert np.all(np.diff(x) > 0) and np.ptp(y) > 0          # the property's domain
    return np.ascontiguousarray(np.column_stack([x, y])), args, exact


def _exact_sparse(P, markers, tx, ty, exact):
    """_exact_tables without the O(n) rational tables: only the marker points are converted.  exact=True (dyadic family):
    nothing is ambiguous as long as the binary64 evaluation of every decision equals its rational value (checked)."""
    xs, ys = P[:, 0], P[:, 1]
    dx = Fraction(float(xs.max())) - Fraction(float(xs.min()))
    dy = Fraction(float(ys.max())) - Fraction(float(ys.min()))
    fdx, fdy = float(dx), float(dy)
    ftx, fty = Fraction(float(tx)), Fraction(float(ty))
    X = {k: Fraction(float(xs[k])) for k in set(markers)}
    Y = {k: Fraction(float(ys[k])) for k in set(markers)}
    gaps, amb, ties = [], False, 0
    for a, b in zip(markers[:-1], markers[1:]):
        W = abs(X[b] - X[a]) / dx
        Hh = abs(Y[b] - Y[a]) / dy
        wide, high = W > 2 * ftx, Hh > fty
        m = 0
        if exact:
            ties += int(W == 2 * ftx) + int(Hh == fty) + int(wide and (W / (2 * ftx)).denominator == 1)
            pdx = math.fabs(float(xs[b]) - float(xs[a])) / fdx
            pdy = math.fabs(float(ys[b]) - float(ys[a])) / fdy
            if Fraction(fdx) != dx or Fraction(fdy) != dy or Fraction(pdx) != W or Fraction(pdy) != Hh:
                amb = True
            if wide:
                r = W / (2 * ftx)
                m = int(math.ceil(r))
                if Fraction(pdx / (2.0 * tx)) != r:
                    amb = True
        else:
            if abs(float(W) - 2.0 * tx) <= 1e-12 or abs(float(Hh) - ty) <= 1e-12:
                amb = True
            if wide:
                r = W / (2 * ftx)
                m = int(math.ceil(r))
                if abs(float(r) - round(float(r))) <= 1e-9:
                    amb = True
        gaps.append([int(a), int(b), bool(wide), bool(high), int(m)])
    return gaps, amb, ties


def _s_call(kind, P, args, tx, ty, ext):
    n = len(P)
    return monitor.call(_call, (kind, P, args, tx, ty, ext), budget=monitor.quad(n, 8), wall=300)


def _s_record(rec):
    """recipe -> (sparse case for Trace_EvenScale, summary for the evidence)"""
    P, args, exact = _s_build(rec)
    probes = args.pop("_probes", [])
    units = args.pop("_units", [])
    # the runs family derives its thresholds from the layout it built (they are reported in the summary / the violation)
    n, kind, tx, ty, ext = len(P), rec["fn"], args.pop("_tx", rec.get("tx")), args.pop("_ty", rec.get("ty")), bool(rec["extremes"])
    if kind == "reduced":
        markers = list(args["reduced"])
        kmap = [markers[p] for p in args["kpos"]]
    else:
        markers = [0] + list(args["knees"]) + [n - 1]
        kmap = list(args["knees"])
    gaps, amb, ties = _exact_sparse(P, markers, tx, ty, exact)
    Q = P.astype(np.int64) if rec.get("dtype") == "int64" else P
    outcome, val, _ = _s_call(kind, Q, args, tx, ty, ext)
    out, raised = [], ""
    if outcome == "returned":
        out = val
    else:
        raised = "%s: %s" % (_fn(kind), outcome.split(":", 1)[-1])
    union = set(kmap)
    for a, b, w, h, m in gaps:
        if w and h:
            inc = (b - a) // m
            union.update(a + j * inc for j in range(1, m + 1))
    if ext:
        union |= {0, n - 1}
    idx = sorted(union | {k for k in out if 0 <= k < n})
    yv = P[idx, 1] if idx else np.zeros(0)
    hr = [int(v) for v in np.searchsorted(np.unique(yv), yv)]          # exact dense ranks among the mentioned points
    cand = sum(1 for g in gaps if g[2] and g[3])
    c = {"id": rec["id"], "kind": "c14s", "n": n, "gaps": [g for g in gaps if g[2] or g[3]], "kmap": kmap,
         "extremes": ext, "idx": idx, "hr": hr, "raised": raised, "out": out}
    info = {"ambiguous": amb, "candidates": cand, "markers": len(markers), "union": len(union), "returned": len(out),
            "inserted": sum(g[4] for g in gaps if g[2] and g[3]), "past_int16": sum(1 for k in union if k > 32767), "ties": ties}
    if rec["fam"] == "runs":
        # a probe = a run of L markers inside an x-span below 2*tx whose very next gap is a candidate (wider than 2*tx and
        # taller than ty); `hit`: at least one of its ceil(w/(2 tx)) even points is strictly inside the gap and is in the
        # returned array, i.e. losing the gap's points would change the result of this call
        gd = {(g[0], g[1]): g for g in gaps}
        outs = set(out)
        ftx = Fraction(float(tx))
        xr = Fraction(float(P[:, 0].max())) - Fraction(float(P[:, 0].min()))
        pr = []
        for p in probes:
            a, b = p["gap"]
            g = gd[(a, b)]
            narrow = (Fraction(float(P[p["run"][1], 0])) - Fraction(float(P[p["run"][0], 0]))) / xr < 2 * ftx
            pts = [a + j * ((b - a) // g[4]) for j in range(1, g[4] + 1)] if (g[2] and g[3]) else []
            pr.append({"L": p["L"], "end_ordinal": p["end_ordinal"], "narrow_run": bool(narrow), "candidate": bool(g[2] and g[3]),
                       "m": g[4], "hit": any(a < k < b and k in outs for k in pts)})
        info.update({"tx": tx, "ty": ty, "probes": pr, "units": units})
    return c, info


S_STATIC = {"kind": "c14s", "n": 100001, "raised": "", "extremes": True, "kmap": [20000],
            # markers 0 - 20000 - 80000 - 100000: (20000, 80000) wide and high with m = 3 -> inc 20000 -> 40000, 60000, 80000
            "gaps": [[0, 20000, True, False, 1], [20000, 80000, True, True, 3], [80000, 100000, False, True, 0]],
            "idx": [0, 20000, 40000, 60000, 80000, 100000], "hr": [4, 3, 2, 3, 1, 1],
            # index 60000 (rank 3 > 2) is dropped, the tie at 100000 is kept
            "out": [0, 20000, 40000, 80000, 100000]}


def _s_selftests():
    c = S_STATIC
    return [(c, "ok"),
            (dict(c, out=[0, 20000, 40000, 60000, 80000, 100000]), "height-filtered"),
            (dict(c, out=[0, 20000, 80000, 100000]), "equals-documented-set"),
            (dict(c, out=[0, 20000, 40000, 80000]), "extremes-included"),
            (dict(c, out=[-32768, 0, 20000, 40000, 80000]), "valid-indices"),
            (dict(c, out=[0, 20000, 40000, 80000, 100001]), "valid-indices"),
            (dict(c, out=[0, 40000, 20000, 80000, 100000]), "valid-indices"),
            (dict(c, idx=c["idx"][:-1], hr=c["hr"][:-1]), "TABLE"),
            (dict(c, raised="add_points_even: budget"), "completes")]


def _s_recipes(ctx):
    rng = ctx.rng
    q = ctx.quick
    ns = set(scale.sizes(ctx, lo=256, hi=110000, k_quick=6, k_thorough=14))
    ns |= {t for t in scale.THRESHOLDS} | {t + 1 for t in scale.THRESHOLDS} | {50000}
    if not q:
        ns |= {t - 1 for t in scale.THRESHOLDS} | {3 * t // 2 + rng.randrange(0, 9) for t in scale.THRESHOLDS if 3 * t // 2 < 110000}
    ns = sorted(ns)
    recs = []

    def add(base, exts=(False, True)):
        for ext in exts:
            recs.append(dict(base, id="s%d" % len(recs), extremes=ext))

    for n in ns:
        for _ in range(3 if q else 10):
            add({"fam": "float", "n": n, "seed": rng.randrange(1 << 30), "shape": rng.choice(S_SHAPES),
                 "xmode": rng.choice(S_XMODES), "iso": rng.random() < 0.5, "fn": rng.choice(["reduced", "markers"]),
                 "tx": rng.choice(S_TX), "ty": rng.choice(S_TY)})
        for _ in range(2 if q else 6):
            add({"fam": "dyadic", "n": n, "seed": rng.randrange(1 << 30), "fn": rng.choice(["reduced", "markers"]),
                 "tx": 2.0 ** -rng.choice([4, 5, 6, 7, 8]), "ty": 2.0 ** -rng.choice([2, 3, 4, 5, 6]),
                 "dtype": rng.choice(["float64", "float64", "int64"])})
    # dense: every (mode, function, magnitude) combination once, on a random admissible size, plus a few free draws
    bigs = [300, 1200, 4200] if q else [300, 1200, 4200, 9000, 17000]
    combos = [(mode, fn, big) for mode in ("markers", "gap") for fn in ("reduced", "markers") for big in bigs]
    combos += [(rng.choice(["markers", "gap"]), rng.choice(["reduced", "markers"]), rng.choice(bigs)) for _ in range(4 if q else 12)]
    for mode, fn, big in combos:
        n = rng.choice([v for v in ns if v // 3 >= big + 40])
        big += rng.randrange(0, 40)
        # markers: mean normalised gap width 1/big, tx such that the mean ceil argument is 1/u; gap: about `big` points
        u = rng.uniform(0.25, 1.3)
        add({"fam": "dense", "n": n, "seed": rng.randrange(1 << 30), "shape": rng.choice(["decay", "decay", "noisy", "mrc"]),
             "xmode": rng.choice(["unit", "steps"]), "mode": mode, "big": big, "fn": fn,
             "tx": (u / (2.0 * big)) if mode == "markers" else 1.0 / (2.0 * big * rng.uniform(1.0, 1.5)),
             "ty": (0.2 / big) if mode == "markers" else rng.choice([0.01, 0.0005])}, exts=(rng.random() < 0.5,))
    # runs: many knees with dense runs followed at once by a wide, tall gap.  Every (function, block size B) combination
    # once with a run of L >= B markers that ends exactly on a multiple of B (the first marker after the gap has an ordinal
    # = 0 mod B), accompanied by free units (run lengths 64 / 128 / 256 / 1024 / ragged, ends on, next to and off the
    # multiples of 64 / 128 / 256 / 1024), plus free draws
    def unit(B=None):
        if B is not None:
            L = rng.choice([v for v in (128, 256, 1024, B + rng.randrange(1, 200), 2 * B) if v >= B])
            off = 0
        else:
            B = rng.choice([64, 128, 256, 1024])
            L = rng.choice([64, 128, 256, 1024, rng.randrange(65, 1500)])
            off = rng.choice([0, 0, 1, B - 1, rng.randrange(B)])
        return {"L": L, "s": rng.choice([1, 1, 2, 3]), "f": round(rng.uniform(1.05, 4.6), 3), "B": B, "off": off,
                "pad": rng.choice([0, 0, 1, 2]), "fs": rng.choice([1, 1, 2, 4, 9])}

    rcombos = [(fn, B) for fn in ("markers", "reduced") for B in (64, 128, 256, 1024)] * (1 if q else 3)
    rcombos += [(rng.choice(["markers", "markers", "reduced"]), None) for _ in range(4 if q else 16)]
    for fn, B in rcombos:
        units = [unit(B)] + [unit() for _ in range(rng.choice([0, 1, 2, 3]))]
        if len(units) > 1 and rng.random() < 0.5:
            units[0], units[1] = units[1], units[0]
        if sum(u["L"] for u in units) < 140:
            units[0]["pad"] = max(units[0]["pad"], 2)       # at least 129 markers
        dm = max(u["L"] * u["s"] for u in units) / 0.8
        want = sum(u["L"] * u["s"] + u["f"] * dm + u["B"] * (1 + u["pad"]) * u["fs"] for u in units) + 3 * dm + 100
        n = rng.choice([v for v in ns if v >= 1.15 * want] or [ns[-1]])
        add({"fam": "runs", "n": n, "seed": rng.randrange(1 << 30),
             "shape": rng.choice(["decay", "decay", "noisy", "mrc"] + (["stair", "valley"] if B is None else [])),
             "xmode": rng.choice(S_XMODES), "fn": fn, "units": units, "lead": rng.choice([0.0, 0.3, 1.5]),
             "tail": rng.random() < 0.25, "sparse": rng.choice([0, 1, 3, 8]),
             "tyf": rng.choice([0.5, 0.9, 0.9] + ([1.2] if B is None else []))},
            exts=(rng.random() < 0.5,))
    return ns, recs


def _scale_family(ctx, seen):
    ns, recs = _s_recipes(ctx)
    res = par.pmap(_s_record, recs, chunksize=1)
    meta = {r["id"]: r for r in recs}
    judged = [c for (c, inf) in res if not inf["ambiguous"]]
    # the JSON of one TLC run stays below about 3 MB: dense cases (long unions) travel in their own, smaller, chunks
    size = {c["id"]: len(json.dumps(c)) for c in judged}
    dense = [c for c in judged if meta[c["id"]]["fam"] == "dense"]
    runs = [c for c in judged if meta[c["id"]]["fam"] == "runs"]
    rej = ctx.trace("Trace_EvenScale", [c for c in judged if meta[c["id"]]["fam"] not in ("dense", "runs")],
                    selftest=_s_selftests(), chunk=150)
    if dense:
        rej.update(ctx.trace("Trace_EvenScale", dense, chunk=max(2, 3000000 // max(size[c["id"]] for c in dense))))
    if runs:
        rej.update(ctx.trace("Trace_EvenScale", runs, chunk=max(2, min(8, 3000000 // max(size[c["id"]] for c in runs)))))
    by = {}
    for (c, inf), r in zip(res, recs):
        ctx.count(("S", r), (not inf["ambiguous"]) and inf["candidates"] > 0
                  and (r["fam"] != "runs" or any(p["hit"] and p["narrow_run"] for p in inf["probes"])))
        k = by.setdefault(r["fam"], {"cases": 0, "ambiguous_not_judged": 0, "with_candidates": 0, "max_markers": 0,
                                     "max_inserted": 0, "max_union": 0, "max_returned": 0, "with_index_past_32767": 0,
                                     "exact_ties_decided": 0})
        k["cases"] += 1
        k["ambiguous_not_judged"] += int(inf["ambiguous"])
        k["with_candidates"] += int(inf["candidates"] > 0)
        k["with_index_past_32767"] += int(inf["past_int16"] > 0)
        k["exact_ties_decided"] += 0 if inf["ambiguous"] else inf["ties"]
        for a, b in (("max_markers", "markers"), ("max_inserted", "inserted"), ("max_union", "union"), ("max_returned", "returned")):
            k[a] = max(k[a], inf[b])
    infos = {r["id"]: inf for (c, inf), r in zip(res, recs)}
    for cid, vs in rej.items():
        r = meta[cid]
        for v in vs:
            if v[0] == "TABLE":
                raise tlc.TLCFailure("Trace_EvenScale: sparse table of case %s is inconsistent: %s (recipe %r)" % (cid, v, r))
            d = {"f": _fn(r["fn"]), "n": r["n"], "family": r["fam"], "verdict": v}
            if r["fam"] == "runs":
                d.update({k: infos[cid][k] for k in ("tx", "ty", "markers", "probes")})
            _report(ctx, seen, "S/%s/%s/%s" % (v[0], r["fn"], r["extremes"]), v[0], {"kind": "S", "recipe": r}, d)
    # what the runs family probed: runs by length class, by the block sizes their end falls on, per function
    rp = {}
    for (c, inf), r in zip(res, recs):
        if r["fam"] != "runs" or inf["ambiguous"]:
            continue
        k = rp.setdefault(_fn(r["fn"]), {"calls": 0, "max_markers": 0, "min_markers": 10 ** 9, "runs": 0, "probes": 0,
                                         "probes_hit": 0, "hit_by_run_length": {}, "hit_with_end_on_multiple_of": {},
                                         "hit_with_end_off_every_multiple_of_64": 0})
        k["calls"] += 1
        k["max_markers"] = max(k["max_markers"], inf["markers"])
        k["min_markers"] = min(k["min_markers"], inf["markers"])
        for p in inf["probes"]:
            k["runs"] += 1
            if not (p["narrow_run"] and p["candidate"]):
                continue
            k["probes"] += 1
            if not p["hit"]:
                continue
            k["probes_hit"] += 1
            cl = "64..127" if p["L"] < 128 else "128..255" if p["L"] < 256 else "256..1023" if p["L"] < 1024 else ">=1024"
            k["hit_by_run_length"][cl] = k["hit_by_run_length"].get(cl, 0) + 1
            on = [b for b in (64, 128, 256, 1024) if p["end_ordinal"] % b == 0]
            for b in on:
                k["hit_with_end_on_multiple_of"][str(b)] = k["hit_with_end_on_multiple_of"].get(str(b), 0) + 1
            k["hit_with_end_off_every_multiple_of_64"] += int(not on)
    ctx.extra["scale_runs"] = rp
    if not any(k["probes_hit"] for k in rp.values()):
        ctx.note("scale family, runs: no dense run followed by a candidate gap whose points survive the height filter in this run")
    ctx.extra["scale"] = {"sizes": ns, "cases": len(recs), "by_family": by, "json_bytes_to_tlc": sum(size.values()),
                          "largest_case_json_bytes": max(size.values())}
    ctx.note("scale family: %d calls on curves of %d sizes from %d to %d points (float / dyadic-tie / dense / runs families, both "
             "functions, both extremes settings), judged by Trace_EvenScale on sparse tables" % (len(recs), len(ns), ns[0], ns[-1]))
    pick = next(((c, inf, r) for (c, inf), r in zip(res, recs)
                 if r["fam"] == "float" and r["n"] > 32768 and 2 <= inf["candidates"] and inf["returned"] < inf["union"] <= 40
                 and not inf["ambiguous"]), None)
    if pick is not None:
        c, inf, r = pick
        ctx.sample({"binding": "S", "recipe": r, "case": c, "summary": inf})


def run(ctx):
    ctx.rule = ("G: unit-spaced curves with n-1 = 8, heights 0..4 (12 fixed profiles: staircases, plateaus, tent, zigzag, "
                "noisy, increasing), every reduction with <= 5 retained points x every subset of knee positions "
                "(add_points_even) and every knee set of 1..4 original indices (add_points_even_knees), "
                "tx in {1/16,1/8,1/4} x ty in {1/8,1/4,1/2} x extremes in {False, True}%s; the enumerated space is exhaustive "
                "relative to the listed height profiles.  T: random / MRC-like / bundled-trace curves, random reductions, "
                "knees and thresholds.  non-trivial: at least one candidate segment, or the height filter drops an index"
                % ("" if ctx.quick else "; thorough adds n-1 = 16 (6 profiles, <= 4 retained points, <= 3 marker knees) and all "
                                        "140 monotone unit staircases on the 8-grid (<= 3 retained points, <= 2 marker knees)"))
    ctx.rule += ("  S (scale): curves of 2^8 .. 1.1*10^5 points (every size threshold 2^8, 2^10, 2^12, 10^4, 2^14, 2^15, 2^16, 10^5 "
                 "itself, +1 and seed-dependent ragged sizes above it) in three families - float (8 shapes x 4 abscissa layouts, "
                 "optionally isolated y extremes, random retained points / knees incl. indices next to the thresholds), dyadic "
                 "(integer abscissae and ordinates with power-of-two ranges, markers and thresholds on dyadic values so that "
                 "exact ties W = 2tx, H = ty, integral W/(2tx) are decided, float64 / int64) and dense (hundreds to tens of "
                 "thousands of retained points, marker knees or inserted points) - x both functions x extremes in {False, True}, "
                 "each call judged for completes / valid-indices / equals-documented-set / extremes-included / height-filtered "
                 "by Trace_EvenScale on sparse tables.  The scale family also has a `runs` layout for both functions: 129 .. several "
                 "thousand knees / retained points on decreasing curves (5 abscissa layouts) holding dense runs of 64, 128, 256, 1024 "
                 "or a ragged number of consecutive markers (index stride 1..3) inside an x-span below 2*tx, each followed at once by a "
                 "gap 1.05 .. 4.6 times 2*tx wide (or by the curve end) that is taller than ty for most draws, filler markers placing "
                 "every run so that it ends on (every function x block size 64 / 128 / 256 / 1024 at least once per run), next to "
                 "and off the multiples of those block sizes; tx and ty are derived from the layout, every such gap must receive its "
                 "ceil(w/(2tx)) even points (same clauses, same judge).")
    ctx.rule += ("  N (narrow dtype AND near-tie): curves of 5 .. 161 points stored as float32 / float16 with abscissae off + i*s "
                 "(s in {0.0125, 0.01, 0.02, 0.025, 0.05, 0.1}, range 0.5 .. 4, offsets 0, 0.5, +-1, 2) and ordinates on decimal levels "
                 "k*u (knee / non-increasing levels / bumpy / rising shapes, offsets 0, 0.5, 1), retained points / knees mostly on "
                 "abscissae that are decimal multiples of 2*tx, tx in {0.01 .. 0.2} x ty in {0.01 .. 0.25} x both functions x extremes "
                 "in {False, True}: widths and heights within one unit in the last place of the NARROW type of a multiple of 2*tx / of "
                 "ty, judged like T (Trace_Filters) against the exact rational rule on the stored values.")
    ctx.assumptions += [
        "N: classes and counts over exact rationals of the stored float32 / float16 values and of the Python floats tx, ty; the "
        "unchanged code subtracts two stored values in the curve's type before continuing in binary64, so a gap whose "
        "subtraction (or the range's) is inexact in that type is flagged ambiguous within 2 eps(type) relative of a threshold / "
        "an integer, every other gap by T's binary64 rule (1e-12 / 1e-9); calls run under monitor.call, budget monitor.quad(n, 8)",
        "G domain: dyadic grids - |dx|/range, 2*tx and their quotient are exact in binary64; |dy|/range is one correctly "
        "rounded division of small integers compared with a dyadic ty, which decides like the rational",
        "removed = rdp.compute_removed_points(points, reduced); knees of add_points_even are positions in the reduced curve",
        "add_points_even_knees is driven with non-empty ascending knee lists (the code reads knees[0] and knees[-1])",
        "T: widths/heights/ceil arguments are computed over exact rationals of the float inputs; a call is flagged ambiguous "
        "(not judged) when W is within 1e-12 of 2*tx, H within 1e-12 of ty, or W/(2*tx) within 1e-9 of an integer; "
        "heights are compared exactly (dense ranks without noise merging)",
        "S: the same exact-rational classes, computed for the marker pairs only; the ambiguity rule of T applies to the float "
        "and dense families; the dyadic family is judged on ties too, a call being set aside only if some binary64 "
        "intermediate (range, normalised width / height, ceil argument) differs from its rational value (never observed); "
        "height ranks are exact dense ranks among the indices a case mentions (documented union and returned indices); "
        "calls run under monitor.call with a back-edge budget of monitor.quad(n, 8) and 300 s of CPU",
        "S runs: thresholds are derived from the built layout (2*tx strictly between the widest run span and the narrowest "
        "gap that follows a run, ty a fraction of the smallest / median height of those gaps) and are subject to the same "
        "ambiguity rule; a probe counts in the evidence only when its run is narrower than 2*tx over exact rationals, its gap "
        "is a candidate and at least one of the gap's even points survives the height filter in the returned array"]
    ctx.mc("Gen_EvenPoints", "MC_EvenPoints", need_actions=("Compute", "EmitCase"))
    beh = ctx.gen("Gen_EvenPoints", "Gen_EvenPoints_quick" if ctx.quick else "Gen_EvenPoints_thorough",
                  workers=16, timeout=3000)
    beh.sort(key=lambda b: (b["case"]["kind"], b["case"]["pts"], b["case"].get("reduced", b["case"].get("knees")),
                            b["case"].get("kpos", [])))
    if 3 * len(beh) != ctx.tlc_runs[-1]["distinct_states"]:      # 16 workers print concurrently: nothing may be lost
        raise tlc.TLCFailure("generator output incomplete: %d cases parsed, TLC found %d states"
                             % (len(beh), ctx.tlc_runs[-1]["distinct_states"]))
    ctx.exhaustive = True
    res = par.pmap(_replay_line, beh)
    seen = {}
    for b, bad in zip(beh, res):
        case = b["case"]
        badj = {j: (cl, d) for j, cl, d in bad}
        for j, combo in enumerate(b["combos"]):
            nt = len(combo["segs"]) > 0 or len(combo["exp"]) < len(combo["union"])
            ctx.count(("G", case, combo["tx"], combo["ty"], combo["extremes"]), nt)
            if j in badj:
                cl, d = badj[j]
                _report(ctx, seen, "G/%s/%s/%s" % (cl, case["kind"], combo["extremes"]), cl,
                        {"kind": "G", "case": case, "combo": combo}, d)
    ctx.traces += sum(len(b["combos"]) for b in beh)
    want = lambda c: len(c["segs"]) > 1 and len(c["exp"]) < len(c["union"])
    s = next((b for b in beh if b["case"]["kind"] == "reduced" and len(b["case"]["reduced"]) == 4 and b["case"]["kpos"]
              and any(want(c) for c in b["combos"])), None)
    if s is not None:
        ctx.sample({"binding": "G", "case": s["case"], "combo": next(c for c in s["combos"] if want(c))})
    # ---- T
    items = _t_inputs(ctx)
    cases = par.pmap(_record, items)
    meta = {it[0]: it for it in items}
    judged = [c for c in cases if not c["ambiguous"]]
    ctx.extra["ambiguous_calls_not_judged"] = len(cases) - len(judged)
    rej = ctx.trace("Trace_Filters", judged, selftest=_selftests(), chunk=1500)
    for c in cases:
        nt = (not c["ambiguous"]) and any(g[2] and g[3] for g in c["gaps"])
        ctx.count(("T", meta[c["id"]][1:]), nt)
    for cid, vs in rej.items():
        _, kind, pts, case, tx, ty, ext = meta[cid]
        for v in vs:
            _report(ctx, seen, "T/%s/%s/%s" % (v[0], kind, ext), v[0],
                    {"kind": "T", "fn": kind, "points": pts, "args": case, "tx": tx, "ty": ty, "extremes": ext},
                    {"f": _fn(kind), "verdict": v})
    big = max(judged, key=lambda c: sum(1 for g in c["gaps"] if g[2] and g[3]) if c["n"] <= 14 else -1)
    m = meta[big["id"]]
    ctx.sample({"binding": "T", "call": {"fn": _fn(m[1]), "points": m[2], "args": m[3], "tx": m[4], "ty": m[5],
                                         "extremes": m[6]}, "case": big})
    # ---- N
    _narrow_family(ctx, seen)
    # ---- S
    _scale_family(ctx, seen)
    ctx.extra["violating_cases_by_clause"] = dict(seen)


def replay(ctx, obj):
    case = obj["case"]
    if case["kind"] == "G":
        r = _check_combo(case["case"], case["combo"])
        if r is not None:
            ctx.violation(r[0], case, r[1])
    elif case["kind"] == "N":
        r = dict(case["recipe"], id="replay")
        c = _n_record(r)
        if c is None or c["ambiguous"]:
            print("replay: call is outside the domain or within rounding noise of a threshold (not judged)")
            return
        c.pop("sensitive")
        rej = ctx.trace("Trace_Filters", [c])
        for cid, vs in rej.items():
            for v in vs:
                ctx.violation(v[0], case, {"f": _fn(r["fn"]), "n": r["n"], "dtype": r["dtype"], "tx": r["tx"], "ty": r["ty"],
                                           "extremes": r["extremes"], "verdict": v})
    elif case["kind"] == "S":
        r = dict(case["recipe"], id="replay")
        c, inf = _s_record(r)
        if inf["ambiguous"]:
            print("replay: call is within rounding noise of a threshold (ambiguous, not judged)")
            return
        rej = ctx.trace("Trace_EvenScale", [c])
        for cid, vs in rej.items():
            for v in vs:
                if v[0] == "TABLE":
                    raise tlc.TLCFailure("Trace_EvenScale: sparse table of the replayed case is inconsistent: %s" % (v,))
                ctx.violation(v[0], case, {"f": _fn(r["fn"]), "n": r["n"], "family": r["fam"], "verdict": v})
    else:
        c = _record(("replay", case["fn"], case["points"], case["args"], case["tx"], case["ty"], case["extremes"]))
        if c["ambiguous"]:
            print("replay: call is within rounding noise of a threshold (ambiguous, not judged)")
            return
        rej = ctx.trace("Trace_Filters", [c])
        for cid, vs in rej.items():
            for v in vs:
                ctx.violation(v[0], case, {"f": _fn(case["fn"]), "verdict": v})
