"""C12 - cluster filtering keeps one best-ranked knee per cluster.
M: ClusterFilter.tla per-cluster loop for every contiguous labelling, score table and hull pattern (<=4 knees quick,
   5 thorough): result satisfies ClusterProps; negative instance: pick the worst-ranked member.
T: filter_clusters (4 linkages x thresholds x left/linear/right/hull) and filter_clusters_corners on real curves with
   tables from the library's own clustering / ranking / hull primitives, judged by Trace_Cluster."""
import itertools
import math

import numpy as np

from harness import curves, monitor, numeric, par
from harness import enums

LINKAGES = ["single_linkage", "complete_linkage", "centroid_linkage", "average_linkage"]
MODES = ["left", "linear", "right", "hull", "corner"]


def _corr2(x, y):
    if len(x) <= 2:
        return 1.0
    return float(np.corrcoef(x, y)[0, 1]) ** 2.0


def _indep_scores(P, cl, mode):
    """the ranking score the property names, recomputed independently of knee_ranking.smooth_ranking:
    segment fit quality (squared Pearson correlation of the segment from the cluster's first knee to the knee /
    from the knee to the cluster's last knee / their mean) times relative height below the cluster's peak."""
    x, y = P[:, 0], P[:, 1]
    j, last = cl[0], cl[-1]
    peak = max(y[k] for k in cl)
    fit, w = [], []
    for k in cl:
        fl = _corr2(x[j:k + 1], y[j:k + 1])
        fr = _corr2(x[k:last], y[k:last])
        fit.append(fl if mode == "left" else fr if mode == "right" else (fl + fr) / 2.0)
        w.append(abs(peak - y[k]))
    sw = sum(w)
    if sw != 0:
        w = [v / sw for v in w]
    return [f * v for f, v in zip(fit, w)]


def _record(item):
    import kneeliverse.postprocessing as pp
    import kneeliverse.clustering as clustering
    import kneeliverse.knee_ranking as kr
    import kneeliverse.convex_hull as ch
    cid, P, knees, linkage, t, mode = item
    P = np.asarray(P, float)
    Pcall = P.astype(np.int64) if np.all(P == np.floor(P)) and cid.startswith("i") else P     # integer-dtype curve
    knees = np.array(knees, dtype=int)
    link = getattr(clustering, linkage)
    if mode == "corner":
        out, val, _ = monitor.call(pp.filter_clusters_corners, (Pcall, knees, link, t), budget=200000, wall=30)
    else:
        out, val, _ = monitor.call(pp.filter_clusters, (Pcall, knees, link, t, enums.pick(kr.ClusterRanking, mode)), budget=200000, wall=30)
    case = {"id": cid, "mode": mode, "outcome": out, "knees": [int(k) for k in knees], "result": [],
            "lab": [], "score": [], "hullSpan": []}
    meta = {"points": P.tolist(), "knees": case["knees"], "linkage": linkage, "t": t, "mode": mode, "cid": cid}
    if out == "returned":
        case["result"] = [int(v) for v in np.asarray(val).tolist()]
    else:
        meta["error"] = val
    lab = [int(v) for v in link(P[knees], t).tolist()]
    case["lab"] = lab
    ncl = lab[-1] + 1
    score = [-1] * len(knees)
    hullspan = [True] * ncl
    if mode == "hull":
        try:
            hull = set(int(h) for h in ch.graham_scan_lower(P).tolist())
        except Exception:
            hull = None
    for c in range(ncl):
        mem = [j for j in range(len(knees)) if lab[j] == c]
        cl = knees[mem]
        if mode == "hull":
            hullspan[c] = hull is None or any(cl[0] <= h <= cl[-1] for h in hull)
            continue
        if len(mem) == 1:
            score[mem[0]] = 0
            continue
        try:
            if mode == "corner":
                vals = [0.5 * ((P[k][0] - P[k - 1][0]) * (P[k][1] - P[k + 1][1])) for k in cl]
            else:
                vals = _indep_scores(P, [int(k) for k in cl], mode)
                lib = [float(v) for v in kr.smooth_ranking(P, cl, enums.pick(kr.ClusterRanking, mode))]
                if not all(numeric.close(a, b) or (math.isnan(a) and math.isnan(b)) for a, b in zip(vals, lib)):
                    meta["drift"] = "smooth_ranking %s differs from the independent score %s" % (lib, vals)
        except Exception:
            vals = [float("nan")] * len(mem)
        if any(math.isnan(v) or math.isinf(v) for v in vals):
            continue                                   # NaN scores: structural clauses only
        scale = max(max(abs(v) for v in vals), 1e-300)
        rk = numeric.ranks(vals, rel=1e-9, ab=1e-12 * max(scale, 1.0) if mode == "corner" else 1e-12)
        for j, r in zip(mem, rk):
            score[j] = r
    case["score"] = score
    case["hullSpan"] = hullspan
    return case, meta


def inputs(ctx):
    rng = ctx.rng
    items = []
    k = 0
    cs = [curves.random_curve(rng, 8, 80) for _ in range(60 if ctx.quick else 500)]
    cs += [P for P in curves.adversarial() if len(P) >= 8]
    cs += curves.trace_windows(rng, 4 if ctx.quick else 40, 20, 80, names=("web0_reduced.csv", "usr0.csv", "web2.csv"))
    cs += [curves.random_curve(rng, n, n, kind=rng.choice([0, 2, 4])) for n in ([800, 2500] if ctx.quick else [800, 2500, 2500, 6000])]   # long curves
    ints = []
    for _ in range(20 if ctx.quick else 150):       # integer-valued curves, passed to the library as int64 arrays
        n = rng.randint(10, 60)
        x = np.cumsum([rng.randint(1, 3) for _ in range(n)])
        y = np.array(sorted([rng.randint(0, 400) for _ in range(n)], reverse=True))
        for j in rng.sample(range(1, n - 1), min(n - 2, 3)):
            y[j] += rng.randint(1, 15)             # small bumps
        ints.append(curves.mk(x, y))
    for P in cs + ints:
        isint = any(P is q for q in ints)
        n = len(P)
        interior = list(range(1, n - 1))
        subsets = []
        if n <= 10:
            for size in range(2, 6):
                subsets += [list(s) for s in itertools.combinations(interior, size)]
            subsets = rng.sample(subsets, min(len(subsets), 12 if ctx.quick else 60))
        else:
            for _ in range(6 if ctx.quick else 12):
                size = rng.randint(2, min(len(interior), 14 if n <= 200 else 120))
                if rng.random() < 0.5:      # runs of adjacent knees make multi-member clusters
                    start = rng.randint(1, n - 1 - size)
                    subsets.append(list(range(start, start + size)))
                else:
                    subsets.append(sorted(rng.sample(interior, size)))
        for kn in subsets:
            for _ in range(3):
                items.append(("%s%d" % ("i" if isint else "k", k), P.tolist(), kn, rng.choice(LINKAGES), rng.choice([0.05, 0.1, 0.2, 0.5, 0.5, 1.0, 1.5]), rng.choice(MODES)))     # t = 1 and t > 1 are valid thresholds
                k += 1
    return items


STATIC = {"id": "static", "mode": "linear", "outcome": "returned", "knees": [3, 4, 5, 9, 12], "lab": [0, 0, 0, 1, 2],
          "score": [0, 2, 1, 0, 0], "hullSpan": [True, True, True], "result": [4, 9, 12]}


def _selftests():
    import copy
    out = [(STATIC, "ok")]
    c = copy.deepcopy(STATIC); c["result"] = [3, 9, 12]; out.append((c, "best-in-cluster"))
    c = copy.deepcopy(STATIC); c["result"] = [4, 5, 9, 12]; out.append((c, "one-per-cluster"))
    c = copy.deepcopy(STATIC); c["result"] = [4, 12]; out.append((c, "one-per-cluster"))
    c = copy.deepcopy(STATIC); c["result"] = [9, 4, 12]; out.append((c, "increasing-subset"))
    c = copy.deepcopy(STATIC); c["result"] = [4, 10, 12]; out.append((c, "increasing-subset"))
    c = copy.deepcopy(STATIC); c["mode"] = "hull"; c["hullSpan"] = [True, False, True]; out.append((c, "hull-unrepresented-cluster"))
    c = copy.deepcopy(STATIC); c["mode"] = "hull"; c["result"] = [3, 4, 12]; out.append((c, "hull-at-most-one"))
    c = copy.deepcopy(STATIC); c["mode"] = "hull"; c["result"] = [12]; out.append((c, "ok"))
    c = copy.deepcopy(STATIC); c["mode"] = "corner"; c["result"] = [5, 9, 12]; out.append((c, "corner-best"))
    c = copy.deepcopy(STATIC); c["outcome"] = "raised:NameError"; out.append((c, "completes"))
    return out


def run(ctx):
    ctx.rule = ("curves n=8..80 (random families, adversarial, bundled-trace windows) x interior knee subsets (all sizes 2..5 "
                "sampled for n<=10, random subsets and adjacent runs above) x 4 linkages x t in {0.05,0.1,0.2,0.5,1,1.5} x "
                "{left, linear, right, hull, corner variant}.  non-trivial: at least one multi-member cluster")
    ctx.assumptions += numeric.ASSUMPTIONS + [
        "cluster labels come from the same linkage function on points[knees] (C11 vouches for it); the ranking score is "
        "recomputed independently (squared Pearson correlation of the left/right segment within the cluster x relative "
        "height below the cluster peak) and compared with knee_ranking.smooth_ranking as a DRIFT note; hull indices from "
        "convex_hull.graham_scan_lower (C18 vouches for it)",
        "clusters whose score vector contains NaN/inf (numpy.corrcoef on a constant slice) are judged structurally only"]
    ctx.mc("ClusterFilter", "MC_ClusterFilter" if ctx.quick else "MC_ClusterFilter_5",
           need_actions=("Singleton", "KeepBest", "HullSkip", "HullChoice", "Return"), timeout=1800)
    ctx.mc("ClusterFilter", "MC_ClusterFilter_worst", expect="ClusterOk")
    items = inputs(ctx)
    rec = par.pmap(_record, items)
    cases = [c for c, _ in rec]
    meta = {c["id"]: m for c, m in rec}
    rej = ctx.trace("Trace_Cluster", cases, selftest=_selftests(), chunk=600)
    for c in cases:
        if "drift" in meta[c["id"]]:
            ctx.note("DRIFT: " + meta[c["id"]]["drift"][:300])
    for c in cases:
        m = meta[c["id"]]
        multi = len(set(c["lab"])) < len(c["lab"])
        ctx.count((m["points"], m["knees"], m["linkage"], m["t"], m["mode"]), multi)
    for cid, vs in rej.items():
        m = meta[cid]
        ctx.violation(vs[0][0], {"points": m["points"], "knees": m["knees"], "linkage": m["linkage"], "t": m["t"], "mode": m["mode"], "cid": m["cid"]},
                      {"verdict": vs[0], "error": m.get("error")}, match="%s:%s" % (vs[0][0], m["mode"]))
    sm = next(c for c in cases if len(set(c["lab"])) < len(c["lab"]) and len(c["knees"]) <= 6)
    ctx.sample({"binding": "T", "call": {k: v for k, v in meta[sm["id"]].items() if k != "points"}, "case": sm})


def replay(ctx, obj):
    c = obj["case"]
    case, m = _record((c.get("cid", "replay"), c["points"], c["knees"], c["linkage"], c["t"], c["mode"]))
    rej = ctx.trace("Trace_Cluster", [case])
    for cid, vs in rej.items():
        ctx.violation(vs[0][0], c, {"verdict": vs[0], "error": m.get("error")})
